(* C05 - bundle N (C05_Defs.InvN) is inductive: only needed labels are touched, a failure has a cause among them,
   a target past Pending is not on a cycle, every requested label is accounted for. *)
From PlzV Require Import Base.Harness Model.Sched Proof.Sched_Base Proof.Sched_Inv Proof.Sched_Deps Proof.C04 Proof.Sched_Measure Proof.C05 Proof.C05_Defs Proof.C05_Pkg Proof.C05_Resolve.
From Coq Require Import Lia Arith.

(* ---- needed is closed under dependencies ---- *)
Lemma tdep_snoc : forall g r t d, tdep g r t -> In d (g_deps g t) -> tdep g r d.
Proof.
  intros g r t d H. induction H as [t0 d0 H0 | t0 d0 e H0 H1 IH]; intros Hd.
  - eapply tdep_step; [exact H0 | apply tdep_one; exact Hd].
  - eapply tdep_step; [exact H0 | apply IH; exact Hd].
Qed.

Lemma needed_dep : forall g t d, needed g t -> In d (g_deps g t) -> needed g d.
Proof.
  intros g t d [H|[r [Hr Ht]]] Hd; right.
  - exists t. split; [exact H | apply tdep_one; exact Hd].
  - exists r. split; [exact Hr | eapply tdep_snoc; eauto].
Qed.

Lemma tdep_inv : forall g t e, tdep g t e -> exists d, In d (g_deps g t) /\ (d = e \/ tdep g d e).
Proof. intros g t e H. destruct H; eauto. Qed.

(* ---- a culprit stays one: a target at or above DependencyFailed never changes ---- *)
Lemma culprit_stable : forall g s l, (forall t, J s t) -> culprit g s -> enabled g s l = true -> culprit g (apply g s l).
Proof.
  intros g s l HJ [c [Hn Hc]] He. exists c. split; [exact Hn|].
  destruct Hc as [H|[H|[H|H]]]; auto. right; right; left.
  destruct (completed_stable g s l c HJ) as [E _]; [unfold completed; apply N.leb_le; lia | exact He | rewrite E; exact H].
Qed.

(* ---- when progress.failed is set ---- *)
Lemma view_failed : forall g s l, failed (apply g s l) =
  match l with
  | LParseActivate l0 | LParseOk l0 => if ex s l0 then failed s else true
  | LParseFail _ | LBuildFail _ | LTimerCycleCheck _ => true
  | LAsyncQueueDep t =>
      match asy s t with
      | AQueue (d :: _) => if ex s d then failed s else if pst_eqb (pk s (g_pkg g d)) PParsed then true else failed s
      | _ => failed s
      end
  | LAsyncBeginWait t => match asy s t with AResolve _ true => true | _ => failed s end
  | _ => failed s
  end.
Proof. intros g s l. destruct l; cbn [apply]; solve [view_tac]. Qed.

(* ---- the cycle the detector reports is a cycle of the graph, through live slots ---- *)
Lemma redge_dep : forall g s a b, redge g s a b = true -> In b (g_deps g a) /\ asy s a <> ANone.
Proof.
  intros g s a b H. unfold redge in H. apply andb_prop in H. destruct H as [H1 H2]. split; [apply mem_In; exact H1|].
  destruct (asy s a); discriminate.
Qed.

Lemma path_tdep : forall g s first c x, path_ok g s first (x :: c) = true -> tdep g x first /\ asy s x <> ANone.
Proof.
  intros g s first c. induction c as [|b r IH]; intros x H.
  - cbn in H. apply redge_dep in H. destruct H. split; [apply tdep_one|]; assumption.
  - cbn [path_ok] in H. apply andb_prop in H. destruct H as [H1 H2]. apply redge_dep in H1. destruct H1 as [H1 H3].
    split; [|exact H3]. eapply tdep_step; [exact H1 | apply (IH b H2)].
Qed.

(* ---- built dependencies are built transitively ---- *)
Lemma built_pp : forall st, is_built st = true -> past_pending st = true.
Proof. intros st H. destruct st; cbn in *; congruence. Qed.

Lemma done_trans : forall g s d e, (forall t, K g s t) -> done_ok s d -> tdep g d e -> done_ok s e.
Proof.
  intros g s d e HK Hd Ht. revert Hd. induction Ht as [t d Hin | t d e Hin Hde IH]; intros Hd.
  - destruct (HK t) as [K1 _]. apply K1; [apply built_pp; apply Hd | exact Hin].
  - apply IH. destruct (HK t) as [K1 _]. apply K1; [apply built_pp; apply Hd | exact Hin].
Qed.

(* ---- past_pending becomes true only at LActivatePending ---- *)
Ltac ifs H := repeat match type of H with context [if ?b then _ else _] => destruct b eqn:? end.

Lemma pp_step : forall g s l x, (forall t, J s t) -> enabled g s l = true -> past_pending (ts (apply g s l) x) = true ->
  past_pending (ts s x) = true \/ (l = LActivatePending x /\ asy s x = AWait []).
Proof.
  intros g s l x HJ He H. rewrite view_ts in H.
  destruct l; unfold enabled in He; cbv beta iota in He; btrue; auto.
  - unfold qrt in H. ifs H; auto; cbn in H; discriminate.
  - unfold qrt in H. ifs H; auto; cbn in H; discriminate.
  - unfold qrt in H. ifs H; auto; cbn in H; discriminate.
  - destruct (cas cas_noneed (ts s t)) as [new|] eqn:C; [|auto]. unfold upd in H. destruct (Nat.eqb x t); [|auto].
    destruct (ts s t); cbn in C; inversion C; subst; cbn in H; discriminate.
  - dasy s t Ea. dlist todo. unfold qrt in H. ifs H; auto; cbn in H; discriminate.
  - dasy s t Ea. unfold qrt in H. ifs H; auto; cbn in H; discriminate.
  - unfold upd in H. destruct (Nat.eqb x t); [cbn in H; discriminate | auto].
  - dasy s t Ea. dlist todo. destruct (cas [cas_pending] (ts s t)); [|auto]. unfold upd in H.
    destruct (Nat.eqb_spec x t); [subst; right; split; [reflexivity | exact Ea] | auto].
  - unfold upd in H. destruct (Nat.eqb_spec x t); [subst; left | auto].
    assert (Hq : 1 <= cnt t (taken s)) by (apply mem_cnt; assumption).
    destruct (HJ t) as (_ & _ & HS). unfold shape, q in HS.
    destruct (ts s t); cbn in *; dand; try lia; try contradiction; reflexivity.
  - unfold upd in H. destruct (Nat.eqb_spec x t); [subst; left | auto].
    assert (Hq : 1 <= cnt t (building s)) by (apply mem_cnt; assumption).
    destruct (HJ t) as (_ & _ & HS). unfold shape, q in HS.
    destruct (ts s t); cbn in *; dand; try lia; try contradiction; reflexivity.
  - unfold upd in H. destruct (Nat.eqb_spec x t); [subst; left | auto].
    assert (Hq : 1 <= cnt t (building s)) by (apply mem_cnt; assumption).
    destruct (HJ t) as (_ & _ & HS). unfold shape, q in HS.
    destruct (ts s t); cbn in *; dand; try lia; try contradiction; reflexivity.
Qed.

(* ---- where a newly used slot comes from ---- *)
Definition dep_of_live (g : graph) (s : state) (x : nat) : Prop := exists t, asy s t <> ANone /\ In x (g_deps g t).

Ltac qra_in H :=
  unfold qra in H;
  match type of H with context [qr_ok ?s ?d && Nat.eqb ?x ?d] =>
    let E := fresh "E" in destruct (qr_ok s d && Nat.eqb x d) eqn:E;
    [apply andb_prop in E; destruct E as [_ E]; apply Nat.eqb_eq in E; subst x|] end.

Lemma asy_new : forall g s l x, InvP g s -> enabled g s l = true -> asy (apply g s l) x <> ANone ->
  asy s x <> ANone \/ In x (ptasks s) \/ In x (parsers s) \/ dep_of_live g s x.
Proof.
  intros g s l x HP He H. rewrite view_asy in H.
  destruct l; unfold enabled in He; cbv beta iota in He; btrue; auto.
  - (* LParseActivate *) destruct (ex s l); [|auto]. qra_in H; [|auto]. right; left. apply mem_In; assumption.
  - (* LAddTarget *) destruct (Nat.eqb_spec t l); [subst t|auto]. qra_in H; [|auto]. right; right; left. apply mem_In; assumption.
  - (* LParseOk *) destruct (ex s l); [|auto]. qra_in H; [|auto]. right; right; left. apply mem_In; assumption.
  - (* LAsyncQueueDep *) dasy s t Ea. dlist todo.
    destruct (Nat.eq_dec x t) as [->|Hne]; [left; rewrite Ea; discriminate|].
    destruct (ex s d); [|destruct (pst_eqb (pk s (g_pkg g d)) PParsed)]; rewrite upd_other in H by exact Hne; auto.
    qra_in H; [|auto]. right; right; right. exists t. split; [rewrite Ea; discriminate|].
    apply (p_todoq g s HP t _ Ea). left; reflexivity.
  - (* LAsyncBeginResolve *) dasy s t Ea. dlist todo.
    destruct (Nat.eq_dec x t) as [->|Hne]; [left; rewrite Ea; discriminate | rewrite upd_other in H by exact Hne; auto].
  - (* LAsyncResolveDep *) dasy s t Ea. btrue.
    destruct (Nat.eq_dec x t) as [->|Hne]; [left; rewrite Ea; discriminate|].
    destruct (ex s d); rewrite upd_other in H by exact Hne; auto.
    qra_in H; [|auto]. right; right; right. exists t. split; [rewrite Ea; discriminate|].
    apply (p_todor g s HP t _ _ Ea). apply mem_In; assumption.
  - (* LAsyncBeginWait *) dasy s t Ea. dlist todo.
    destruct (Nat.eq_dec x t) as [->|Hne]; [left; rewrite Ea; discriminate|].
    destruct err; rewrite upd_other in H by exact Hne; auto.
  - (* LWaitDep *) dasy s t Ea. dlist todo.
    destruct (Nat.eq_dec x t) as [->|Hne]; [left; rewrite Ea; discriminate | rewrite upd_other in H by exact Hne; auto].
  - (* LDepFailed *) dasy s t Ea. dlist todo.
    destruct (Nat.eq_dec x t) as [->|Hne]; [left; rewrite Ea; discriminate | rewrite upd_other in H by exact Hne; auto].
  - (* LActivatePending *) dasy s t Ea. dlist todo.
    destruct (Nat.eq_dec x t) as [->|Hne]; [left; rewrite Ea; discriminate | rewrite upd_other in H by exact Hne; auto].
  - (* LAsyncDone *) dasy s t Ea.
    destruct (Nat.eq_dec x t) as [->|Hne]; [left; rewrite Ea; discriminate | rewrite upd_other in H by exact Hne; auto].
Qed.

(* ---- where a new entry of the parse queues comes from ---- *)
Definition in_parse (s : state) (x : nat) : Prop := In x (initq s) \/ In x (ptasks s) \/ In x (parsers s).

Lemma lists_new : forall g s l x, InvP g s -> enabled g s l = true -> in_parse (apply g s l) x ->
  in_parse s x \/ dep_of_live g s x.
Proof.
  intros g s l x HP He H. unfold in_parse in *. rewrite view_initq, view_ptasks, view_parsers in H.
  destruct l; unfold enabled in He; cbv beta iota in He; btrue; auto.
  - (* LInitRequest *) left. destruct (initq s) as [|h r]; cbn in *; [exact H|]. intuition.
  - (* LParseActivate *) left. destruct H as [H|[H|H]]; auto. right; left. eapply In_remove1; eauto.
  - (* LParseClaim *) left. destruct H as [H|[H|[<-|H]]]; auto.
    + right; left. eapply In_remove1; eauto.
    + right; left. apply mem_In; assumption.
  - (* LParseOk *) left. destruct H as [H|[H|H]]; auto. right; right. eapply In_remove1; eauto.
  - (* LParseFail *) left. destruct H as [H|[H|H]]; auto. right; right. eapply In_remove1; eauto.
  - (* LAsyncQueueDep *) dasy s t Ea. dlist todo. destruct (ex s d || pst_eqb (pk s (g_pkg g d)) PParsed); [auto|].
    destruct H as [H|[[<-|H]|H]]; auto. right. exists t. split; [rewrite Ea; discriminate|].
    apply (p_todoq g s HP t _ Ea). left; reflexivity.
Qed.

(* queueResolvedTarget leaves the target's slot in use *)
Lemma qra_some : forall g s d, J s d -> qra g s d d <> ANone.
Proof.
  intros g s d (HA & _). unfold qra, qr_ok. rewrite Nat.eqb_refl, andb_true_r.
  destruct (N.ltb_spec (rank (ts s d)) 2); [discriminate|]. intros E. apply HA in E. lia.
Qed.

Lemma InvN_init : forall g, InvN g (init g).
Proof.
  intros g. split; cbn.
  - intros l [H|[[]|[]]]. left; exact H.
  - intros t H; congruence.
  - discriminate.
  - intros t H; discriminate.
  - intros l H; left; exact H.
Qed.

(* a declared target of a parsed package exists *)
Lemma parsed_undeclared : forall g s d, InvP g s -> d < g_n g -> pst_eqb (pk s (g_pkg g d)) PParsed = true -> ex s d = false ->
  g_decl g d = false.
Proof.
  intros g s d HP Hlt Hpk Eex. destruct (g_decl g d) eqn:D; [|reflexivity].
  assert (Epk : pk s (g_pkg g d) = PParsed) by (destruct (pk s (g_pkg g d)); cbn in Hpk; congruence).
  destruct (p_parsed g s HP _ Epk) as [_ Hall]. rewrite (Hall d Hlt D eq_refl) in Eex. discriminate.
Qed.

Theorem InvN_step : forall g s l, wf g -> (forall t, J s t) -> (forall t, K g s t) -> InvP g s -> InvR g s -> InvN g s ->
  enabled g s l = true -> InvN g (apply g s l).
Proof.
  intros g s l Hwf HJ HK HP HR HN He.
  assert (Hdl : forall x, dep_of_live g s x -> needed g x).
  { intros x [t [Ht Hd]]. eapply needed_dep; [apply (n_asy g s HN t Ht) | exact Hd]. }
  assert (Hlists : forall x, in_parse (apply g s l) x -> needed g x).
  { intros x H. destruct (lists_new g s l x HP He H) as [H'|H']; [apply (n_lists g s HN); exact H' | apply Hdl; exact H']. }
  assert (Hasy : forall x, asy (apply g s l) x <> ANone -> needed g x).
  { intros x H. destruct (asy_new g s l x HP He H) as [H'|[H'|[H'|H']]].
    - apply (n_asy g s HN); exact H'.
    - apply (n_lists g s HN); auto.
    - apply (n_lists g s HN); auto.
    - apply Hdl; exact H'. }
  split.
  - exact Hlists.
  - exact Hasy.
  - (* n_failed *)
    intros Hf. destruct (failed s) eqn:F; [apply culprit_stable; auto; apply (n_failed g s HN); exact F|].
    rewrite view_failed in Hf.
    destruct l; unfold enabled in He; cbv beta iota in He, Hf; btrue; try congruence.
    + (* LParseActivate *)
      destruct (ex s l) eqn:Eex; [congruence|].
      match goal with H : (_ || _) = true |- _ => rewrite ?Eex in H; cbn [andb orb] in H; rename H into Hpk end.
      assert (Hlt : l < g_n g) by (apply Nat.ltb_lt; assumption).
      exists l. split; [apply (n_lists g s HN); right; left; apply mem_In; assumption | left].
      apply (parsed_undeclared g s); assumption.
    + (* LParseOk *)
      destruct (ex s l) eqn:Eex; [congruence|].
      assert (Hlt : l < g_n g) by (apply Nat.ltb_lt; assumption).
      exists l. split; [apply (n_lists g s HN); right; right; apply mem_In; assumption | left].
      match goal with H : all_decl_exist _ _ _ = true |- _ =>
        unfold all_decl_exist in H; rewrite forallb_forall in H; specialize (H l); rename H into Hall end.
      assert (Hin : In l (seq 0 (g_n g))) by (apply in_seq; lia).
      apply Hall in Hin. rewrite Nat.eqb_refl, Eex, andb_true_r, orb_false_r in Hin. apply negb_true_iff in Hin. exact Hin.
    + (* LParseFail *)
      exists l. split; [apply (n_lists g s HN); right; right; apply mem_In; assumption | right; left; assumption].
    + (* LAsyncQueueDep *)
      dasy s t Ea. dlist todo. destruct (ex s d) eqn:Eex; [congruence|].
      destruct (pst_eqb (pk s (g_pkg g d)) PParsed) eqn:Epk; [|congruence].
      assert (Hd : In d (g_deps g t)) by (apply (p_todoq g s HP t _ Ea); left; reflexivity).
      exists d. split; [eapply needed_dep; [apply (n_asy g s HN t); rewrite Ea; discriminate | exact Hd] | left].
      destruct Hwf as (Hw & _). apply (parsed_undeclared g s); auto. apply (Hw t d Hd).
    + (* LAsyncBeginWait *)
      dasy s t Ea. dlist todo. destruct err; [|congruence].
      destruct (r_resolve g s HR t _ _ Ea) as (_ & _ & R3). destruct (R3 eq_refl) as [d [Hd Hdecl]].
      exists d. split; [eapply needed_dep; [apply (n_asy g s HN t); rewrite Ea; discriminate | exact Hd] | left; exact Hdecl].
    + (* LBuildFail *)
      exists t. split; [|right; right; left; rewrite view_ts, upd_same; cbn; lia].
      apply (n_asy g s HN).
      assert (Hq : 1 <= cnt t (building s)) by (apply mem_cnt; assumption).
      destruct (HJ t) as (HA & _ & HS). unfold shape, q in HS. intros E. apply HA in E.
      destruct (ts s t); cbn in *; dand; try lia; try contradiction.
    + (* LTimerCycleCheck *)
      destruct c as [|a r]; [discriminate|].
      match goal with H : is_cycle _ _ _ = true |- _ => cbn [is_cycle] in H; apply path_tdep in H; destruct H as [Ht Ha] end.
      exists a. split; [apply (n_asy g s HN); exact Ha | right; right; right; exact Ht].
  - (* n_acyclic *)
    intros x Hp. destruct (pp_step g s l x HJ He Hp) as [H|[-> Ea]]; [apply (n_acyclic g s HN); exact H|].
    intros Hc. destruct (HJ x) as (_ & HB & _).
    assert (Hts : ts s x = Active) by (apply HB; rewrite Ea; reflexivity).
    destruct (HK x) as [_ K2]. destruct (K2 _ Ea) as [dn [E Hdn]]. rewrite app_nil_r in E. subst dn.
    assert (Hd : done_ok s x).
    { destruct (tdep_inv g x x Hc) as [d [Hin [->|Hde]]];
        [apply Hdn; exact Hin | eapply done_trans; [exact HK | apply Hdn; exact Hin | exact Hde]]. }
    destruct Hd as [_ Hb]. rewrite Hts in Hb. discriminate.
  - (* n_req *)
    intros r Hr. destruct (n_req g s HN r Hr) as [H|[H|[H|[H|H]]]].
    + (* in initq *)
      rewrite view_initq, view_ptasks. destruct l; cbv beta iota; try (left; exact H).
      unfold enabled in He. btrue. destruct (initq s) as [|h q]; [destruct H|]. cbn [tl].
      destruct H as [<-|H]; [right; left; left; reflexivity | left; exact H].
    + (* in ptasks *)
      rewrite view_ptasks. destruct l; cbv beta iota; try (right; left; exact H).
      * destruct (initq s); right; left; [exact H | right; exact H].
      * destruct (Nat.eq_dec r l) as [->|Hne]; [|right; left; apply In_remove1_other; assumption].
        do 3 right. rewrite view_asy, view_failed. destruct (ex s l); [left; apply qra_some, HJ | right; reflexivity].
      * destruct (Nat.eq_dec r l) as [->|Hne]; [|right; left; apply In_remove1_other; assumption].
        do 2 right. left. rewrite view_parsers. left; reflexivity.
      * right; left. destruct (asy s t) as [|[|d q]| | | |]; try exact H. destruct (_ || _); [exact H | right; exact H].
    + (* in parsers *)
      do 2 right. rewrite view_parsers. destruct l; cbv beta iota; try (left; exact H).
      * left. right. exact H.
      * destruct (Nat.eq_dec r l) as [->|Hne]; [|left; apply In_remove1_other; assumption].
        right. rewrite view_asy, view_failed. destruct (ex s l); [left; apply qra_some, HJ | right; reflexivity].
      * right. right. rewrite view_failed. reflexivity.
    + do 3 right. left. apply asy_some_mono. exact H.
    + do 4 right. apply failed_mono. exact H.
Qed.

Print Assumptions InvN_step.
