(* C06 - one detector kept between runs (Model/C06.v: world, event, run_session): the graph stays
   well-formed while targets are added and dependencies resolved, every Check of a session is the
   pure function check_world of the world at that moment, and is therefore sound and complete for the
   edges resolved at that moment, whatever ran before it. *)
From PlzV Require Import Base.Harness Model.C06 Proof.C06.
From Coq Require Import Lia Permutation.

(* ------------------------------------------------------------------------------------------- *)
(* Vocabulary (used by Props/C06.v)                                                              *)

(* the world after a sequence of events *)
Fixpoint final_world (w : world) (es : list event) : world :=
  match es with
  | [] => w
  | e :: r => final_world (apply_event w e) r
  end.

Definition is_check (e : event) : bool := match e with ECheck _ => true | _ => false end.
Definition is_stop (e : event) : bool := match e with EStop => true | _ => false end.

(* the same history with no Check run at all *)
Definition erase_checks (es : list event) : list event := filter (fun e => negb (is_check e)) es.

(* how many times Check ran *)
Definition checks (es : list event) : nat := length (filter is_check es).

(* a dependency is only ever resolved to a target of the graph (resolveOneDependency gets it from
   graph.WaitForTarget).  Nothing is asked of declared dependencies, of the depending target (an
   unknown one changes nothing), of the position, or of the orders of earlier Checks. *)
Definition valid_event (w : world) (e : event) : Prop :=
  match e with
  | EResolve _ b _ => b < length (resolved w)
  | _ => True
  end.

Fixpoint valid_events (w : world) (es : list event) : Prop :=
  match es with
  | [] => True
  | e :: r => valid_event w e /\ valid_events (apply_event w e) r
  end.

(* the property, for one result of Check and the graph it ran on *)
Definition correct_for (g : graph) (o : outcome) : Prop :=
  o <> Fuel
  /\ (forall c, o = Found c -> is_cycle g c)
  /\ (has_cycle g -> exists c, o = Found c)
  /\ (~ has_cycle g -> o = Clean).

(* ------------------------------------------------------------------------------------------- *)
(* The graph operations                                                                          *)

Lemma insert_at_In x : forall l pos d, In d (insert_at pos x l) -> d = x \/ In d l.
Proof.
  induction l as [|y r IH]; intros [|p] d H; cbn [insert_at] in H.
  - destruct H as [H | []]. left. symmetry. exact H.
  - destruct H as [H | []]. left. symmetry. exact H.
  - destruct H as [H | H]; [left; symmetry; exact H | right; exact H].
  - destruct H as [H | H]; [right; left; exact H |].
    destruct (IH p d H) as [Hx | Hr]; [left; exact Hx | right; right; exact Hr].
Qed.

Lemma In_insert_at x : forall l pos, In x (insert_at pos x l).
Proof.
  induction l as [|y r IH]; intros [|p]; cbn [insert_at]; try (left; reflexivity).
  right. apply IH.
Qed.

Lemma upd_row_length f : forall g a, length (upd_row a f g) = length g.
Proof.
  induction g as [|row r IH]; intros [|a]; cbn [upd_row length]; try reflexivity.
  f_equal. apply IH.
Qed.

Lemma upd_row_deps pos b : forall g a v d,
  In d (deps (upd_row a (insert_at pos b) g) v) -> In d (deps g v) \/ (v = a /\ d = b).
Proof.
  unfold deps. induction g as [|row r IH]; intros a v d H.
  - left. destruct a; exact H.
  - destruct a as [|a]; destruct v as [|v]; cbn [upd_row nth] in *.
    + apply insert_at_In in H. destruct H as [H | H]; [right; split; [reflexivity | exact H] | left; exact H].
    + left. exact H.
    + left. exact H.
    + destruct (IH a v d H) as [H1 | [H1 H2]]; [left; exact H1 | right; split; [f_equal; exact H1 | exact H2]].
Qed.

(* the resolved edge is there afterwards *)
Lemma upd_row_edge pos b : forall g a, a < length g -> edge (upd_row a (insert_at pos b) g) a b.
Proof.
  unfold edge, deps. induction g as [|row r IH]; intros a Ha; [cbn in Ha; lia |].
  destruct a as [|a]; cbn [upd_row nth].
  - apply In_insert_at.
  - apply IH. cbn in Ha. lia.
Qed.

Lemma snoc_deps g v d : In d (deps (g ++ [[]]) v) -> In d (deps g v).
Proof.
  unfold deps. intros H. destruct (Nat.lt_ge_cases v (length g)) as [Hl | Hl].
  - rewrite app_nth1 in H by exact Hl. exact H.
  - rewrite app_nth2 in H by exact Hl.
    destruct (v - length g) as [|k]; cbn in H; [destruct H | destruct k; destruct H].
Qed.

(* ------------------------------------------------------------------------------------------- *)
(* Invariant: every resolved dependency is a target, throughout                                  *)

Lemma apply_event_wf w e : wf (resolved w) -> valid_event w e -> wf (resolved (apply_event w e)).
Proof.
  intros Hwf Hv. destruct e as [|a b|a b pos| |order]; cbn [apply_event resolved]; try exact Hwf.
  - intros v d H. apply snoc_deps in H. rewrite app_length. cbn [length].
    specialize (Hwf v d H). lia.
  - intros v d H. rewrite upd_row_length. apply upd_row_deps in H.
    destruct H as [H | [_ ->]]; [exact (Hwf v d H) | exact Hv].
Qed.

Lemma final_world_wf : forall es w, wf (resolved w) -> valid_events w es -> wf (resolved (final_world w es)).
Proof.
  induction es as [|e r IH]; intros w Hwf Hv; cbn [final_world]; [exact Hwf |].
  destruct Hv as [He Hr]. apply IH; [apply apply_event_wf; assumption | exact Hr].
Qed.

Lemma world0_wf : wf (resolved world0).
Proof. intros v d H. unfold deps in H. cbn in H. destruct v; destruct H. Qed.

(* the graph only grows: no target and no resolved edge is ever taken away *)
Lemma apply_event_grows w e v d :
  In d (deps (resolved w) v) -> In d (deps (resolved (apply_event w e)) v).
Proof.
  destruct e as [|a b|a b pos| |order]; cbn [apply_event resolved]; try (intros H; exact H).
  - intros H. unfold deps in *. rewrite app_nth1; [exact H |]. exact (deps_lt _ _ _ H).
  - unfold deps. generalize (resolved w). intros g. revert a v.
    induction g as [|row r IH]; intros a v H; [destruct a; exact H |].
    destruct a as [|a]; destruct v as [|v]; cbn [upd_row nth] in *; try exact H.
    + clear IH. revert pos. induction row as [|y l IHl]; intros pos; [destruct H |].
      destruct pos as [|p]; cbn [insert_at]; [right; exact H |].
      destruct H as [H | H]; [left; exact H | right; apply IHl; exact H].
    + apply IH. exact H.
Qed.

(* stopped is never reset *)
Lemma final_world_stopped : forall es w,
  stopped (final_world w es) = stopped w || existsb is_stop es.
Proof.
  induction es as [|e r IH]; intros w; cbn [final_world existsb]; [rewrite orb_false_r; reflexivity |].
  rewrite IH. destruct e; cbn [apply_event stopped is_stop]; try reflexivity.
  rewrite orb_true_r. reflexivity.
Qed.

(* ------------------------------------------------------------------------------------------- *)
(* A session is its Checks, each a function of the world at that moment                          *)

Lemma run_session_app chk : forall pre w post,
  run_session chk w (pre ++ post) = run_session chk w pre ++ run_session chk (final_world w pre) post.
Proof.
  induction pre as [|e pre IH]; intros w post; [reflexivity |].
  destruct e; cbn [app run_session final_world apply_event]; rewrite IH; reflexivity.
Qed.

Lemma run_session_length chk : forall es w, length (run_session chk w es) = checks es.
Proof.
  unfold checks. induction es as [|e r IH]; intros w; [reflexivity |].
  destruct e; cbn [run_session filter is_check length]; rewrite IH; reflexivity.
Qed.

Lemma final_world_erase : forall es w, final_world w (erase_checks es) = final_world w es.
Proof.
  unfold erase_checks. induction es as [|e r IH]; intros w; [reflexivity |].
  destruct e; cbn [filter is_check negb final_world apply_event]; apply IH.
Qed.

Lemma run_session_erase chk : forall es w, run_session chk w (erase_checks es) = [].
Proof.
  unfold erase_checks. induction es as [|e r IH]; intros w; [reflexivity |].
  destruct e; cbn [filter is_check negb run_session]; apply IH.
Qed.

Lemma valid_events_erase : forall es w, valid_events w es -> valid_events w (erase_checks es).
Proof.
  unfold erase_checks. induction es as [|e r IH]; intros w Hv; [exact I |].
  destruct Hv as [He Hr].
  destruct e; cbn [filter is_check negb valid_events]; try (split; [exact He | apply IH; exact Hr]).
  apply IH. exact Hr.
Qed.

(* The detector is stateless across runs: what the later Checks of a session return does not depend
   on whether the earlier Checks ran. *)
Theorem session_stateless chk w pre post :
  run_session chk w (pre ++ post) = run_session chk w pre ++ run_session chk w (erase_checks pre ++ post).
Proof.
  rewrite !run_session_app, run_session_erase, final_world_erase. reflexivity.
Qed.

(* the k-th Check of a session returns check_world of the world as it is then *)
Theorem session_nth chk w pre order post :
  nth_error (run_session chk w (pre ++ ECheck order :: post)) (checks pre)
  = Some (Ran (final_world w pre) order (check_world chk (final_world w pre) order)).
Proof.
  rewrite run_session_app.
  rewrite nth_error_app2 by (rewrite run_session_length; apply Nat.le_refl).
  rewrite run_session_length, Nat.sub_diag. reflexivity.
Qed.

(* declared dependencies do not enter a Check *)
Lemma check_world_declared chk g d1 d2 st order :
  check_world chk (W g d1 st) order = check_world chk (W g d2 st) order.
Proof. reflexivity. Qed.

Lemma run_session_ext chk chk' : (forall g order, chk g order = chk' g order) ->
  forall es w, run_session chk w es = run_session chk' w es.
Proof.
  intros He. induction es as [|e r IH]; intros w; [reflexivity |].
  destruct e; cbn [run_session]; try apply IH.
  unfold check_world. rewrite He, IH. reflexivity.
Qed.

(* ------------------------------------------------------------------------------------------- *)
(* Every Check of every session is sound and complete for the edges resolved at that moment      *)

Lemma check_world_correct w order :
  wf (resolved w) -> Permutation order (nodes (resolved w)) -> stopped w = false ->
  correct_for (resolved w) (check_world detect w order).
Proof.
  intros Hwf Hperm Hs. unfold check_world. rewrite Hs.
  destruct detect_correct as [Hsound Hc]. destruct (Hc (resolved w) order Hwf Hperm) as (Hf & Hcyc & Hac).
  split; [exact Hf |]. split; [intros c; apply Hsound |]. split; [| exact Hac].
  intros H. destruct (Hcyc H) as (c & E & _). exists c. exact E.
Qed.

Theorem session_check_correct w pre order post :
  wf (resolved w) -> valid_events w pre ->
  Permutation order (nodes (resolved (final_world w pre))) ->
  nth_error (run_session detect w (pre ++ ECheck order :: post)) (checks pre)
    = Some (Ran (final_world w pre) order (check_world detect (final_world w pre) order))
  /\ final_world w (erase_checks pre) = final_world w pre
  /\ (stopped (final_world w pre) = false ->
        correct_for (resolved (final_world w pre)) (check_world detect (final_world w pre) order))
  /\ (stopped (final_world w pre) = true -> check_world detect (final_world w pre) order = Clean).
Proof.
  intros Hwf Hv Hperm. split; [apply session_nth |]. split; [apply final_world_erase |]. split.
  - intros Hs. apply check_world_correct; [apply final_world_wf; assumption | exact Hperm | exact Hs].
  - intros Hs. unfold check_world. rewrite Hs. reflexivity.
Qed.

(* the same for all Checks of a session at once *)
Theorem session_all_correct : forall es w,
  wf (resolved w) -> valid_events w es ->
  Forall (fun r => r_out r = check_world detect (r_world r) (r_order r)
                   /\ (stopped (r_world r) = false -> Permutation (r_order r) (nodes (resolved (r_world r))) ->
                       correct_for (resolved (r_world r)) (r_out r))
                   /\ (stopped (r_world r) = true -> r_out r = Clean))
         (run_session detect w es).
Proof.
  induction es as [|e r IH]; intros w Hwf Hv; [constructor |]. destruct Hv as [He Hr].
  assert (Hnext : wf (resolved (apply_event w e))) by (apply apply_event_wf; assumption).
  destruct e; cbn [run_session]; try (apply IH; assumption).
  constructor; [| apply IH; assumption]. cbn [r_out r_world r_order].
  split; [reflexivity |]. split.
  - intros Hs Hperm. apply check_world_correct; assumption.
  - intros Hs. unfold check_world. rewrite Hs. reflexivity.
Qed.
