(* C18 - the result of an operator never carries the frozen wrapper of an operand.
   `+` of the evaluator (Model/C16_Eval.v apply_bin) is tied to the decision tree gotrans translates from the
   `case Add:` clause of pyList.Operator (Gen/C18Pins.v list_add_tree). *)
From PlzV Require Import Base.Harness Base.StrFacts Model.C16_Syntax Model.C16_Ops Model.C16_Prim Model.C16_Eval Model.C16.
From PlzV Require Import Gen.C18Pins Model.C18_Config Model.C18 Proof.C18.

Definition is_list (v : value) : bool := match v with VList _ | VFrozenList _ => true | _ => false end.
Definition is_dict (v : value) : bool := match v with VDict _ | VFrozenDict _ => true | _ => false end.

(* is the right operand an empty list (the condition a shortcut on the operand would test) *)
Definition right_empty (b : value) : bool :=
  match b with VList sl | VFrozenList sl => Nat.eqb (s_len sl) 0 | _ => false end.

(* The source, as translated, and the model agree on EVERY heap, left operand, right operand and fuel: which of
   "fresh concatenation / an operand / the receiver / panic" happens.  (VNilList - a nil pyList, which only filter()
   produces - is excluded: the shared evaluator refuses it as an operand of +.) *)
Theorem add_agrees_with_source : forall fuel st sl b,
  b <> VNilList ->
  classify_add st (apply_bin Asp fuel Add (VList sl) b st)
  = add_eval list_add_tree (kind_of b) (Nat.eqb (s_len sl) 0) (right_empty b).
Proof.
  intros fuel st sl b Hnil.
  destruct b; try (cbn; reflexivity); try contradiction.
  - (* pyList *) cbn. rewrite Nat.eqb_refl. reflexivity.
  - (* pyFrozenList *) cbn. rewrite Nat.eqb_refl. reflexivity.
Qed.

Lemma alloc_list_items : forall items cap st r st',
  alloc_list items cap st = (r, st') ->
  s_arr r = length (arrays st) /\ list_items Asp st' r = items.
Proof.
  intros items cap st r st' H. unfold alloc_list in H. injection H as <- <-. split; [reflexivity|].
  unfold list_items, arr_of. cbn [s_arr s_off s_len arrays set_arrays].
  rewrite app_nth2 by apply Nat.le_refl. rewrite Nat.sub_diag. cbn [nth skipn].
  rewrite firstn_app, firstn_all, Nat.sub_diag. cbn [firstn]. apply app_nil_r.
Qed.

Definition slice_of (v : value) : slice := match v with VList sl | VFrozenList sl => sl | _ => Slice 0 0 0 0 end.

(* in particular: whatever the operands, the sum of two lists is an ORDINARY list in a NEW backing array holding
   the items of the left operand followed by those of the right one *)
Theorem sum_is_fresh_plain_list : forall fuel st a b v st',
  is_list a = true -> apply_bin Asp fuel Add a b st = Ok (v, st') ->
  is_list b = true /\
  exists r, v = VList r /\ s_arr r = length (arrays st)
            /\ list_items Asp st' r = list_items Asp st (slice_of a) ++ list_items Asp st (slice_of b).
Proof.
  intros fuel st a b v st' Ha H.
  destruct a; try discriminate; destruct b; cbn -[list_add] in H; try discriminate; (split; [reflexivity|]);
    match type of H with context [list_add Asp ?l ?i ?s] => destruct (list_add Asp l i s) as [r0 st0] eqn:E end;
    injection H as <- <-; apply alloc_list_items in E; destruct E as [E1 E2]; exists r0; repeat split; assumption.
Qed.

(* the freeze of an operand is invisible in the sum: same value, same heap *)
Theorem sum_erases_freeze_left : forall fuel st sl other,
  apply_bin Asp fuel Add (VFrozenList sl) other st = apply_bin Asp fuel Add (VList sl) other st.
Proof. intros. reflexivity. Qed.

Theorem sum_erases_freeze_right : forall fuel st a sl,
  is_list a = true ->
  apply_bin Asp fuel Add a (VFrozenList sl) st = apply_bin Asp fuel Add a (VList sl) st.
Proof. intros fuel st a sl Ha. destruct a; try discriminate; reflexivity. Qed.

(* hence EVERY application to the sum - listed builtin or not - has the same outcome whether the operand was
   imported or defined locally *)
Definition consume_sum (fuel : nat) (b : bapp) (r : res (value * state)) : bres :=
  match r with
  | Ok (w, st') => apply_b fuel b w st'
  | Err EType => BRaise
  | _ => BRefused
  end.

Theorem sum_consumers_indifferent : forall fuel st sl a other b,
  is_list a = true ->
  consume_sum fuel b (apply_bin Asp fuel Add a (VFrozenList sl) st) = consume_sum fuel b (apply_bin Asp fuel Add a (VList sl) st)
  /\ consume_sum fuel b (apply_bin Asp fuel Add (VFrozenList sl) other st) = consume_sum fuel b (apply_bin Asp fuel Add (VList sl) other st).
Proof.
  intros fuel st sl a other b Ha. split.
  - rewrite sum_erases_freeze_right by exact Ha. reflexivity.
  - reflexivity.
Qed.

(* dict | dict: the wrapper of the LEFT operand is invisible; a frozen RIGHT operand is refused (the listed finding
   frozen-dict-union-operand), whatever the left one is *)
Theorem union_erases_freeze_left : forall fuel st i other,
  apply_bin Asp fuel Union (VFrozenDict i) other st = apply_bin Asp fuel Union (VDict i) other st.
Proof. intros. reflexivity. Qed.

Theorem union_refuses_frozen_right : forall fuel st a j,
  is_dict a = true -> apply_bin Asp fuel Union a (VFrozenDict j) st = Err EType.
Proof. intros fuel st a j Ha. destruct a; try discriminate; reflexivity. Qed.

Theorem union_is_plain_dict : forall fuel st a b v st',
  is_dict a = true -> apply_bin Asp fuel Union a b st = Ok (v, st') -> exists n, v = VDict n /\ n = length (dicts st).
Proof.
  intros fuel st a b v st' Ha H.
  destruct a; try discriminate; destruct b; cbn in H; try discriminate;
    injection H as <- <-; eexists; split; reflexivity.
Qed.

(* ---- what the shortcut of seeded mutation m1 would mean: a tree that returns the operand for an empty receiver
        disagrees with the model exactly on ([] + frozen) ---- *)
Definition shortcut_tree : add_tree :=
  AIf AIsList AConcat (AIf AIsFrozen (AIf ALeftEmpty AReturnOperand AConcatUnwrapped) APanic).

Lemma shortcut_tree_differs :
  add_eval shortcut_tree KFrozen true false = ROperand /\ add_eval list_add_tree KFrozen true false = RFresh
  /\ forall k le re, (k, le) <> (KFrozen, true) -> add_eval shortcut_tree k le re = add_eval list_add_tree k le re.
Proof.
  repeat split. intros k le re H. destruct k, le; try reflexivity. contradiction H; reflexivity.
Qed.

(* the heap of Proof/C18.v with one more, empty, array: EMPTY = [] *)
Definition st1 : state := set_arrays (arrays st0 ++ [[]]) st0.
Definition EMPTY : value := VList (Slice 2 0 0 0).

(* ---- isinstance (fixed in /repo 5960191: the wrappers are removed before the type tests; gotrans reads off the
        source whether they are - Gen/C18Pins.v isinstance_unwraps) ----
   for EVERY value, type list and call shape the answer for a frozen value is the answer for the ordinary one *)
Theorem isinstance_indifferent : forall v tys single,
  isinstance_model isinstance_unwraps v tys single = isinstance_model isinstance_unwraps (unfreeze v) tys single.
Proof. intros v tys single. destruct v; reflexivity. Qed.

(* and it is what one expects on lists and dicts, frozen or not *)
Theorem isinstance_list_dict : forall sl i,
  isinstance_model isinstance_unwraps (VFrozenList sl) [s "list"] true = true
  /\ isinstance_model isinstance_unwraps (VFrozenDict i) [s "dict"] true = true
  /\ isinstance_model isinstance_unwraps (VFrozenList sl) [s "dict"] true = false
  /\ isinstance_model isinstance_unwraps (VFrozenDict i) [s "list"; s "str"] false = false.
Proof. intros. repeat split. Qed.

(* without the unwrapping (the code before the fix) a frozen list was not a list *)
Lemma isinstance_without_unwrap_differs : forall sl,
  isinstance_model false (VFrozenList sl) [s "list"] true = false /\ isinstance_model false (VList sl) [s "list"] true = true.
Proof. intros. split; reflexivity. Qed.
