(* C14 - a Store of the process interleaved with clean (Model/C14.v, `prun`): the statement lists gotrans
   reads from Store and storeFiles, and the invariant "what a Store of this process has written and the
   process has not itself removed is in the cache directory", for every interleaving of Store
   statements, markDir calls, walks and loop iterations. *)
From Coq Require Import String.
From PlzV Require Import Base.Harness Base.StrFacts Gen.CacheNames Model.C14 Proof.C14 Proof.C14_Interleave.
From Coq Require Import Lia Permutation List.

(* ============================== the statements of Store ============================== *)

(* regenerated from the source on every run: the loss (or a move) of the early markDir breaks these *)
Lemma store_body_is : store_body = [StMarkEarly; StRemoveOld; StStoreFiles; StRenameIntoPlace].
Proof. reflexivity. Qed.

Lemma store_files_body_is : store_files_body = [SfStoreEach; SfMarkTotal].
Proof. reflexivity. Qed.

Lemma store_ops_unfold files :
  store_ops files =
  OMark 0 :: ORemoveOld :: (flat_map store_file_ops files ++ [OMark (sum_files files)]) ++ [ORename].
Proof.
  unfold store_ops, store_ops_with, store_files_ops. rewrite store_body_is, store_files_body_is.
  cbn [flat_map app]. reflexivity.
Qed.

(* the first thing a Store does is to mark its entry *)
Lemma store_ops_head files : exists sz r, store_ops files = OMark sz :: r.
Proof. rewrite store_ops_unfold. eauto. Qed.

(* ============================== paths ============================== *)

Lemma proper_prefix_snoc q pre (x : str) : proper_prefix q (pre ++ [x]) = true -> is_prefix q pre = true.
Proof.
  intros H. pose proof (proper_prefix_length _ _ H) as Hl.
  apply proper_prefix_spec in H as [H _]. apply is_prefix_spec in H as [t Ht].
  rewrite app_length in Hl. cbn in Hl.
  destruct (exists_last (l := t)) as [t' [z ->]].
  { intros ->. rewrite app_nil_r in Ht. subst q. rewrite app_length in Hl. cbn in Hl. lia. }
  rewrite app_assoc in Ht. apply app_inj_tail in Ht as [-> _].
  apply is_prefix_spec. exists t'. reflexivity.
Qed.

(* the base name of a directory strictly above y is one of y's components other than the last *)
Lemma base_in_removelast x y : proper_prefix x y = true -> x <> [] -> In (base x) (removelast y).
Proof.
  intros H Hne. apply proper_prefix_spec in H as [H Hxy]. apply is_prefix_spec in H as [r ->].
  assert (r <> []) as Hr by (intros ->; apply Hxy; symmetry; apply app_nil_r).
  destruct (path_snoc x Hne) as [x' [b ->]]. rewrite base_snoc, removelast_app by exact Hr.
  apply in_or_app. left. apply in_or_app. right. left. reflexivity.
Qed.

Lemma in_removelast_prefix c y :
  In c (removelast y) -> exists q, q <> [] /\ proper_prefix q y = true /\ base q = c.
Proof.
  intros H. assert (y <> []) as Hy by (intros ->; contradiction).
  destruct (exists_last Hy) as [r [z ->]]. rewrite removelast_last in H.
  apply in_split in H as [l1 [l2 ->]].
  exists (l1 ++ [c]). split; [destruct l1; discriminate|]. split; [|apply base_snoc].
  apply proper_prefix_spec. split.
  - apply is_prefix_spec. exists (l2 ++ [z]). rewrite <- !app_assoc. reflexivity.
  - intros E2. apply (f_equal (@length _)) in E2. repeat (rewrite app_length in E2; cbn [length] in E2). lia.
Qed.

Lemma removelast_tmp p : p <> [] -> removelast (tmp_path false p) = removelast p.
Proof.
  intros H. rewrite tmp_path_uncompressed. destruct (path_snoc p H) as [r [b ->]].
  rewrite append_last_snoc, !removelast_last. reflexivity.
Qed.

Lemma tmp_length p : length (tmp_path false p) = length p.
Proof. rewrite tmp_path_uncompressed. apply append_last_length. Qed.

Lemma has_path_spec live q : has_path live q = true <-> exists j, In j live /\ i_path j = q.
Proof.
  unfold has_path. rewrite existsb_exists. split; intros [j [Hj H]]; exists j; (split; [exact Hj|]);
    apply path_eqb_eq; exact H.
Qed.

(* ---- well-named paths ---- *)

(* a result of getPath none of whose directories is named like an entry *)
Definition okp (p : path) : Prop := entry_path false p = true /\ clean_names p = true.

Lemma entry_path_bases p : entry_path false p = true ->
  p <> [] /\ should_clean false (base p) true = true /\ should_clean false (base (tmp_path false p)) true = true.
Proof.
  intros Hep. assert (p <> []) as Hne by (eapply entry_path_nonempty; exact Hep).
  unfold entry_path in Hep. cbn [suffix_of] in Hep. rewrite has_suffix_nil, trim_suffix_nil in Hep.
  cbn [andb] in Hep. apply final_key_shaped in Hep as [Hk1 Hk2].
  split; [exact Hne|]. split; apply should_clean_spec; (split; [reflexivity|]); cbn [suffix_of].
  - exists (base p). rewrite app_nil_r. auto.
  - rewrite tmp_path_uncompressed, base_append_last by exact Hne.
    exists (base p ++ s mark_suffix). rewrite app_nil_r. split; [reflexivity | exact Hk2].
Qed.

Lemma clean_names_spec p c : clean_names p = true -> In c (removelast p) -> should_clean false c true = false.
Proof.
  unfold clean_names. rewrite forallb_forall. intros H Hc. specialize (H c Hc).
  apply negb_true_iff in H. exact H.
Qed.

(* The heart: an unmarked directory named like an entry, not below another one, and a path some markDir
   call of the process protects, are never on one line. *)
Lemma evict_spares calls e p sz q o :
  should_clean false (base e) true = true -> clean_names e = true ->
  okp p -> In (p, sz) calls -> is_marked (marks_of calls) e = None ->
  q = p \/ q = tmp_path false p ->
  is_prefix q o = true -> is_prefix e o = true -> False.
Proof.
  intros He1 He2 [Hp Hpc] Hin Hm Hq Hqo Heo.
  assert (e <> []) as Hene by (eapply should_clean_nonempty; exact He1).
  destruct (entry_path_bases p Hp) as [Hpne [Hb1 Hb2]].
  assert (q <> []) as Hqne by (destruct Hq as [->| ->]; [exact Hpne | apply tmp_path_nonempty; exact Hpne]).
  assert (removelast q = removelast p) as Hrl by (destruct Hq as [->| ->]; [reflexivity | apply removelast_tmp; exact Hpne]).
  assert (should_clean false (base q) true = true) as Hbq by (destruct Hq as [->| ->]; assumption).
  assert (is_marked (marks_of calls) q <> None) as Hqm.
  { apply is_marked_marks_of. exists (p, sz). split; [exact Hin|]. cbn [fst].
    destruct Hq as [->| ->]; [left; reflexivity | right; apply tmp_path_uncompressed]. }
  destruct (is_prefix_comparable _ _ _ Heo Hqo) as [H|H]; destruct (prefix_cases _ _ H) as [E|Hpp].
  - subst q. congruence.
  - pose proof (base_in_removelast _ _ Hpp Hene) as Hi. rewrite Hrl in Hi.
    rewrite (clean_names_spec p _ Hpc Hi) in He1. discriminate.
  - subst q. congruence.
  - pose proof (base_in_removelast _ _ Hpp Hqne) as Hi.
    rewrite (clean_names_spec e _ He2 Hi) in Hbq. discriminate.
Qed.

(* ============================== directory trees ============================== *)

Lemma dirs_above_filter live f : dirs_above live ->
  (forall i j, In i live -> In j live -> f i = true -> is_prefix (i_path j) (i_path i) = true -> f j = true) ->
  dirs_above (filter f live).
Proof.
  intros Hda Hf i q Hi Hpp Hne. apply filter_In in Hi as [Hi Hfi].
  destruct (Hda i q Hi Hpp Hne) as [j [Hj [Hjp Hjd]]]. exists j. split; [|split; assumption].
  apply filter_In. split; [exact Hj|]. apply (Hf i j Hi Hj Hfi). rewrite Hjp.
  apply proper_prefix_spec in Hpp as [H _]. exact H.
Qed.

Lemma dirs_above_remove_under live q : dirs_above live -> dirs_above (remove_under live q).
Proof.
  intros Hda. apply dirs_above_filter; [exact Hda|]. intros i j _ _ Hfi Hji.
  apply negb_true_iff in Hfi. apply negb_true_iff.
  destruct (is_prefix q (i_path j)) eqn:E; [|reflexivity].
  rewrite (is_prefix_trans _ _ _ E Hji) in Hfi. discriminate.
Qed.

Lemma dirs_above_delete live p p' : dirs_above live -> dirs_above (delete live p p').
Proof.
  intros Hda. apply dirs_above_filter; [exact Hda|]. intros i j _ _ Hfi Hji.
  apply andb_true_iff in Hfi as [H1 H2]. apply negb_true_iff in H1, H2.
  apply andb_true_iff. split; apply negb_true_iff.
  - destruct (is_prefix p (i_path j)) eqn:E; [|reflexivity].
    rewrite (is_prefix_trans _ _ _ E Hji) in H1. discriminate.
  - destruct (is_prefix p' (i_path j)) eqn:E; [|reflexivity].
    rewrite (is_prefix_trans _ _ _ E Hji) in H2. discriminate.
Qed.

Lemma in_remove_under live q j : In j live -> is_prefix q (i_path j) = false -> In j (remove_under live q).
Proof. intros Hj H. apply filter_In. split; [exact Hj | rewrite H; reflexivity]. Qed.

(* os.MkdirAll *)
Lemma mkdirs_from_spec rest : forall pre live,
  dirs_above live ->
  (pre = [] \/ exists j, In j live /\ i_path j = pre /\ i_dir j = true) ->
  (forall j, In j live -> is_prefix (i_path j) (pre ++ rest) = true -> i_dir j = true) ->
  dirs_above (mkdirs_from pre rest live) /\ incl live (mkdirs_from pre rest live)
  /\ (pre <> [] \/ rest <> [] ->
      exists j, In j (mkdirs_from pre rest live) /\ i_path j = pre ++ rest /\ i_dir j = true).
Proof.
  induction rest as [|x r IH]; intros pre live Hda Hpre Hdirs; cbn [mkdirs_from].
  - split; [exact Hda|]. split; [apply incl_refl|]. intros [Hne|Hne]; [|congruence].
    rewrite app_nil_r. destruct Hpre as [->|H]; [congruence | exact H].
  - set (d := pre ++ [x]).
    set (live1 := if has_path live d then live else live ++ [mkItem d true 0 0]).
    assert (incl live live1) as Hinc.
    { unfold live1. destruct (has_path live d); [apply incl_refl | apply incl_appl, incl_refl]. }
    assert (pre ++ x :: r = d ++ r) as Eapp by (unfold d; rewrite <- app_assoc; reflexivity).
    assert (exists j, In j live1 /\ i_path j = d /\ i_dir j = true) as Hd.
    { unfold live1. destruct (has_path live d) eqn:Hh.
      - apply has_path_spec in Hh as [j [Hj Hjp]]. exists j. split; [exact Hj|]. split; [exact Hjp|].
        apply (Hdirs j Hj). rewrite Hjp, Eapp. apply is_prefix_spec. exists r. reflexivity.
      - exists (mkItem d true 0 0). split; [apply in_or_app; right; left; reflexivity | split; reflexivity]. }
    assert (dirs_above live1) as Hda1.
    { unfold live1. destruct (has_path live d); [exact Hda|].
      intros i q Hi Hpp Hne. apply in_app_or in Hi as [Hi|[<-|[]]].
      - destruct (Hda i q Hi Hpp Hne) as [j [Hj H]]. exists j. split; [apply in_or_app; left; exact Hj | exact H].
      - cbn [i_path] in Hpp. unfold d in Hpp. apply proper_prefix_snoc in Hpp.
        destruct Hpre as [->|[j0 [Hj0 [Hj0p Hj0d]]]].
        + destruct q; [congruence | discriminate].
        + destruct (prefix_cases _ _ Hpp) as [->|Hpp'].
          * exists j0. split; [apply in_or_app; left; exact Hj0 | split; assumption].
          * rewrite <- Hj0p in Hpp'. destruct (Hda j0 q Hj0 Hpp' Hne) as [j [Hj H]].
            exists j. split; [apply in_or_app; left; exact Hj | exact H]. }
    assert (forall j, In j live1 -> is_prefix (i_path j) (d ++ r) = true -> i_dir j = true) as Hdirs1.
    { unfold live1. destruct (has_path live d); intros j Hj Hp.
      - apply (Hdirs j Hj). rewrite Eapp. exact Hp.
      - apply in_app_or in Hj as [Hj|[<-|[]]]; [apply (Hdirs j Hj); rewrite Eapp; exact Hp | reflexivity]. }
    destruct (IH d live1 Hda1 (or_intror Hd) Hdirs1) as [H1 [H2 H3]].
    split; [exact H1|]. split; [eapply incl_tran; eassumption|].
    intros _. rewrite Eapp. apply H3. left. unfold d. destruct pre; discriminate.
Qed.

Lemma file_above_false live q : file_above live q = false ->
  forall j, In j live -> is_prefix (i_path j) q = true -> i_dir j = true.
Proof.
  intros H j Hj Hp. unfold file_above in H.
  destruct (i_dir j) eqn:E; [reflexivity | exfalso].
  assert (existsb (fun j => negb (i_dir j) && is_prefix (i_path j) q) live = true) as X
    by (apply existsb_exists; exists j; split; [exact Hj | rewrite E, Hp; reflexivity]).
  congruence.
Qed.

Lemma mkdirs_spec live q : dirs_above live -> file_above live q = false -> q <> [] ->
  dirs_above (mkdirs live q) /\ incl live (mkdirs live q)
  /\ exists j, In j (mkdirs live q) /\ i_path j = q /\ i_dir j = true.
Proof.
  intros Hda Hfa Hne. unfold mkdirs.
  destruct (mkdirs_from_spec q [] live Hda (or_introl eq_refl) (file_above_false live q Hfa)) as [H1 [H2 H3]].
  split; [exact H1|]. split; [exact H2|]. apply H3. right. exact Hne.
Qed.

(* os.Rename(from, to) of a directory to a sibling name *)
Lemma skipn_app_length {A} (a b : list A) : skipn (length a) (a ++ b) = b.
Proof. induction a as [|x a IH]; [reflexivity | exact IH]. Qed.

Lemma reroot_under from to rest : reroot from to (from ++ rest) = to ++ rest.
Proof.
  unfold reroot. replace (is_prefix from (from ++ rest)) with true
    by (symmetry; apply is_prefix_spec; exists rest; reflexivity).
  rewrite skipn_app_length. reflexivity.
Qed.

Lemma reroot_outside from to q : is_prefix from q = false -> reroot from to q = q.
Proof. intros H. unfold reroot. rewrite H. reflexivity. Qed.

Definition moved (from to : path) (j : item) : item :=
  mkItem (reroot from to (i_path j)) (i_dir j) (i_size j) (i_atime j).

Lemma dirs_above_reroot live from to : dirs_above live ->
  from <> [] -> length from = length to -> removelast from = removelast to ->
  dirs_above (map (moved from to) live).
Proof.
  intros Hda Hfne Hlen Hrl i' q Hi' Hpp Hne.
  apply in_map_iff in Hi' as [i [<- Hi]]. cbn [moved i_path] in Hpp.
  assert (to <> []) as Htne by (destruct to; [destruct from; [congruence | discriminate] | discriminate]).
  assert (forall j, In j live -> i_path j = q -> i_dir j = true -> is_prefix from q = false ->
                    exists j', In j' (map (moved from to) live) /\ i_path j' = q /\ i_dir j' = true) as Hsame.
  { intros j Hj Hjp Hjd Hnp. exists (moved from to j). split; [apply in_map; exact Hj|].
    cbn [moved i_path i_dir]. rewrite Hjp, (reroot_outside _ _ _ Hnp). auto. }
  destruct (is_prefix from (i_path i)) eqn:Hfi.
  - apply is_prefix_spec in Hfi as [rest Hrest]. rewrite Hrest, reroot_under in Hpp.
    assert (is_prefix to (to ++ rest) = true) as Hto by (apply is_prefix_spec; exists rest; reflexivity).
    pose proof Hpp as Hpp0. apply proper_prefix_spec in Hpp0 as [Hq Hqne].
    destruct (is_prefix_comparable _ _ _ Hto Hq) as [H|H].
    + (* q = to/rest': the image of from/rest' *)
      apply is_prefix_spec in H as [rest' ->].
      assert (proper_prefix (from ++ rest') (i_path i) = true) as Hpp'.
      { rewrite Hrest. apply proper_prefix_spec. apply is_prefix_spec in Hq as [t Ht].
        rewrite <- app_assoc in Ht. apply app_inv_head in Ht. subst rest. split.
        - apply is_prefix_spec. exists t. rewrite <- app_assoc. reflexivity.
        - intros E. apply Hqne. apply app_inv_head in E. f_equal. exact E. }
      destruct (Hda i (from ++ rest') Hi Hpp') as [j [Hj [Hjp Hjd]]]; [destruct from; [congruence | discriminate]|].
      exists (moved from to j). split; [apply in_map; exact Hj|]. cbn [moved i_path i_dir].
      rewrite Hjp, reroot_under. auto.
    + (* q strictly above to: above from as well, and not moved *)
      destruct (prefix_cases _ _ H) as [->|Hqto].
      { (* q = to is the case above with rest' = [] *)
        assert (proper_prefix from (i_path i) = true) as Hpp'.
        { rewrite Hrest. apply proper_prefix_spec. split; [apply is_prefix_spec; exists rest; reflexivity|].
          intros E. apply Hqne. rewrite <- (app_nil_r from) in E at 1. apply app_inv_head in E. subst rest. symmetry. apply app_nil_r. }
        destruct (Hda i from Hi Hpp' Hfne) as [j [Hj [Hjp Hjd]]].
        exists (moved from to j). split; [apply in_map; exact Hj|]. cbn [moved i_path i_dir].
        rewrite Hjp. rewrite <- (app_nil_r from) at 2. rewrite reroot_under, app_nil_r. auto. }
      destruct (path_snoc to Htne) as [r0 [b Hto']]. destruct (path_snoc from Hfne) as [r1 [b' Hfrom']].
      assert (r1 = r0) as -> by (rewrite Hto', Hfrom', !removelast_last in Hrl; exact Hrl).
      rewrite Hto' in Hqto. apply proper_prefix_snoc in Hqto.
      assert (proper_prefix q from = true) as Hqf.
      { apply proper_prefix_spec. split.
        - rewrite Hfrom'. eapply is_prefix_trans; [exact Hqto|]. apply is_prefix_spec. exists [b']. reflexivity.
        - intros ->. apply is_prefix_length in Hqto. rewrite Hfrom', app_length in Hqto. cbn in Hqto. lia. }
      assert (proper_prefix q (i_path i) = true) as Hqi
        by (eapply proper_prefix_trans_l; [exact Hqf | rewrite Hrest; apply is_prefix_spec; exists rest; reflexivity]).
      destruct (Hda i q Hi Hqi Hne) as [j [Hj [Hjp Hjd]]].
      apply (Hsame j Hj Hjp Hjd).
      destruct (is_prefix from q) eqn:E; [|reflexivity].
      apply is_prefix_length in E. apply proper_prefix_length in Hqf. lia.
  - rewrite (reroot_outside _ _ _ Hfi) in Hpp.
    destruct (Hda i q Hi Hpp Hne) as [j [Hj [Hjp Hjd]]].
    apply (Hsame j Hj Hjp Hjd).
    destruct (is_prefix from q) eqn:E; [|reflexivity].
    apply proper_prefix_spec in Hpp as [Hpp _]. rewrite (is_prefix_trans _ _ _ E Hpp) in Hfi. discriminate.
Qed.

(* ============================== the invariant ============================== *)

Section StoreRun.
Variable ops_of : list (str * N) -> list sop.
Variable sorter : list entry -> list entry.
Variables high low : N.
(* the Store the run executes begins by marking its entry: true of the Store in the source (store_ops_head) *)
Hypothesis Hops : forall files, exists sz r, ops_of files = OMark sz :: r.
Hypothesis Hperm : forall l, Permutation (sorter l) l.

Definition covered (calls : list (path * N)) (o : path) : Prop :=
  exists m, In m calls /\ (is_prefix (fst m) o = true \/ is_prefix (tmp_path false (fst m)) o = true).

Definition sinv (x : pstate) : Prop :=
  let c := ps_c x in
  dirs_above (cs_live c)
  /\ (forall e, In e (cs_queue c) ->
        should_clean false (base (e_path e)) true = true /\ clean_names (e_path e) = true)
  /\ (forall m, In m (cs_calls c) -> okp (fst m))
  /\ (forall o, In o (ps_owned x) -> has_path (cs_live c) o = true /\ covered (cs_calls c) o)
  /\ match ps_store x with
     | None => True
     | Some sp => okp (sp_path sp)
                  /\ ((exists sz, In (sp_path sp, sz) (cs_calls c)) \/ (exists sz r, sp_ops sp = OMark sz :: r))
     end.

Definition plabel_ok (lb : plabel) : Prop :=
  match lb with PMark p _ => okp p | PStore p _ => okp p | _ => True end.

Lemma covered_mono calls calls' o : incl calls calls' -> covered calls o -> covered calls' o.
Proof. intros Hinc [m [Hm H]]. exists m. split; [apply Hinc; exact Hm | exact H]. Qed.

(* ---- a markDir call ---- *)
Lemma sinv_mark x p sz st' :
  sinv x -> okp p ->
  (match st' with
   | None => True
   | Some sp => okp (sp_path sp) /\ ((exists sz', In (sp_path sp, sz') (cs_calls (ps_c x) ++ [(p, sz)]))
                                     \/ (exists sz' r, sp_ops sp = OMark sz' :: r))
   end) ->
  sinv (mkP (mkC (cs_calls (ps_c x) ++ [(p, sz)]) (cs_queue (ps_c x)) (cs_live (ps_c x)) (cs_total (ps_c x))
                 (cs_removed (ps_c x)) (cs_kept (ps_c x))) st' (ps_owned x)).
Proof.
  intros [H1 [H2 [H3 [H4 _]]]] Hp Hst. unfold sinv. cbn [ps_c ps_store ps_owned cs_live cs_queue cs_calls].
  split; [exact H1|]. split; [exact H2|]. split.
  - intros m Hm. apply in_app_or in Hm as [Hm|[<-|[]]]; [apply H3; exact Hm | exact Hp].
  - split; [|exact Hst]. intros o Ho. destruct (H4 o Ho) as [Ha Hb]. split; [exact Ha|].
    eapply covered_mono; [|exact Hb]. apply incl_appl, incl_refl.
Qed.

(* ---- one iteration of the eviction loop ---- *)
Lemma sinv_iter x : sinv x ->
  sinv (mkP (do_label false low (ps_c x) LIter) (ps_store x) (ps_owned x)).
Proof.
  intros [H1 [H2 [H3 [H4 H5]]]].
  destruct (cs_queue (ps_c x)) as [|e r] eqn:Eq.
  { unfold do_label. rewrite Eq. destruct x as [c st ow]. cbn [ps_c] in *.
    unfold sinv. cbn [ps_c ps_store ps_owned]. rewrite Eq. auto. }
  rewrite (do_label_iter false low (ps_c x) e r Eq). unfold iter.
  assert (forall e', In e' r -> should_clean false (base (e_path e')) true = true /\ clean_names (e_path e') = true) as H2'
    by (intros e' H; apply H2; right; exact H).
  assert (forall (fl : flow) e', In e' (match fl with FBreak => [] | _ => r end) ->
            should_clean false (base (e_path e')) true = true /\ clean_names (e_path e') = true) as H2''
    by (intros fl e' H; destruct fl; try contradiction; apply H2'; exact H).
  destruct (is_marked (marks_of (cs_calls (ps_c x))) (e_path e)) eqn:Hm.
  { unfold sinv. cbn [ps_c ps_store ps_owned cs_live cs_queue cs_calls]. auto. }
  destruct (rename_blocked false (cs_live (ps_c x)) (append_last (e_path e) (s rename_suffix))) eqn:Hbl.
  { unfold sinv. cbn [ps_c ps_store ps_owned cs_live cs_queue cs_calls]. auto. }
  destruct (H2 e) as [He1 He2]; [left; reflexivity|].
  assert (e_path e <> []) as Hene by (eapply should_clean_nonempty; exact He1).
  set (tgt := append_last (e_path e) (s rename_suffix)) in *.
  assert (forall o, In o (ps_owned x) -> has_path (delete (cs_live (ps_c x)) (e_path e) tgt) o = true) as Hkeep.
  { intros o Ho. destruct (H4 o Ho) as [Ha [m [Hmc Hcov]]].
    apply has_path_spec in Ha as [j [Hj Hjp]]. apply has_path_spec. exists j. split; [|exact Hjp].
    apply filter_In. split; [exact Hj|]. rewrite Hjp. apply andb_true_iff. split; apply negb_true_iff.
    - destruct (is_prefix (e_path e) o) eqn:E; [exfalso | reflexivity].
      destruct m as [p sz]. cbn [fst] in Hcov.
      destruct Hcov as [Hc|Hc].
      + exact (evict_spares _ _ p sz p o He1 He2 (H3 _ Hmc) Hmc Hm (or_introl eq_refl) Hc E).
      + exact (evict_spares _ _ p sz (tmp_path false p) o He1 He2 (H3 _ Hmc) Hmc Hm (or_intror eq_refl) Hc E).
    - destruct (is_prefix tgt o) eqn:E; [exfalso | reflexivity].
      assert (exists j', In j' (cs_live (ps_c x)) /\ i_path j' = tgt) as [j' [Hj' Hj'p]].
      { destruct (prefix_cases _ _ E) as [Eq'|Hpp].
        - exists j. split; [exact Hj | congruence].
        - rewrite <- Hjp in Hpp. destruct (H1 j tgt Hj Hpp) as [j' [Hj' [Hj'p _]]];
            [apply append_last_nonempty; exact Hene | exists j'; auto]. }
      assert (rename_blocked false (cs_live (ps_c x)) tgt = true) as X.
      { unfold rename_blocked. apply existsb_exists. exists j'. split; [exact Hj'|].
        rewrite Hj'p, path_eqb_refl. reflexivity. }
      congruence. }
  destruct (N.ltb (cs_total (ps_c x) - e_size e) low); cbn zeta;
    unfold sinv; cbn [ps_c ps_store ps_owned cs_live cs_queue cs_calls];
    (split; [apply dirs_above_delete; exact H1|]);
    (split; [first [exact H2' | intros e' []]|]);
    (split; [exact H3|]);
    (split; [intros o Ho; split; [apply Hkeep; exact Ho | apply (H4 o Ho)] | exact H5]).
Qed.

(* ---- the walk ---- *)
Lemma start_fields st :
  cs_calls (start sorter st) = st_calls st /\ cs_live (start sorter st) = st_items st.
Proof. unfold start. destruct (N.ltb (size_of st) (st_high st)); split; reflexivity. Qed.

Lemma sinv_walk x : sinv x ->
  sinv (mkP (start sorter (mkState false (cs_live (ps_c x)) (cs_calls (ps_c x)) high low)) (ps_store x) (ps_owned x)).
Proof.
  intros [H1 [H2 [H3 [H4 H5]]]]. set (st := mkState false (cs_live (ps_c x)) (cs_calls (ps_c x)) high low).
  destruct (start_fields st) as [Ec El]. unfold sinv. cbn [ps_c ps_store ps_owned]. rewrite Ec, El. cbn [st st_calls st_items].
  split; [exact H1|]. split; [|auto].
  intros e He.
  assert (In e (entries_of st)) as He'.
  { unfold start in He. destruct (N.ltb (size_of st) (st_high st)); cbn [cs_queue] in He; [contradiction|].
    apply (Permutation_in _ (Hperm _)). exact He. }
  unfold entries_of in He'. apply walk_entries in He' as [a [Ha [Hr [_ ->]]]]. cbn [e_path st st_compress st_items] in *.
  unfold recognised in Hr. apply andb_true_iff in Hr as [Hv Hs].
  assert (i_dir a = true) as Hda by (pose proof (proj1 (should_clean_spec _ _ _) Hs) as [Hd _]; exact Hd).
  rewrite Hda in Hs. split; [exact Hs|].
  unfold clean_names. apply forallb_forall. intros c Hc. apply negb_true_iff.
  destruct (should_clean false c true) eqn:Hsc; [exfalso | reflexivity].
  destruct (in_removelast_prefix _ _ Hc) as [q [Hqne [Hpp Hb]]].
  destruct (H1 a q Ha Hpp Hqne) as [j [Hj [Hjp Hjd]]].
  unfold visited in Hv. apply negb_true_iff in Hv.
  assert (existsb (fun j => proper_prefix (i_path j) (i_path a) && skips false j) (cs_live (ps_c x)) = true) as X.
  { apply existsb_exists. exists j. split; [exact Hj|]. unfold skips. rewrite Hjp, Hpp, Hjd, Hb, Hsc. reflexivity. }
  congruence.
Qed.

(* ---- one statement of the Store in progress ---- *)
Lemma sinv_sop x p o r :
  sinv x -> ps_store x = Some (mkSP p (o :: r)) ->
  sinv (let '(c', ow') := do_sop false p (ps_c x) (ps_owned x) o in mkP c' (Some (mkSP p r)) ow').
Proof.
  intros Hinv Hst. pose proof Hinv as [H1 [H2 [H3 [H4 H5]]]]. rewrite Hst in H5. cbn [sp_path sp_ops] in H5.
  destruct H5 as [Hp Hmk].
  assert ((forall sz, o <> OMark sz) -> exists sz, In (p, sz) (cs_calls (ps_c x))) as Hmarked.
  { intros Hno. destruct Hmk as [H|[sz [r' H]]]; [exact H|]. inversion H. subst. exfalso. exact (Hno sz eq_refl). }
  destruct (entry_path_bases p (proj1 Hp)) as [Hpne _].
  set (tmp := tmp_path false p) in *.
  assert (tmp <> []) as Htne by (apply tmp_path_nonempty; exact Hpne).
  destruct o as [sz| |name|name sz|]; cbn [do_sop]; fold tmp.
  - (* markDir *)
    apply (sinv_mark x p sz (Some (mkSP p r)) Hinv Hp). cbn [sp_path]. split; [exact Hp|].
    left. exists sz. apply in_or_app. right. left. reflexivity.
  - (* RemoveAll(cacheDir) *)
    destruct Hmarked as [sz Hsz]; [discriminate|].
    unfold sinv, set_live. cbn [ps_c ps_store ps_owned cs_live cs_queue cs_calls sp_path sp_ops].
    split; [apply dirs_above_remove_under; exact H1|]. split; [exact H2|]. split; [exact H3|]. split; [|eauto].
    intros o' Ho'. apply filter_In in Ho' as [Ho' Hf]. apply negb_true_iff in Hf.
    destruct (H4 o' Ho') as [Ha Hb]. split; [|exact Hb].
    apply has_path_spec in Ha as [j [Hj Hjp]]. apply has_path_spec. exists j. split; [|exact Hjp].
    apply in_remove_under; [exact Hj | rewrite Hjp; exact Hf].
  - (* ensureStoreReady *)
    destruct Hmarked as [sz Hsz]; [discriminate|].
    destruct (file_above (cs_live (ps_c x)) tmp) eqn:Hfa.
    { destruct x as [c st ow]. cbn [ps_c ps_store ps_owned] in *. unfold sinv. cbn [ps_c ps_store ps_owned sp_path sp_ops]. eauto 10. }
    destruct (mkdirs_spec _ tmp H1 Hfa Htne) as [M1 [M2 _]].
    unfold sinv, set_live. cbn [ps_c ps_store ps_owned cs_live cs_queue cs_calls sp_path sp_ops].
    split; [apply dirs_above_remove_under; exact M1|]. split; [exact H2|]. split; [exact H3|]. split; [|eauto].
    intros o' Ho'. apply filter_In in Ho' as [Ho' Hf]. apply negb_true_iff in Hf.
    destruct (H4 o' Ho') as [Ha Hb]. split; [|exact Hb].
    apply has_path_spec in Ha as [j [Hj Hjp]]. apply has_path_spec. exists j. split; [|exact Hjp].
    apply in_remove_under; [apply M2; exact Hj | rewrite Hjp; exact Hf].
  - (* RecursiveLink *)
    destruct Hmarked as [sz' Hsz]; [discriminate|].
    destruct (file_above (cs_live (ps_c x)) tmp) eqn:Hfa.
    { destruct x as [c st ow]. cbn [ps_c ps_store ps_owned] in *. unfold sinv. cbn [ps_c ps_store ps_owned sp_path sp_ops]. eauto 10. }
    destruct (mkdirs_spec _ tmp H1 Hfa Htne) as [M1 [M2 [jt [Hjt [Hjtp Hjtd]]]]].
    set (f := tmp ++ [name]).
    set (live2 := remove_under (mkdirs (cs_live (ps_c x)) tmp) f).
    assert (dirs_above live2) as D2 by (apply dirs_above_remove_under; exact M1).
    assert (In jt live2) as Hjt2.
    { apply in_remove_under; [exact Hjt|]. rewrite Hjtp. destruct (is_prefix f tmp) eqn:E; [|reflexivity].
      apply is_prefix_length in E. unfold f in E. rewrite app_length in E. cbn in E. lia. }
    unfold sinv, set_live. cbn [ps_c ps_store ps_owned cs_live cs_queue cs_calls sp_path sp_ops].
    split.
    { intros i q Hi Hpp Hne. apply in_app_or in Hi as [Hi|[<-|[]]].
      - destruct (D2 i q Hi Hpp Hne) as [j [Hj H]]. exists j. split; [apply in_or_app; left; exact Hj | exact H].
      - cbn [i_path] in Hpp. unfold f in Hpp. apply proper_prefix_snoc in Hpp.
        destruct (prefix_cases _ _ Hpp) as [->|Hpp'].
        + exists jt. split; [apply in_or_app; left; exact Hjt2 | split; assumption].
        + rewrite <- Hjtp in Hpp'. destruct (D2 jt q Hjt2 Hpp' Hne) as [j [Hj H]].
          exists j. split; [apply in_or_app; left; exact Hj | exact H]. }
    split; [exact H2|]. split; [exact H3|]. split; [|eauto].
    intros o' [<-|Ho'].
    + split.
      * apply has_path_spec. exists (mkItem f false sz 0). split; [apply in_or_app; right; left; reflexivity | reflexivity].
      * exists (p, sz'). split; [exact Hsz|]. right. cbn [fst]. fold tmp. apply is_prefix_spec. exists [name]. reflexivity.
    + apply filter_In in Ho' as [Ho' Hf]. apply negb_true_iff in Hf.
      destruct (H4 o' Ho') as [Ha Hb]. split; [|exact Hb].
      apply has_path_spec in Ha as [j [Hj Hjp]]. apply has_path_spec. exists j. split; [|exact Hjp].
      apply in_or_app. left. apply in_remove_under; [apply M2; exact Hj | rewrite Hjp; exact Hf].
  - (* os.Rename(tmpDir, cacheDir) *)
    destruct Hmarked as [sz Hsz]; [discriminate|].
    destruct (has_path (cs_live (ps_c x)) p || negb (has_path (cs_live (ps_c x)) tmp)).
    { destruct x as [c st ow]. cbn [ps_c ps_store ps_owned] in *. unfold sinv. cbn [ps_c ps_store ps_owned sp_path sp_ops]. eauto 10. }
    unfold sinv, set_live. cbn [ps_c ps_store ps_owned cs_live cs_queue cs_calls sp_path sp_ops].
    split.
    { apply (dirs_above_reroot _ tmp p H1 Htne); [apply tmp_length | apply removelast_tmp; exact Hpne]. }
    split; [exact H2|]. split; [exact H3|]. split; [|eauto].
    intros o' Ho'. apply in_map_iff in Ho' as [o0 [<- Ho0]].
    destruct (H4 o0 Ho0) as [Ha Hb]. split.
    + apply has_path_spec in Ha as [j [Hj Hjp]]. apply has_path_spec.
      exists (moved tmp p j). split; [apply (in_map (moved tmp p)); exact Hj | cbn [moved i_path]; rewrite Hjp; reflexivity].
    + destruct (is_prefix tmp o0) eqn:E.
      * apply is_prefix_spec in E as [rest ->]. rewrite reroot_under.
        exists (p, sz). split; [exact Hsz|]. left. cbn [fst]. apply is_prefix_spec. exists rest. reflexivity.
      * rewrite (reroot_outside _ _ _ E). exact Hb.
Qed.

(* ---- any label ---- *)
Lemma sinv_step x lb : sinv x -> plabel_ok lb -> sinv (do_plabel ops_of sorter false high low x lb).
Proof.
  intros Hinv Hlb. destruct lb as [p sz|p files| | |]; cbn [do_plabel].
  - cbn [do_label]. apply (sinv_mark x p sz (ps_store x) Hinv Hlb).
    destruct Hinv as [_ [_ [_ [_ H5]]]]. destruct (ps_store x) as [sp|]; [|exact I].
    destruct H5 as [Hp [[sz' H]|H]]; (split; [exact Hp|]); [left; exists sz'; apply in_or_app; left; exact H | right; exact H].
  - destruct (ps_store x) eqn:Est; [exact Hinv|].
    destruct Hinv as [H1 [H2 [H3 [H4 _]]]]. unfold sinv. cbn [ps_c ps_store ps_owned sp_path sp_ops].
    split; [exact H1|]. split; [exact H2|]. split; [exact H3|]. split; [exact H4|]. split; [exact Hlb|]. right. apply Hops.
  - destruct (ps_store x) as [[p ops]|] eqn:Est; [|exact Hinv]. cbn [sp_ops sp_path].
    destruct ops as [|o r].
    + destruct Hinv as [H1 [H2 [H3 [H4 _]]]]. unfold sinv. cbn [ps_c ps_store ps_owned]. auto.
    + apply (sinv_sop x p o r Hinv Est).
  - apply sinv_walk. exact Hinv.
  - apply sinv_iter. exact Hinv.
Qed.

Lemma sinv_run ls : forall x, sinv x -> Forall plabel_ok ls -> sinv (prun ops_of sorter false high low x ls).
Proof.
  induction ls as [|lb ls IH]; intros x Hx Hl; [exact Hx|].
  inversion Hl; subst. unfold prun. cbn [fold_left]. apply IH; [apply sinv_step; assumption | assumption].
Qed.

Lemma sinv_init st : dirs_above (st_items st) -> (forall m, In m (st_calls st) -> okp (fst m)) -> sinv (pinit st).
Proof.
  intros Hda Hc. unfold sinv, pinit. cbn [ps_c ps_store ps_owned cs_live cs_queue cs_calls].
  split; [exact Hda|]. split; [intros e []|]. split; [exact Hc|]. split; [intros o []|exact I].
Qed.

(* Whatever the process and clean do, in whatever order: every file a Store of the process has written (and
   the process has not itself removed or replaced since) is in the cache directory, where the Store put or
   moved it. *)
Theorem store_whole_any st ls :
  dirs_above (st_items st) -> (forall m, In m (st_calls st) -> okp (fst m)) -> Forall plabel_ok ls ->
  let x := prun ops_of sorter false high low (pinit st) ls in
  forall o, In o (ps_owned x) -> has_path (cs_live (ps_c x)) o = true.
Proof.
  intros Hda Hc Hl x o Ho.
  destruct (sinv_run ls (pinit st) (sinv_init st Hda Hc) Hl) as [_ [_ [_ [H4 _]]]].
  exact (proj1 (H4 o Ho)).
Qed.

End StoreRun.

Lemma plabel_paths_ok ls : (forall p, In p (plabel_paths ls) -> okp p) -> Forall plabel_ok ls.
Proof.
  induction ls as [|lb ls IH]; intros H; [constructor|].
  unfold plabel_paths in H. cbn [flat_map] in H. fold (plabel_paths ls) in H. constructor.
  - destruct lb as [p sz|p files| | |]; cbn [plabel_ok]; try exact I; apply H; left; reflexivity.
  - apply IH. intros p Hp. apply H. apply in_or_app. right. exact Hp.
Qed.

(* The Store that is in the source (Gen.CacheNames.store_body / store_files_body): for every cache, every
   interleaving of its statements with markDir calls, walks and loop iterations of clean (any number of
   Stores one after the other, any number of clean passes), all water marks, every order of the queue. *)
Theorem store_in_progress_whole sorter : (forall l, Permutation (sorter l) l) ->
  forall (st : state) (high low : N) (ls : list plabel),
  dirs_present (st_items st) = true ->
  (forall m, In m (st_calls st) -> entry_path false (fst m) = true /\ clean_names (fst m) = true) ->
  (forall p, In p (plabel_paths ls) -> entry_path false p = true /\ clean_names p = true) ->
  let x := prun store_ops sorter false high low (pinit st) ls in
  forall o, In o (ps_owned x) -> has_path (cs_live (ps_c x)) o = true.
Proof.
  intros Hperm st high low ls Hdp Hc Hl.
  exact (store_whole_any store_ops sorter high low store_ops_head Hperm st ls
           (dirs_present_spec _ Hdp) Hc (plabel_paths_ok ls Hl)).
Qed.

(* ---- a concrete run, and the same run of a Store without the early markDir ---- *)

Definition k_key4 : str := s "eeeeeeeeeeeeeeeeeeeeeeeeeee=".
Definition w_store_p : path := [s "cache"; s "pkg"; s "lib"; k_key4].
Definition w_store_files : list (str * N) := [(s "out.a", 10%N); (s "b.o", 20%N)].

(* the process starts to store lib's new entry; after the first output is in place clean walks the cache
   (three old entries, everything is to go) and runs its loop to the end; the Store goes on and finishes *)
Definition w_store_run : list plabel :=
  PStore w_store_p w_store_files :: repeat PStoreStep 4 ++ PWalk :: repeat PIter 4 ++ repeat PStoreStep 4.

(* Store as seeded change r2-m3 leaves it: no markDir before the files are written *)
Definition store_ops_late_mark : list (str * N) -> list sop :=
  store_ops_with [StRemoveOld; StStoreFiles; StRenameIntoPlace] [SfStoreEach; SfMarkTotal].
Definition w_store_run_late : list plabel :=
  PStore w_store_p w_store_files :: repeat PStoreStep 3 ++ PWalk :: repeat PIter 4 ++ repeat PStoreStep 4.

Lemma w_store_ok :
  dirs_present (st_items w_race) = true
  /\ (entry_path false w_store_p = true /\ clean_names w_store_p = true)
  /\ plabel_paths w_store_run = [w_store_p]
  /\ (let x := prun store_ops isort false 1 0 (pinit w_race) w_store_run in
      ps_store x = Some (mkSP w_store_p [])
      /\ ps_owned x = [w_store_p ++ [s "b.o"]; w_store_p ++ [s "out.a"]]
      /\ map i_path (cs_live (ps_c x)) =
           [[s "cache"]; [s "cache"; s "pkg"]; [s "cache"; s "pkg"; s "lib"];
            w_store_p; w_store_p ++ [s "out.a"]; w_store_p ++ [s "b.o"]]
      /\ length (cs_removed (ps_c x)) = 3%nat)
  (* without the early mark the temporary directory is an ordinary unmarked entry for the walk: the loop
     removes it with the first output in it, the Store re-creates it for the second output and renames
     that into place - an entry of this process with a file missing *)
  /\ (let x := prun store_ops_late_mark isort false 1 0 (pinit w_race) w_store_run_late in
      ps_store x = Some (mkSP w_store_p [])
      /\ ps_owned x = [w_store_p ++ [s "b.o"]; w_store_p ++ [s "out.a"]]
      /\ map i_path (cs_live (ps_c x)) =
           [[s "cache"]; [s "cache"; s "pkg"]; [s "cache"; s "pkg"; s "lib"];
            w_store_p; w_store_p ++ [s "b.o"]]
      /\ has_path (cs_live (ps_c x)) (w_store_p ++ [s "out.a"]) = false).
Proof. vm_compute. repeat split. Qed.
