(* C18 - a CONFIG entry set by a subincluded file reaches the including package as the VERY SAME value (no wrapper,
   same heap) that the package would hold had it set the entry itself.
   The overlay of a pyConfig is a Go map; the model keeps it as an association list.  The invariant that makes the
   round trip (Freeze in the subincluded scope, Merge in the includer) transparent is that its keys are distinct:
   it holds initially (no overlay), is preserved by every update, and under it Merge copies the map entry by entry. *)
From PlzV Require Import Base.Harness Base.StrFacts Model.C16_Syntax Model.C16_Ops Model.C16_Prim Model.C16_Eval Model.C16.
From PlzV Require Import Gen.C18Pins Model.C18_Config Model.C18.

(* ---------------------------------------------------------------- association lists *)
Lemma env_get_set : forall k k' v e,
  env_get k (env_set k' v e) = if str_eqb k k' then Some v else env_get k e.
Proof.
  intros k k' v e. induction e as [|[k0 w] r IH]; cbn [env_set env_get].
  - destruct (str_eqb k k'); reflexivity.
  - destruct (str_eqb k' k0) eqn:E0; cbn [env_get].
    + apply str_eqb_eq in E0. subst k0. destruct (str_eqb k k'); reflexivity.
    + rewrite IH. destruct (str_eqb k k') eqn:E1; [|reflexivity].
      apply str_eqb_eq in E1. subst k'. rewrite E0. reflexivity.
Qed.

Definition keys (e : env) : list str := map (@fst _ _) e.

Lemma env_get_notin : forall k e, ~ List.In k (keys e) -> env_get k e = None.
Proof.
  intros k e. induction e as [|[k0 w] r IH]; cbn [env_get keys map fst]; [reflexivity|].
  intros H. destruct (str_eqb k k0) eqn:E.
  - apply str_eqb_eq in E. subst. exfalso. apply H. left. reflexivity.
  - apply IH. intros Hin. apply H. right. exact Hin.
Qed.

Lemma keys_env_set : forall k v e, List.In k (keys e) -> keys (env_set k v e) = keys e.
Proof.
  intros k v e. induction e as [|[k0 w] r IH]; cbn [env_set keys map fst]; [intros []|].
  intros H. destruct (str_eqb k k0) eqn:E; cbn [map fst]; [reflexivity|].
  f_equal. apply IH. destruct H as [H|H]; [|exact H].
  subst k0. rewrite str_eqb_refl in E. discriminate.
Qed.

Lemma keys_env_set_new : forall k v e, ~ List.In k (keys e) -> keys (env_set k v e) = keys e ++ [k].
Proof.
  intros k v e. induction e as [|[k0 w] r IH]; cbn [env_set keys map fst app]; [reflexivity|].
  intros H. destruct (str_eqb k k0) eqn:E.
  - apply str_eqb_eq in E. subst. exfalso. apply H. left. reflexivity.
  - cbn [map fst]. f_equal. apply IH. intros Hin. apply H. right. exact Hin.
Qed.

(* the invariant: a Go map has each key once *)
Lemma env_set_nodup : forall k v e, NoDup (keys e) -> NoDup (keys (env_set k v e)).
Proof.
  intros k v e H. destruct (in_dec (list_eq_dec N.eq_dec) k (keys e)) as [Hin|Hout].
  - rewrite keys_env_set by exact Hin. exact H.
  - rewrite keys_env_set_new by exact Hout.
    apply NoDup_rev in H. rewrite <- (rev_involutive (keys e ++ [k])). apply NoDup_rev.
    rewrite rev_app_distr. cbn [rev app]. constructor; [|exact H].
    intros Hin. apply in_rev in Hin. exact (Hout Hin).
Qed.

(* pyConfig.Merge's loop: storing every entry of a map with distinct keys into another map *)
Lemma merge_get : forall (o acc : env) k,
  NoDup (keys o) ->
  env_get k (fold_left (fun a kv => env_set (fst kv) (snd kv) a) o acc)
  = match env_get k o with Some v => Some v | None => env_get k acc end.
Proof.
  induction o as [|[k1 v1] r IH]; intros acc k Hnd; cbn [fold_left env_get fst snd]; [reflexivity|].
  cbn [keys map fst] in Hnd. inversion Hnd as [|x l Hnotin Hnd' Heq]; subst.
  rewrite IH by exact Hnd'. rewrite env_get_set.
  destruct (str_eqb k k1) eqn:E.
  - apply str_eqb_eq in E. subst k1. rewrite (env_get_notin k r Hnotin). reflexivity.
  - reflexivity.
Qed.

Lemma merge_nodup : forall (o acc : env),
  NoDup (keys acc) -> NoDup (keys (fold_left (fun a kv => env_set (fst kv) (snd kv) a) o acc)).
Proof.
  induction o as [|[k1 v1] r IH]; intros acc H; cbn [fold_left]; [exact H|].
  apply IH. apply env_set_nodup. exact H.
Qed.

(* ---------------------------------------------------------------- well-formed configs *)
Definition overlay_ok (c : config) : Prop :=
  match c_overlay c with Some o => NoDup (keys o) | None => True end.

(* value-level updates: what a file does to its CONFIG, arguments already evaluated *)
Inductive upd := USetDefault (k : str) (v : value) | UAssign (k : str) (v : value).

Definition apply_upd (u : upd) (c : config) : option config :=
  match u with USetDefault k v => cfg_setdefault k v c | UAssign k v => cfg_index_assign k v c end.

Fixpoint apply_upds (us : list upd) (c : config) : option config :=
  match us with
  | [] => Some c
  | u :: r => match apply_upd u c with Some c1 => apply_upds r c1 | None => None end
  end.

(* a scope's own config: not frozen, the root's base, an overlay with distinct keys *)
Definition scope_config (root c : config) : Prop :=
  c_frozen c = false /\ c_base c = c_base root /\ overlay_ok c.

Lemma copy_scope_config : forall root, scope_config root (cfg_copy root).
Proof. intros root. repeat split. Qed.

Lemma upd_scope_config : forall root u c, scope_config root c -> exists c1, apply_upd u c = Some c1 /\ scope_config root c1.
Proof.
  intros root u c (Hf & Hb & Ho).
  assert (Hassign : forall k v, exists c1, cfg_index_assign k v c = Some c1 /\ scope_config root c1).
  { intros k v. unfold cfg_index_assign. rewrite Hf. eexists. split; [reflexivity|].
    repeat split; cbn [c_frozen c_base c_overlay]; [exact Hb|].
    unfold overlay_ok in *. cbn [c_overlay]. destruct (c_overlay c) as [o|].
    - apply env_set_nodup. exact Ho.
    - apply env_set_nodup. constructor. }
  destruct u as [k v|k v]; cbn [apply_upd].
  - unfold cfg_setdefault. rewrite Hf. destruct (cfg_get k c).
    + exists c. split; [reflexivity|]. repeat split; assumption.
    + apply Hassign.
  - apply Hassign.
Qed.

(* INVARIANT, for update sequences of any length: a file can always apply its updates (its own CONFIG is never the
   frozen one) and ends with a scope config *)
Theorem upds_scope_config : forall root us c, scope_config root c -> exists c1, apply_upds us c = Some c1 /\ scope_config root c1.
Proof.
  intros root us. induction us as [|u r IH]; intros c H; cbn [apply_upds].
  - exists c. split; [reflexivity|exact H].
  - destruct (upd_scope_config root u c H) as (c1 & E & H1). rewrite E. apply IH. exact H1.
Qed.

(* ---------------------------------------------------------------- the round trip *)
(* the generated steps: pyConfig.Freeze only wraps *)
Lemma config_freeze_pinned : config_freeze_steps = [FWrapCopy].
Proof. reflexivity. Qed.

Lemma freeze_wraps : forall fuel c st,
  cfg_freeze config_freeze_steps fuel c st = Ok (Config (c_base c) (c_overlay c) true, st).
Proof. intros. rewrite config_freeze_pinned. reflexivity. Qed.

(* Whatever config cA the subincluded file's scope ended with: the including package's CONFIG answers every key
   exactly as cA does, and the heap is untouched *)
Theorem includer_sees_same : forall fuel root cA st,
  scope_config root cA ->
  exists cB, includer_config config_freeze_steps fuel root cA st = Ok (cB, st)
             /\ scope_config root cB
             /\ forall k, cfg_get k cB = cfg_get k cA.
Proof.
  intros fuel root cA st (Hf & Hb & Ho). unfold includer_config.
  destruct (c_overlay cA) as [o|] eqn:Eo.
  - rewrite freeze_wraps. cbn [rbind]. eexists. split; [reflexivity|]. split.
    + repeat split. unfold overlay_ok. cbn [cfg_merge cfg_copy c_overlay]. apply merge_nodup. constructor.
    + intros k. unfold cfg_get. cbn [cfg_merge cfg_copy c_overlay c_base]. rewrite Eo.
      unfold overlay_ok in Ho. rewrite Eo in Ho. rewrite merge_get by exact Ho. cbn [env_get].
      rewrite Hb. destruct (env_get k o); reflexivity.
  - exists (cfg_copy root). split; [reflexivity|]. split; [apply copy_scope_config|].
    intros k. unfold cfg_get. cbn [cfg_copy c_overlay c_base]. rewrite Eo, Hb. reflexivity.
Qed.

(* THE ROUND TRIP, for every root config, every sequence of setdefault / assignment in the subincluded file, every
   heap, key and way of reading: the package reads the very value the file itself would read *)
Theorem config_roundtrip : forall fuel root us st,
  exists cA cB,
    apply_upds us (cfg_copy root) = Some cA
    /\ includer_config config_freeze_steps fuel root cA st = Ok (cB, st)
    /\ forall how k, cfg_read how k cB = cfg_read how k cA.
Proof.
  intros fuel root us st.
  destruct (upds_scope_config root us (cfg_copy root) (copy_scope_config root)) as (cA & EA & HA).
  destruct (includer_sees_same fuel root cA st HA) as (cB & EB & _ & Hget).
  exists cA, cB. repeat split; [exact EA|exact EB|].
  intros how k. unfold cfg_read. rewrite Hget. reflexivity.
Qed.

(* hence every application - listed or not - to a value read back from CONFIG has the same outcome *)
Corollary config_consumers_indifferent : forall fuel root us st,
  exists cA cB,
    apply_upds us (cfg_copy root) = Some cA
    /\ includer_config config_freeze_steps fuel root cA st = Ok (cB, st)
    /\ forall how k b fuel',
         match cfg_read how k cB, cfg_read how k cA with
         | Ok x, Ok y => apply_b fuel' b x st = apply_b fuel' b y st
         | Err e1, Err e2 => e1 = e2
         | OutOfFuel, OutOfFuel => True
         | _, _ => False
         end.
Proof.
  intros fuel root us st. destruct (config_roundtrip fuel root us st) as (cA & cB & EA & EB & H).
  exists cA, cB. repeat split; [exact EA|exact EB|].
  intros how k b fuel'. rewrite H. destruct (cfg_read how k cA); [reflexivity|reflexivity|exact I].
Qed.

(* the statement-level scenario agrees with the value-level one: exec_cfgops keeps the scope-config invariant *)
Theorem exec_cfgops_scope_config : forall fuel root ops c st c1 st1,
  scope_config root c -> exec_cfgops fuel ops c st = Ok (c1, st1) -> scope_config root c1.
Proof.
  intros fuel root ops. induction ops as [|o r IH]; intros c st c1 st1 H E; cbn [exec_cfgops] in E.
  - injection E as <- <-. exact H.
  - destruct o as [k e|k e|n e]; destruct (eval_expr Asp [] fuel e st) as [[v st0]| |]; cbn [rbind] in E; try discriminate.
    + destruct (upd_scope_config root (USetDefault k v) c H) as (c2 & E2 & H2). cbn [apply_upd] in E2. rewrite E2 in E.
      exact (IH _ _ _ _ H2 E).
    + destruct (upd_scope_config root (UAssign k v) c H) as (c2 & E2 & H2). cbn [apply_upd] in E2. rewrite E2 in E.
      exact (IH _ _ _ _ H2 E).
    + exact (IH _ _ _ _ H E).
Qed.

(* ---- sensitivity of the theorem to the generated steps: were Freeze to freeze the overlay (seeded mutation m2),
        a list set by the subincluded file would come back wrapped, and sorted() on it would raise ---- *)
Definition deep_steps : list cfg_freeze_step := [FWrapCopy; FFreezeOverlay].

Definition demo_ops : list cfgop :=
  [CfgSetDefault (s "C18_FLAGS") (Ex (XList [Ex (XInt 3) [] None; Ex (XInt 1) [] None]) [] None)].

Definition demo_read (steps : list cfg_freeze_step) : res value :=
  let root := Config case_base None false in
  let '(ia, stA) := push_scope empty_state in
  do '(cA, st1) <- exec_cfgops 50 demo_ops (cfg_copy root) stA;
  do '(cB, st2) <- includer_config steps 32 root cA st1;
  cfg_read RProp (s "C18_FLAGS") cB.

Lemma deep_freeze_would_wrap :
  demo_read config_freeze_steps = Ok (VList (Slice 0 0 2 2)) /\ demo_read deep_steps = Ok (VFrozenList (Slice 0 0 2 2)).
Proof. vm_compute. split; reflexivity. Qed.
