(* C38 - proofs about operator chains (Model/C38Expr.v):
   - the regenerated precedence table gives Negate the highest level (negate_binds_tightest); this is what makes the
     lexer's folding of `-<digits>` into one token agree with the Negate operator at the start of an expression;
   - fmt_preserves_eval: for every chain outside the defect class, for every value domain and every behaviour of the
     operators (with -(int n) = int (-n)), the formatted chain evaluates to the same value;
   - fmt_idempotent: formatting a formatted chain changes nothing; a formatted chain is never in the defect class;
   - the witness of the defect class. *)
From Coq Require Import String Lia.
From PlzV Require Import Base.Harness Gen.C38Fmt Model.C38Expr.
Local Open Scope list_scope.

Scheme chain_mind := Induction for chain Sort Prop
  with atom_mind := Induction for atom Sort Prop.
Combined Scheme chain_atom_ind from chain_mind, atom_mind.

(* ---- the table ------------------------------------------------------------------------------------- *)
Lemma negate_binds_tightest_bin : forall o, Z.leb (prec_name (binop_name o)) (prec_name (unop_name Negate)) = true.
Proof. destruct o; vm_compute; reflexivity. Qed.

Lemma negate_binds_tightest_un : forall u, Z.leb (prec_name (unop_name u)) (prec_name (unop_name Negate)) = true.
Proof. destruct u; vm_compute; reflexivity. Qed.

(* ---- formatting twice ---------------------------------------------------------------------------------- *)
Lemma adj_adj : forall u, adj (adj u) = adj u.
Proof. intros [[o b]|]; reflexivity. Qed.

Lemma fmt_idem_both :
  (forall c, fmt_chain (fmt_chain c) = fmt_chain c) /\ (forall a, fmt_atom (fmt_atom a) = fmt_atom a).
Proof.
  apply chain_atom_ind.
  - intros u a IHa. cbn [fmt_chain]. now rewrite adj_adj, IHa.
  - intros u a IHa o r IHr. cbn [fmt_chain]. now rewrite adj_adj, IHa, IHr.
  - reflexivity.
  - reflexivity.
  - intros c IHc. cbn [fmt_atom].
    destruct (fmt_chain c) as [u' a' | u' a' o' r'] eqn:E.
    + destruct u' as [p|].
      * cbn [fmt_atom]. rewrite IHc. reflexivity.
      * cbn [fmt_chain] in IHc. injection IHc as IHa'. exact IHa'.
    + cbn [fmt_atom]. rewrite IHc. reflexivity.
Qed.

Theorem fmt_idempotent : forall c, fmt_chain (fmt_chain c) = fmt_chain c.
Proof. exact (proj1 fmt_idem_both). Qed.

Lemma newly_folds_fmt : forall u a, newly_folds (adj u) (fmt_atom a) = false.
Proof.
  intros u a. unfold newly_folds. rewrite adj_adj, (proj2 fmt_idem_both).
  destruct (folds_syn (adj u) (fmt_atom a)); reflexivity.
Qed.

Lemma fmt_ok_both :
  (forall c, ok_chain (fmt_chain c) = true /\ ok_tail (fmt_chain c) = true)
  /\ (forall a, ok_atom (fmt_atom a) = true).
Proof.
  apply chain_atom_ind.
  - intros u a IHa. cbn [fmt_chain ok_chain ok_tail]. rewrite newly_folds_fmt, IHa. auto.
  - intros u a IHa o r [_ Ht]. cbn [fmt_chain ok_chain ok_tail]. rewrite newly_folds_fmt, IHa, Ht. auto.
  - reflexivity.
  - reflexivity.
  - intros c [Hc _]. cbn [fmt_atom].
    destruct (fmt_chain c) as [u' a' | u' a' o' r'] eqn:E.
    + destruct u' as [p|]; exact Hc.
    + exact Hc.
Qed.

Theorem fmt_never_defective : forall c, expr_defect (fmt_chain c) = None.
Proof.
  intros c. unfold expr_defect. now rewrite (proj1 (proj1 fmt_ok_both c)).
Qed.

(* ---- evaluation ---------------------------------------------------------------------------------------- *)
Section Sem.
  Variable V : Type.
  Variable lit : Z -> V.
  Variable var : N -> V.
  Variable neg lnot : V -> V.
  Variable bin : binop -> V -> V -> V.
  Variable truthy : V -> bool.
  (* interpreter.go interpretOp, case Negate: `i, ok := obj.(pyInt); ...; return newPyInt(-int(i))` *)
  Hypothesis neg_lit : forall z, neg (lit z) = lit (- z).

  Notation interp := (interp V neg lnot bin truthy).
  Notation sflat := (sflat V lit var neg lnot bin truthy).
  Notation aval := (aval V lit var neg lnot bin truthy).
  Notation head := (head V lit).
  Notation eval := (eval V lit var neg lnot bin truthy).

  Definition run (p : V * list (sop V)) : V := let (v, ops) := p in interp v ops.

  Lemma negate_first : forall obj rest, interp obj (SUn Negate :: rest) = interp (neg obj) rest.
  Proof.
    intros obj [|o1 r]; [reflexivity|].
    cbn [C38Expr.interp].
    assert (Hp : Z.leb (prec V o1) (prec V (SUn Negate)) = true).
    { destruct o1 as [u|o v]; cbn [prec]; [apply negate_binds_tightest_un | apply negate_binds_tightest_bin]. }
    rewrite Hp. reflexivity.
  Qed.

  Lemma sflat_one : forall u a, sflat (COne u a) = head u a (aval a).
  Proof. reflexivity. Qed.
  Lemma sflat_more : forall u a o r,
    sflat (CMore u a o r) = let (v, pre) := head u a (aval a) in let (vr, opsr) := sflat r in (v, pre ++ SBi o vr :: opsr).
  Proof. reflexivity. Qed.
  Lemma aval_paren : forall c, aval (AParen c) = run (sflat c).
  Proof. reflexivity. Qed.

  (* what the formatter does to the head of an expression whose atom keeps its value *)
  Lemma head_cases : forall u a av, aval (fmt_atom a) = av ->
    head (adj u) (fmt_atom a) av = head u a av
    \/ (newly_folds u a = true /\ exists n, av = lit (Z.of_N n) /\ head u a av = (av, [SUn Negate])
        /\ head (adj u) (fmt_atom a) av = (lit (- Z.of_N n), [])).
  Proof.
    intros [[uo b]|] a av Hav; [|left; reflexivity].
    destruct uo; [|left; reflexivity].
    unfold newly_folds. cbn [adj].
    destruct a as [n | x | c].
    - cbn [fmt_atom] in *. destruct b.
      + left; reflexivity.
      + right. split; [reflexivity|]. exists n. cbn in Hav. subst av. repeat split; reflexivity.
    - left. destruct b; reflexivity.
    - destruct (fmt_atom (AParen c)) as [n | x | c'] eqn:E.
      + right. split; [destruct b; reflexivity|]. exists n. cbn in Hav. subst av.
        repeat split; destruct b; reflexivity.
      + left. destruct b; reflexivity.
      + left. destruct b; reflexivity.
  Qed.

  Lemma fmt_eval_both :
    (forall c, (ok_chain c = true -> run (sflat (fmt_chain c)) = run (sflat c))
               /\ (ok_tail c = true -> sflat (fmt_chain c) = sflat c))
    /\ (forall a, ok_atom a = true -> aval (fmt_atom a) = aval a).
  Proof.
    apply chain_atom_ind.
    - (* COne *)
      intros u a IHa. cbn [ok_chain ok_tail fmt_chain]. rewrite !sflat_one. split.
      + intros Hok. specialize (IHa Hok). rewrite IHa.
        destruct (head_cases u a (aval a) IHa) as [-> | (_ & n & Hav & -> & ->)]; [reflexivity|].
        cbn [run C38Expr.interp interp_op]. rewrite Hav. symmetry. apply neg_lit.
      + intros Hok. apply andb_prop in Hok as [Hok Hnf]. specialize (IHa Hok). rewrite IHa.
        destruct (head_cases u a (aval a) IHa) as [-> | (Hnf' & _)]; [reflexivity|].
        rewrite Hnf' in Hnf. discriminate.
    - (* CMore *)
      intros u a IHa o r IHr. cbn [ok_chain ok_tail fmt_chain]. rewrite !sflat_more. destruct IHr as [_ IHt]. split.
      + intros Hok. apply andb_prop in Hok as [Hok Ht]. specialize (IHa Hok). rewrite IHa, (IHt Ht).
        destruct (C38Expr.sflat V lit var neg lnot bin truthy r) as [vr opsr].
        destruct (head_cases u a (aval a) IHa) as [-> | (_ & n & Hav & -> & ->)]; [reflexivity|].
        cbn [run app]. rewrite negate_first, Hav, neg_lit. reflexivity.
      + intros Hok. apply andb_prop in Hok as [Hok Ht]. apply andb_prop in Hok as [Hok Hnf].
        specialize (IHa Hok). rewrite IHa, (IHt Ht).
        destruct (head_cases u a (aval a) IHa) as [-> | (Hnf' & _)]; [reflexivity|].
        rewrite Hnf' in Hnf. discriminate.
    - reflexivity.
    - reflexivity.
    - (* AParen *)
      intros c [IHc _] Hok. cbn [ok_atom] in Hok. specialize (IHc Hok).
      rewrite aval_paren, <- IHc. cbn [fmt_atom].
      destruct (fmt_chain c) as [u' a' | u' a' o' r'] eqn:E.
      + destruct u' as [p|]; [rewrite aval_paren; reflexivity | rewrite sflat_one; reflexivity].
      + rewrite aval_paren; reflexivity.
  Qed.

  Theorem fmt_preserves_eval : forall c, expr_defect c = None -> eval (fmt_chain c) = eval c.
  Proof.
    intros c H. unfold expr_defect in H. destruct (ok_chain c) eqn:E; [|discriminate].
    exact (proj1 (proj1 fmt_eval_both c) E).
  Qed.
End Sem.

(* ---- the defect class is real --------------------------------------------------------------------------- *)
(* 2 * -(3) + 1 : asp hoists the Negate of the right operand behind `*`, it then applies to (3) + 1 ... *)
Definition w_chain : chain :=
  CMore None (ALit 2) Multiply (CMore (Some (Negate, false)) (AParen (COne None (ALit 3))) Add (COne None (ALit 1))).

Lemma w_chain_differs :
  zeval w_chain = (-4)%Z /\ zeval (fmt_chain w_chain) = (-5)%Z /\ render (fmt_chain w_chain) = s "2 * -3 + 1"
  /\ expr_defect w_chain = Some NegateAfterBinaryFolded.
Proof. vm_compute. repeat split; reflexivity. Qed.
