(* C12 - Retrieve into an out directory that is NOT clean, outputs that may be nested
   (Model.C12: retrieve_into / retr_into_plain / unpack1_into / ready / restore).

   Main results, for EVERY state `acc` of the out directory (another version of the outputs, anything
   else) and every list of pairwise incomparable output paths:
     - retrieve_into with the source's ensureRetrieveReady is a hit and leaves exactly `restore T outs acc`
       (dirty_plain, dirty_comp);
     - below every output, `restore` holds exactly the stored tree - whatever was there before
       (restore_outs), and it leaves everything that is neither below an output nor above one
       untouched (restore_frame);
     - after a Store (the step-list model of Proof.C12), for top-level outputs (dirty_roundtrip);
     - without the removal for nested paths (what seeded mutation r2-m2 does) stale bytes / entries
       survive (w_no_rm_compressed, w_no_rm_plain). *)
From PlzV Require Import Base.Harness Base.StrFacts Model.C12 Proof.C12.
From Coq Require Import Lia.

(* ------------------------------------------------------------------------------------------ *)
(* prefixes and parents *)

Lemma is_prefix_comparable a : forall b c, is_prefix a c = true -> is_prefix b c = true ->
  is_prefix a b = true \/ is_prefix b a = true.
Proof.
  induction a as [|x a IH]; intros b c Ha Hb; [left; reflexivity|].
  destruct b as [|y b]; [right; reflexivity|].
  destruct c as [|z c]; [discriminate|]. cbn [is_prefix] in *.
  apply andb_true_iff in Ha as [Hx Ha]. apply andb_true_iff in Hb as [Hy Hb].
  apply str_eqb_eq in Hx. apply str_eqb_eq in Hy. subst. rewrite str_eqb_refl. cbn [andb].
  eapply IH; eauto.
Qed.

Definition incomp (p q : path) : Prop := is_prefix p q = false /\ is_prefix q p = false.

Lemma incomp_disjoint p q r : incomp p q -> is_prefix p r = true -> is_prefix q r = false.
Proof.
  intros [H1 H2] Hp. destruct (is_prefix q r) eqn:Hq; [|reflexivity].
  destruct (is_prefix_comparable _ _ _ Hp Hq); congruence.
Qed.

Lemma parents_not_under p : forall q, In q (parents p) -> is_prefix p q = false.
Proof.
  induction p as [|a r IH]; intros q H; [destruct H|].
  cbn [parents] in H. destruct r as [|b r']; [destruct H|]. destruct H as [<-|H].
  - cbn [is_prefix]. apply andb_false_r.
  - apply in_map_iff in H as [q' [<- Hq']].
    change (is_prefix (a :: b :: r') (a :: q')) with (str_eqb a a && is_prefix (b :: r') q').
    rewrite (IH q' Hq'). apply andb_false_r.
Qed.

Lemma parents_above p : forall q, In q (parents p) -> is_prefix q p = true.
Proof.
  induction p as [|a r IH]; intros q H; [destruct H|].
  cbn [parents] in H. destruct r as [|b r']; [destruct H|]. destruct H as [<-|H].
  - cbn [is_prefix]. rewrite str_eqb_refl. reflexivity.
  - apply in_map_iff in H as [q' [<- Hq']]. cbn [is_prefix]. rewrite str_eqb_refl. cbn [andb]. exact (IH q' Hq').
Qed.

(* ------------------------------------------------------------------------------------------ *)
(* MkdirAll of the parents *)

Notation mkp_step := (fun (o : tree) (q : path) => if mem q o then o else o ++ [(q, D)]).

Lemma mkp_spec ps : forall out : tree,
  exists ex, fold_left mkp_step ps out = out ++ ex /\ (forall e, In e ex -> In (fst e) ps).
Proof.
  induction ps as [|q ps IH]; intros out; cbn [fold_left].
  - exists []. split; [symmetry; apply app_nil_r|intros e []].
  - destruct (mem q out).
    + destruct (IH out) as [ex [He Hin]]. exists ex. split; [exact He|]. intros e H. right. exact (Hin e H).
    + destruct (IH (out ++ [(q, D)])) as [ex [He Hin]]. exists ((q, D) :: ex). split.
      * rewrite He. rewrite <- app_assoc. reflexivity.
      * intros e [<-|H]; [left; reflexivity|right; exact (Hin e H)].
Qed.

Lemma mkp_mem ps : forall (out : tree) q, In q ps \/ mem q out = true -> mem q (fold_left mkp_step ps out) = true.
Proof.
  induction ps as [|r ps IH]; intros out q H; cbn [fold_left].
  - destruct H as [[]|H]; exact H.
  - apply IH. destruct H as [[<-|H]|H].
    + right. destruct (mem r out) eqn:Hm; [exact Hm|]. rewrite mem_app. cbn [mem existsb fst].
      rewrite path_eqb_refl. apply orb_true_r.
    + left. exact H.
    + right. destruct (mem r out); [exact H|]. rewrite mem_app, H. reflexivity.
Qed.

Lemma mk_parents_eq p (acc : tree) : mk_parents p acc = fold_left mkp_step (parents p) acc.
Proof. reflexivity. Qed.

Lemma sub_mk_parents q p (acc : tree) : is_prefix q p = false -> sub q (mk_parents p acc) = sub q acc.
Proof.
  intros Hq. rewrite mk_parents_eq. destruct (mkp_spec (parents p) acc) as [ex [-> Hin]].
  rewrite sub_app. replace (sub q ex) with (@nil (path * ent)); [apply app_nil_r|].
  symmetry. apply filter_none. intros e He. destruct (is_prefix q (fst e)) eqn:Hp; [|reflexivity].
  rewrite <- Hq. symmetry. eapply is_prefix_trans; [exact Hp|]. apply parents_above. exact (Hin e He).
Qed.

Lemma sub_drop_self {A} p (l : list (path * A)) : sub p (drop_sub p l) = [].
Proof.
  apply filter_none. intros e He. apply filter_In in He as [_ He]. apply negb_true_iff in He. exact He.
Qed.

Lemma sub_drop_other {A} p q (l : list (path * A)) : incomp p q -> sub q (drop_sub p l) = sub q l.
Proof.
  intros Hi. unfold sub, drop_sub. rewrite filter_comm. apply filter_all.
  intros e He. apply filter_In in He as [_ He]. apply negb_true_iff.
  destruct Hi as [H1 H2]. apply (incomp_disjoint q p); [split; assumption|exact He].
Qed.

Lemma mem_drop_sub {A} p q (l : list (path * A)) : is_prefix p q = false -> mem q (drop_sub p l) = mem q l.
Proof.
  intros Hq. induction l as [|[r v] l IH]; [reflexivity|]. cbn [drop_sub filter fst].
  destruct (is_prefix p r) eqn:Hr; cbn [negb].
  - cbn [mem existsb fst]. fold (drop_sub p l). fold (mem q (drop_sub p l)). fold (mem q l). rewrite IH.
    replace (path_eqb r q) with false; [reflexivity|]. symmetry. apply path_eqb_neq. intros ->. congruence.
  - cbn [mem existsb fst]. fold (drop_sub p l). fold (mem q (drop_sub p l)). fold (mem q l). rewrite IH. reflexivity.
Qed.

(* ------------------------------------------------------------------------------------------ *)
(* restore: what a retrieve must leave *)

Lemma restore1_self T acc p : sub p (restore1 T acc p) = sub p T.
Proof.
  unfold restore1. rewrite sub_app, sub_drop_self. cbn [app]. apply sub_sub. apply is_prefix_refl.
Qed.

Lemma restore1_frame T acc p q : incomp p q -> sub q (restore1 T acc p) = sub q acc.
Proof.
  intros Hi. unfold restore1. rewrite sub_app. rewrite (sub_drop_other p q _ Hi).
  rewrite sub_mk_parents by (destruct Hi; assumption).
  replace (sub q (sub p T)) with (@nil (path * ent)); [apply app_nil_r|].
  symmetry. apply filter_none. intros e He. apply filter_In in He as [_ He].
  exact (incomp_disjoint p q _ Hi He).
Qed.

(* everything that is neither below an output nor above one is left alone *)
Lemma restore_frame T outs q : Forall (fun p => incomp p q) outs ->
  forall acc, sub q (restore T outs acc) = sub q acc.
Proof.
  induction outs as [|p r IH]; intros H acc; [reflexivity|]. inversion H as [|? ? Hp Hr]; subst.
  unfold restore. cbn [fold_left]. fold (restore T r (restore1 T acc p)).
  rewrite (IH Hr). apply restore1_frame. exact Hp.
Qed.

Definition indep (outs : list path) : Prop := ForallOrdPairs incomp outs.

Lemma indepb_indep outs : indepb outs = true -> indep outs.
Proof.
  induction outs as [|p r IH]; intros H; [constructor|]. cbn [indepb] in H. apply andb_true_iff in H as [H1 H2].
  constructor; [|exact (IH H2)]. apply Forall_forall. intros q Hq.
  pose proof (proj1 (forallb_forall _ _) H1 q Hq) as Hb. apply andb_true_iff in Hb as [Ha Hb].
  apply negb_true_iff in Ha. apply negb_true_iff in Hb. split; assumption.
Qed.

(* below every output: exactly the stored tree, whatever the directory held before *)
Lemma restore_outs T outs : indep outs ->
  forall acc p, In p outs -> sub p (restore T outs acc) = sub p T.
Proof.
  induction outs as [|p0 r IH]; intros Hi acc p Hin; [destruct Hin|].
  inversion Hi as [|? ? Hp0 Hr]; subst.
  unfold restore. cbn [fold_left]. fold (restore T r (restore1 T acc p0)).
  destruct Hin as [<-|Hin].
  - rewrite restore_frame.
    + apply restore1_self.
    + eapply Forall_impl; [|exact Hp0]. intros q [H1 H2]. split; assumption.
  - apply IH; assumption.
Qed.

(* ------------------------------------------------------------------------------------------ *)
(* option folds *)

Lemma opt_fold_none {A B} (f : A -> B -> option A) l : opt_fold f l None = None.
Proof. induction l as [|x l IH]; [reflexivity|]. exact IH. Qed.

Lemma opt_fold_app {A B} (f : A -> B -> option A) l1 l2 a : opt_fold f (l1 ++ l2) a = opt_fold f l2 (opt_fold f l1 a).
Proof. unfold opt_fold. apply fold_left_app. Qed.

Lemma opt_fold_total {A B} (f : A -> B -> option A) (g : A -> B -> A) l :
  (forall a x, f a x = Some (g a x)) -> forall a, opt_fold f l (Some a) = Some (fold_left g l a).
Proof.
  intros H. induction l as [|x l IH]; intros a; [reflexivity|].
  unfold opt_fold. cbn [fold_left]. rewrite H. exact (IH (g a x)).
Qed.

(* ------------------------------------------------------------------------------------------ *)
(* well-formedness relative to another accumulator *)

Lemma wfb_from_acc X : forall acc acc', wfb_from acc X = true ->
  (forall q, mem q acc = true -> mem q acc' = true) ->
  (forall e e', In e X -> In e' acc' -> is_prefix (fst e) (fst e') = false) ->
  wfb_from acc' X = true.
Proof.
  induction X as [|[p x] X IH]; intros acc acc' H Hm Hf; [reflexivity|].
  pose proof H as H0. cbn [wfb_from] in H. apply andb_true_iff in H as [H H3]. apply andb_true_iff in H as [H1 _].
  cbn [wfb_from]. apply andb_true_iff. split; [apply andb_true_iff; split|].
  - apply forallb_forall. intros q Hq. apply Hm. exact (proj1 (forallb_forall _ _) H1 q Hq).
  - apply negb_true_iff. destruct (existsb (fun e' => is_prefix p (fst e')) acc') eqn:He; [|reflexivity].
    apply existsb_exists in He as [e' [He' Hp]]. pose proof (Hf (p, x) e' (or_introl eq_refl) He') as Hff. cbn [fst] in Hff. congruence.
  - apply (IH (acc ++ [(p, x)])); [exact H3| |].
    + intros q. rewrite !mem_app. intros Hq. apply orb_true_iff in Hq as [Hq|Hq].
      * rewrite (Hm q Hq). reflexivity.
      * rewrite Hq. apply orb_true_r.
    + intros e e' He He'. apply in_app_or in He' as [He'|[<-|[]]].
      * apply Hf; [right; exact He|exact He'].
      * apply (wfb_from_fresh _ _ H3 e (p, x) He). apply in_or_app. right. left. reflexivity.
Qed.

Lemma mem_pars p q : mem q (pars p) = true -> In q (parents p).
Proof.
  intros H. apply mem_in in H as [v Hv]. unfold pars in Hv. apply in_map_iff in Hv as [q' [Heq Hq']].
  inversion Heq; subst. exact Hq'.
Qed.

(* the tree of one output: the root first, then walk order below it *)
Definition tree_ok (p : path) (X : tree) : Prop :=
  (exists e0 rest, X = (p, e0) :: rest) /\ wfb_from (pars p) X = true /\ (forall e, In e X -> is_prefix p (fst e) = true).

Lemma trees_okb_ok T outs : trees_okb T outs = true -> forall p, In p outs -> tree_ok p (sub p T).
Proof.
  intros H p Hp. pose proof (proj1 (forallb_forall _ _) H p Hp) as Hb.
  apply andb_true_iff in Hb as [Hr Hw]. split; [|split].
  - unfold rootb in Hr. destruct (sub p T) as [|[q e0] rest]; [discriminate|].
    apply path_eqb_eq in Hr. subst q. eauto.
  - exact Hw.
  - intros e He. apply filter_In in He. tauto.
Qed.

(* the state after ensureRetrieveReady(p): parents there, nothing below p *)
Definition cleared (p : path) (acc : tree) : tree := drop_sub p (mk_parents p acc).

Lemma ready_src p out : ready (pick p src_opsN src_opsT) p out = cleared p out.
Proof.
  unfold pick, cleared. destruct p as [|a [|b p]]; cbn [nested src_opsN src_opsT ready fold_left ready_op]; try reflexivity.
Qed.

Lemma cleared_wf p e0 rest acc : tree_ok p ((p, e0) :: rest) -> wfb_from (cleared p acc ++ [(p, e0)]) rest = true.
Proof.
  intros [_ [Hw Hu]]. cbn [wfb_from] in Hw. apply andb_true_iff in Hw as [_ Hw].
  apply (wfb_from_acc rest (pars p ++ [(p, e0)])); [exact Hw| |].
  - intros q. rewrite !mem_app. intros Hq. apply orb_true_iff in Hq as [Hq|Hq].
    + apply mem_pars in Hq. unfold cleared. rewrite mem_drop_sub by (apply parents_not_under; exact Hq).
      rewrite mk_parents_eq. rewrite mkp_mem by (left; exact Hq). reflexivity.
    + rewrite Hq. apply orb_true_r.
  - intros e e' He He'. apply in_app_or in He' as [He'|[<-|[]]].
    + unfold cleared in He'. apply filter_In in He' as [_ He']. apply negb_true_iff in He'.
      destruct (is_prefix (fst e) (fst e')) eqn:Hp; [|reflexivity].
      rewrite <- He'. symmetry. eapply is_prefix_trans; [|exact Hp]. apply Hu. right. exact He.
    + apply (wfb_from_fresh _ _ Hw e (p, e0) He). apply in_or_app. right. left. reflexivity.
Qed.

(* ------------------------------------------------------------------------------------------ *)
(* one output, uncompressed *)

Lemma place_p_all X : forall acc, (forall e, In e X -> mem (fst e) acc = false) -> NoDup (map fst X) ->
  opt_fold place_p X (Some acc) = Some (acc ++ X).
Proof.
  induction X as [|x X IH]; intros acc Hm Hnd; [cbn; rewrite app_nil_r; reflexivity|].
  unfold opt_fold. cbn [fold_left]. fold (opt_fold place_p X (place_p acc x)).
  assert (place_p acc x = Some (acc ++ [x])) as ->.
  { unfold place_p. rewrite (proj1 (mem_lookup _ _) (Hm x (or_introl eq_refl))). reflexivity. }
  inversion Hnd as [|? ? Hnotin Hnd']; subst. rewrite IH.
  - rewrite <- app_assoc. reflexivity.
  - intros e He. rewrite mem_app. rewrite (Hm e (or_intror He)). cbn [orb mem existsb fst].
    rewrite orb_false_r. apply path_eqb_neq. intros Heq. apply Hnotin. rewrite Heq. apply in_map. exact He.
  - exact Hnd'.
Qed.

Lemma plain_one p X acc : tree_ok p X -> opt_fold place_p X (Some (cleared p acc)) = Some (cleared p acc ++ X).
Proof.
  intros [_ [Hw Hu]]. apply place_p_all.
  - intros e He. apply (mem_sub_nil p); [apply Hu; exact He|]. unfold cleared. apply sub_drop_self.
  - eapply wfb_from_nodup; eauto.
Qed.

(* ------------------------------------------------------------------------------------------ *)
(* one output, compressed *)

Lemma lookup_cleared p (acc : tree) : lookup p (cleared p acc) = None.
Proof. apply (lookup_nil_sub p p); [apply is_prefix_refl|]. unfold cleared. apply sub_drop_self. Qed.

Lemma unpack1_into_src tr out e : unpack1_into tr src_opsN src_opsT out e = Some (unpack1 out e).
Proof.
  unfold unpack1_into. rewrite ready_src. unfold place_c. rewrite lookup_cleared. reflexivity.
Qed.

Lemma comp_one p X acc : tree_ok p X -> fold_left unpack1 X acc = cleared p acc ++ X.
Proof.
  intros Hok. destruct (proj1 Hok) as [e0 [rest ->]]. cbn [fold_left].
  change (unpack1 acc (p, e0)) with (cleared p acc ++ [(p, e0)]).
  rewrite (unpack_all rest _ (cleared_wf p e0 rest acc Hok)). rewrite <- app_assoc. reflexivity.
Qed.

(* ------------------------------------------------------------------------------------------ *)
(* all outputs *)

Definition entry_holds (c : bool) (st : fs) (outs : list path) (T : tree) : Prop :=
  if c then lookup [kK] st = Some (Tar (packp T outs))
  else lookup [kK] st <> None /\ forall p, In p outs -> sub (kK :: p) st = map (inj [kK]) (sub p T).

Lemma plain_all st T outs :
  (forall p, In p outs -> sub (kK :: p) st = map (inj [kK]) (sub p T)) ->
  (forall p, In p outs -> tree_ok p (sub p T)) ->
  forall acc, retr_into_plain src_opsN src_opsT st outs acc = Some (restore T outs acc).
Proof.
  induction outs as [|p r IH]; intros Hs Hok acc; [reflexivity|].
  cbn [retr_into_plain]. rewrite ready_src.
  pose proof (Hok p (or_introl eq_refl)) as Hp. destruct (proj1 Hp) as [e0 [rest HX]].
  rewrite <- (lookup_sub (kK :: p) (kK :: p) st (is_prefix_refl _)).
  rewrite (Hs p (or_introl eq_refl)).
  assert (lookup (kK :: p) (map (inj [kK]) (sub p T)) = Some (E e0)) as ->.
  { rewrite HX. cbn [map inj fst snd app lookup]. rewrite path_eqb_refl. reflexivity. }
  rewrite strip_ents_inj. rewrite (plain_one p _ acc Hp).
  unfold restore. cbn [fold_left]. fold (restore T r (restore1 T acc p)).
  apply IH.
  - intros q Hq. apply Hs. right. exact Hq.
  - intros q Hq. apply Hok. right. exact Hq.
Qed.

Lemma comp_all T outs : (forall p, In p outs -> tree_ok p (sub p T)) ->
  forall acc, fold_left unpack1 (packp T outs) acc = restore T outs acc.
Proof.
  induction outs as [|p r IH]; intros Hok acc; [reflexivity|].
  cbn [packp flat_map]. rewrite fold_left_app. rewrite (comp_one p _ acc (Hok p (or_introl eq_refl))).
  unfold restore. cbn [fold_left]. fold (restore T r (restore1 T acc p)).
  apply (IH (fun q Hq => Hok q (or_intror Hq))).
Qed.

Lemma dirty_exact c tr st outs T : outs <> [] -> entry_holds c st outs T ->
  (forall p, In p outs -> tree_ok p (sub p T)) ->
  forall out0, retrieve_into c tr src_opsN src_opsT st outs out0 = Some (restore T outs out0).
Proof.
  intros Hne He Hok out0. unfold retrieve_into. destruct c; cbn [entry_holds] in He.
  - rewrite He. destruct outs as [|p r]; [congruence|].
    rewrite (opt_fold_total _ unpack1 _ (unpack1_into_src tr)). f_equal. apply comp_all. exact Hok.
  - destruct He as [Hk Hs]. destruct (lookup [kK] st); [|congruence].
    destruct outs as [|p r]; [congruence|]. apply plain_all; assumption.
Qed.

(* The theorem: a retrieve of stored trees into ANY out directory is a hit, below every output it
   leaves exactly the stored tree, and it leaves alone whatever is neither below nor above an output. *)
Lemma dirty_holds c tr st outs T out0 :
  outs <> [] -> indepb outs = true -> trees_okb T outs = true -> entry_holds c st outs T ->
  exists r, retrieve_into c tr src_opsN src_opsT st outs out0 = Some r
    /\ (forall p, In p outs -> sub p r = sub p T)
    /\ (forall q, Forall (fun p => incomp p q) outs -> sub q r = sub q out0).
Proof.
  intros Hne Hi Hok He. exists (restore T outs out0). split; [|split].
  - apply dirty_exact; [exact Hne|exact He|]. apply trees_okb_ok. exact Hok.
  - intros p Hp. apply restore_outs; [apply indepb_indep; exact Hi|exact Hp].
  - intros q Hq. apply restore_frame. exact Hq.
Qed.

(* ------------------------------------------------------------------------------------------ *)
(* after a Store (top-level outputs: the step-list model of Store) *)

Notation rp := (reprefix [kT] [kK]).

Lemma store_plain_entry order st outs src :
  wfb (pack src outs) = true -> NoDup outs -> outs <> [] -> all_present src outs = true ->
  entry_holds false (run (store_steps false order st outs src) st) (map (fun o => [o]) outs) src.
Proof.
  intros Hwf Hnd Hne Hp. cbn [store_steps entry_holds]. unfold store_plain. rewrite !run_app.
  set (st1 := run (rm_steps order [kK] st) st).
  assert (sub [kK] st1 = []) as HK1 by apply rm_steps_clears.
  destruct (outs_steps_spec order src outs st1 [] Hp Hnd Hwf) as [Hsub Hmem].
  set (st2 := run (outs_steps order src st1 outs) st1) in *.
  assert (sub [kK] st2 = []) as HK2.
  { unfold st2. rewrite sub_run_off; [exact HK1|]. eapply Forall_under_off; [|apply outs_steps_under]. apply prefix_KT_not_K. }
  specialize (Hmem Hne). cbn [run fold_left]. rewrite (rename_final st2 HK2 Hmem). split.
  - apply mem_true_lookup. apply mem_in in Hmem as [v Hv]. apply mem_in. exists v.
    change ([kK], v) with (rp ([kT], v)). apply in_map. exact Hv.
  - intros p Hin. apply in_map_iff in Hin as [o [<- Hin]].
    rewrite (sub_reprefix [o] st2 HK2). rewrite (Hsub o Hin).
    rewrite map_map. apply map_ext. intros e. apply rp_inj.
Qed.

Lemma packp_top src outs : packp src (map (fun o => [o]) outs) = pack src outs.
Proof. unfold packp, pack. rewrite flat_map_concat_map, map_map, <- flat_map_concat_map. reflexivity. Qed.

Lemma store_comp_entry order st outs src :
  outs <> [] -> all_present src outs = true ->
  entry_holds true (run (store_steps true order st outs src) st) (map (fun o => [o]) outs) src.
Proof.
  intros Hne Hp. cbn [store_steps entry_holds]. rewrite packp_top. unfold store_comp. rewrite Hp. rewrite !run_app.
  set (st1 := run (rm_steps order [kK] st) st).
  assert (sub [kK] st1 = []) as HK1 by apply rm_steps_clears.
  set (s2 := run (rm_steps order [kT] st1) st1).
  assert (sub [kT] s2 = []) as HT2 by apply rm_steps_clears.
  assert (sub [kK] s2 = []) as HK2.
  { unfold s2. rewrite sub_run_off; [exact HK1|]. eapply Forall_under_off; [|apply rm_steps_under]. apply prefix_KT_not_K. }
  pose proof (mem_sub_nil [kT] [kT] s2 (is_prefix_refl _) HT2) as HmT.
  assert (run [SAdd [kT] (Tar (pack src outs))] (run [SAdd [kT] Junk] s2) = s2 ++ [([kT], Tar (pack src outs))]) as ->.
  { cbn [run fold_left exec]. rewrite (remove_absent _ _ HmT). rewrite remove_app, (remove_absent _ _ HmT).
    cbn [remove filter fst]. rewrite path_eqb_refl. cbn [negb app]. rewrite app_nil_r. reflexivity. }
  set (st2 := s2 ++ [([kT], Tar (pack src outs))]).
  assert (sub [kK] st2 = []) as HK3. { unfold st2. rewrite sub_app, HK2. reflexivity. }
  assert (sub [kT] st2 = [([kT], Tar (pack src outs))]) as HT3.
  { unfold st2. rewrite sub_app, HT2. cbn [sub filter fst app]. rewrite is_prefix_refl. reflexivity. }
  assert (mem [kT] st2 = true) as HmT2.
  { unfold st2. rewrite mem_app. cbn [mem existsb fst]. rewrite path_eqb_refl. apply orb_true_r. }
  change (run [SRename [kT] [kK]] st2) with (exec st2 (SRename [kT] [kK])).
  rewrite (rename_final st2 HK3 HmT2).
  rewrite <- (lookup_sub [kK] [kK] (map rp st2) (is_prefix_refl _)).
  rewrite (sub_reprefix [] st2 HK3), HT3. cbn [map]. unfold reprefix; cbn [fst snd is_prefix].
  rewrite str_eqb_refl. cbn [andb app length skipn lookup]. rewrite path_eqb_refl. reflexivity.
Qed.

Definition tops (outs : list str) : list path := map (fun o => [o]) outs.

(* Store, then Retrieve into an out directory in ANY state *)
Lemma dirty_roundtrip c tr order st outs src out0 :
  inputs_ok c st outs src -> trees_okb src (tops outs) = true ->
  exists r, retrieve_into c tr src_opsN src_opsT (run (store_steps c order st outs src) st) (tops outs) out0 = Some r
    /\ (forall o, In o outs -> sub [o] r = sub [o] src)
    /\ (forall q, Forall (fun o => incomp [o] q) outs -> sub q r = sub q out0).
Proof.
  intros [Hwf [Hnd [Hne [Hp _]]]] Hok.
  assert (indep (tops outs)) as Hi.
  { unfold tops. clear -Hnd. induction Hnd as [|o r Hnotin Hnd IH]; [constructor|]. cbn [map]. constructor; [|exact IH].
    apply Forall_forall. intros q Hq. apply in_map_iff in Hq as [o' [<- Ho']].
    assert (o <> o') as Hne by (intros ->; contradiction).
    split; cbn [is_prefix]; rewrite andb_true_r; apply str_eqb_neq; [exact Hne|intros Heq; apply Hne; symmetry; exact Heq]. }
  assert (tops outs <> []) as Hne'. { destruct outs; [congruence|discriminate]. }
  exists (restore src (tops outs) out0). split; [|split].
  - apply dirty_exact; [exact Hne'| |apply trees_okb_ok; exact Hok].
    destruct c; [apply store_comp_entry|apply store_plain_entry]; assumption.
  - intros o Ho. apply restore_outs; [exact Hi|]. unfold tops. apply in_map_iff. exists o. split; [reflexivity|exact Ho].
  - intros q Hq. apply restore_frame. unfold tops. apply Forall_forall. intros p Hp'.
    apply in_map_iff in Hp' as [o [<- Ho]]. exact (proj1 (Forall_forall _ _) Hq o Ho).
Qed.

(* ------------------------------------------------------------------------------------------ *)
(* why the removal matters: ensureRetrieveReady without RemoveAll for paths that contain a '/'
   (seeded mutation r2-m2) - a compressed retrieve keeps the stale tail and mode of a longer file and
   the stale entries of a nested directory; an uncompressed one keeps stale directory entries *)
Definition w_T : tree := [([s "sub"; s "n"], F (s "v1") false); ([s "sub"; s "t"], D); ([s "sub"; s "t"; s "a"], F (s "A") false)].
Definition w_douts : list path := [[s "sub"; s "n"]; [s "sub"; s "t"]].
Definition w_stale : tree := [([s "sub"], D); ([s "sub"; s "n"], F (s "longer v2") true); ([s "sub"; s "t"], D);
                              ([s "sub"; s "t"; s "stale"], F (s "S") false)].
Definition w_entry (c : bool) : fs :=
  if c then [([kK], Tar (packp w_T w_douts))]
  else [([kK], E D); ([kK; s "sub"], E D); ([kK; s "sub"; s "n"], E (F (s "v1") false)); ([kK; s "sub"; s "t"], E D);
        ([kK; s "sub"; s "t"; s "a"], E (F (s "A") false))].

Lemma w_no_rm_compressed :
  retrieve_into true false [OMkdirParent] src_opsT (w_entry true) w_douts w_stale
  = Some [([s "sub"], D); ([s "sub"; s "t"], D); ([s "sub"; s "t"; s "stale"], F (s "S") false);
          ([s "sub"; s "n"], F (s "v1nger v2") true); ([s "sub"; s "t"; s "a"], F (s "A") false)].
Proof. vm_compute. reflexivity. Qed.

Lemma w_no_rm_plain :
  retrieve_into false false [OMkdirParent] src_opsT (w_entry false) w_douts w_stale
  = Some [([s "sub"], D); ([s "sub"; s "t"], D); ([s "sub"; s "t"; s "stale"], F (s "S") false);
          ([s "sub"; s "n"], F (s "v1") false); ([s "sub"; s "t"; s "a"], F (s "A") false)].
Proof. vm_compute. reflexivity. Qed.

Lemma w_with_rm c :
  entry_holds c (w_entry c) w_douts w_T /\ trees_okb w_T w_douts = true /\ indepb w_douts = true
  /\ retrieve_into c false src_opsN src_opsT (w_entry c) w_douts w_stale
     = Some [([s "sub"], D); ([s "sub"; s "n"], F (s "v1") false); ([s "sub"; s "t"], D); ([s "sub"; s "t"; s "a"], F (s "A") false)].
Proof.
  destruct c; (split; [|split; [|split]]); try (vm_compute; reflexivity).
  split; [vm_compute; discriminate|]. intros p [<-|[<-|[]]]; vm_compute; reflexivity.
Qed.
