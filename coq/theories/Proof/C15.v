(* C15 - proofs, part 1: the critical sections of the awaitable map.
   - facts about association lists (Go maps);
   - wf: the invariant of the shard state (channels, placeholders, closed set);
   - R: the abstraction relation to the sequential specification, and the forward simulation of
     every atomic operation (sim_prim), lifted to the API wrappers (sim_api) and to operation lists. *)
From PlzV Require Import Base.Harness Model.C15.
From Coq Require Import Lia Permutation.

(* ---------- association lists ---------- *)
Lemma afind_aset_eq : forall A k (a : A) l, afind k (aset k a l) = Some a.
Proof.
  intros A k a l; induction l as [|[k' a'] r IH]; cbn [aset afind].
  - now rewrite N.eqb_refl.
  - destruct (N.eqb_spec k k') as [E|E]; cbn [afind].
    + subst; now rewrite N.eqb_refl.
    + destruct (N.eqb_spec k k'); [contradiction|exact IH].
Qed.

Lemma afind_aset_neq : forall A k k' (a : A) l, k' <> k -> afind k' (aset k a l) = afind k' l.
Proof.
  intros A k k' a l Hne; induction l as [|[k2 a2] r IH]; cbn [aset afind].
  - destruct (N.eqb_spec k' k); [contradiction|reflexivity].
  - destruct (N.eqb_spec k k2) as [E|E]; cbn [afind].
    + subst k2. destruct (N.eqb_spec k' k); [contradiction|reflexivity].
    + destruct (N.eqb_spec k' k2); [reflexivity|exact IH].
Qed.

Lemma afind_None_notin : forall A k (l : list (key * A)), afind k l = None -> ~ In k (map fst l).
Proof.
  intros A k l; induction l as [|[k' a'] r IH]; cbn [afind map fst In]; [tauto|].
  destruct (N.eqb_spec k k'); [discriminate|]. intros H [E|E]; [congruence|exact (IH H E)].
Qed.

Lemma afind_Some_in : forall A k (a : A) l, afind k l = Some a -> In (k, a) l.
Proof.
  intros A k a l; induction l as [|[k' a'] r IH]; cbn [afind In]; [discriminate|].
  destruct (N.eqb_spec k k') as [E|E].
  - intros H; inversion H; subst; now left.
  - intros H; right; exact (IH H).
Qed.

Lemma in_afind : forall A k (a : A) l, NoDup (map fst l) -> In (k, a) l -> afind k l = Some a.
Proof.
  intros A k a l; induction l as [|[k' a'] r IH]; cbn [afind In map fst]; [tauto|].
  intros Hnd [E|E].
  - inversion E; subst. now rewrite N.eqb_refl.
  - inversion Hnd as [|? ? Hni Hnd']; subst.
    destruct (N.eqb_spec k k') as [E2|E2].
    + subst k'. exfalso; apply Hni. change k with (fst (k, a)). now apply in_map.
    + now apply IH.
Qed.

Lemma keys_aset_present : forall A k (a a0 : A) l, afind k l = Some a0 -> map fst (aset k a l) = map fst l.
Proof.
  intros A k a a0 l; induction l as [|[k' a'] r IH]; cbn [afind aset map fst]; [discriminate|].
  destruct (N.eqb_spec k k') as [E|E]; cbn [map fst]; [reflexivity|].
  intros H; now rewrite (IH H).
Qed.

Lemma keys_aset_absent : forall A k (a : A) l, afind k l = None -> map fst (aset k a l) = map fst l ++ [k].
Proof.
  intros A k a l; induction l as [|[k' a'] r IH]; cbn [afind aset map fst app]; [reflexivity|].
  destruct (N.eqb_spec k k') as [E|E]; [discriminate|]. cbn [map fst].
  intros H; now rewrite (IH H).
Qed.

Lemma nodup_aset : forall A k (a : A) l, NoDup (map fst l) -> NoDup (map fst (aset k a l)).
Proof.
  intros A k a l Hnd. destruct (afind k l) as [a0|] eqn:E.
  - now rewrite (keys_aset_present _ _ _ _ _ E).
  - rewrite (keys_aset_absent _ _ _ _ E).
    apply NoDup_rev in Hnd. rewrite <- (rev_involutive (map fst l ++ [k])).
    apply NoDup_rev. rewrite rev_app_distr. cbn [rev app]. constructor; [|exact Hnd].
    rewrite <- in_rev. now apply afind_None_notin.
Qed.

Lemma cmem_true : forall c l, cmem c l = true <-> In c l.
Proof.
  intros c l; unfold cmem; rewrite existsb_exists; split.
  - intros [x [Hin Hx]]. apply N.eqb_eq in Hx. now subst.
  - intros Hin; exists c; split; [exact Hin|apply N.eqb_refl].
Qed.

Lemma cmem_cons : forall c c0 l, cmem c (c0 :: l) = N.eqb c c0 || cmem c l.
Proof. reflexivity. Qed.

Lemma Permutation_filter' : forall A (f : A -> bool) l l', Permutation l l' -> Permutation (filter f l) (filter f l').
Proof.
  intros A f l l' H; induction H as [|x l l' H IH|x y l|l l' l'' H1 IH1 H2 IH2]; cbn [filter].
  - constructor.
  - destruct (f x); [now constructor|exact IH].
  - destruct (f x), (f y); try apply Permutation_refl. apply perm_swap.
  - now transitivity (filter f l').
Qed.

Section Cmap.
Variable V : Type.
Variable zero : V.
Variable has_err : V -> bool.
Variable sh : key -> N.

Notation state := (state V).
Notation sstate := (sstate V).
Notation prim := (prim V).
Notation pres := (pres V).
Notation sec_prim := (sec_prim V zero sh).
Notation spec_prim := (spec_prim V zero sh).

(* ---------- the state invariant ---------- *)
Definition added (k : key) (s : state) : Prop := exists v, afind k (tbl s) = Some (Val v).

Record wf (s : state) : Prop := mkWf {
  wf_nodup : NoDup (map fst (tbl s));
  wf_next : forall c k, In (c, k) (alloc s) -> (c < next s)%N;
  (* a channel made for k: either k still holds that very channel and it is open, or k has been
     added and the channel is closed *)
  wf_alloc : forall c k, In (c, k) (alloc s) ->
      (afind k (tbl s) = Some (Waiting c) /\ cmem c (closed s) = false)
      \/ (added k s /\ cmem c (closed s) = true);
  wf_wait : forall k c, afind k (tbl s) = Some (Waiting c) -> In (c, k) (alloc s);
  wf_closed : forall c, cmem c (closed s) = true -> exists k, In (c, k) (alloc s);
  wf_chan_key : forall c k k', In (c, k) (alloc s) -> In (c, k') (alloc s) -> k = k';
  wf_key_chan : forall c c' k, In (c, k) (alloc s) -> In (c', k) (alloc s) -> c = c'
}.

Lemma wf_init : wf (init V).
Proof.
  constructor; cbn; try tauto; try constructor; intros; try discriminate.
Qed.

(* the three ways a section changes the state *)
Definition st_put (k : key) (v : V) (s : state) : state :=
  mkState (aset k (Val v) (tbl s)) (closed s) (next s) (alloc s).
Definition st_fill (k : key) (v : V) (c : chan) (s : state) : state :=
  mkState (aset k (Val v) (tbl s)) (c :: closed s) (next s) (alloc s).
Definition st_wait (k : key) (s : state) : state :=
  mkState (aset k (Waiting (next s)) (tbl s)) (closed s) (N.succ (next s)) ((next s, k) :: alloc s).

Lemma alloc_present : forall s c k, wf s -> In (c, k) (alloc s) -> afind k (tbl s) <> None.
Proof.
  intros s c k W Hin. destruct (wf_alloc s W c k Hin) as [[H _]|[[v H] _]]; congruence.
Qed.

Lemma wf_put : forall s k v, wf s -> afind k (tbl s) = None \/ added k s -> wf (st_put k v s).
Proof.
  intros s k v W Hk. constructor; cbn [st_put tbl closed next alloc].
  - apply nodup_aset, (wf_nodup s W).
  - exact (wf_next s W).
  - intros c k' Hin. destruct (N.eq_dec k' k) as [E|E].
    + subst k'. right. destruct (wf_alloc s W c k Hin) as [[Hw _]|[_ Hc]].
      * exfalso. destruct Hk as [Hk|[v0 Hk]]; congruence.
      * split; [exists v; cbn; apply afind_aset_eq|exact Hc].
    + unfold added; cbn [tbl st_put st_fill st_wait]. rewrite afind_aset_neq by exact E.
      exact (wf_alloc s W c k' Hin).
  - intros k' c. destruct (N.eq_dec k' k) as [E|E].
    + subst k'. rewrite afind_aset_eq. discriminate.
    + rewrite afind_aset_neq by exact E. apply (wf_wait s W).
  - exact (wf_closed s W).
  - exact (wf_chan_key s W).
  - exact (wf_key_chan s W).
Qed.

Lemma wf_fill : forall s k v c, wf s -> afind k (tbl s) = Some (Waiting c) -> wf (st_fill k v c s).
Proof.
  intros s k v c W Hk. pose proof (wf_wait s W k c Hk) as Hck.
  constructor; cbn [st_fill tbl closed next alloc].
  - apply nodup_aset, (wf_nodup s W).
  - exact (wf_next s W).
  - intros c' k' Hin. rewrite cmem_cons. destruct (N.eq_dec k' k) as [E|E].
    + subst k'. right. split; [exists v; cbn; apply afind_aset_eq|].
      rewrite (wf_key_chan s W c' c k Hin Hck), N.eqb_refl. reflexivity.
    + unfold added; cbn [tbl st_put st_fill st_wait]. rewrite afind_aset_neq by exact E.
      destruct (N.eqb_spec c' c) as [Ec|Ec].
      * subst c'. exfalso; apply E. exact (wf_chan_key s W c k' k Hin Hck).
      * cbn [orb]. exact (wf_alloc s W c' k' Hin).
  - intros k' c'. destruct (N.eq_dec k' k) as [E|E].
    + subst k'. rewrite afind_aset_eq. discriminate.
    + rewrite afind_aset_neq by exact E. apply (wf_wait s W).
  - intros c'. rewrite cmem_cons. destruct (N.eqb_spec c' c) as [Ec|Ec].
    + subst c'. intros _. now exists k.
    + cbn [orb]. apply (wf_closed s W).
  - exact (wf_chan_key s W).
  - exact (wf_key_chan s W).
Qed.

Lemma next_open : forall s, wf s -> cmem (next s) (closed s) = false.
Proof.
  intros s W. destruct (cmem (next s) (closed s)) eqn:E; [|reflexivity].
  destruct (wf_closed s W _ E) as [k Hin]. pose proof (wf_next s W _ _ Hin). lia.
Qed.

Lemma wf_wait_new : forall s k, wf s -> afind k (tbl s) = None -> wf (st_wait k s).
Proof.
  intros s k W Hk. constructor; cbn [st_wait tbl closed next alloc].
  - apply nodup_aset, (wf_nodup s W).
  - intros c k' [E|Hin]; [inversion E; lia|]. pose proof (wf_next s W _ _ Hin). lia.
  - intros c k' [E|Hin].
    + inversion E; subst. left. split; [apply afind_aset_eq|apply next_open, W].
    + assert (k' <> k) as Hne by (intros ->; exact (alloc_present s c k W Hin Hk)).
      unfold added; cbn [tbl st_put st_fill st_wait]. rewrite afind_aset_neq by exact Hne. exact (wf_alloc s W c k' Hin).
  - intros k' c. destruct (N.eq_dec k' k) as [E|E].
    + subst k'. rewrite afind_aset_eq. intros H; inversion H. now left.
    + rewrite afind_aset_neq by exact E. intros H. right. exact (wf_wait s W _ _ H).
  - intros c Hc. destruct (wf_closed s W c Hc) as [k' Hin]. exists k'. now right.
  - intros c k1 k2 [E1|H1] [E2|H2].
    + congruence.
    + inversion E1; subst. pose proof (wf_next s W _ _ H2). lia.
    + inversion E2; subst. pose proof (wf_next s W _ _ H1). lia.
    + exact (wf_chan_key s W c k1 k2 H1 H2).
  - intros c c' k1 [E1|H1] [E2|H2].
    + congruence.
    + inversion E1; subst k1. exfalso. exact (alloc_present s c' k W H2 Hk).
    + inversion E2; subst k1. exfalso. exact (alloc_present s c k W H1 Hk).
    + exact (wf_key_chan s W c c' k1 H1 H2).
Qed.

(* every atomic operation is the identity or one of the three changes *)
Inductive change (s : state) : state -> Prop :=
| ch_same : change s s
| ch_put k v : afind k (tbl s) = None \/ added k s -> change s (st_put k v s)
| ch_fill k v c : afind k (tbl s) = Some (Waiting c) -> change s (st_fill k v c s)
| ch_wait k : afind k (tbl s) = None -> change s (st_wait k s).

Lemma sec_set_change : forall k v ow s, change s (fst (sec_set V k v ow s)).
Proof.
  intros k v ow s. unfold sec_set. destruct (afind k (tbl s)) as [[v0|c]|] eqn:E.
  - destruct ow; cbn [negb fst]; [|constructor]. apply (ch_put s k v). right. now exists v0.
  - apply (ch_fill s k v c E).
  - apply (ch_put s k v). now left.
Qed.

Lemma sec_lazyset_change : forall k v s, change s (fst (sec_lazyset V k v s)).
Proof.
  intros k v s. unfold sec_lazyset. destruct (afind k (tbl s)) as [[v0|c]|] eqn:E.
  - constructor.
  - apply (ch_fill s k v c E).
  - apply (ch_put s k v). now left.
Qed.

Lemma sec_get_slow_change : forall k s, change s (fst (sec_get_slow V zero k s)).
Proof.
  intros k s. unfold sec_get_slow. destruct (afind k (tbl s)) as [e|] eqn:E.
  - constructor.
  - apply (ch_wait s k E).
Qed.

Lemma sec_prim_change : forall p s, change s (fst (sec_prim p s)).
Proof.
  intros [k v ow|k v|k|k|i] s; cbn [C15.sec_prim].
  - pose proof (sec_set_change k v ow s) as H. destruct (sec_set V k v ow s). exact H.
  - pose proof (sec_lazyset_change k v s) as H. destruct (sec_lazyset V k v s). exact H.
  - destruct (sec_get_fast V zero k s); [constructor|].
    pose proof (sec_get_slow_change k s) as H. destruct (sec_get_slow V zero k s). exact H.
  - constructor.
  - constructor.
Qed.

Lemma change_wf : forall s s', wf s -> change s s' -> wf s'.
Proof.
  intros s s' W C; destruct C.
  - exact W.
  - now apply wf_put.
  - now apply wf_fill.
  - now apply wf_wait_new.
Qed.

Lemma sec_prim_wf : forall p s, wf s -> wf (fst (sec_prim p s)).
Proof. intros p s W. exact (change_wf _ _ W (sec_prim_change p s)). Qed.

(* what a change can do: alloc and closed only grow, an added key stays added *)
Lemma change_alloc_mono : forall s s' c k, change s s' -> In (c, k) (alloc s) -> In (c, k) (alloc s').
Proof. intros s s' c k C H; destruct C; cbn; auto. Qed.

Lemma change_closed_mono : forall s s' c, change s s' -> cmem c (closed s) = true -> cmem c (closed s') = true.
Proof.
  intros s s' c C H; destruct C; cbn [st_put st_fill st_wait closed]; auto.
  rewrite cmem_cons, H. apply orb_true_r.
Qed.

Lemma change_added_mono : forall s s' k, change s s' -> added k s -> added k s'.
Proof.
  intros s s' k C [v H]; destruct C as [|k0 v0 _|k0 v0 c0 Hw|k0 Hn]; unfold added; cbn [st_put st_fill st_wait tbl].
  - now exists v.
  - destruct (N.eq_dec k k0) as [E|E]; [subst; exists v0; apply afind_aset_eq|].
    exists v. now rewrite afind_aset_neq.
  - destruct (N.eq_dec k k0) as [E|E]; [subst; exists v0; apply afind_aset_eq|].
    exists v. now rewrite afind_aset_neq.
  - destruct (N.eq_dec k k0) as [E|E]; [subst; congruence|].
    exists v. now rewrite afind_aset_neq.
Qed.

(* consequences of wf *)
Lemma closed_iff_added : forall s c, wf s ->
  (cmem c (closed s) = true <-> exists k, In (c, k) (alloc s) /\ added k s).
Proof.
  intros s c W; split.
  - intros Hc. destruct (wf_closed s W c Hc) as [k Hin]. exists k. split; [exact Hin|].
    destruct (wf_alloc s W c k Hin) as [[_ Ho]|[Ha _]]; [congruence|exact Ha].
  - intros [k [Hin [v Ha]]]. destruct (wf_alloc s W c k Hin) as [[Hw _]|[_ Hc]]; [congruence|exact Hc].
Qed.

Lemma no_lost_wakeup : forall s c k, wf s -> In (c, k) (alloc s) -> added k s -> cmem c (closed s) = true.
Proof.
  intros s c k W Hin [v Ha]. destruct (wf_alloc s W c k Hin) as [[Hw _]|[_ Hc]]; [congruence|exact Hc].
Qed.

Lemma not_before_added : forall s c k, wf s -> In (c, k) (alloc s) -> cmem c (closed s) = true -> added k s.
Proof.
  intros s c k W Hin Hc. destruct (wf_alloc s W c k Hin) as [[_ Ho]|[Ha _]]; [congruence|exact Ha].
Qed.

(* no spurious wake-up: a step closes a channel only by adding the key the channel was made for *)
Lemma change_closes : forall s s' c, wf s -> change s s' ->
  cmem c (closed s) = false -> cmem c (closed s') = true ->
  exists k, In (c, k) (alloc s) /\ ~ added k s /\ added k s'.
Proof.
  intros s s' c W C Ho Hc; destruct C as [|k0 v0 _|k0 v0 c0 Hw|k0 _]; cbn [st_put st_fill st_wait closed] in Hc; try congruence.
  rewrite cmem_cons, Ho, orb_false_r in Hc. apply N.eqb_eq in Hc. subst c0.
  exists k0. split; [now apply (wf_wait s W)|]. split.
  - intros [v Hv]. congruence.
  - exists v0. cbn [st_fill tbl]. apply afind_aset_eq.
Qed.

(* a value, once added, is only changed by an overwriting Set of that key *)
Lemma prim_value_stable : forall p s k v, afind k (tbl s) = Some (Val v) ->
  afind k (tbl (fst (sec_prim p s))) = Some (Val v) \/ exists v', p = PSet k v' true.
Proof.
  intros [k0 v0 ow|k0 v0|k0|k0|i] s k v Hk; cbn [C15.sec_prim].
  - unfold sec_set. destruct (N.eq_dec k k0) as [E|E].
    + subst k0. rewrite Hk. destruct ow; cbn [negb fst]; [right; now exists v0|now left].
    + left. destruct (afind k0 (tbl s)) as [[v1|c]|]; [destruct ow|..]; cbn [negb fst tbl]; auto; now rewrite afind_aset_neq.
  - unfold sec_lazyset. left. destruct (N.eq_dec k k0) as [E|E].
    + subst k0. rewrite Hk. exact Hk.
    + destruct (afind k0 (tbl s)) as [[v1|c]|]; cbn [fst tbl]; auto; now rewrite afind_aset_neq.
  - left. unfold sec_get_fast, sec_get_slow. destruct (afind k0 (tbl s)) as [e|] eqn:E0; cbn [fst tbl]; [exact Hk|].
    destruct (N.eq_dec k k0) as [E|E]; [subst; congruence|now rewrite afind_aset_neq].
  - now left.
  - now left.
Qed.

(* ---------- the abstraction relation and the forward simulation ---------- *)
Record R (s : state) (sp : sstate) : Prop := mkR {
  R_map : forall k, afind k (smap sp) = match afind k (tbl s) with Some (Val v) => Some v | _ => None end;
  R_wait : forall k, match afind k (tbl s) with
                     | Some (Waiting c) => afind k (swait sp) = Some c
                     | None => afind k (swait sp) = None
                     | Some (Val _) => True
                     end;
  R_next : snext sp = next s;
  R_closed : sclosed sp = closed s;
  R_nodup : NoDup (map fst (smap sp))
}.

Lemma R_init : R (init V) (sinit V).
Proof. constructor; cbn; auto. constructor. Qed.

Inductive res_equiv : pres -> pres -> Prop :=
| RE_vals l l' : Permutation l l' -> res_equiv (RVals l) (RVals l')
| RE_refl r : res_equiv r r.

(* Values: the model's and the specification's values of shard i are permutations of each other *)
Fixpoint kv_model (t : list (key * entry V)) : list (key * V) :=
  match t with
  | [] => []
  | (k, Val v) :: r => (k, v) :: kv_model r
  | (_, Waiting _) :: r => kv_model r
  end.

Definition in_shard (i : N) (kv : key * V) : bool := N.eqb (sh (fst kv)) i.

Lemma values_of_kv : forall i t, values_of V sh i t = map snd (filter (in_shard i) (kv_model t)).
Proof.
  intros i t; induction t as [|[k [v|c]] r IH]; cbn [values_of kv_model filter]; [reflexivity| |exact IH].
  unfold in_shard at 1; cbn [fst]. destruct (N.eqb (sh k) i); cbn [map snd]; now rewrite IH.
Qed.

Lemma svalues_kv : forall i m, svalues V sh i m = map snd (filter (in_shard i) m).
Proof.
  intros i m; induction m as [|[k v] r IH]; cbn [svalues filter]; [reflexivity|].
  unfold in_shard at 1; cbn [fst]. destruct (N.eqb (sh k) i); cbn [map snd]; now rewrite IH.
Qed.

Lemma kv_model_in : forall t k v, In (k, v) (kv_model t) <-> In (k, Val v) t.
Proof.
  intros t k v; induction t as [|[k' [v'|c]] r IH]; cbn [kv_model In]; [tauto| |].
  - rewrite IH. split; intros [E|E]; auto; left; inversion E; reflexivity.
  - rewrite IH. split; [auto|]. intros [E|E]; [discriminate|exact E].
Qed.

Lemma kv_model_keys_incl : forall t k, In k (map fst (kv_model t)) -> In k (map fst t).
Proof.
  intros t k; induction t as [|[k' [v'|c]] r IH]; cbn [kv_model map fst In]; [tauto| |]; tauto.
Qed.

Lemma kv_model_nodup : forall t, NoDup (map fst t) -> NoDup (map fst (kv_model t)).
Proof.
  intros t; induction t as [|[k' [v'|c]] r IH]; cbn [kv_model map fst]; intros H; [constructor| |];
    inversion H as [|? ? Hni Hnd]; subst; [|now apply IH].
  constructor; [|now apply IH]. intros Hin; apply Hni. now apply kv_model_keys_incl.
Qed.

Lemma nodup_keys_pairs : forall A (l : list (key * A)), NoDup (map fst l) -> NoDup l.
Proof.
  intros A l; induction l as [|[k a] r IH]; cbn [map fst]; intros H; [constructor|].
  inversion H as [|? ? Hni Hnd]; subst. constructor; [|now apply IH].
  intros Hin; apply Hni. change k with (fst (k, a)). now apply in_map.
Qed.

Lemma values_perm : forall s sp i, wf s -> R s sp ->
  Permutation (values_of V sh i (tbl s)) (svalues V sh i (smap sp)).
Proof.
  intros s sp i W HR. rewrite values_of_kv, svalues_kv.
  apply Permutation_map, Permutation_filter'.
  apply NoDup_Permutation.
  - apply nodup_keys_pairs, kv_model_nodup, (wf_nodup s W).
  - apply nodup_keys_pairs, (R_nodup s sp HR).
  - intros [k v]. rewrite kv_model_in. split; intros Hin.
    + apply afind_Some_in. rewrite (R_map s sp HR k).
      now rewrite (in_afind _ _ _ _ (wf_nodup s W) Hin).
    + apply (in_afind _ _ _ _ (R_nodup s sp HR)) in Hin. rewrite (R_map s sp HR k) in Hin.
      apply afind_Some_in. destruct (afind k (tbl s)) as [[v0|c]|]; congruence.
Qed.

(* the specification follows each of the three changes *)
Lemma R_put : forall s sp k v, R s sp -> afind k (tbl s) = None \/ added k s ->
  R (st_put k v s) (mkS (aset k v (smap sp)) (swait sp) (snext sp) (sclosed sp)).
Proof.
  intros s sp k v HR Hk. constructor; cbn [st_put tbl closed next smap swait snext sclosed].
  - intros k'. destruct (N.eq_dec k' k) as [E|E].
    + subst. now rewrite !afind_aset_eq.
    + rewrite !afind_aset_neq by exact E. apply (R_map s sp HR).
  - intros k'. destruct (N.eq_dec k' k) as [E|E].
    + subst. now rewrite afind_aset_eq.
    + rewrite afind_aset_neq by exact E. apply (R_wait s sp HR).
  - apply (R_next s sp HR).
  - apply (R_closed s sp HR).
  - apply nodup_aset, (R_nodup s sp HR).
Qed.

Lemma R_fill : forall s sp k v c, R s sp -> afind k (tbl s) = Some (Waiting c) ->
  R (st_fill k v c s) (mkS (aset k v (smap sp)) (swait sp) (snext sp) (c :: sclosed sp)).
Proof.
  intros s sp k v c HR Hk. constructor; cbn [st_fill tbl closed next smap swait snext sclosed].
  - intros k'. destruct (N.eq_dec k' k) as [E|E].
    + subst. now rewrite !afind_aset_eq.
    + rewrite !afind_aset_neq by exact E. apply (R_map s sp HR).
  - intros k'. destruct (N.eq_dec k' k) as [E|E].
    + subst. now rewrite afind_aset_eq.
    + rewrite afind_aset_neq by exact E. apply (R_wait s sp HR).
  - apply (R_next s sp HR).
  - now rewrite (R_closed s sp HR).
  - apply nodup_aset, (R_nodup s sp HR).
Qed.

Lemma R_wait_new : forall s sp k, R s sp -> afind k (tbl s) = None ->
  R (st_wait k s) (mkS (smap sp) (aset k (snext sp) (swait sp)) (N.succ (snext sp)) (sclosed sp)).
Proof.
  intros s sp k HR Hk. constructor; cbn [st_wait tbl closed next smap swait snext sclosed].
  - intros k'. destruct (N.eq_dec k' k) as [E|E].
    + subst. rewrite afind_aset_eq. rewrite (R_map s sp HR k), Hk. reflexivity.
    + rewrite afind_aset_neq by exact E. apply (R_map s sp HR).
  - intros k'. destruct (N.eq_dec k' k) as [E|E].
    + subst. rewrite !afind_aset_eq. now rewrite (R_next s sp HR).
    + rewrite !afind_aset_neq by exact E. apply (R_wait s sp HR).
  - now rewrite (R_next s sp HR).
  - apply (R_closed s sp HR).
  - apply (R_nodup s sp HR).
Qed.

Lemma R_smap_of : forall s sp k, R s sp ->
  afind k (smap sp) = match afind k (tbl s) with Some (Val v) => Some v | _ => None end.
Proof. intros s sp k HR; apply (R_map s sp HR). Qed.

(* forward simulation of one atomic operation *)
Lemma sim_prim : forall p s sp, wf s -> R s sp ->
  R (fst (sec_prim p s)) (fst (spec_prim p sp))
  /\ res_equiv (snd (sec_prim p s)) (snd (spec_prim p sp)).
Proof.
  intros p s sp W HR. pose proof (R_map s sp HR) as Hm. pose proof (R_wait s sp HR) as Hw.
  destruct p as [k v ow|k v|k|k|i]; cbn [C15.sec_prim C15.spec_prim].
  - (* Set *)
    unfold sec_set. specialize (Hm k). specialize (Hw k).
    destruct (afind k (tbl s)) as [[v0|c]|] eqn:E; rewrite Hm.
    + destruct ow; cbn [negb fst snd].
      * split; [|apply RE_refl]. apply (R_put s sp k v HR). right. now exists v0.
      * split; [exact HR|apply RE_refl].
    + unfold sadd. rewrite Hw. cbn [fst snd]. split; [|apply RE_refl]. now apply R_fill.
    + unfold sadd. rewrite Hw. cbn [fst snd]. split; [|apply RE_refl]. apply (R_put s sp k v HR). now left.
  - (* LazySet *)
    unfold sec_lazyset. specialize (Hm k). specialize (Hw k).
    destruct (afind k (tbl s)) as [[v0|c]|] eqn:E; rewrite Hm.
    + cbn [fst snd]. split; [exact HR|apply RE_refl].
    + unfold sadd. rewrite Hw. cbn [fst snd]. split; [|apply RE_refl]. now apply R_fill.
    + unfold sadd. rewrite Hw. cbn [fst snd]. split; [|apply RE_refl]. apply (R_put s sp k v HR). now left.
  - (* Get *)
    unfold sec_get_fast, sec_get_slow. specialize (Hm k). specialize (Hw k).
    destruct (afind k (tbl s)) as [[v0|c]|] eqn:E; rewrite Hm.
    + cbn [fst snd entry_res]. split; [exact HR|apply RE_refl].
    + rewrite Hw. cbn [fst snd entry_res]. split; [exact HR|apply RE_refl].
    + rewrite Hw. cbn [fst snd]. rewrite (R_next s sp HR). split; [|apply RE_refl].
      pose proof (R_wait_new s sp k HR E) as Hn. rewrite (R_next s sp HR) in Hn. exact Hn.
  - (* Contains *)
    cbn [fst snd]. split; [exact HR|]. unfold sec_contains. rewrite (Hm k).
    destruct (afind k (tbl s)) as [[v0|c]|]; apply RE_refl.
  - (* Values *)
    cbn [fst snd]. split; [exact HR|]. apply RE_vals. unfold sec_values. now apply values_perm.
Qed.

(* ---------- lifting to the API wrappers ---------- *)
Inductive ares_equiv : ares V -> ares V -> Prop :=
| AE_vals l l' : Permutation l l' -> ares_equiv (AVals l) (AVals l')
| AE_refl a : ares_equiv a a.

Lemma res_equiv_get : forall r r', res_equiv r r' -> get_of V zero r = get_of V zero r'.
Proof. intros r r' H; destruct H; reflexivity. Qed.

Lemma res_equiv_vals : forall r r', res_equiv r r' -> Permutation (vals_of V r) (vals_of V r').
Proof. intros r r' H; destruct H; cbn; auto. Qed.

Lemma res_equiv_bool : forall r r', res_equiv r r' ->
  match r with RBool b => b | _ => false end = match r' with RBool b => b | _ => false end.
Proof. intros r r' H; destruct H; reflexivity. Qed.

Lemma res_equiv_lazy : forall r r', res_equiv r r' ->
  match r with RLazy e b => ALazy e b | _ => AUnit end = match r' with RLazy e b => ALazy e b | _ => @AUnit V end.
Proof. intros r r' H; destruct H; reflexivity. Qed.

Definition Rel (s : state) (sp : sstate) : Prop := wf s /\ R s sp.

Lemma Rel_init : Rel (init V) (sinit V).
Proof. split; [apply wf_init|apply R_init]. Qed.

Lemma Rel_step : forall p s sp, Rel s sp ->
  Rel (fst (sec_prim p s)) (fst (spec_prim p sp)) /\ res_equiv (snd (sec_prim p s)) (snd (spec_prim p sp)).
Proof.
  intros p s sp [W HR]. destruct (sim_prim p s sp W HR) as [H1 H2].
  split; [split; [now apply sec_prim_wf|exact H1]|exact H2].
Qed.

Notation model_api := (model_api V zero has_err sh).
Notation spec_api := (spec_api V zero has_err sh).

Lemma sim_all_values : forall n i s sp, Rel s sp ->
  Rel (fst (all_values V state sec_prim n i s)) (fst (all_values V sstate spec_prim n i sp))
  /\ Permutation (snd (all_values V state sec_prim n i s)) (snd (all_values V sstate spec_prim n i sp)).
Proof.
  induction n as [|n IH]; intros i s sp HRel; cbn [all_values].
  - split; [exact HRel|constructor].
  - destruct (Rel_step (PValues i) s sp HRel) as [H1 H2].
    destruct (sec_prim (PValues i) s) as [s1 r1], (spec_prim (PValues i) sp) as [sp1 r1']. cbn [fst snd] in *.
    specialize (IH (N.succ i) s1 sp1 H1).
    destruct (all_values V state sec_prim n (N.succ i) s1) as [s2 l2],
             (all_values V sstate spec_prim n (N.succ i) sp1) as [sp2 l2']. cbn [fst snd] in *.
    destruct IH as [IH1 IH2]. split; [exact IH1|].
    apply Permutation_app; [now apply res_equiv_vals|exact IH2].
Qed.

Lemma sim_api : forall nsh o s sp, Rel s sp ->
  Rel (fst (model_api nsh o s)) (fst (spec_api nsh o sp))
  /\ ares_equiv (snd (model_api nsh o s)) (snd (spec_api nsh o sp)).
Proof.
  intros nsh o s sp HRel. unfold C15.model_api, C15.spec_api.
  destruct o as [k v|k v|k v|k|k|k| |i|k v]; cbn [api_exec].
  - destruct (Rel_step (PSet k v false) s sp HRel) as [H1 H2].
    destruct (sec_prim (PSet k v false) s), (spec_prim (PSet k v false) sp); cbn [fst snd] in *.
    split; [exact H1|]. rewrite (res_equiv_bool _ _ H2). apply AE_refl.
  - destruct (Rel_step (PLazy k v) s sp HRel) as [H1 H2].
    destruct (sec_prim (PLazy k v) s), (spec_prim (PLazy k v) sp); cbn [fst snd] in *.
    split; [exact H1|]. rewrite (res_equiv_lazy _ _ H2). apply AE_refl.
  - destruct (Rel_step (PSet k v true) s sp HRel) as [H1 H2].
    destruct (sec_prim (PSet k v true) s), (spec_prim (PSet k v true) sp); cbn [fst snd] in *.
    split; [exact H1|apply AE_refl].
  - destruct (Rel_step (PGet k) s sp HRel) as [H1 H2].
    destruct (sec_prim (PGet k) s), (spec_prim (PGet k) sp); cbn [fst snd] in *.
    split; [exact H1|]. rewrite (res_equiv_get _ _ H2). apply AE_refl.
  - destruct (Rel_step (PGet k) s sp HRel) as [H1 H2].
    destruct (sec_prim (PGet k) s), (spec_prim (PGet k) sp); cbn [fst snd] in *.
    split; [exact H1|]. rewrite (res_equiv_get _ _ H2). apply AE_refl.
  - destruct (Rel_step (PContains k) s sp HRel) as [H1 H2].
    destruct (sec_prim (PContains k) s), (spec_prim (PContains k) sp); cbn [fst snd] in *.
    split; [exact H1|]. rewrite (res_equiv_bool _ _ H2). apply AE_refl.
  - destruct (sim_all_values nsh 0%N s sp HRel) as [H1 H2].
    destruct (all_values V state sec_prim nsh 0%N s), (all_values V sstate spec_prim nsh 0%N sp); cbn [fst snd] in *.
    split; [exact H1|now apply AE_vals].
  - destruct (Rel_step (PValues i) s sp HRel) as [H1 H2].
    destruct (sec_prim (PValues i) s), (spec_prim (PValues i) sp); cbn [fst snd] in *.
    split; [exact H1|]. apply AE_vals. now apply res_equiv_vals.
  - (* GetOrSet *)
    destruct (Rel_step (PGet k) s sp HRel) as [H1 H2].
    destruct (sec_prim (PGet k) s) as [s1 r1], (spec_prim (PGet k) sp) as [sp1 r1']; cbn [fst snd] in *.
    rewrite <- (res_equiv_get _ _ H2).
    destruct (has_err (fst (fst (get_of V zero r1)))); [split; [exact H1|apply AE_refl]|].
    destruct (snd (get_of V zero r1)).
    + destruct (Rel_step (PSet k v true) s1 sp1 H1) as [H3 H4].
      destruct (sec_prim (PSet k v true) s1), (spec_prim (PSet k v true) sp1); cbn [fst snd] in *.
      split; [exact H3|apply AE_refl].
    + destruct (snd (fst (get_of V zero r1))) as [c|]; [|split; [exact H1|apply AE_refl]].
      destruct H1 as [W1 HR1]. rewrite (R_closed s1 sp1 HR1).
      destruct (cmem c (closed s1)); [|split; [split; assumption|apply AE_refl]].
      destruct (Rel_step (PGet k) s1 sp1 (conj W1 HR1)) as [H3 H4].
      destruct (sec_prim (PGet k) s1), (spec_prim (PGet k) sp1); cbn [fst snd] in *.
      split; [exact H3|]. rewrite (res_equiv_get _ _ H4). apply AE_refl.
Qed.

(* (1) sequential refinement: for every list of API operations the results of the model equal the
   results of the sequential specification (Values up to the order of the values) *)
Lemma sim_api_run : forall nsh ops s sp, Rel s sp ->
  Forall2 ares_equiv (api_run V zero has_err state sec_prim (fun s c => cmem c (closed s)) nsh ops s)
                     (api_run V zero has_err sstate spec_prim (fun s c => cmem c (sclosed s)) nsh ops sp).
Proof.
  intros nsh ops; induction ops as [|o r IH]; intros s sp HRel; cbn [api_run]; [constructor|].
  pose proof (sim_api nsh o s sp HRel) as [H1 H2]. unfold C15.model_api, C15.spec_api in *.
  destruct (api_exec V zero has_err state sec_prim (fun s c => cmem c (closed s)) nsh o s) as [s1 a1],
           (api_exec V zero has_err sstate spec_prim (fun s c => cmem c (sclosed s)) nsh o sp) as [sp1 a1'].
  cbn [fst snd] in *. constructor; [exact H2|now apply IH].
Qed.

Theorem sequential_refinement : forall nsh ops,
  Forall2 ares_equiv (api_run V zero has_err state sec_prim (fun s c => cmem c (closed s)) nsh ops (init V))
                     (api_run V zero has_err sstate spec_prim (fun s c => cmem c (sclosed s)) nsh ops (sinit V)).
Proof. intros; apply sim_api_run, Rel_init. Qed.

(* a linear history: the atomic operations in the order in which they took effect, with their results *)
Fixpoint spec_accepts (sp : sstate) (h : list (prim * pres)) : Prop :=
  match h with
  | [] => True
  | (p, r) :: h' => res_equiv r (snd (spec_prim p sp)) /\ spec_accepts (fst (spec_prim p sp)) h'
  end.

Fixpoint model_produces (s : state) (h : list (prim * pres)) : Prop :=
  match h with
  | [] => True
  | (p, r) :: h' => r = snd (sec_prim p s) /\ model_produces (fst (sec_prim p s)) h'
  end.

Lemma produces_accepts : forall h s sp, Rel s sp -> model_produces s h -> spec_accepts sp h.
Proof.
  induction h as [|[p r] h IH]; intros s sp HRel; cbn [model_produces spec_accepts]; [tauto|].
  intros [Hr Hh]. destruct (Rel_step p s sp HRel) as [H1 H2]. split; [now subst r|].
  now apply (IH _ _ H1).
Qed.

End Cmap.
