(* C17 - the frame theorem, part 1: expressions (eval_expr, eval_vexpr) for one more unit of fuel. *)
From Coq Require Import String Lia.
From PlzV Require Import Base.Harness Gen.AspTables Model.C16_Syntax Model.C16_Ops Model.C16_Prim Model.C16_Eval.
From PlzV Require Import Proof.C17_Inv Proof.C17_Ops.
Local Open Scope list_scope.
Local Open Scope nat_scope.

#[local] Arguments chain : simpl never.
#[local] Arguments is_const : simpl never.
#[local] Arguments const_alloc : simpl never.
#[local] Arguments native : simpl never.
#[local] Arguments native_method : simpl never.
#[local] Arguments native_sig : simpl never.
#[local] Arguments method_sig : simpl never.
#[local] Arguments validate : simpl never.
#[local] Arguments apply_bin : simpl never.
#[local] Arguments vindex : simpl never.
#[local] Arguments vslice : simpl never.
#[local] Arguments vindex_assign : simpl never.
#[local] Arguments unpack_names : simpl never.
#[local] Arguments iter_items : simpl never.
#[local] Arguments new_list : simpl never.
#[local] Arguments alloc_list : simpl never.
#[local] Arguments alloc_dict : simpl never.
#[local] Arguments lookup : simpl never.
#[local] Arguments set_var : simpl never.
#[local] Arguments truthy : simpl never.
#[local] Arguments strict_list : simpl never.
#[local] Arguments str_eqb : simpl never.
#[local] Arguments existsb : simpl never.
#[local] Arguments assoc_get : simpl never.
#[local] Arguments find_def : simpl never.
#[local] Arguments opt_stmts : simpl never.
#[local] Arguments drop_pass : simpl never.
#[local] Arguments freeze_env : simpl never.
#[local] Arguments mapM : simpl never.
#[local] Arguments mapR : simpl never.
#[local] Arguments rbind : simpl never.
#[local] Arguments s : simpl never.
#[local] Arguments str_methods : simpl never.
#[local] Arguments dict_methods : simpl never.
#[local] Arguments Nat.ltb : simpl never.
#[local] Arguments Nat.leb : simpl never.
#[local] Arguments nth : simpl never.
#[local] Arguments fold_left : simpl never.
#[local] Arguments combine : simpl never.
#[local] Arguments map : simpl never.
#[local] Arguments length : simpl never.
#[local] Arguments env_get : simpl never.
#[local] Arguments tl : simpl never.

Section Frame1.
Variables (ca cd : nat -> mode) (pf ls : nat -> bool) (cs : list value) (defs : list (str * prog)).
Notation vok := (C17_Inv.vok ca cd pf).
Notation env_ok := (C17_Inv.env_ok ca cd pf).
Notation Inv := (C17_Inv.Inv ca cd pf ls cs defs).
Notation frame := (C17_Inv.frame ca cd ls).
Notation good := (C17_Inv.good ca cd pf ls cs defs).
Notation sok_e := (C17_Inv.sok_e ca cd pf cs).
Notation sok_v := (C17_Inv.sok_v ca cd pf cs).
Notation sok_i := (C17_Inv.sok_i ca cd pf cs).
Notation E_spec := (C17_Ops.E_spec ca cd pf ls cs defs).
Notation V_spec := (C17_Ops.V_spec ca cd pf ls cs defs).
Notation C_spec := (C17_Ops.C_spec ca cd pf ls cs defs).

Ltac split_sok H :=
  repeat match type of H with
         | (_ && _)%bool = true => let H1 := fresh H in apply andb_prop in H; destruct H as [H H1]
         end.

Lemma step_E : forall f, E_spec f -> V_spec f -> E_spec (S f).
Proof.
  intros f IHE IHV e st Hs HI. destruct e as [v ops iff]. simpl.
  rewrite sok_e_Ex in Hs. apply andb_prop in Hs. destruct Hs as [Hs Hiff].
  apply andb_prop in Hs. destruct Hs as [Hv Hops].
  assert (Hmain : forall st0, Inv st0 ->
            post (good st0 vok)
              (rbind (eval_vexpr Asp defs f v st0)
                 (fun '(obj, st1) => match ops with [] => Ok (obj, st1) | _ :: _ => chain Asp (eval_vexpr Asp defs f) f obj ops st1 end))).
  { intros st0 I0. eapply good_bind; [apply (V_plain ca cd pf ls cs defs); auto|].
    intros obj st1 I1 F1 Ho. cbv beta match. destruct ops as [|i0 rest]; [apply (good_pure ca cd pf ls cs defs); auto|].
    apply (chain_good ca cd pf ls cs defs); auto. apply (V_operand ca cd pf ls cs defs f); auto. }
  destruct iff as [[c e2]|]; [|apply Hmain; auto].
  apply andb_prop in Hiff. destruct Hiff as [Hc He2].
  eapply good_bind; [apply (E_plain ca cd pf ls cs defs _ _ _ IHE); auto|]. intros cv st1 I1 F1 Hcv. cbv beta match.
  destruct (truthy Asp st1 cv); [apply Hmain; auto|apply (E_plain ca cd pf ls cs defs _ _ _ IHE); auto].
Qed.

(* the loop of a comprehension *)
Lemma comp_loop_good : forall f names (cond : option expr) (e : expr), E_spec f ->
  sok_e e = true -> match cond with None => True | Some c => sok_e c = true end ->
  forall l acc st, Forall vok l -> Forall vok acc -> Inv st ->
  post (good st (Forall vok))
    ((fix go (l : list value) (acc : list value) (st0 : state) : res (list value * state) :=
        match l with
        | [] => Ok (rev acc, st0)
        | li :: r =>
            rbind (unpack_names Asp names li st0) (fun st' =>
            rbind (match cond with
                   | None => Ok (true, st')
                   | Some c => rbind (eval_expr Asp defs f c st') (fun '(cv, sx) => Ok (truthy Asp sx cv, sx))
                   end) (fun '(keep, st'') =>
            if keep then rbind (eval_expr Asp defs f e st'') (fun '(v, sy) => go r (v :: acc) sy)
            else go r acc st''))
        end) l acc st).
Proof.
  intros f names cond e IHE He Hc. induction l as [|li r IH]; intros acc st Hl Hacc HI.
  - apply good_ret; auto. apply Forall_rev. auto.
  - inversion Hl as [|? ? Hli Hr]; subst.
    apply post_bind_pure. intros st' Hu. destruct (unpack_names_good ca cd pf ls cs defs _ _ _ _ HI Hli Hu) as [I1 F1].
    eapply good_frame; [exact F1|].
    eapply (good_bind ca cd pf ls cs defs (fun _ : bool => True)).
    + destruct cond as [c|]; [|apply good_ret; auto].
      eapply good_bind; [apply (E_plain ca cd pf ls cs defs _ _ _ IHE); auto|]. intros cv sx I2 F2 _. cbv beta match. apply good_ret; auto.
    + intros keep st'' I2 F2 _. cbv beta match. destruct keep; [|apply IH; auto].
      eapply good_bind; [apply (E_plain ca cd pf ls cs defs _ _ _ IHE); auto|]. intros v sy I3 F3 Hv. cbv beta match. apply IH; auto.
Qed.

(* the positional arguments of a method call *)
Lemma meth_args_good : forall f, E_spec f ->
  forall (sg0 : list (str * N * option value)) (l : list expr) st, sig_ok ca cd pf sg0 -> forallb sok_e l = true -> Inv st ->
  post (good st (Forall vok))
    ((fix go (l : list expr) (sg0 : list (str * N * option value)) (st0 : state) : res (list value * state) :=
        match sg0 with
        | [] => Ok ([], st0)
        | (_, t, def) :: sr =>
            match l with
            | e :: r => rbind (eval_expr Asp defs f e st0) (fun '(v, st') => rbind (validate t def v) (fun v' =>
                        rbind (go r sr st') (fun '(vs, st'') => Ok (v' :: vs, st''))))
            | [] => match def with
                    | Some dv => rbind (go [] sr st0) (fun '(vs, st'') => Ok (dv :: vs, st''))
                    | None => Err EType
                    end
            end
        end) l sg0 st).
Proof.
  intros f IHE. induction sg0 as [|[[a t] def] sr IH]; intros l st Hsg Hl HI.
  - apply good_ret; auto.
  - inversion Hsg as [|? ? Hd Hsr]; subst. cbn [snd] in Hd. destruct l as [|e r].
    + destruct def as [dv|]; [|exact I].
      eapply good_bind; [apply IH; auto|]. intros vs st'' I2 F2 Hvs. cbv beta match. apply good_ret; auto.
    + cbn [forallb] in Hl. apply andb_prop in Hl. destruct Hl as [He Hr].
      eapply good_bind; [apply (E_plain ca cd pf ls cs defs _ _ _ IHE); auto|]. intros v st' I1 F1 Hv. cbv beta match.
      apply post_bind_pure. intros v' Hv'.
      eapply good_bind; [apply IH; auto|]. intros vs st'' I2 F2 Hvs. cbv beta match. apply good_ret; auto.
      constructor; auto. eapply validate_ok; eauto.
Qed.

Lemma step_V : forall f, E_spec f -> V_spec f -> C_spec f -> V_spec (S f).
Proof.
  intros f IHE IHV IHC x st Hs HI. destruct x; simpl.
  - (* XInt *) apply (good_pure ca cd pf ls cs defs); auto; reflexivity.
  - apply (good_pure ca cd pf ls cs defs); auto; reflexivity.
  - apply (good_pure ca cd pf ls cs defs); auto; reflexivity.
  - apply (good_pure ca cd pf ls cs defs); auto; reflexivity.
  - apply (good_pure ca cd pf ls cs defs); auto; reflexivity.
  - (* XList *)
    rewrite sok_v_list in Hs.
    eapply good_bind.
    + apply (mapM_good ca cd pf ls cs defs vok); [exact HI|]. intros e Hin st0 I0. apply (E_plain ca cd pf ls cs defs _ _ _ IHE); auto.
      rewrite forallb_forall in Hs. apply Hs. exact Hin.
    + intros vs st1 I1 F1 Hvs. cbv beta match. apply (new_list_good ca cd pf ls cs defs); auto.
  - (* XComp *)
    rewrite sok_v_comp in Hs. split_sok Hs.
    eapply good_bind; [apply (E_plain ca cd pf ls cs defs _ _ _ IHE); auto|]. intros itv st1 I1 F1 Hitv. cbv beta match.
    apply post_bind_pure. intros items Hit. pose proof (iter_items_ok ca cd pf ls cs defs _ _ _ I1 Hitv Hit) as Hitems.
    match goal with |- post _ (if ?c then _ else _) => destruct c end; [exact I|].
    eapply good_bind.
    + eapply good_frame; [apply (set_locals_frame ca cd ls st1 ([] :: locals st1))|].
      apply comp_loop_good; auto.
      * destruct cond; auto.
      * apply set_locals_inv; auto. constructor; [constructor|apply (i_loc _ _ _ _ _ _ _ I1)].
    + intros out st3 I3 F3 Hout. cbv beta match.
      match goal with |- post _ (if ?c then _ else _) => destruct c end; [exact I|].
      eapply good_frame; [apply (set_locals_frame ca cd ls st3 (tl (locals st3)))|].
      assert (I4 : Inv (set_locals (tl (locals st3)) st3)).
      { apply set_locals_inv; auto. pose proof (i_loc _ _ _ _ _ _ _ I3) as Hl. destruct (locals st3); [constructor|inversion Hl; auto]. }
      match goal with |- post _ (Ok (VList {| s_arr := _; s_off := _; s_len := _; s_cap := Nat.max ?c _ |}, _)) =>
        pose proof (alloc_list_good ca cd pf ls cs defs out c (set_locals (tl (locals st3)) st3) I4 Hout) as Ha end.
      unfold alloc_list in Ha. destruct Ha as (I5 & F5 & V5 & _). cbn [post]. unfold C17_Inv.good. auto.
  - (* XDict *)
    rewrite sok_v_dict in Hs.
    eapply (good_bind ca cd pf ls cs defs (Forall (fun p : str * value => vok (snd p)))).
    + apply (mapM_good ca cd pf ls cs defs (fun p : str * value => vok (snd p))); [exact HI|].
      intros [k v] Hin st0 I0. rewrite forallb_forall in Hs. specialize (Hs _ Hin). cbn beta match in Hs. split_sok Hs.
      cbn [fst snd]. eapply good_bind; [apply (E_plain ca cd pf ls cs defs _ _ _ IHE); auto|]. intros kv st' I1 F1 Hk. cbv beta match.
      eapply good_bind; [apply (E_plain ca cd pf ls cs defs _ _ _ IHE); auto|]. intros vv st'' I2 F2 Hv. cbv beta match.
      destruct kv; try exact I. apply good_ret; auto.
    + intros pairs st1 I1 F1 Hp. cbv beta match.
      pose proof (alloc_dict_good ca cd pf ls cs defs (fold_left (fun acc kv => env_set (fst kv) (snd kv) acc) pairs []) st1 I1) as Ha.
      unfold alloc_dict in Ha. destruct Ha as (I2 & F2 & V2). { apply merged_ok; [exact Hp|constructor]. }
      cbn [post]. unfold C17_Inv.good. auto.
  - (* XParen *) rewrite sok_v_paren in Hs. apply (E_plain ca cd pf ls cs defs _ _ _ IHE); auto.
  - (* XIdent *)
    destruct (lookup n st) eqn:El; [|exact I]. apply (good_pure ca cd pf ls cs defs); auto. eapply lookup_ok; eauto.
  - (* XCall *)
    rewrite sok_v_call in Hs. destruct (lookup n st) eqn:El; [|exact I]. apply IHC; auto. eapply lookup_ok; eauto.
  - (* XMeth *)
    rewrite sok_v_meth in Hs. split_sok Hs.
    eapply good_bind; [apply (V_plain ca cd pf ls cs defs); auto|]. intros obj st1 I1 F1 Ho. cbv beta match.
    assert (Hcall : forall table,
      post (good st1 vok)
        (if existsb (str_eqb m) table then
           match method_sig m with
           | None => Err EUnsupported
           | Some sg =>
               if Nat.ltb (length sg) (S (length args)) then Err EType else
               rbind ((fix go (l : list expr) (sg0 : list (str * N * option value)) (st0 : state) : res (list value * state) :=
                         match sg0 with
                         | [] => Ok ([], st0)
                         | (_, t, def) :: sr =>
                             match l with
                             | e :: r => rbind (eval_expr Asp defs f e st0) (fun '(v, st') => rbind (validate t def v) (fun v' =>
                                         rbind (go r sr st') (fun '(vs, st'') => Ok (v' :: vs, st''))))
                             | [] => match def with
                                     | Some dv => rbind (go [] sr st0) (fun '(vs, st'') => Ok (dv :: vs, st''))
                                     | None => Err EType
                                     end
                             end
                         end) args (tl sg) st1)
                     (fun '(vals, st2) => native_method Asp f m (obj :: vals) st2)
           end
         else if existsb (str_eqb m) (str_methods ++ dict_methods) then Err EType else Err EUnsupported)).
    { intros table. destruct (existsb (str_eqb m) table); [|destruct (existsb _ _); exact I].
      destruct (method_sig m) as [sg|] eqn:Esg; [|exact I]. destruct (Nat.ltb _ _); [exact I|].
      eapply good_bind.
      - apply meth_args_good; auto. pose proof (method_sig_ok ca cd pf _ _ Esg) as Hsg.
        destruct sg; [constructor|inversion Hsg; auto].
      - intros vals st2 I2 F2 Hvals. cbv beta match. apply (native_method_good ca cd pf ls cs defs); auto. }
    destruct obj; try exact I; try apply Hcall.
    + destruct (env_get m (dict_of st1 id)); [exact I|apply Hcall].
    + destruct (env_get m (dict_of st1 id)); [exact I|apply Hcall].
  - (* XIndex *)
    rewrite sok_v_index in Hs. split_sok Hs.
    eapply good_bind; [apply (V_plain ca cd pf ls cs defs); auto|]. intros obj st1 I1 F1 Ho. cbv beta match.
    eapply good_bind; [apply (E_plain ca cd pf ls cs defs _ _ _ IHE); auto|]. intros idx st2 I2 F2 Hi. cbv beta match.
    apply post_bind_pure. intros v Hv. apply (good_pure ca cd pf ls cs defs); auto. apply (vindex_ok ca cd pf ls cs defs st2 obj idx v I2 Ho Hv).
  - (* XSlice *)
    rewrite sok_v_slice in Hs. split_sok Hs.
    eapply good_bind; [apply (V_plain ca cd pf ls cs defs); auto|]. intros obj st1 I1 F1 Ho. cbv beta match.
    assert (Hoe : forall (o : option expr) st0, match o with None => true | Some e => sok_e e end = true -> Inv st0 ->
              post (good st0 (fun _ : option value => True))
                (match o with None => Ok (None, st0) | Some e => rbind (eval_expr Asp defs f e st0) (fun '(v, st') => Ok (Some v, st')) end)).
    { intros o st0 Ho' I0. destruct o as [e|]; [|apply good_ret; auto].
      eapply good_bind; [apply (E_plain ca cd pf ls cs defs _ _ _ IHE); auto|]. intros v st' I' F' Hv. cbv beta match. apply good_ret; auto. }
    eapply good_bind; [apply Hoe; auto|]. intros lov st2 I2 F2 _. cbv beta match.
    eapply good_bind; [apply Hoe; auto|]. intros hiv st3 I3 F3 _. cbv beta match.
    apply (vslice_good ca cd pf ls cs defs); auto.
  - (* XConst *)
    rewrite sok_v_const in Hs. split; [exact HI|]. split; [apply frame_refl|].
    rewrite (i_cs _ _ _ _ _ _ _ HI). exact Hs.
Qed.

End Frame1.
