(* C06 - dependency edges of every kind (Model/C06.v: flags, dinfo, kop, kworld).  The build waits for
   Dependencies() - every resolved entry of target.dependencies, whether it came from deps, srcs, data,
   a run-time or an internal dependency - so that is the graph in which a cycle deadlocks the build and
   the graph Check has to be right about.  BuildDependencies() is a sub-graph of it that is equal to it
   when all edges are plain, and that misses cycles otherwise. *)
From PlzV Require Import Base.Harness Model.C06 Proof.C06 Proof.C06_Seq.
From Coq Require Import Lia Permutation.

(* ------------------------------------------------------------------------------------------- *)
(* sort.Sort keeps the elements                                                                  *)

Lemma insert_by_In rk x y : forall l, In y (insert_by rk x l) <-> y = x \/ In y l.
Proof.
  induction l as [|z r IH]; cbn [insert_by].
  - cbn. intuition.
  - destruct (Nat.leb (rk x) (rk z)); cbn [In]; [intuition | rewrite IH; cbn [In]; intuition].
Qed.

Lemma sort_by_In rk y : forall l, In y (sort_by rk l) <-> In y l.
Proof.
  induction l as [|x r IH]; cbn [sort_by fold_right]; [reflexivity |].
  rewrite insert_by_In. fold (sort_by rk r). rewrite IH. cbn [In]. intuition.
Qed.

(* ------------------------------------------------------------------------------------------- *)
(* The accessors                                                                                 *)

Lemma row_build_incl l : incl (row_build l) (row_all l).
Proof.
  unfold row_build, row_all. intros x Hx. apply in_flat_map in Hx as (di & Hdi & Hx).
  apply in_flat_map. exists di. split; [exact Hdi |].
  destruct (excluded_build (d_flags di)); [destruct Hx | exact Hx].
Qed.

(* all entries plain: the two accessors agree *)
Definition all_plain (l : list dinfo) : Prop := forall di, In di l -> excluded_build (d_flags di) = false.

Lemma row_build_plain l : all_plain l -> row_build l = row_all l.
Proof.
  unfold row_build, row_all. induction l as [|di r IH]; intros H; [reflexivity |].
  cbn [flat_map]. rewrite (H di (or_introl eq_refl)). f_equal. apply IH.
  intros d Hd. apply H. right. exact Hd.
Qed.

Lemma deps_wait ranks w v : deps (wait_graph ranks w) v = sort_by (rank_fn ranks) (row_all (nth v w [])).
Proof. unfold deps, wait_graph. exact (map_nth (fun l => sort_by (rank_fn ranks) (row_all l)) w [] v). Qed.

Lemma deps_build ranks w v : deps (build_graph ranks w) v = sort_by (rank_fn ranks) (row_build (nth v w [])).
Proof. unfold deps, build_graph. exact (map_nth (fun l => sort_by (rank_fn ranks) (row_build l)) w [] v). Qed.

(* BuildDependencies() is a sub-graph of Dependencies() *)
Theorem build_edge_waits ranks w a b : edge (build_graph ranks w) a b -> edge (wait_graph ranks w) a b.
Proof.
  unfold edge. rewrite deps_build, deps_wait, !sort_by_In. apply row_build_incl.
Qed.

(* ... and the same graph when no entry carries a flag *)
Theorem build_graph_plain ranks w : (forall l, In l w -> all_plain l) -> build_graph ranks w = wait_graph ranks w.
Proof.
  intros H. unfold build_graph, wait_graph. apply map_ext_in. intros l Hl. rewrite row_build_plain; [reflexivity |].
  apply H. exact Hl.
Qed.

(* ------------------------------------------------------------------------------------------- *)
(* Invariant over every history of declarations and resolutions: n rows, every resolved entry a
   target                                                                                        *)

Definition row_ok (n : nat) (l : list dinfo) : Prop := forall di, In di l -> forall d, In d (d_deps di) -> d < n.
Definition kinv (n : nat) (w : kworld) : Prop := length w = n /\ forall l, In l w -> row_ok n l.

(* resolveOneDependency gets the target from graph.WaitForTarget: it exists *)
Definition kvalid (n : nat) (ao : nat * kop) : Prop :=
  match snd ao with KResolve b => b < n | _ => True end.

Lemma upd_info_ok n b f :
  (forall di, (forall d, In d (d_deps di) -> d < n) -> forall d, In d (d_deps (f di)) -> d < n) ->
  forall l l', row_ok n l -> upd_info b f l = Some l' -> row_ok n l'.
Proof.
  intros Hf. induction l as [|di r IH]; intros l' Hok; cbn [upd_info]; [discriminate |].
  destruct (Nat.eqb (d_label di) b).
  - intros H. injection H as <-. intros di' [<- | Hin].
    + apply Hf. apply Hok. left. reflexivity.
    + apply Hok. right. exact Hin.
  - destruct (upd_info b f r) as [r'|] eqn:E; [| discriminate]. intros H. injection H as <-.
    assert (Hr : row_ok n r) by (intros x Hx; apply Hok; right; exact Hx).
    intros di' [<- | Hin]; [apply Hok; left; reflexivity | exact (IH r' Hr eq_refl di' Hin)].
Qed.

Lemma row_ok_snoc n l di : row_ok n l -> (forall d, In d (d_deps di) -> d < n) -> row_ok n (l ++ [di]).
Proof.
  intros Hok Hdi x Hx. apply in_app_or in Hx as [Hx | [<- | []]]; [apply Hok; exact Hx | exact Hdi].
Qed.

Lemma declare_ok n b s i r l : row_ok n l -> row_ok n (declare b s i r l).
Proof.
  intros Hok. unfold declare. destruct (upd_info b (merge_flags s i r) l) as [l'|] eqn:E.
  - eapply upd_info_ok; [| exact Hok | exact E]. intros di H d Hd. exact (H d Hd).
  - apply row_ok_snoc; [exact Hok | intros d []].
Qed.

Lemma apply_kop_ok n l o : row_ok n l -> match o with KResolve b => b < n | _ => True end -> row_ok n (apply_kop l o).
Proof.
  intros Hok Hv. destruct o as [b s i r|b|b]; cbn [apply_kop].
  - apply declare_ok. exact Hok.
  - pose proof (declare_ok n b false false false l Hok) as H1.
    destruct (upd_info b set_data (declare b false false false l)) as [l'|] eqn:E; [| exact H1].
    eapply upd_info_ok; [| exact H1 | exact E]. intros di H d Hd. exact (H d Hd).
  - destruct (upd_info b (add_dep b) l) as [l'|] eqn:E.
    + eapply upd_info_ok; [| exact Hok | exact E]. intros di H d Hd. cbn [add_dep d_deps] in Hd.
      apply in_app_or in Hd as [Hd | [<- | []]]; [exact (H d Hd) | exact Hv].
    + apply row_ok_snoc; [exact Hok |]. cbn [d_deps]. intros d [<- | []]. exact Hv.
Qed.

Lemma upd_row_gen_length {A} (f : A -> A) : forall g a, length (upd_row_gen a f g) = length g.
Proof.
  induction g as [|row r IH]; intros [|a]; cbn [upd_row_gen length]; try reflexivity. f_equal. apply IH.
Qed.

Lemma upd_row_gen_In {A} (f : A -> A) : forall g a x, In x (upd_row_gen a f g) -> In x g \/ exists y, In y g /\ x = f y.
Proof.
  induction g as [|row r IH]; intros [|a] x H; cbn [upd_row_gen] in H; try (left; exact H).
  - destruct H as [<- | H]; [right; exists row; split; [left; reflexivity | reflexivity] | left; right; exact H].
  - destruct H as [<- | H]; [left; left; reflexivity |].
    destruct (IH a x H) as [H1 | (y & Hy & E)]; [left; right; exact H1 | right; exists y; split; [right; exact Hy | exact E]].
Qed.

Lemma kw_apply_inv n w ao : kinv n w -> kvalid n ao -> kinv n (kw_apply w ao).
Proof.
  intros [Hlen Hok] Hv. unfold kw_apply. split; [rewrite upd_row_gen_length; exact Hlen |].
  intros l Hl. apply upd_row_gen_In in Hl as [Hl | (y & Hy & ->)]; [apply Hok; exact Hl |].
  apply apply_kop_ok; [apply Hok; exact Hy | exact Hv].
Qed.

Lemma fold_kw_inv n : forall ops w, kinv n w -> Forall (kvalid n) ops -> kinv n (fold_left kw_apply ops w).
Proof.
  induction ops as [|ao r IH]; intros w Hw Hv; [exact Hw |]. cbn [fold_left]. inversion Hv as [|x y Hx Hy]; subst.
  apply IH; [apply kw_apply_inv; assumption | exact Hy].
Qed.

Lemma kworld0_inv n : kinv n (kworld0 n).
Proof.
  unfold kworld0. split; [apply repeat_length |]. intros l Hl. apply repeat_spec in Hl. subst. intros di [].
Qed.

Theorem kw_run_inv n ops : Forall (kvalid n) ops -> kinv n (kw_run n ops).
Proof. intros Hv. apply fold_kw_inv; [apply kworld0_inv | exact Hv]. Qed.

Lemma kinv_wf n ranks w : kinv n w -> wf (wait_graph ranks w) /\ length (wait_graph ranks w) = n.
Proof.
  intros [Hlen Hok]. assert (Hl : length (wait_graph ranks w) = n) by (unfold wait_graph; rewrite map_length; exact Hlen).
  split; [| exact Hl]. intros v d H. rewrite Hl. rewrite deps_wait in H. apply sort_by_In in H.
  unfold row_all in H. apply in_flat_map in H as (di & Hdi & Hd).
  destruct (nth_in_or_default v w []) as [Hin | E]; [exact (Hok _ Hin di Hdi d Hd) | rewrite E in Hdi; destruct Hdi].
Qed.

(* After ANY history of declarations of any kind (deps, srcs, data, run-time, internal, in any order and
   repeated) and resolutions to existing targets, Check on the graph of Dependencies() is sound and
   complete for that graph: a cycle through an edge of any kind is reported. *)
Theorem kinded_correct n ranks ops order :
  Forall (kvalid n) ops -> Permutation order (seq 0 n) ->
  let g := wait_graph ranks (kw_run n ops) in
  wf g /\ correct_for g (detect g order).
Proof.
  intros Hv Hperm g. destruct (kinv_wf n ranks _ (kw_run_inv n ops Hv)) as [Hwf Hlen]. fold g in Hwf, Hlen.
  split; [exact Hwf |].
  assert (Hp : Permutation order (nodes g)) by (unfold nodes; rewrite Hlen; exact Hperm).
  destruct detect_correct as [Hsound Hc]. destruct (Hc g order Hwf Hp) as (Hf & Hcyc & Hac).
  split; [exact Hf |]. split; [intros c; apply Hsound |]. split; [| exact Hac].
  intros H. destruct (Hcyc H) as (c & E & _). exists c. exact E.
Qed.

(* Walking BuildDependencies() instead would not do: 0 has 1 in its srcs only, 1 depends on 0.  The build
   waits for both edges, the walk over build-time dependencies sees one of them and finds nothing. *)
Theorem build_only_misses :
  exists n ranks ops order,
    Forall (kvalid n) ops /\ Permutation order (seq 0 n)
    /\ has_cycle (wait_graph ranks (kw_run n ops))
    /\ detect (build_graph ranks (kw_run n ops)) order = Clean
    /\ detect (wait_graph ranks (kw_run n ops)) order = Found [1; 0].
Proof.
  exists 2, [0; 1], [(0, KDeclare 1 true false false); (1, KDeclare 0 false false false); (0, KResolve 1); (1, KResolve 0)], [0; 1].
  split; [repeat constructor |]. split; [apply Permutation_refl |]. split; [| split; vm_compute; reflexivity].
  exists [0; 1]. split; [discriminate |]. vm_compute. tauto.
Qed.
