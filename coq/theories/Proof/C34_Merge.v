(* C34 - copying INTO a destination that exists already (stale files, directories in the way, an
   earlier copy, an earlier hard-linked copy).

   The walk of RecursiveCopyOrLinkFile computes exactly `merge` (Model/C34.v) for every source tree
   and every destination (run_walk_merge, copy_top_merge).  From that:
     merge_lookup     what every entry of the source has become (path by path),
     merge_untouched  everything at a path the source does not have is left exactly as it was,
     merge_covers     after success every entry of the source is there with equal contents,
     merge_ok_iff     the call succeeds exactly when no entry of the source meets a clash,
     merge_files / hardlinks_stay_consistent
                      every file at the destination is a new inode or a further name of an inode
                      that existed before, unchanged: nothing is written through a shared inode. *)
From PlzV Require Import Base.Harness Base.StrFacts Gen.C34Copy Model.C34 Proof.C34.
From Coq Require Import Lia.

(* ---------------------------------------------------------------- names for local fixpoints - *)
Definition merge_list (k : cfg) : list (str * node) -> list (str * node) -> R :=
  fix go (l : list (str * node)) (ds : list (str * node)) : R :=
    match l with
    | [] => ROk (Dir ds)
    | (x, c) :: r =>
        match merge k c (assoc x ds) with
        | ROk c' => go r (set x c' ds)
        | e => e
        end
    end.

Lemma merge_list_nil k ds : merge_list k [] ds = ROk (Dir ds).
Proof. reflexivity. Qed.

Lemma merge_list_cons k x c r ds :
  merge_list k ((x, c) :: r) ds =
  match merge k c (assoc x ds) with
  | ROk c' => merge_list k r (set x c' ds)
  | e => e
  end.
Proof. reflexivity. Qed.

Lemma merge_dir k es d :
  merge k (Dir es) d =
  match d with
  | None => merge_list k es []
  | Some (Dir ds) => merge_list k es ds
  | Some (File _ _ _) => RErr
  | Some (Link _) => RUnsup
  end.
Proof. destruct d as [[i pm c|ds|t]|]; reflexivity. Qed.

Definition clash_list (k : cfg) (l ds : list (str * node)) : bool :=
  (fix go (l : list (str * node)) : bool :=
     match l with
     | [] => true
     | (x, c) :: r => clash_free k c (assoc x ds) && go r
     end) l.

Lemma clash_list_cons k x c r ds :
  clash_list k ((x, c) :: r) ds = clash_free k c (assoc x ds) && clash_list k r ds.
Proof. reflexivity. Qed.

Lemma clash_dir k es d :
  clash_free k (Dir es) d =
  match d with
  | None => clash_list k es []
  | Some (Dir ds) => clash_list k es ds
  | Some (File _ _ _) => false
  | Some (Link _) => false
  end.
Proof. destruct d as [[i pm c|ds|t]|]; reflexivity. Qed.

Definition covers_list (l ds : list (str * node)) : bool :=
  (fix go (l : list (str * node)) : bool :=
     match l with
     | [] => true
     | (x, c) :: r => match assoc x ds with Some c' => covers c c' | None => false end && go r
     end) l.

Lemma covers_list_cons x c r ds :
  covers_list ((x, c) :: r) ds =
  match assoc x ds with Some c' => covers c c' | None => false end && covers_list r ds.
Proof. reflexivity. Qed.

Lemma covers_dir es ds : covers (Dir es) (Dir ds) = covers_list es ds.
Proof. reflexivity. Qed.

Fixpoint files_list (l : list (str * node)) : list (N * N * str) :=
  match l with
  | [] => []
  | (_, c) :: r => files c ++ files_list r
  end.

Lemma files_dir es : files (Dir es) = files_list es.
Proof. reflexivity. Qed.

Fixpoint has_link_list (l : list (str * node)) : bool :=
  match l with
  | [] => false
  | (_, c) :: r => has_link c || has_link_list r
  end.

Lemma has_link_dir es : has_link (Dir es) = has_link_list es.
Proof. reflexivity. Qed.

(* what was in a directory (nothing, if nothing or something else was there) *)
Definition entries_of (d : dest) : list (str * node) :=
  match d with Some (Dir ds) => ds | _ => [] end.

Lemma merge_dir_ok k es d dst :
  merge k (Dir es) d = ROk dst ->
  merge_list k es (entries_of d) = ROk dst /\ (d = None \/ d = Some (Dir (entries_of d))).
Proof.
  rewrite merge_dir. destruct d as [[i pm c|ds|t]|]; cbn [entries_of]; intros H; try discriminate; auto.
Qed.

Lemma lookup_d_nil d : lookup_d [] d = d.
Proof. destruct d; reflexivity. Qed.

Lemma lookup_d_cons x q d :
  d = None \/ d = Some (Dir (entries_of d)) ->
  lookup_d (x :: q) d = lookup_d q (assoc x (entries_of d)).
Proof.
  intros [->| ->]; cbn [lookup_d lookup entries_of assoc]; [reflexivity|].
  destruct (assoc x (entries_of d)); reflexivity.
Qed.

(* ---------------------------------------------------------------- the walk computes merge --- *)
Definition wres_of (r : R) : wres :=
  match r with
  | ROk n => WDone (Some n)
  | RErr => WFailed
  | RUnsup => WUnsup
  end.

Lemma walk_list_merge k : forall es,
  Forall (fun e => forall d, run_walk k (walk (snd e)) d = wres_of (merge k (snd e) d)) es ->
  forall ds, run_walk k (walk_list es) (Some (Dir ds)) = wres_of (merge_list k es ds).
Proof.
  induction es as [|[x c] r IH]; intros Hall ds.
  - reflexivity.
  - cbn [walk_list]. rewrite merge_list_cons. inversion Hall as [|e l Hc Hr]; subst. cbn [snd] in Hc.
    destruct (walk_nonempty c) as [e0 [l0 Hw]]. rewrite Hw. rewrite run_lift. rewrite <- Hw. rewrite Hc.
    destruct (merge k c (assoc x ds)) as [c'| |]; cbn [wres_of]; try reflexivity.
    apply IH. assumption.
Qed.

(* For EVERY source tree and EVERY destination (nothing, a file, a symlink, any tree): the
   pre-order walk with its per-entry MkdirAll / Symlink / Link / temp-file-and-rename leaves
   exactly what the structural specification `merge` says, or fails exactly when it fails. *)
Theorem run_walk_merge k : forall n d, run_walk k (walk n) d = wres_of (merge k n d).
Proof.
  induction n as [i pm c|t|es IH] using node_ind2; intros d.
  - cbn [walk run_walk merge]. unfold visit, place_file. cbn [fst snd].
    destruct (copy_or_link k [] (File i pm c) (OContent c) d); reflexivity.
  - cbn [walk run_walk merge]. unfold visit. cbn [fst snd upd].
    destruct (f_create (Link t) d); reflexivity.
  - rewrite walk_dir, merge_dir, run_walk_cons. unfold visit. cbn [fst snd upd].
    destruct d as [[i pm c|ds|t]|]; cbn [f_mkdir wres_of]; try reflexivity; apply walk_list_merge; exact IH.
Qed.

Theorem copy_top_merge k w a b src :
  assoc a w = Some src -> copied_link_root k src = false ->
  copy_top k w a b = of_R (merge k src (assoc b w)).
Proof.
  intros Ha Hroot. unfold copy_top. rewrite Ha. destruct src as [i pm c|es|t].
  - reflexivity.
  - rewrite run_walk_merge. destruct (merge k (Dir es) (assoc b w)); reflexivity.
  - cbn [copied_link_root] in Hroot. apply negb_false_iff in Hroot.
    unfold copy_or_link. rewrite Hroot. reflexivity.
Qed.

(* ---------------------------------------------------------------- one file ------------------ *)
(* the closed form of placing one regular file over whatever is there *)
Lemma place_file_eq k i pm c d :
  place_file k i pm c d =
  if link k then
    if link_ok k && is_none d then ROk (File i pm c)                     (* a further name of the source inode *)
    else if fallback k then f_rename (File 0 (eff pm) c) d else RErr     (* EEXIST / EXDEV: copy, or give up *)
  else f_rename (File 0 (eff (mode k)) c) d.                             (* temp file + rename: a NEW inode *)
Proof.
  unfold place_file. rewrite copy_or_link_eq. unfold copy_or_link_a, copy_file_atomic. cbn [upd].
  destruct (link k), (link_ok k), d as [[j pj cj|ds|t]|], (fallback k); reflexivity.
Qed.

Lemma place_file_ok k i pm c d r :
  place_file k i pm c d = ROk r ->
  (exists i' pm', r = File i' pm' c /\ (i' = 0%N \/ (i' = i /\ pm' = pm /\ d = None))) /\ is_dir d = false.
Proof.
  rewrite place_file_eq.
  destruct (link k), (link_ok k), (fallback k), d as [[j pj cj|ds|t]|]; cbn;
    intros H; try discriminate; injection H as <-; split; try reflexivity; do 2 eexists; split; eauto.
Qed.

Lemma place_file_ok_iff k i pm c d :
  (exists r, place_file k i pm c d = ROk r) <-> leaf_ok k d = true.
Proof.
  rewrite place_file_eq. unfold leaf_ok.
  destruct (link k), (link_ok k), (fallback k), d as [[j pj cj|ds|t]|]; cbn; split; intros H;
    try reflexivity; try discriminate; try (destruct H; discriminate); eexists; reflexivity.
Qed.

(* THE IN-PLACE WRITE HAZARD.  The destination name is a hard link to some inode j - in
   particular to the source file's own inode (j = i, an earlier RecursiveLink).  Whatever j is:
   the name is re-bound to a NEW inode (label 0) holding the source's contents; inode j is not
   written.  (Write-in-place would have to be modelled as `File j _ c`: the same inode with the
   new contents.) *)
Theorem place_over_hardlink k i pm c j pj cj :
  place_file k i pm c (Some (File j pj cj)) =
  if link k then (if fallback k then ROk (File 0 (eff pm) c) else RErr)
  else ROk (File 0 (eff (mode k)) c).
Proof.
  rewrite place_file_eq. cbn [is_none]. rewrite andb_false_r. cbn [f_rename]. reflexivity.
Qed.

(* ---------------------------------------------------------------- one directory level ------- *)
Lemma assoc_in x c (es : list (str * node)) : assoc x es = Some c -> In (x, c) es.
Proof.
  induction es as [|[y w] r IH]; cbn [assoc]; [discriminate|].
  destruct (str_eqb x y) eqn:E.
  - apply str_eqb_eq in E. subst y. intros H. injection H as <-. now left.
  - intros H. right. now apply IH.
Qed.

Lemma nodup_head x (r : list str) :
  nodupb (x :: r) = true -> ~ In x r /\ nodupb r = true.
Proof.
  cbn [nodupb]. intros H. apply andb_true_iff in H as [Hx Hr]. split; [|assumption].
  apply existsb_str_false. now apply negb_true_iff.
Qed.

Lemma merge_list_spec k : forall es ds dst,
  merge_list k es ds = ROk dst ->
  exists ds', dst = Dir ds' /\
    (forall x, assoc x es = None -> assoc x ds' = assoc x ds) /\
    (nodupb (map fst es) = true ->
     forall x c, assoc x es = Some c -> exists c', assoc x ds' = Some c' /\ merge k c (assoc x ds) = ROk c').
Proof.
  induction es as [|[y cy] r IH]; intros ds dst.
  - rewrite merge_list_nil. intros H. injection H as <-. exists ds. split; [reflexivity|]. split; [reflexivity|]. intros _ x c H. discriminate.
  - rewrite merge_list_cons. destruct (merge k cy (assoc y ds)) as [c'| |] eqn:E; try discriminate.
    intros H. destruct (IH _ _ H) as [ds' [-> [HA HB]]]. exists ds'. split; [reflexivity|]. split.
    + intros x Hx. cbn [assoc] in Hx. destruct (str_eqb x y) eqn:Exy; [discriminate|].
      rewrite (HA x Hx). apply assoc_set_other. now apply str_eqb_neq.
    + intros Hnd x c Hx. cbn [map fst] in Hnd. apply nodup_head in Hnd as [Hy Hnd].
      cbn [assoc] in Hx. destruct (str_eqb x y) eqn:Exy.
      * injection Hx as <-. apply str_eqb_eq in Exy. subst x. exists c'. split; [|exact E].
        rewrite HA; [apply assoc_set_same | now apply assoc_notin].
      * destruct (HB Hnd x c Hx) as [c'' [H1 H2]]. exists c''. split; [exact H1|].
        rewrite assoc_set_other in H2; [exact H2 | now apply str_eqb_neq].
Qed.

Lemma wfb_dir_parts es :
  wfb (Dir es) = true -> nodupb (map fst es) = true /\ Forall (fun e => wfb (snd e) = true) es.
Proof.
  rewrite wfb_dir. intros H. apply andb_true_iff in H as [H Hl]. apply andb_true_iff in H as [Hnd _].
  split; [assumption | now apply wfb_list_forall].
Qed.

(* the instance of a Forall over the entries at the entry found by assoc *)
Ltac child Hall Ex name :=
  let Hin := fresh "Hin" in
  pose proof (assoc_in _ _ _ Ex) as Hin;
  pose proof (proj1 (Forall_forall _ _) Hall _ Hin) as name; cbn [snd] in name; clear Hin.

(* ---------------------------------------------------------------- path by path -------------- *)
(* What every entry of the source has become: at each path p of the source, the destination holds
   the merge of the source's node at p with what was at p before the call. *)
Theorem merge_lookup k : forall src, wfb src = true -> forall d dst, merge k src d = ROk dst ->
  forall p n, lookup p src = Some n ->
  exists r, lookup p dst = Some r /\ merge k n (lookup_d p d) = ROk r.
Proof.
  induction src as [i pm c|t|es IH] using node_ind2; intros Hwf d dst Hm p n Hp.
  - destruct p as [|x q]; [|discriminate]. cbn [lookup] in *. injection Hp as <-.
    exists dst. now rewrite lookup_d_nil.
  - destruct p as [|x q]; [|discriminate]. cbn [lookup] in *. injection Hp as <-.
    exists dst. now rewrite lookup_d_nil.
  - destruct p as [|x q].
    + cbn [lookup] in *. injection Hp as <-. exists dst. now rewrite lookup_d_nil.
    + cbn [lookup] in Hp. destruct (assoc x es) as [c|] eqn:Ex; [|discriminate].
      apply wfb_dir_parts in Hwf as [Hnd Hwfl].
      apply merge_dir_ok in Hm as [Hm Hd].
      destruct (merge_list_spec _ _ _ _ Hm) as [ds' [-> [_ HB]]].
      destruct (HB Hnd x c Ex) as [c' [Hc' Hmc]].
      child IH Ex IHc.
      child Hwfl Ex Hwc.
      destruct (IHc Hwc _ _ Hmc q n Hp) as [r [Hr1 Hr2]].
      exists r. cbn [lookup]. rewrite Hc'. split; [exact Hr1|]. now rewrite lookup_d_cons.
Qed.

(* Stale entries survive: whatever the destination held at a path the source does not have is left
   exactly as it was - the same inode, mode, contents, target, subtree. *)
Theorem merge_untouched k : forall src, wfb src = true -> forall d dst, merge k src d = ROk dst ->
  forall p, lookup p src = None -> lookup p dst = lookup_d p d.
Proof.
  induction src as [i pm c|t|es IH] using node_ind2; intros Hwf d dst Hm p Hp.
  - destruct p as [|x q]; [discriminate|]. cbn [merge] in Hm.
    apply place_file_ok in Hm as [[i' [pm' [-> _]]] Hd]. cbn [lookup].
    destruct d as [[j pj cj|ds|t]|]; try reflexivity. discriminate.
  - destruct p as [|x q]; [discriminate|]. cbn [merge] in Hm.
    destruct d; cbn [f_create] in Hm; [discriminate|]. injection Hm as <-. reflexivity.
  - destruct p as [|x q]; [discriminate|].
    apply wfb_dir_parts in Hwf as [Hnd Hwfl].
    apply merge_dir_ok in Hm as [Hm Hd].
    destruct (merge_list_spec _ _ _ _ Hm) as [ds' [-> [HA HB]]].
    rewrite (lookup_d_cons _ _ _ Hd). cbn [lookup] in *.
    destruct (assoc x es) as [c|] eqn:Ex.
    + destruct (HB Hnd x c Ex) as [c' [Hc' Hmc]]. rewrite Hc'.
      child IH Ex IHc.
      child Hwfl Ex Hwc.
      exact (IHc Hwc _ _ Hmc q Hp).
    + rewrite (HA x Ex). destruct (assoc x (entries_of d)); reflexivity.
Qed.

(* After a successful call every entry of the source is present at the destination with the same
   kind, equal contents, equal symlink target - whatever the destination held before. *)
Lemma covers_list_intro es ds :
  (forall x c, In (x, c) es -> exists c', assoc x ds = Some c' /\ covers c c' = true) ->
  covers_list es ds = true.
Proof.
  induction es as [|[x c] r IH]; intros H; [reflexivity|]. rewrite covers_list_cons.
  destruct (H x c (or_introl eq_refl)) as [c' [-> Hc]]. rewrite Hc. cbn [andb].
  apply IH. intros y cy Hin. apply H. now right.
Qed.

Lemma in_assoc_nodup (es : list (str * node)) :
  nodupb (map fst es) = true -> forall x c, In (x, c) es -> assoc x es = Some c.
Proof.
  induction es as [|[y w] r IH]; intros Hnd x c Hin; [destruct Hin|].
  cbn [map fst] in Hnd. apply nodup_head in Hnd as [Hy Hnd]. cbn [assoc].
  destruct Hin as [Heq|Hin].
  - injection Heq as <- <-. now rewrite str_eqb_refl.
  - destruct (str_eqb x y) eqn:E.
    + apply str_eqb_eq in E. subst y. exfalso. apply Hy.
      change x with (fst (x, c)). now apply in_map.
    + now apply IH.
Qed.

Theorem merge_covers k : forall src, wfb src = true -> forall d dst, merge k src d = ROk dst ->
  covers src dst = true.
Proof.
  induction src as [i pm c|t|es IH] using node_ind2; intros Hwf d dst Hm.
  - cbn [merge] in Hm. apply place_file_ok in Hm as [[i' [pm' [-> _]]] _]. cbn [covers]. apply str_eqb_refl.
  - cbn [merge] in Hm. destruct d; cbn [f_create] in Hm; [discriminate|]. injection Hm as <-.
    cbn [covers]. apply str_eqb_refl.
  - apply wfb_dir_parts in Hwf as [Hnd Hwfl].
    apply merge_dir_ok in Hm as [Hm Hd].
    destruct (merge_list_spec _ _ _ _ Hm) as [ds' [-> [_ HB]]].
    rewrite covers_dir. apply covers_list_intro. intros x c Hin.
    pose proof (in_assoc_nodup _ Hnd _ _ Hin) as Ex.
    destruct (HB Hnd x c Ex) as [c' [Hc' Hmc]]. exists c'. split; [exact Hc'|].
    child IH Ex IHc.
    child Hwfl Ex Hwc.
    exact (IHc Hwc _ _ Hmc).
Qed.

(* ---------------------------------------------------------------- when it fails ------------- *)
Lemma clash_list_set k x v : forall r ds,
  ~ In x (map fst r) -> clash_list k r (set x v ds) = clash_list k r ds.
Proof.
  induction r as [|[y c] r IH]; intros ds Hx; [reflexivity|]. rewrite !clash_list_cons.
  cbn [map fst In] in Hx. rewrite assoc_set_other; [|intros ->; apply Hx; now left].
  rewrite IH; [reflexivity | intros Hin; apply Hx; now right].
Qed.

Lemma merge_list_ok_iff k : forall es,
  Forall (fun e => wfb (snd e) = true ->
                   forall d, (exists dst, merge k (snd e) d = ROk dst) <-> clash_free k (snd e) d = true) es ->
  Forall (fun e => wfb (snd e) = true) es ->
  nodupb (map fst es) = true ->
  forall ds, (exists dst, merge_list k es ds = ROk dst) <-> clash_list k es ds = true.
Proof.
  induction es as [|[x c] r IH]; intros Hall Hwfl Hnd ds.
  - cbn. split; [reflexivity | intros _; eexists; reflexivity].
  - inversion Hall as [|e l Hc Hr]; subst. inversion Hwfl as [|e' l' Hwc Hwr]; subst. cbn [snd] in *.
    cbn [map fst] in Hnd. apply nodup_head in Hnd as [Hx Hnd].
    rewrite merge_list_cons, clash_list_cons. specialize (Hc Hwc (assoc x ds)). split.
    + intros [dst H]. destruct (merge k c (assoc x ds)) as [c'| |] eqn:E; try discriminate.
      apply andb_true_iff. split; [apply Hc; eauto|].
      rewrite <- (clash_list_set k x c' r ds Hx). apply (IH Hr Hwr Hnd). eauto.
    + intros H. apply andb_true_iff in H as [H1 H2]. apply Hc in H1 as [c' E]. rewrite E.
      apply (IH Hr Hwr Hnd). now rewrite clash_list_set.
Qed.

(* The call succeeds EXACTLY when no entry of the source meets a clash (clash_free, Model/C34.v):
     a regular file : copy - anything but a directory may be there (it is replaced);
                      link - nothing may be there, unless fallback: then as for copy;
     a symlink      : nothing may be there (EEXIST; also an identical symlink);
     a directory    : nothing or a directory may be there, and the same holds for its entries
                      against the entries of the same name. *)
Theorem merge_ok_iff k : forall src, wfb src = true ->
  forall d, (exists dst, merge k src d = ROk dst) <-> clash_free k src d = true.
Proof.
  induction src as [i pm c|t|es IH] using node_ind2; intros Hwf d.
  - cbn [merge clash_free]. apply place_file_ok_iff.
  - cbn [merge clash_free]. destruct d; cbn; split; intros H; try discriminate;
      try (destruct H; discriminate); try reflexivity. eexists; reflexivity.
  - apply wfb_dir_parts in Hwf as [Hnd Hwfl]. rewrite merge_dir, clash_dir.
    destruct d as [[i pm c|ds|t]|].
    + split; [intros [? H]; discriminate | discriminate].
    + now apply merge_list_ok_iff.
    + split; [intros [? H]; discriminate | discriminate].
    + now apply merge_list_ok_iff.
Qed.

(* ---------------------------------------------------------------- inodes -------------------- *)
Lemma files_assoc x c (es : list (str * node)) f :
  assoc x es = Some c -> In f (files c) -> In f (files_list es).
Proof.
  induction es as [|[y w] r IH]; cbn [assoc]; [discriminate|]. cbn [files_list].
  destruct (str_eqb x y).
  - intros H. injection H as <-. intros Hin. apply in_or_app. now left.
  - intros H Hin. apply in_or_app. right. now apply IH.
Qed.

Lemma files_d_assoc x (es : list (str * node)) f :
  In f (files_d (assoc x es)) -> In f (files_list es).
Proof.
  destruct (assoc x es) as [c|] eqn:E; cbn [files_d]; [|intros []]. now apply files_assoc with (x := x) (c := c).
Qed.

Lemma files_set x v : forall es f,
  In f (files_list (set x v es)) -> In f (files v) \/ In f (files_list es).
Proof.
  induction es as [|[y w] r IH]; intros f; cbn [set files_list].
  - rewrite app_nil_r. now left.
  - destruct (str_eqb x y); cbn [files_list]; intros H; apply in_app_or in H as [H|H].
    + now left.
    + right. apply in_or_app. now right.
    + right. apply in_or_app. now left.
    + apply IH in H as [H|H]; [now left | right; apply in_or_app; now right].
Qed.

Definition ino_of (f : N * N * str) : N := fst (fst f).

Lemma merge_list_files k : forall es,
  Forall (fun e => forall d dst, merge k (snd e) d = ROk dst ->
                   forall f, In f (files dst) -> ino_of f = 0%N \/ In f (files (snd e)) \/ In f (files_d d)) es ->
  forall ds dst, merge_list k es ds = ROk dst ->
  forall f, In f (files dst) -> ino_of f = 0%N \/ In f (files_list es) \/ In f (files_list ds).
Proof.
  induction es as [|[x c] r IH]; intros Hall ds dst Hm f Hf.
  - rewrite merge_list_nil in Hm. injection Hm as <-. right. right. exact Hf.
  - inversion Hall as [|e l Hc Hr]; subst. cbn [snd] in Hc.
    rewrite merge_list_cons in Hm. destruct (merge k c (assoc x ds)) as [c'| |] eqn:E; try discriminate.
    cbn [files_list].
    destruct (IH Hr _ _ Hm f Hf) as [H|[H|H]].
    + now left.
    + right. left. apply in_or_app. now right.
    + apply files_set in H as [H|H].
      * destruct (Hc _ _ E f H) as [H0|[H0|H0]].
        -- now left.
        -- right. left. apply in_or_app. now left.
        -- right. right. now apply files_d_assoc with (x := x).
      * right. right. exact H.
Qed.

(* Provenance of every regular file at the destination after a successful call: it is a NEW inode
   (label 0), or literally a file of the source (same inode, same mode, same contents: a hard
   link), or a file the destination held before (same inode, mode, contents: untouched).  No
   pre-existing inode shows up with other contents or another mode. *)
Theorem merge_files k : forall src d dst, merge k src d = ROk dst ->
  forall f, In f (files dst) -> ino_of f = 0%N \/ In f (files src) \/ In f (files_d d).
Proof.
  induction src as [i pm c|t|es IH] using node_ind2; intros d dst Hm f Hf.
  - cbn [merge] in Hm. apply place_file_ok in Hm as [[i' [pm' [-> Hi]]] _].
    cbn [files In] in Hf. destruct Hf as [<-|[]]. destruct Hi as [->|[-> [-> _]]].
    + now left.
    + right. left. now left.
  - cbn [merge] in Hm. destruct d; cbn [f_create] in Hm; [discriminate|]. injection Hm as <-. destruct Hf.
  - apply merge_dir_ok in Hm as [Hm Hd]. rewrite files_dir.
    destruct (merge_list_files k es IH _ _ Hm f Hf) as [H|[H|H]]; [now left | right; now left | right; right].
    destruct Hd as [->| ->]; [destruct H | exact H].
Qed.

Theorem copy_top_files k w a b dst :
  copy_top k w a b = Done dst ->
  forall f, In f (files dst) -> ino_of f = 0%N \/ In f (files (Dir w)).
Proof.
  unfold copy_top. destruct (assoc a w) as [src|] eqn:Ha; [|discriminate].
  assert (forall f, In f (files src) -> In f (files (Dir w))) as Hsrc.
  { intros f Hf. rewrite files_dir. now apply files_assoc with (x := a) (c := src). }
  assert (forall f, In f (files_d (assoc b w)) -> In f (files (Dir w))) as Hdst.
  { intros f Hf. rewrite files_dir. now apply files_d_assoc with (x := b). }
  destruct src as [i pm c|es|t].
  - change (copy_or_link k [] (File i pm c) (open_node (S (length w)) w (File i pm c)) (assoc b w))
      with (merge k (File i pm c) (assoc b w)).
    destruct (merge k (File i pm c) (assoc b w)) as [n| |] eqn:E; cbn [of_R]; try discriminate.
    intros H f Hf. injection H as <-. destruct (merge_files _ _ _ _ E f Hf) as [H|[H|H]]; auto.
  - rewrite run_walk_merge.
    destruct (merge k (Dir es) (assoc b w)) as [n| |] eqn:E; cbn [wres_of]; try discriminate.
    intros H f Hf. injection H as <-. destruct (merge_files _ _ _ _ E f Hf) as [H|[H|H]]; auto.
  - unfold copy_or_link. destruct (link k).
    + cbn [upd]. destruct (assoc b w); cbn [f_create of_R]; [discriminate|].
      intros H f Hf. injection H as <-. destruct Hf.
    + destruct (open_node (S (length w)) w (Link t)) as [c| |]; cbn [of_R]; try discriminate.
      rewrite copy_file_refines. unfold copy_file_atomic. cbn [upd]. destruct (assoc b w) as [[j pj cj|ds|t']|]; cbn [f_rename of_R]; try discriminate;
        intros H f Hf; injection H as <-; cbn [files In] in Hf; destruct Hf as [<-|[]]; now left.
Qed.

(* "Never modifies the source", also where the destination already hard-links to the source's
   files.  The world after the call is `set b dst w`: every entry but `to` is literally what it was
   (only_destination_written).  What that could hide is a write THROUGH a destination name into an
   inode shared with the source: the inode's label would then stand for two different contents.
   It does not: a world whose hard links were consistent stays consistent - every inode that
   existed before still has one mode and one content, the ones it had. *)
Theorem hardlinks_stay_consistent k w a b dst :
  copy_top k w a b = Done dst ->
  consistent (files (Dir w)) -> consistent (files (Dir (set b dst w))).
Proof.
  intros Hc Hw i p c p' c' Hi H1 H2.
  assert (forall f, In f (files (Dir (set b dst w))) -> ino_of f = 0%N \/ In f (files (Dir w))) as Hprov.
  { intros f Hf. rewrite files_dir in Hf. apply files_set in Hf as [Hf|Hf].
    - exact (copy_top_files _ _ _ _ _ Hc f Hf).
    - right. exact Hf. }
  destruct (Hprov _ H1) as [H|H1']; [cbn in H; congruence|].
  destruct (Hprov _ H2) as [H|H2']; [cbn in H; congruence|].
  exact (Hw i p c p' c' Hi H1' H2').
Qed.

(* The hazard, path by path: wherever the destination held a regular file under a name the source
   has as a regular file - any inode, in particular the source file's own inode - the name holds a
   NEW inode with the source's contents after a successful call. *)
Corollary file_over_file k src d dst p i pm c j pj cj :
  wfb src = true -> merge k src d = ROk dst ->
  lookup p src = Some (File i pm c) -> lookup_d p d = Some (File j pj cj) ->
  lookup p dst = Some (File 0 (eff (if link k then pm else mode k)) c).
Proof.
  intros Hwf Hm Hs Hd. destruct (merge_lookup k src Hwf d dst Hm p _ Hs) as [r [Hr Hmr]].
  rewrite Hd in Hmr. cbn [merge] in Hmr. rewrite place_over_hardlink in Hmr. rewrite Hr.
  destruct (link k); [destruct (fallback k); [|discriminate]|]; now injection Hmr as <-.
Qed.

(* ---------------------------------------------------------------- a fresh destination ------- *)
(* the old main lemma is the special case d = None *)
Corollary merge_fresh k n :
  placeable k = true -> wfb n = true -> merge k n None = ROk (map_files (file_result k) n).
Proof.
  intros Hp Hwf. pose proof (run_walk_merge k n None) as H. rewrite (walk_fresh k Hp n Hwf) in H.
  destruct (merge k n None); cbn [wres_of] in H; congruence.
Qed.

(* ---------------------------------------------------------------- a symlink in the source --- *)
(* A destination that already has an entry wherever the source has one (an earlier copy of the same
   tree, any inodes / modes / contents): the call fails as soon as the source holds a symlink. *)
Fixpoint shadows (s d : node) : bool :=
  match s, d with
  | Dir es, Dir ds =>
      (fix go (l : list (str * node)) : bool :=
         match l with
         | [] => true
         | (x, c) :: r => match assoc x ds with Some c' => shadows c c' | None => false end && go r
         end) es
  | Dir _, _ => false
  | _, _ => true
  end.

Definition shadows_list (l ds : list (str * node)) : bool :=
  (fix go (l : list (str * node)) : bool :=
     match l with
     | [] => true
     | (x, c) :: r => match assoc x ds with Some c' => shadows c c' | None => false end && go r
     end) l.

Lemma shadows_list_cons x c r ds :
  shadows_list ((x, c) :: r) ds =
  match assoc x ds with Some c' => shadows c c' | None => false end && shadows_list r ds.
Proof. reflexivity. Qed.

Lemma shadows_dir es ds : shadows (Dir es) (Dir ds) = shadows_list es ds.
Proof. reflexivity. Qed.

Lemma clash_symlink k : forall src d,
  has_link src = true -> shadows src d = true -> clash_free k src (Some d) = false.
Proof.
  induction src as [i pm c|t|es IH] using node_ind2; intros d Hl Hs.
  - discriminate.
  - reflexivity.
  - rewrite clash_dir. destruct d as [j pj cj|ds|t]; try reflexivity.
    rewrite has_link_dir in Hl. rewrite shadows_dir in Hs.
    induction es as [|[x c] r IHr]; [discriminate|].
    rewrite shadows_list_cons in Hs. rewrite clash_list_cons. cbn [has_link_list] in Hl. inversion IH as [|e l Hc Hr]; subst. cbn [snd] in Hc.
    apply andb_true_iff in Hs as [Hs1 Hs2]. destruct (assoc x ds) as [c'|]; [|discriminate].
    apply orb_true_iff in Hl as [Hl|Hl].
    + now rewrite (Hc c' Hl Hs1).
    + rewrite (IHr Hr Hl Hs2). apply andb_false_r.
Qed.

Theorem recopy_with_symlink_fails k src d :
  wfb src = true -> has_link src = true -> shadows src d = true ->
  forall dst, merge k src (Some d) <> ROk dst.
Proof.
  intros Hwf Hl Hs dst H.
  assert (clash_free k src (Some d) = true) as Hc by (apply merge_ok_iff; eauto).
  rewrite (clash_symlink k src d Hl Hs) in Hc. discriminate.
Qed.

(* ---------------------------------------------------------------- path spelling ------------- *)
Lemma rel_of_app from rel : rel_of from (from ++ rel) = Some rel.
Proof.
  unfold rel_of. rewrite app_length.
  replace (Nat.leb (length from) (length from + length rel)) with true by (symmetry; apply Nat.leb_le; lia).
  f_equal. induction from as [|x r IH]; [reflexivity | exact IH].
Qed.

(* the code as it is: the directory branch cleans `from` first (read from the regenerated program) *)
Lemma cleans_first_ok : cleans_first = true.
Proof. reflexivity. Qed.

(* HOWEVER `from` is spelled: every name the walk reports (the cleaned root followed by anything)
   yields exactly its path relative to the root - the copy of an unclean path is the copy of its
   Clean form *)
Theorem rel_of_any_spelling from cleaned rel :
  rel_of (prefix_stripped from cleaned) (cleaned ++ rel) = Some rel.
Proof. unfold prefix_stripped. rewrite cleans_first_ok. apply rel_of_app. Qed.

Theorem never_panics from cleaned isdir : walk_panics from cleaned isdir = false.
Proof.
  unfold walk_panics. rewrite <- (app_nil_r cleaned) at 2. rewrite rel_of_any_spelling. apply andb_false_r.
Qed.

(* what the cleaning prevents (the finding, fixed in /repo): stripping the prefix as spelled from the
   cleaned, shorter root name is a slice out of range *)
Theorem unclean_prefix_would_panic from cleaned :
  length cleaned < length from -> rel_of from cleaned = None.
Proof.
  intros H. unfold rel_of.
  replace (Nat.leb (length from) (length cleaned)) with false by (symmetry; apply Nat.leb_gt; lia).
  reflexivity.
Qed.
