(* C23 - findRevdeps without a depth limit (--level -1): completeness, for ALL graphs, hidden flags, root lists and
   enumeration orders of the roots' children.  Together with revdeps_sound_proof (Proof/C23.v) this makes
   `plz query revdeps --level -1` exact.

   Why no side condition is needed (the `depth > 0` test looked suspicious): a target t is left out of `ret` on the
   edge w <- t only when w was popped at depth 0 AND the edge is free (isSameTarget).  Follow a reverse path of
   cost >= 1 to t and take its LAST edge of cost 1, v' <- v: whatever depth v' was popped at, depth+1 > 0, so v is
   reported there; the rest of the path consists of free edges, which stay inside one rule, so v and t are
   reported under the same name (same_report below).  In particular, when the rules depend on each other
   cyclically through hidden sub-targets (x depends on r, r's own _r#b depends on x), the root's rule r is
   reported as a reverse dependency of itself - consistently with the specification `rwithin`, which asks for
   SOME dependency chain of cost >= 1, not for the cheapest one. *)
From Coq Require Import Lia Permutation.
From PlzV Require Import Base.Harness Model.C23 Proof.C23_Spec Proof.C23.

Lemma In_add_same : forall y s, In y (add y s).
Proof.
  intros y s. unfold add. destruct (mem y s) eqn:E; [apply mem_In; exact E | apply in_or_app; right; left; reflexivity].
Qed.

Lemma In_add_old : forall x y s, In x s -> In x (add y s).
Proof. intros x y s H. unfold add. destruct (mem y s); [exact H | apply in_or_app; left; exact H]. Qed.

Lemma find_In_pair : forall g l i, find g l = Some i -> In (l, i) g.
Proof.
  induction g as [|[k v] g IH]; intros l i H; cbn [find] in H; [discriminate|].
  destruct (N.eqb l k) eqn:E.
  - apply N.eqb_eq in E. injection H as <-. subst k. left. reflexivity.
  - right. apply IH. exact H.
Qed.

(* buildRevdeps misses no edge *)
Lemma rev_of_complete : forall g t w, edge g [] t w -> In t (rev_of g w).
Proof.
  intros g t w [it [Hf Hs]]. unfold rev_of. apply in_flat_map. exists (t, it). split; [apply find_In_pair; exact Hf|].
  cbn [fst snd]. apply in_map_iff. exists w. split; [reflexivity|]. apply filter_In. split; [exact Hs | apply N.eqb_refl].
Qed.

(* free edges stay inside one rule: both ends are reported under the same name *)
Lemma same_report : forall g u t x, same_target g u t = true -> report g false t x -> report g false u x.
Proof.
  intros g u t x Hs Hr. unfold same_target in Hs. destruct (N.eqb u t) eqn:E; [apply N.eqb_eq in E; subst; exact Hr|].
  unfold report in *. cbn [orb] in *.
  destruct (is_hidden g u) eqn:Hu; destruct (is_hidden g t) eqn:Ht; cbn [negb] in *.
  - destruct (parent_target g u) as [a|]; [|discriminate]. destruct (parent_target g t) as [b|]; [|discriminate].
    apply N.eqb_eq in Hs. congruence.
  - destruct (parent_target g u) as [a|]; [|discriminate]. apply N.eqb_eq in Hs. congruence.
  - destruct (parent_target g t) as [b|]; [|discriminate]. apply N.eqb_eq in Hs. congruence.
  - apply N.eqb_eq in Hs. congruence.
Qed.

Section RevUnlimited.
  Variable g : graph.
  Variable hid : bool.

  (* t is in `ret` under the name it is reported by *)
  Definition reported (ret : list label) (t : label) : Prop := forall x, report g hid t x -> In x ret.

  (* every dependent of w has been pushed, and reported unless the edge was free *)
  Definition processed (st : rstate) (w : label) : Prop :=
    forall t, edge g [] t w -> In t (r_done st) /\ (rcost g hid w t = 1%Z -> reported (r_ret st) t).

  Definition queued (st : rstate) (w : label) : Prop := exists d, In (w, d) (r_q st).

  (* e = the node that has just been popped and whose dependents are being examined (exempt for the moment) *)
  Definition cinvE (e : label -> Prop) (st : rstate) : Prop :=
    (forall t d, In (t, d) (r_q st) -> (0 <= d)%Z) /\
    (forall w, In w (r_done st) -> e w \/ queued st w \/ processed st w).

  Definition cinv (st : rstate) : Prop := cinvE (fun _ => False) st.

  (* st' has at least the queue, done set and result of st *)
  Definition grows (st st' : rstate) : Prop :=
    incl (r_q st) (r_q st') /\ incl (r_done st) (r_done st') /\ incl (r_ret st) (r_ret st').

  Lemma grows_refl : forall st, grows st st.
  Proof. intros st. repeat split; apply incl_refl. Qed.

  Lemma grows_trans : forall a b c, grows a b -> grows b c -> grows a c.
  Proof. intros a b c [A1 [A2 A3]] [B1 [B2 B3]]. repeat split; eapply incl_tran; eauto. Qed.

  Lemma processed_grows : forall st st' w, grows st st' -> processed st w -> processed st' w.
  Proof.
    intros st st' w [_ [G2 G3]] Hp t Ht. destruct (Hp t Ht) as [Hd Hr]. split; [apply G2; exact Hd|].
    intros Hc x Hx. apply G3. apply Hr; assumption.
  Qed.

  Lemma push_grows : forall n st, grows st (push n st).
  Proof.
    intros n st. unfold push. destruct (mem (fst n) (r_done st)); [apply grows_refl|].
    repeat split; cbn [r_q r_done r_ret]; intros z Hz; [apply in_or_app; left; exact Hz | right; exact Hz | exact Hz].
  Qed.

  Lemma push_done : forall t d st, In t (r_done (push (t, d) st)).
  Proof.
    intros t d st. unfold push. cbn [fst]. destruct (mem t (r_done st)) eqn:E; [apply mem_In; exact E|].
    cbn [r_done]. left. reflexivity.
  Qed.

  Lemma push_cinv : forall e t d st, (0 <= d)%Z -> cinvE e st -> cinvE e (push (t, d) st).
  Proof.
    intros e t d st Hd [C1 C2]. pose proof (push_grows (t, d) st) as Hg.
    unfold push in *. cbn [fst] in *. destruct (mem t (r_done st)) eqn:E; [split; assumption|].
    split; cbn [r_q r_done r_ret].
    - intros t' d' Hin. apply in_app_or in Hin. destruct Hin as [Hin|[Hin|[]]]; [eapply C1; exact Hin|].
      injection Hin as <- <-. exact Hd.
    - intros w [Hw|Hw].
      + subst w. right. left. exists d. cbn [r_q]. apply in_or_app. right. left. reflexivity.
      + destruct (C2 w Hw) as [He|[[d' Hq]|Hp]].
        * left. exact He.
        * right. left. exists d'. cbn [r_q]. apply in_or_app. left. exact Hq.
        * right. right. eapply processed_grows; [exact Hg | exact Hp].
  Qed.

  (* ---- one iteration of the inner loop, no depth limit ---- *)
  Lemma rev_step_unlimited :
    forall e nt nd st t, (0 <= nd)%Z -> cinvE e st ->
      let st' := rev_step g hid (-1) nt nd st t in
      cinvE e st' /\ grows st st' /\ In t (r_done st') /\ (rcost g hid nt t = 1%Z -> reported (r_ret st') t).
  Proof.
    intros e nt nd st t Hnd Hc. unfold rev_step.
    replace (Z.ltb nd (-1) || Z.eqb (-1) (-1)) with true by (rewrite orb_true_r; reflexivity).
    set (depth := if hid || negb (same_target g nt t) then (nd + 1)%Z else nd).
    set (ret' := if Z.ltb 0 depth
                 then (if hid || negb (is_hidden g t) then add t (r_ret st)
                       else match parent_target g t with Some p => add p (r_ret st) | None => r_ret st end)
                 else r_ret st).
    assert (Hdepth : (0 <= depth)%Z) by (unfold depth; destruct (hid || negb (same_target g nt t)); lia).
    assert (Hret : incl (r_ret st) ret').
    { unfold ret'. destruct (Z.ltb 0 depth); [|apply incl_refl].
      destruct (hid || negb (is_hidden g t)); [intros z Hz; apply In_add_old; exact Hz|].
      destruct (parent_target g t); [intros z Hz; apply In_add_old; exact Hz | apply incl_refl]. }
    set (st1 := mkR (r_q st) (r_done st) ret').
    assert (Hg1 : grows st st1) by (repeat split; cbn [r_q r_done r_ret]; [apply incl_refl | apply incl_refl | exact Hret]).
    assert (Hc1 : cinvE e st1).
    { destruct Hc as [C1 C2]. split; cbn [r_q r_done]; [exact C1|]. intros w Hw.
      destruct (C2 w Hw) as [He|[Hq|Hp]]; [left; exact He | right; left; exact Hq | right; right; eapply processed_grows; eauto]. }
    cbn zeta. split; [apply push_cinv; assumption|]. split; [eapply grows_trans; [exact Hg1 | apply push_grows]|].
    split; [apply push_done|].
    intros Hcost x Hx. apply (push_grows (t, depth) st1). cbn [r_ret st1].
    unfold rcost in Hcost. unfold ret', depth.
    destruct (hid || negb (same_target g nt t)); [|discriminate].
    replace (Z.ltb 0 (nd + 1)) with true by (symmetry; apply Z.ltb_lt; lia).
    unfold report in Hx. destruct (hid || negb (is_hidden g t)).
    - subst x. apply In_add_same.
    - rewrite Hx. apply In_add_same.
  Qed.

  Lemma rev_fold_unlimited :
    forall e nt nd ts st, (0 <= nd)%Z -> cinvE e st ->
      let st' := fold_left (rev_step g hid (-1) nt nd) ts st in
      cinvE e st' /\ grows st st' /\
      forall t, In t ts -> In t (r_done st') /\ (rcost g hid nt t = 1%Z -> reported (r_ret st') t).
  Proof.
    intros e nt nd. induction ts as [|t ts IH]; intros st Hnd Hc; cbn [fold_left].
    - split; [exact Hc|]. split; [apply grows_refl|]. intros t [].
    - destruct (rev_step_unlimited e nt nd st t Hnd Hc) as [Hc1 [Hg1 [Hd1 Hr1]]].
      destruct (IH _ Hnd Hc1) as [Hc2 [Hg2 Hall]].
      split; [exact Hc2|]. split; [eapply grows_trans; eauto|].
      intros z [Hz|Hz]; [|apply Hall; exact Hz]. subst z. destruct Hg2 as [_ [G2 G3]].
      split; [apply G2; exact Hd1|]. intros Hcost x Hx. apply G3. apply Hr1; assumption.
  Qed.

  (* the main loop: what was pushed at the start ends up in a set closed under "depends on", every member of
     which is reported unless it was reached by a free edge *)
  Lemma rev_loop_unlimited :
    forall fuel st out, cinv st -> rev_loop fuel g hid (-1) st = Some out ->
      exists D, incl (r_done st) D /\
        forall w, In w D -> forall t, edge g [] t w -> In t D /\ (rcost g hid w t = 1%Z -> reported out t).
  Proof.
    induction fuel as [|f IH]; intros st out Hc H; cbn [rev_loop] in H; [discriminate|].
    destruct (r_q st) as [|[nt nd] q'] eqn:Eq.
    - injection H as <-. exists (r_done st). split; [apply incl_refl|]. intros w Hw.
      destruct Hc as [_ C2]. destruct (C2 w Hw) as [[]|[[d Hq]|Hp]]; [rewrite Eq in Hq; destruct Hq | exact Hp].
    - set (st0 := mkR q' (r_done st) (r_ret st)) in *.
      destruct Hc as [C1 C2].
      assert (Hnd : (0 <= nd)%Z) by (apply (C1 nt nd); rewrite Eq; left; reflexivity).
      assert (Hc0 : cinvE (eq nt) st0).
      { split; cbn [r_q r_done]; [intros t d Hin; apply (C1 t d); rewrite Eq; right; exact Hin|].
        intros w Hw. destruct (C2 w Hw) as [[]|[[d Hq]|Hp]].
        - rewrite Eq in Hq. destruct Hq as [Hq|Hq]; [injection Hq as <- <-; left; reflexivity|].
          right. left. exists d. exact Hq.
        - right. right. exact Hp. }
      destruct (rev_fold_unlimited (eq nt) nt nd (rev_of g nt) st0 Hnd Hc0) as [[D1 D2] [Hg1 Hall]].
      cbn zeta in *.
      set (sb := fold_left (rev_step g hid (-1) nt nd) (rev_of g nt) st0) in *.
      assert (Hnt : processed sb nt).
      { intros t Ht. apply Hall. apply rev_of_complete. exact Ht. }
      assert (Hcb : cinv sb).
      { split; [exact D1|]. intros w Hw. destruct (D2 w Hw) as [He|[Hq|Hp]].
        - subst w. right. right. exact Hnt.
        - right. left. exact Hq.
        - right. right. exact Hp. }
      destruct (IH sb out Hcb H) as [D [HD Hclosed]].
      exists D. split; [|exact Hclosed].
      intros w Hw. apply HD. apply Hg1. exact Hw.
  Qed.

  (* ---- the initial pushes ---- *)
  Lemma fold_push_cinv : forall cs st, cinv st ->
    cinv (fold_left (fun s c => push (c, 0%Z) s) cs st) /\ grows st (fold_left (fun s c => push (c, 0%Z) s) cs st) /\
    forall c, In c cs -> In c (r_done (fold_left (fun s c => push (c, 0%Z) s) cs st)).
  Proof.
    induction cs as [|c cs IH]; intros st Hc; cbn [fold_left].
    - split; [exact Hc|]. split; [apply grows_refl|]. intros c [].
    - destruct (IH (push (c, 0%Z) st) (push_cinv _ c 0%Z st (Z.le_refl 0) Hc)) as [H1 [H2 H3]].
      split; [exact H1|]. split; [eapply grows_trans; [apply push_grows | exact H2]|].
      intros z [Hz|Hz]; [|apply H3; exact Hz]. subst z. apply H2. apply push_done.
  Qed.

  Lemma rev_init_cinv :
    forall rs chs st, Forall2 (fun r ch => Permutation ch (children g r)) rs chs -> cinv st ->
      cinv (rev_init g hid rs chs st) /\ grows st (rev_init g hid rs chs st) /\
      forall s, rstart g hid rs s -> In s (r_done (rev_init g hid rs chs st)).
  Proof.
    intros rs chs st HF. revert st. induction HF as [|r ch rs chs Hperm HF IH]; intros st Hc; cbn [rev_init].
    - split; [exact Hc|]. split; [apply grows_refl|]. intros s [r [[] _]].
    - cbn [hd tl].
      set (st1 := push (r, 0%Z) st).
      assert (Hc1 : cinv st1) by (apply push_cinv; [lia | exact Hc]).
      set (st2 := if negb hid && negb (is_hidden g r) then fold_left (fun s c => push (c, 0%Z) s) ch st1 else st1).
      assert (H2 : cinv st2 /\ grows st1 st2 /\
                   (negb hid && negb (is_hidden g r) = true -> forall c, In c ch -> In c (r_done st2))).
      { unfold st2. destruct (negb hid && negb (is_hidden g r)).
        - destruct (fold_push_cinv ch st1 Hc1) as [A [B C]]. split; [exact A|]. split; [exact B|]. intros _. exact C.
        - split; [exact Hc1|]. split; [apply grows_refl|]. intros F. discriminate. }
      destruct H2 as [Hc2 [Hg2 Hch]]. destruct (IH st2 Hc2) as [Hc3 [Hg3 Hst]].
      split; [exact Hc3|]. split; [eapply grows_trans; [apply push_grows|]; eapply grows_trans; eauto|].
      intros s [r0 [[Hr0|Hr0] Hs]].
      + subst r0. destruct Hg3 as [_ [G2 _]]. apply G2. destruct Hs as [Hs|[Hh [Hr Hin]]].
        * subst s. destruct Hg2 as [_ [G2' _]]. apply G2'. apply push_done.
        * apply Hch; [rewrite Hh, Hr; reflexivity|]. eapply Permutation_in; [apply Permutation_sym; exact Hperm | exact Hin].
      + apply Hst. exists r0. split; assumption.
  Qed.

  Variable roots : list label.

  Theorem revdeps_unlimited_complete :
    forall chs out, Forall2 (fun r ch => Permutation ch (children g r)) roots chs ->
      revdeps_with g roots chs hid (-1) = Some out ->
      forall x, rwithin g hid roots (-1) x -> In x out.
  Proof.
    intros chs out HF H x [s [t [c [Hs [Hp [Hc [_ Hrep]]]]]]]. unfold revdeps_with in H.
    assert (H0 : cinv (mkR [] [] [])) by (split; cbn [r_q r_done]; [intros ? ? [] | intros ? []]).
    destruct (rev_init_cinv roots chs _ HF H0) as [Hci [_ Hst]].
    destruct (rev_loop_unlimited _ _ _ Hci H) as [D [HD Hclosed]].
    assert (Hpath : forall s t c, rpath g hid s t c -> In s D -> In t D /\ ((1 <= c)%Z -> reported out t)).
    { clear s t c Hs Hp Hc Hrep. intros s t c Hp. induction Hp as [s|s u t c Hp IH Hedge]; intros Hin.
      - split; [exact Hin | lia].
      - destruct (IH Hin) as [Hu Hru]. destruct (Hclosed u Hu t Hedge) as [Ht Hrt]. split; [exact Ht|].
        intros Hc. unfold rcost in *. destruct (hid || negb (same_target g u t)) eqn:Ec; [apply Hrt; reflexivity|].
        apply orb_false_iff in Ec. destruct Ec as [Eh Es]. apply negb_false_iff in Es.
        intros y Hy. apply Hru; [lia|]. rewrite Eh in Hy |- *. eapply same_report; eauto. }
    destruct (Hpath s t c Hp (HD s (Hst s Hs))) as [_ Hr]. apply Hr; assumption.
  Qed.
End RevUnlimited.

(* `plz query revdeps --level -1` is exact *)
Theorem revdeps_unlimited_exact :
  forall g roots chs hid, NoDup (map fst g) -> Forall (in_graph g) roots ->
    Forall2 (fun r ch => Permutation ch (children g r)) roots chs ->
    exists out, revdeps_with g roots chs hid (-1) = Some out /\ forall x, In x out <-> rwithin g hid roots (-1) x.
Proof.
  intros g roots chs hid Hnd Hin HF.
  destruct (revdeps_sound_proof g roots chs hid (-1)%Z Hnd Hin HF) as [out [Hq Hs]].
  exists out. split; [exact Hq|]. intros x. split; [apply Hs|].
  eapply revdeps_unlimited_complete; eauto.
Qed.
