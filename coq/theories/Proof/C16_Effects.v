(* C16 follow-up 2 - proofs about WHAT IS EVALUATED.

   (1) flat_ops_g over the guard list gotrans translated from scope.interpretOps IS the hand-transcribed flat_ops, for every
       chain / operand evaluator / state (so every theorem of Proof/C16_Ops.v - flat_is_tree, ops_agree - speaks about the
       translated source); a deciding left operand of and / or in front of tighter operators evaluates NOTHING: the state
       comes back untouched, whatever the operands would do; without the short-circuit guard that is false (witness).
   (2) a comprehension whose variables are bound in a child scope leaves EVERY enclosing scope as it was, for every list of
       items, filter and element expression; the scope interpretJoin / interpretList use is the translated one; the optimised
       join computes the string the generic path computes; with cs := s the variable leaks (witness). *)
From Coq Require Import Lia.
From PlzV Require Import Base.Harness Gen.AspTables Gen.C16Builtins Model.C16_Syntax Model.C16_Prim Model.C16_Ops Model.C16_Effects
  Proof.C16_Ops.
Local Open Scope Z_scope.
Local Open Scope list_scope.

(* the translated guards are the ones flat_ops was transcribed from, in that order *)
Lemma interpret_ops_guards_ok : interpret_ops_guards = [GShortCircuit; GUnary].
Proof. reflexivity. Qed.

Section Guards.
  Context {X V S : Type}.
  Variable evalx : X -> S -> res (V * S).
  Variable apply_bin : binop -> V -> V -> S -> res (V * S).
  Variable apply_un : unop -> V -> S -> res V.
  Variable truthy : V -> S -> bool.
  Notation flat := (flat_ops evalx apply_bin apply_un truthy).
  Notation flatg := (flat_ops_g evalx apply_bin apply_un truthy).
  Notation iop := (interp_op_x evalx apply_bin apply_un truthy).

  Lemma flatg_cons2 : forall gs (obj : V) (i0 i1 : item X) rest st,
    flatg gs obj (i0 :: i1 :: rest) st =
      if aprec (ikey i0) >=? aprec (ikey i1) then
        rbind (iop obj i0 st) (fun '(r, st1) => flatg gs r (i1 :: rest) st1)
      else match guard_action gs (decides truthy obj i0 st) (item_is_un i0) with
           | ARet => Ok (obj, st)
           | AUnary =>
               match i0 with
               | IUn u => rbind (flatg gs obj (i1 :: rest) st) (fun '(r, st1) => lift_un apply_un u r st1)
               | IBin _ _ => Err EType
               end
           | AFall =>
               match i0 with
               | IBin o x =>
                   rbind (evalx x st) (fun '(r0, st1) =>
                   rbind (flatg gs r0 (i1 :: rest) st1) (fun '(n, st2) => interp_op_v apply_bin truthy obj o n st st2))
               | IUn _ => Err EType
               end
           end.
  Proof. reflexivity. Qed.

  (* interpretOps as translated = interpretOps as transcribed: for EVERY chain, operand semantics and state *)
  Theorem flat_ops_g_is_flat_ops : forall (ops : list (item X)) (obj : V) (st : S),
    flatg interpret_ops_guards obj ops st = flat obj ops st.
  Proof.
    rewrite interpret_ops_guards_ok.
    induction ops as [|i0 rest IH]; intros obj st; [reflexivity|].
    destruct rest as [|i1 rest']; [reflexivity|].
    rewrite flatg_cons2, flat_cons2.
    destruct (aprec (ikey i0) >=? aprec (ikey i1)).
    - apply rbind_ext. intros [r st1]. apply IH.
    - unfold decides. cbn [guard_action].
      destruct (alazy (ikey i0) && negb (Bool.eqb (truthy obj st) (key_is_and (ikey i0)))); [reflexivity|].
      destruct i0 as [o x|u]; cbn [item_is_un].
      + apply rbind_ext. intros [r0 st1]. rewrite IH. reflexivity.
      + rewrite IH. reflexivity.
  Qed.

  (* A left operand that decides an and / or evaluates nothing of the rest of the chain - as long as the short-circuit guard
     is tested first: the result is the left operand and the state is the one the chain started in, for EVERY operand
     evaluator (also one that writes).  One operator: interpretOp's own laziness; more: the guard of interpretOps. *)
  Theorem deciding_operand_evaluates_nothing : forall gs (o : binop) (x : X) (rest : list (item X)) (obj : V) (st : S),
    alazy (KB o) = true ->
    all_tighter (IBin o x) rest = true ->
    Bool.eqb (truthy obj st) (binop_eqb o And) = false ->
    flatg (GShortCircuit :: gs) obj (IBin o x :: rest) st = Ok (obj, st).
  Proof.
    intros gs o x rest obj st Hl Ht Hd.
    assert (Ho : o = And \/ o = Or) by (rewrite alazy_spec in Hl; destruct o; try discriminate; auto).
    destruct rest as [|i1 rest'].
    - cbn [flat_ops_g interp_op_x]. destruct Ho as [-> | ->]; rewrite Hd; reflexivity.
    - rewrite flatg_cons2.
      cbn [all_tighter forallb] in Ht. apply andb_prop in Ht. destruct Ht as [Ht _].
      apply Z.ltb_lt in Ht.
      destruct (aprec (ikey (IBin o x)) >=? aprec (ikey i1)) eqn:Hp; [apply Z.geb_le in Hp; lia|].
      unfold decides. cbn [ikey]. rewrite Hl. cbn [andb guard_action].
      replace (key_is_and (KB o)) with (binop_eqb o And) by (destruct Ho as [-> | ->]; reflexivity).
      rewrite Hd. reflexivity.
  Qed.

  Corollary source_deciding_operand_evaluates_nothing : forall (o : binop) (x : X) (rest : list (item X)) (obj : V) (st : S),
    alazy (KB o) = true ->
    all_tighter (IBin o x) rest = true ->
    Bool.eqb (truthy obj st) (binop_eqb o And) = false ->
    flatg interpret_ops_guards obj (IBin o x :: rest) st = Ok (obj, st).
  Proof. intros. rewrite interpret_ops_guards_ok. now apply deciding_operand_evaluates_nothing. Qed.
End Guards.

(* The guard is needed: without it (the unary guard alone) `False and mark() == 1` evaluates mark().  Operands are numbers,
   the state counts the operand evaluations. *)
Definition count_evalx (x : Z) (n : nat) : res (Z * nat) := Ok (x, Datatypes.S n).
Definition count_bin (o : binop) (a b : Z) (n : nat) : res (Z * nat) := Ok ((if a =? b then 1 else 0), n).
Definition count_un (u : unop) (a : Z) (n : nat) : res Z := Ok a.
Definition count_truthy (a : Z) (n : nat) : bool := negb (a =? 0).
Definition lazy_witness : list (item Z) := [IBin And 1; IBin Eq 1].   (* 0 and <operand> == 1 *)

Lemma without_short_circuit_guard_operand_is_evaluated :
  flat_ops_g count_evalx count_bin count_un count_truthy [GUnary] 0 lazy_witness 0%nat = Ok (0, 2%nat) /\
  flat_ops_g count_evalx count_bin count_un count_truthy interpret_ops_guards 0 lazy_witness 0%nat = Ok (0, 0%nat) /\
  py_ops count_evalx count_bin count_un count_truthy 0 lazy_witness 0%nat = Ok (0, 0%nat).
Proof. repeat split; vm_compute; reflexivity. Qed.

(* ---------------------------------------------------------------- comprehension scopes *)
Section ScopeProofs.
  Context {V : Type}.
  Variable elem : @stack V -> str.
  Variable cond : @stack V -> bool.

  Lemma tl_sset : forall k (v : V) e (s : stack), tl (sset k v (e :: s)) = s.
  Proof. reflexivity. Qed.

  Lemma sset_cons : forall k (v : V) e (s : stack), exists e', sset k v (e :: s) = e' :: s.
  Proof. intros. eexists. reflexivity. Qed.

  (* the loop only ever writes the innermost scope *)
  Lemma join_loop_tail : forall name base (items : list V) e (s : stack) first acc,
    tl (snd (join_loop elem cond name base items (e :: s) first acc)) = s.
  Proof.
    induction items as [|it r IH]; intros e s first acc; [reflexivity|].
    cbn [join_loop]. destruct (sset_cons name it e s) as [e' ->].
    destruct (cond (e' :: s)); apply IH.
  Qed.

  Lemma list_loop_tail : forall name (items : list V) e (s : stack) acc,
    tl (snd (list_loop elem cond name items (e :: s) acc)) = s.
  Proof.
    induction items as [|it r IH]; intros e s acc; [reflexivity|].
    cbn [list_loop]. destruct (sset_cons name it e s) as [e' ->].
    destruct (cond (e' :: s)); apply IH.
  Qed.

  Lemma snd_let_tl : forall {A} (p : A * @stack V), snd (let '(out, cs') := p in (out, tl cs')) = tl (snd p).
  Proof. intros A [a b]. reflexivity. Qed.

  (* With a child scope the enclosing scopes are EXACTLY what they were: for every list of items, every filter, every
     element expression, every variable name (also one the enclosing scope binds) *)
  Theorem child_scope_join_preserves : forall name base (items : list V) (s : stack),
    snd (join_run elem cond JChild name base items s) = s.
  Proof.
    intros. unfold join_run. cbn [enter leave]. rewrite snd_let_tl. apply join_loop_tail.
  Qed.

  Theorem child_scope_list_preserves : forall name (items : list V) (s : stack),
    snd (list_run elem cond JChild name items s) = s.
  Proof.
    intros. unfold list_run. cbn [enter leave]. rewrite snd_let_tl. apply list_loop_tail.
  Qed.

  (* ... and that is the scope the source uses, on the optimised and on the generic path *)
  Theorem source_join_preserves_enclosing_scope : forall name base (items : list V) (s : stack),
    snd (join_run elem cond join_comp_scope name base items s) = s.
  Proof. exact child_scope_join_preserves. Qed.

  Theorem source_list_preserves_enclosing_scope : forall name (items : list V) (s : stack),
    snd (list_run elem cond list_comp_scope name items s) = s.
  Proof. exact child_scope_list_preserves. Qed.

  Corollary every_variable_survives_the_join : forall k name base (items : list V) (s : stack),
    slookup k (snd (join_run elem cond join_comp_scope name base items s)) = slookup k s.
  Proof. intros. now rewrite source_join_preserves_enclosing_scope. Qed.

  (* the optimised join builds the string strJoin builds from the list interpretList builds: same scopes, same string *)
  Definition sep_then (first : bool) (base x : str) : str := (if first then [] else base) ++ x.

  Lemma str_join_snoc : forall base (l : list str) x, l <> [] -> str_join base (l ++ [x]) = str_join base l ++ base ++ x.
  Proof.
    induction l as [|y r IH]; intros x Hne; [congruence|].
    destruct r as [|z r'].
    - reflexivity.
    - change ((y :: z :: r') ++ [x]) with (y :: (z :: r') ++ [x]).
      change (str_join base (y :: (z :: r') ++ [x])) with (y ++ base ++ str_join base ((z :: r') ++ [x])).
      rewrite IH by congruence.
      change (str_join base (y :: z :: r')) with (y ++ base ++ str_join base (z :: r')).
      now rewrite <- !app_assoc.
  Qed.

  Lemma join_loop_is_list_loop : forall name base (items : list V) (cs : stack) (l : list str),
    join_loop elem cond name base items cs (match l with [] => true | _ => false end) (str_join base l) =
      let '(l', cs') := list_loop elem cond name items cs l in (str_join base l', cs').
  Proof.
    induction items as [|it r IH]; intros cs l; [reflexivity|].
    cbn [join_loop list_loop]. destruct (cond (sset name it cs)).
    - specialize (IH (sset name it cs) (l ++ [elem (sset name it cs)])).
      replace (match l ++ [elem (sset name it cs)] with [] => true | _ :: _ => false end) with false in IH
        by (destruct l; reflexivity).
      rewrite <- IH. f_equal.
      destruct l as [|y l0]; [reflexivity|].
      rewrite str_join_snoc by congruence. reflexivity.
    - apply IH.
  Qed.

  Theorem optimised_join_is_generic_join : forall sc name base (items : list V) (s : stack),
    join_run elem cond sc name base items s = generic_join_run elem cond sc name base items s.
  Proof.
    intros. unfold join_run, generic_join_run, list_run.
    pose proof (join_loop_is_list_loop name base items (enter sc s) []) as H. cbn [str_join] in H. rewrite H.
    destruct (list_loop elem cond name items (enter sc s) []) as [l' cs']. reflexivity.
  Qed.
End ScopeProofs.

(* With cs := s the variable leaks: name = "lib" is overwritten by the last item *)
Definition leak_stack : @stack str := [[(s "name", s "lib"); (s "srcs", s "-")]].
Definition leak_elem (st : @stack str) : str := match slookup (s "name") st with Some v => v | None => [] end.

Lemma same_scope_join_leaks :
  slookup (s "name") (snd (join_run leak_elem (fun _ => true) JSame (s "name") (s " ") [s "a.go"; s "b.go"] leak_stack)) = Some (s "b.go") /\
  fst (join_run leak_elem (fun _ => true) JSame (s "name") (s " ") [s "a.go"; s "b.go"] leak_stack) = s "a.go b.go" /\
  join_run leak_elem (fun _ => true) join_comp_scope (s "name") (s " ") [s "a.go"; s "b.go"] leak_stack = (s "a.go b.go", leak_stack).
Proof. repeat split; vm_compute; reflexivity. Qed.

(* ---------------------------------------------------------------- the statements Props/C16.v uses *)
Theorem interpret_ops_translated :
  forall (X V S : Type) (evalx : X -> S -> res (V * S)) (apply_bin : binop -> V -> V -> S -> res (V * S))
         (apply_un : unop -> V -> S -> res V) (truthy : V -> S -> bool) (ops : list (item X)) (obj : V) (st : S),
    flat_ops_g evalx apply_bin apply_un truthy interpret_ops_guards obj ops st = flat_ops evalx apply_bin apply_un truthy obj ops st.
Proof. intros. apply flat_ops_g_is_flat_ops. Qed.

Theorem lazy_operand_not_evaluated :
  forall (X V S : Type) (evalx : X -> S -> res (V * S)) (apply_bin : binop -> V -> V -> S -> res (V * S))
         (apply_un : unop -> V -> S -> res V) (truthy : V -> S -> bool) (o : binop) (x : X) (rest : list (item X)) (obj : V) (st : S),
    alazy (KB o) = true -> all_tighter (IBin o x) rest = true -> Bool.eqb (truthy obj st) (binop_eqb o And) = false ->
    flat_ops_g evalx apply_bin apply_un truthy interpret_ops_guards obj (IBin o x :: rest) st = Ok (obj, st).
Proof. intros. now apply source_deciding_operand_evaluates_nothing. Qed.

Theorem join_comprehension_scoped :
  forall (V : Type) (elem : @stack V -> str) (cond : @stack V -> bool) (name base : str) (items : list V) (s : stack),
    join_run elem cond join_comp_scope name base items s = generic_join_run elem cond list_comp_scope name base items s
    /\ snd (join_run elem cond join_comp_scope name base items s) = s
    /\ snd (list_run elem cond list_comp_scope name items s) = s.
Proof.
  intros. split; [|split].
  - exact (optimised_join_is_generic_join elem cond JChild name base items s).
  - apply source_join_preserves_enclosing_scope.
  - apply source_list_preserves_enclosing_scope.
Qed.
