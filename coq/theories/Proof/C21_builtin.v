(* C21 - glob(): what counts as a build file entry.
   Part B1: the glob() builtin of the BUILD language (src/parse/asp/builtins.go) = Globber.Glob with EVERY configured
            build file name appended to the excludes (regenerated from the source), so that on the domain of the
            tree-level theorem it returns exactly the reference's selection with those names excluded, and in
            particular never a file named like a configured build file - also when the package directory holds
            several of them.
   Part B2: the walk decides "is a build file" by NAME only (the regenerated guard of the sub-package detection in
            walkDir does not look at the entry's type): replacing every symbolic link of a tree by a regular file
            changes neither the sub-packages the walk declares, nor the SkipDir decisions, nor the set of recorded
            paths - for all trees, by induction. *)
From Coq Require Import String.
From PlzV Require Import Base.Harness Base.StrFacts Model.C21 Proof.C21 Proof.C21_paths Proof.C21_walk Proof.C21_tree.
From PlzV Require Gen.GlobRegex.

(* =========================================================================================== Part B1 *)
(* ------------------------------------------------------------------------------------------- the translated statement *)
(* value of an expression the builtin appends to `exclude`, in a scope whose state is configured with the build file
   names `bfn` and whose package was parsed from the file `pkgfile` *)
Definition bexpr_value (bfn : list str) (pkgfile : str) (spread : bool) (e : Gen.GlobRegex.bexpr) : list str :=
  match e with
  | Gen.GlobRegex.BSel p =>
      if String.eqb p "s.state.Config.Parse.BuildFileName" then (if spread then bfn else []) else []
  | Gen.GlobRegex.BCall1 f (Gen.GlobRegex.BSel p) =>
      if String.eqb f "filepath.Base" && String.eqb p "s.pkg.Filename" then [base pkgfile] else []
  | _ => []
  end.

Definition builtin_appended (bfn : list str) (pkgfile : str) : list str :=
  flat_map (bexpr_value bfn pkgfile Gen.GlobRegex.builtin_exclude_spread) Gen.GlobRegex.builtin_exclude_appended.

(* glob() of builtins.go, as regenerated: whatever file the package was parsed from, ALL configured names are
   appended, once, by the only write of `exclude` between its definition and the Glob call; the Globber is created
   with the same list; Glob receives (package name, include, exclude, hidden, includeSymlinks) *)
Lemma builtin_regenerated :
  (forall bfn pkgfile, builtin_appended bfn pkgfile = bfn)
  /\ Gen.GlobRegex.builtin_exclude_writes = ["define:pyStrOrListAsList"%string; "append"%string]
  /\ (forall e, In e Gen.GlobRegex.builtin_globber_bfn -> e = Gen.GlobRegex.BSel "s.state.Config.Parse.BuildFileName")
  /\ Gen.GlobRegex.builtin_glob_args
     = [Gen.GlobRegex.BSel "s.pkg.Name"; Gen.GlobRegex.BSel "include"; Gen.GlobRegex.BSel "exclude";
        Gen.GlobRegex.BSel "hidden"; Gen.GlobRegex.BSel "includeSymlinks"].
Proof.
  split; [|split; [reflexivity|split; [|reflexivity]]].
  - intros bfn pkgfile. unfold builtin_appended. cbn. apply app_nil_r.
  - intros e He. cbn in He. repeat destruct He as [<-|He]; try reflexivity. destruct He.
Qed.

(* the model's builtin is the translated one *)
Lemma glob_builtin_regenerated bfn pkgfile pkg tree inc exc hidden syms :
  glob bfn pkg tree inc (exc ++ builtin_appended bfn pkgfile) hidden syms = glob_builtin bfn pkg tree inc exc hidden syms.
Proof. destruct builtin_regenerated as [H _]. now rewrite H. Qed.

(* ------------------------------------------------------------------------------------------- the theorem *)
Definition lit_pat (b : str) : pat := [Seg (map ALit b)].

Lemma render_lit b : render (lit_pat b) = b.
Proof.
  unfold lit_pat, render. cbn [map intercalate render_seg]. induction b as [|c r IH]; [reflexivity|].
  cbn [map flat_map render_atom app]. now rewrite IH.
Qed.

Lemma seg_match_lit b : seg_match (map ALit b) b = true.
Proof.
  induction b as [|c r IH]; [reflexivity|]. cbn [map seg_match atom1]. now rewrite N.eqb_refl, IH.
Qed.

Lemma excluded_by_lit b f : last f [] = b -> excluded_by (lit_pat b) f = true.
Proof.
  intros <-. unfold excluded_by, lit_pat. rewrite seg_match_lit. apply orb_true_r.
Qed.

(* For every list of configured build file names, package path, tree of the tree-level theorem's domain, include and
   exclude lists and flags: the builtin returns, as a set, exactly the reference's selection with the build file
   names excluded; no selected path ends in a configured build file name. *)
Theorem builtin_correct bfn pkg tree incs excs hidden syms :
  inputs_ok pkg tree incs (excs ++ map lit_pat bfn) = true -> tree_wf tree = true ->
  defect_class bfn pkg tree incs (excs ++ map lit_pat bfn) hidden = None ->
  exists out,
    glob_builtin bfn (pkg_name pkg) tree (map render incs) (map render excs) hidden syms = Some out
    /\ (forall x, In x out <-> exists f, x = intercalate f
                               /\ In f (glob_spec bfn (pkg_name pkg) tree incs (excs ++ map lit_pat bfn) hidden syms))
    /\ (forall f, In f (glob_spec bfn (pkg_name pkg) tree incs (excs ++ map lit_pat bfn) hidden syms) ->
                  ~ In (last f []) bfn).
Proof.
  intros Hin Hwf Hdef. destruct (tree_correct bfn pkg tree incs _ hidden syms Hin Hwf Hdef) as (out & Hg & Hiff).
  exists out. split; [|split; [exact Hiff|]].
  - unfold glob_builtin. rewrite map_app, map_map in Hg.
    rewrite (map_ext (fun b => render (lit_pat b)) (fun b => b) render_lit), map_id in Hg. exact Hg.
  - intros f Hf Hb. unfold glob_spec in Hf. apply filter_In in Hf as [_ Hc]. apply andb_prop in Hc as [_ Hne].
    apply negb_true_iff in Hne.
    assert (existsb (fun e => excluded_by e f) (excs ++ map lit_pat bfn) = true); [|congruence].
    apply existsb_exists. exists (lit_pat (last f [])). split; [|now apply excluded_by_lit].
    apply in_or_app. right. now apply in_map.
Qed.

(* the same, stated on the TRANSLATED builtin (the exclude list as builtins.go builds it), for a package parsed from
   any file name *)
Theorem builtin_translated_correct bfn pkgfile pkg tree incs excs hidden syms :
  inputs_ok pkg tree incs (excs ++ map lit_pat bfn) = true -> tree_wf tree = true ->
  defect_class bfn pkg tree incs (excs ++ map lit_pat bfn) hidden = None ->
  exists out,
    glob bfn (pkg_name pkg) tree (map render incs) (map render excs ++ builtin_appended bfn pkgfile) hidden syms = Some out
    /\ (forall x, In x out <-> exists f, x = intercalate f
                               /\ In f (glob_spec bfn (pkg_name pkg) tree incs (excs ++ map lit_pat bfn) hidden syms))
    /\ (forall f, In f (glob_spec bfn (pkg_name pkg) tree incs (excs ++ map lit_pat bfn) hidden syms) ->
                  ~ In (last f []) bfn).
Proof. rewrite glob_builtin_regenerated. apply builtin_correct. Qed.

(* the same for a whole package directory holding several build file names: none of them is returned, whichever
   the package was parsed from (pkgfile does not occur in glob_builtin at all) *)
Corollary builtin_never_returns_build_file bfn pkg tree incs excs hidden syms out :
  inputs_ok pkg tree incs (excs ++ map lit_pat bfn) = true -> tree_wf tree = true ->
  defect_class bfn pkg tree incs (excs ++ map lit_pat bfn) hidden = None ->
  glob_builtin bfn (pkg_name pkg) tree (map render incs) (map render excs) hidden syms = Some out ->
  forall x, In x out -> exists f, x = intercalate f /\ ~ In (last f []) bfn.
Proof.
  intros Hin Hwf Hdef Hout x Hx.
  destruct (builtin_correct bfn pkg tree incs excs hidden syms Hin Hwf Hdef) as (out' & Hg & Hiff & Hnb).
  rewrite Hout in Hg. injection Hg as <-. apply Hiff in Hx as (f & -> & Hf). exists f. split; [reflexivity|now apply Hnb].
Qed.

(* =========================================================================================== Part B2 *)
(* ------------------------------------------------------------------------------------------- the translated guard *)
Inductive kind := KFile | KSym | KDir.
Definition kind_of (n : node) : kind := match n with File => KFile | Sym => KSym | Dir _ => KDir end.

Fixpoint eval_wcond (c : Gen.GlobRegex.wcond) (k : kind) (is_bf : bool) : bool :=
  match c with
  | Gen.GlobRegex.WIsBuildFile => is_bf
  | Gen.GlobRegex.WIsRegular => match k with KFile => true | _ => false end
  | Gen.GlobRegex.WIsSymlink => match k with KSym => true | _ => false end
  | Gen.GlobRegex.WIsDir => match k with KDir => true | _ => false end
  | Gen.GlobRegex.WAnd a b => eval_wcond a k is_bf && eval_wcond b k is_bf
  | Gen.GlobRegex.WOr a b => eval_wcond a k is_bf || eval_wcond b k is_bf
  | Gen.GlobRegex.WNot a => negb (eval_wcond a k is_bf)
  end.

(* the guard of the sub-package detection in walkDir, as regenerated, is the name test alone: a symbolic link or a
   directory named like a build file declares a sub-package exactly as a regular file does *)
Lemma subpkg_guard_regenerated : forall k is_bf, eval_wcond Gen.GlobRegex.walk_subpkg_cond k is_bf = is_bf.
Proof. intros [] []; reflexivity. Qed.

(* the WalkDirFunc with the regenerated guard *)
Definition visit_gen (bfn : list str) (root path name : str) (n : node) (w : walked) : walked * bool :=
  if eval_wcond Gen.GlobRegex.walk_subpkg_cond (kind_of n) (is_build_file bfn path) && negb (str_eqb (dirname path) root)
  then (Walked (w_files w) (w_syms w) (dirname path :: w_subs w), true)
  else if str_eqb name (s "plz-out") && str_eqb root (s ".") then (w, true)
  else match n with
       | Sym => (Walked (w_files w) (path :: w_syms w) (w_subs w), false)
       | _ => (Walked (path :: w_files w) (w_syms w) (w_subs w), false)
       end.

Lemma visit_regenerated bfn root path name n w : visit_gen bfn root path name n w = visit bfn root path name n w.
Proof. unfold visit_gen, visit. now rewrite subpkg_guard_regenerated. Qed.

(* ------------------------------------------------------------------------------------------- kind independence *)
(* every symbolic link replaced by a regular file *)
Fixpoint desym (n : node) : node :=
  match n with
  | Dir kids => Dir ((fix each (ks : list (str * node)) : list (str * node) :=
                        match ks with [] => [] | (nm, k) :: r => (nm, desym k) :: each r end) kids)
  | _ => File
  end.

Definition desym_kids (ks : list (str * node)) : list (str * node) := map (fun e => (fst e, desym (snd e))) ks.

Lemma desym_dir kids : desym (Dir kids) = Dir (desym_kids kids).
Proof.
  cbn [desym]. f_equal. induction kids as [|[nm k] r IH]; [reflexivity|]. cbn [desym_kids map fst snd]. now rewrite IH.
Qed.

Lemma is_dir_desym n : is_dir (desym n) = is_dir n.
Proof. destruct n; reflexivity. Qed.

(* the two accumulators hold the same sub-packages and, between files and links, the same paths *)
Definition same_walk (w w' : walked) : Prop :=
  w_subs w = w_subs w' /\ w_syms w' = []
  /\ forall x, (In x (w_files w) \/ In x (w_syms w)) <-> In x (w_files w').

Lemma visit_desym bfn root path name n w w' : same_walk w w' ->
  same_walk (fst (visit bfn root path name n w)) (fst (visit bfn root path name (desym n) w'))
  /\ snd (visit bfn root path name n w) = snd (visit bfn root path name (desym n) w').
Proof.
  intros (Hs & Hy & Hf). unfold visit.
  destruct (is_build_file bfn path && negb (str_eqb (dirname path) root)).
  - cbn [fst snd]. split; [|reflexivity]. split; [cbn [w_subs]; now rewrite Hs|]. split; [exact Hy|exact Hf].
  - destruct (str_eqb name (s "plz-out") && str_eqb root (s ".")).
    + cbn [fst snd]. split; [|reflexivity]. split; [exact Hs|]. split; [exact Hy|exact Hf].
    + assert (Hgoal : forall fl sy,
                (forall x, (In x fl \/ In x sy) <-> (path = x \/ (In x (w_files w) \/ In x (w_syms w)))) ->
                same_walk (Walked fl sy (w_subs w)) (Walked (path :: w_files w') (w_syms w') (w_subs w'))).
      { intros fl sy H. split; [exact Hs|]. split; [exact Hy|]. intros x. cbn [w_files w_syms In]. rewrite H, Hf. tauto. }
      destruct n as [| |kids]; [| |rewrite desym_dir]; cbn [fst snd desym]; (split; [|reflexivity]);
        apply Hgoal; intros x; cbn [In]; tauto.
Qed.

Lemma walk_node_desym bfn root n : forall path name w w', same_walk w w' ->
  same_walk (fst (walk_node bfn root path name n w)) (fst (walk_node bfn root path name (desym n) w'))
  /\ snd (walk_node bfn root path name n w) = snd (walk_node bfn root path name (desym n) w').
Proof.
  induction n as [| |kids IH] using node_ind2; intros path name w w' Hw.
  - pose proof (visit_desym bfn root path name File w w' Hw) as [H1 H2]. cbn [desym] in *. cbn [walk_node].
    destruct (visit bfn root path name File w) as [a [|]], (visit bfn root path name File w') as [a' [|]];
      cbn [fst snd] in *; try discriminate; split; (exact H1 || reflexivity).
  - pose proof (visit_desym bfn root path name Sym w w' Hw) as [H1 H2]. cbn [desym] in *. cbn [walk_node].
    destruct (visit bfn root path name Sym w) as [a [|]], (visit bfn root path name File w') as [a' [|]];
      cbn [fst snd is_dir negb] in *; try discriminate; split; (exact H1 || reflexivity).
  - pose proof (visit_desym bfn root path name (Dir kids) w w' Hw) as [H1 H2]. rewrite desym_dir in *.
    rewrite !walk_node_dir.
    destruct (visit bfn root path name (Dir kids) w) as [a [|]], (visit bfn root path name (Dir (desym_kids kids)) w') as [a' [|]];
      cbn [fst snd] in *; try discriminate; (split; [|reflexivity]); [exact H1|].
    clear Hw H2 w w'. revert a a' H1. unfold wloop.
    induction IH as [|[nm k] r Hk Hr IHr]; intros a a' Ha; [exact Ha|].
    cbn [desym_kids map fst snd]. rewrite !loop_until_cons. cbn [fst snd].
    cbn [fst snd] in Hk. specialize (Hk (pjoin path nm) nm a a' Ha). revert Hk.
    destruct (walk_node bfn root (pjoin path nm) nm k a) as [b [|]],
             (walk_node bfn root (pjoin path nm) nm (desym k) a') as [b' [|]]; cbn [fst snd]; intros [G1 G2];
      try discriminate; [exact G1|]. apply IHr. exact G1.
Qed.

(* Globber.walkDir on any tree and on the tree with every symbolic link replaced by a regular file: the same
   sub-packages in the same order, and the same recorded paths (files and links together) *)
Theorem walk_kind_independent bfn root tree :
  w_subs (walk_dir bfn root tree) = w_subs (walk_dir bfn root (desym tree))
  /\ w_syms (walk_dir bfn root (desym tree)) = []
  /\ forall x, (In x (w_files (walk_dir bfn root tree)) \/ In x (w_syms (walk_dir bfn root tree)))
               <-> In x (w_files (walk_dir bfn root (desym tree))).
Proof.
  assert (H0 : same_walk (Walked [] [] []) (Walked [] [] [])).
  { split; [reflexivity|]. split; [reflexivity|]. intros x. cbn. tauto. }
  destruct (walk_node_desym bfn root tree root (base root) _ _ H0) as [(Hs & Hy & Hf) _].
  unfold walk_dir. cbn [w_subs w_syms w_files]. split; [now rewrite Hs|]. split; [now rewrite Hy|].
  intros x. rewrite <- !in_rev. apply Hf.
Qed.

(* With the tree-level characterisation of the walk (walk_characterised): in a tree whose build files, or any other
   entries, are symbolic links - (desym tree) in the domain - the sub-packages declared are those of the reference
   (directories holding an entry NAMED like a build file, has_build), and after the sub-package filter exactly the
   entries of the package remain among the recorded paths. *)
Theorem walk_characterised_symlinks bfn pkg kids :
  forallb entry_name_ok pkg = true -> tree_wf (desym (Dir kids)) = true ->
  is_build_file bfn (root_str pkg) = false -> plz_ok (is_nil pkg) (desym (Dir kids)) = true ->
  exists F S,
    w_subs (walk_dir bfn (root_str pkg) (Dir kids)) = map (path_str pkg) S
    /\ (forall x, (In x (w_files (walk_dir bfn (root_str pkg) (Dir kids))) \/ In x (w_syms (walk_dir bfn (root_str pkg) (Dir kids))))
                  <-> In x (root_str pkg :: map (path_str pkg) F))
    /\ (forall f, (In f F /\ under_any S f = false)
                  <-> In f (map fst (ents bfn (is_nil pkg) [] (desym (Dir kids))))).
Proof.
  intros Hpkg Hwf Hnb Hplz. rewrite desym_dir in *.
  destruct (walk_characterised bfn pkg (desym_kids kids) Hpkg Hwf Hnb Hplz) as (F & S & Ew & _ & _ & Hents).
  destruct (walk_kind_independent bfn (root_str pkg) (Dir kids)) as (Hs & _ & Hf). rewrite desym_dir in *.
  rewrite Ew in Hs, Hf. cbn [w_subs w_files] in Hs, Hf.
  exists F, S. split; [exact Hs|]. split; [exact Hf|exact Hents].
Qed.

(* non-vacuity: a package with a sub-directory whose BUILD file is a symbolic link, and one holding both names *)
Definition sym_tree : node :=
  Dir [(s "a.txt", File);
       (s "plain", Dir [(s "p.txt", File)]);
       (s "sub", Dir [(s "BUILD", Sym); (s "deep", Dir [(s "d.txt", File)]); (s "s.txt", File)])].

Lemma sym_tree_witness :
  glob [s "BUILD"; s "BUILD.plz"] [] sym_tree [s "**/*.txt"; s "*.txt"] [] false true = Some [s "plain/p.txt"; s "a.txt"]
  /\ w_subs (walk_dir [s "BUILD"; s "BUILD.plz"] (s ".") sym_tree) = [s "sub"]
  /\ tree_wf (desym sym_tree) = true /\ tree_wf sym_tree = false.
Proof. repeat split; vm_compute; reflexivity. Qed.

Definition two_names_tree : node :=
  Dir [(s "BUILD", File); (s "BUILD.plz", File); (s "a.txt", File); (s "dir", Dir [(s "x.txt", File)])].

Lemma two_names_witness :
  let bfn := [s "BUILD"; s "BUILD.plz"] in
  let incs := [[Seg (map ALit (s "BUILD") ++ [AStar])]; [Seg txt_pat]; [Seg (map ALit (s "dir")); Seg [AStar]]] in
  inputs_ok [s "pkg"] two_names_tree incs ([] ++ map lit_pat bfn) = true
  /\ tree_wf two_names_tree = true
  /\ defect_class bfn [s "pkg"] two_names_tree incs ([] ++ map lit_pat bfn) false = None
  /\ glob_builtin bfn (s "pkg") two_names_tree (map render incs) [] false false = Some [s "a.txt"; s "dir/x.txt"]
  /\ glob bfn (s "pkg") two_names_tree (map render incs) [s "BUILD"] false false
     = Some [s "BUILD.plz"; s "a.txt"; s "dir/x.txt"].
Proof. repeat split; vm_compute; reflexivity. Qed.
