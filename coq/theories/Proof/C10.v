(* C10 - proofs about Model/C10.v *)
From Coq Require Import String.
From PlzV Require Import Base.Harness Base.StrFacts Model.C10.
From Coq Require Import Lia Permutation Sorted.

(* two caller environments agree on a set of names *)
Definition agree (c1 c2 : env) (names : list str) : Prop := forall n, In n names -> lookup n c1 = lookup n c2.

Lemma agree_app_l c1 c2 a b : agree c1 c2 (a ++ b) -> agree c1 c2 a.
Proof. intros H n Hn; apply H, in_or_app; auto. Qed.
Lemma agree_app_r c1 c2 a b : agree c1 c2 (a ++ b) -> agree c1 c2 b.
Proof. intros H n Hn; apply H, in_or_app; auto. Qed.

Lemma agree_getenv c1 c2 names n : agree c1 c2 names -> In n names -> getenv c1 n = getenv c2 n.
Proof. intros H Hn; unfold getenv; now rewrite (H n Hn). Qed.

Lemma mem_In x l : mem x l = true -> In x l.
Proof.
  unfold mem; intros H; apply existsb_exists in H as [y [Hy He]]. apply str_eqb_eq in He; now subst.
Qed.

Lemma existsb_false_in {A} (f : A -> bool) l x : existsb f l = false -> In x l -> f x = false.
Proof.
  induction l as [|y l IH]; cbn; [tauto|]. intros H [->|Hx]; apply orb_false_iff in H as [H1 H2]; auto.
Qed.

Lemma fold_left_ext_in {A B} (f g : A -> B -> A) l :
  (forall a x, In x l -> f a x = g a x) -> forall a, fold_left f l a = fold_left g l a.
Proof.
  induction l as [|x l IH]; intros H a; cbn; [reflexivity|].
  rewrite (H a x (or_introl eq_refl)). apply IH; intros; apply H; now right.
Qed.

(* ------------------------------------------------------------------ lookup / set *)
Lemma lookup_set k k' v m : lookup k (set k' v m) = if str_eqb k k' then Some v else lookup k m.
Proof.
  induction m as [|[k0 w] m IH]; cbn [set lookup].
  - destruct (str_eqb k k'); reflexivity.
  - destruct (str_eqb_spec k' k0) as [->|Hne]; cbn [lookup].
    + destruct (str_eqb k k0); reflexivity.
    + destruct (str_eqb_spec k k0) as [->|Hne2].
      * destruct (str_eqb_spec k0 k') as [E|_]; [congruence|reflexivity].
      * exact IH.
Qed.

Lemma lookup_set_same k v m : lookup k (set k v m) = Some v.
Proof. rewrite lookup_set, str_eqb_refl; reflexivity. Qed.

Lemma lookup_set_other k k' v m : k <> k' -> lookup k (set k' v m) = lookup k m.
Proof. intros H; rewrite lookup_set. apply str_eqb_neq in H; now rewrite H. Qed.

Lemma keys_set k v1 v2 m1 m2 : map fst m1 = map fst m2 -> map fst (set k v1 m1) = map fst (set k v2 m2).
Proof.
  revert m2; induction m1 as [|[k1 w1] m1 IH]; intros [|[k2 w2] m2] H; cbn in H; try discriminate; [reflexivity|].
  injection H as -> H. cbn [set]. destruct (str_eqb k k2); cbn [map fst]; f_equal; auto.
Qed.

Lemma lookup_some_in_keys k v m : lookup k m = Some v -> In k (map fst m).
Proof.
  induction m as [|[k0 w] m IH]; cbn; [discriminate|].
  destruct (str_eqb_spec k k0) as [->|_]; auto.
Qed.

(* ------------------------------------------------------------------ the config environment *)
Lemma add_env_agree cfg c1 c2 vars : agree c1 c2 vars -> forall st, add_env cfg c1 vars st = add_env cfg c2 vars st.
Proof.
  intros H; unfold add_env; apply fold_left_ext_in; intros st k Hk.
  unfold add_env_step, lookup_env. now rewrite (H k Hk).
Qed.

Lemma build_path_agree cfg c1 c2 :
  agree c1 c2 (c_pass_unsafe cfg ++ c_pass_env cfg) -> build_path cfg c1 = build_path cfg c2.
Proof.
  intros H; unfold build_path. destruct (c_path cfg); [|reflexivity].
  destruct (mem PATH (c_pass_unsafe cfg) || mem PATH (c_pass_env cfg))%bool eqn:E; [|reflexivity].
  f_equal. apply (agree_getenv _ _ _ _ H). apply orb_true_iff in E as [E|E]; apply mem_In in E; apply in_or_app; auto.
Qed.

Lemma get_build_env_agree cfg c1 c2 ip iu :
  agree c1 c2 (c_pass_unsafe cfg ++ c_pass_env cfg) -> get_build_env cfg c1 ip iu = get_build_env cfg c2 ip iu.
Proof.
  intros H; unfold get_build_env.
  rewrite (build_path_agree _ _ _ H).
  rewrite !(add_env_agree cfg c1 c2 (c_pass_env cfg) (agree_app_r _ _ _ _ H)).
  destruct iu; [|reflexivity].
  now rewrite (add_env_agree cfg c1 c2 (c_pass_unsafe cfg) (agree_app_l _ _ _ _ H)).
Qed.

(* with includePath = includeUnsafe = false only [build] passenv is read *)
Lemma add_env_snd_false cfg c vars e : snd (add_env cfg c vars (e, false)) = false.
Proof.
  unfold add_env; revert e; induction vars as [|k vars IH]; intros e; cbn [fold_left]; [reflexivity|].
  unfold add_env_step at 2; cbn [fst snd]. destruct (lookup_env c k); [|apply IH].
  destruct (str_eqb k PATH); apply IH.
Qed.

Lemma get_build_env_hash_form cfg c :
  get_build_env cfg c false false =
  fst (add_env cfg c (c_pass_env cfg)
         (fold_left (fun e kv => set (norm_key (fst kv)) (snd kv) e) (c_buildenv cfg) [], false)).
Proof. unfold get_build_env. now rewrite add_env_snd_false. Qed.

Lemma get_build_env_hash_agree cfg c1 c2 :
  agree c1 c2 (c_pass_env cfg) -> get_build_env cfg c1 false false = get_build_env cfg c2 false false.
Proof. intros H; rewrite !get_build_env_hash_form. now rewrite (add_env_agree cfg c1 c2 _ H). Qed.

(* ------------------------------------------------------------------ the target environment *)
Lemma fold_getenv_agree c1 c2 l : agree c1 c2 l ->
  forall e, fold_left (fun a k => set k (getenv c1 k) a) l e = fold_left (fun a k => set k (getenv c2 k) a) l e.
Proof.
  intros H; apply fold_left_ext_in; intros a k Hk. now rewrite (agree_getenv _ _ _ _ H Hk).
Qed.

Lemma general_env_agree cfg c1 c2 :
  agree c1 c2 (c_pass_unsafe cfg ++ c_pass_env cfg) -> general_env cfg c1 = general_env cfg c2.
Proof. intros H; unfold general_env, config_build_env. now rewrite (get_build_env_agree _ _ _ true true H). Qed.

Lemma target_env_agree cfg t c1 c2 :
  agree c1 c2 (c_pass_unsafe cfg ++ c_pass_env cfg ++ opt_list (t_pass_unsafe t) ++ opt_list (t_pass_env t)) ->
  target_env cfg t c1 = target_env cfg t c2.
Proof.
  intros H; unfold target_env.
  assert (H1 : agree c1 c2 (c_pass_unsafe cfg ++ c_pass_env cfg)).
  { intros n Hn; apply H. apply in_app_or in Hn as [Hn|Hn]; apply in_or_app; auto. right; apply in_or_app; auto. }
  assert (H2 : agree c1 c2 (opt_list (t_pass_unsafe t))).
  { intros n Hn; apply H. do 2 (apply in_or_app; right). apply in_or_app; auto. }
  assert (H3 : agree c1 c2 (opt_list (t_pass_env t))).
  { intros n Hn; apply H. do 3 (apply in_or_app; right). auto. }
  rewrite (general_env_agree _ _ _ H1).
  rewrite (fold_getenv_agree _ _ _ H3). now rewrite (fold_getenv_agree _ _ _ H2).
Qed.

(* visibility of the passed variables at the end of TargetEnvironment *)
Lemma fold_getenv_lookup c l v : forall e,
  lookup v (fold_left (fun a k => set k (getenv c k) a) l e) = if mem v l then Some (getenv c v) else lookup v e.
Proof.
  induction l as [|k l IH]; intros e; cbn [fold_left mem existsb]; [reflexivity|].
  rewrite IH. fold (mem v l). destruct (mem v l); [now rewrite orb_true_r|]. rewrite orb_false_r.
  rewrite lookup_set. destruct (str_eqb_spec v k) as [->|_]; reflexivity.
Qed.

Lemma In_mem x l : In x l -> mem x l = true.
Proof. intros H; unfold mem; apply existsb_exists; exists x; split; auto. apply str_eqb_refl. Qed.

Lemma target_env_visible cfg t c v :
  In v (opt_list (t_pass_unsafe t) ++ opt_list (t_pass_env t)) -> lookup v (target_env cfg t c) = Some (getenv c v).
Proof.
  intros H; unfold target_env. rewrite fold_getenv_lookup.
  destruct (mem v (opt_list (t_pass_env t))) eqn:E; [reflexivity|].
  rewrite fold_getenv_lookup. apply in_app_or in H as [H|H].
  - now rewrite (In_mem _ _ H).
  - rewrite (In_mem _ _ H) in E; discriminate.
Qed.

(* ------------------------------------------------------------------ secrets: HOME is read only through "~" *)
Lemma expand_home_no_tilde h x : contains_byte (ch "~") x = false -> forall b, expand_home_aux h b x = x.
Proof.
  induction x as [|c r IH]; intros H b; cbn [expand_home_aux]; [reflexivity|].
  cbn [contains_byte] in H. apply orb_false_iff in H as [Hc Hr].
  rewrite N.eqb_sym in Hc. rewrite Hc, andb_false_r. f_equal. now apply IH.
Qed.

Lemma contains_byte_app c a b : contains_byte c (a ++ b) = (contains_byte c a || contains_byte c b)%bool.
Proof. induction a as [|x a IH]; cbn; [reflexivity|]. now rewrite IH, orb_assoc. Qed.

Lemma contains_byte_join c sep l :
  contains_byte c sep = false -> existsb (contains_byte c) l = false -> contains_byte c (join sep l) = false.
Proof.
  intros Hs; induction l as [|x l IH]; intros H; [reflexivity|].
  cbn [existsb] in H. apply orb_false_iff in H as [Hx Hl].
  destruct l as [|y l]; [exact Hx|].
  change (join sep (x :: y :: l)) with (x ++ sep ++ join sep (y :: l)).
  rewrite !contains_byte_app, Hx, Hs, (IH Hl). reflexivity.
Qed.

Lemma secrets_value_indep c1 c2 l :
  existsb (contains_byte (ch "~")) l = false -> secrets_value c1 l = secrets_value c2 l.
Proof.
  intros H; unfold secrets_value, expand_home.
  assert (Hj : contains_byte (ch "~") (join (s ":") l) = false) by (apply contains_byte_join; [reflexivity|exact H]).
  now rewrite !(expand_home_no_tilde _ _ Hj).
Qed.

Lemma secrets_value_agree cfg t c1 c2 l :
  agree c1 c2 (code_reads cfg t) ->
  (has_tilde_secrets t = false -> existsb (contains_byte (ch "~")) l = false) ->
  secrets_value c1 l = secrets_value c2 l.
Proof.
  intros H Hl; unfold code_reads in H. destruct (has_tilde_secrets t).
  - unfold secrets_value. now rewrite (agree_getenv _ _ _ HOME H (or_introl eq_refl)).
  - apply secrets_value_indep; auto.
Qed.

(* ------------------------------------------------------------------ C10_determined, same presentation of target.Env *)
Lemma build_env_sb_agree sx cfg t tmp c1 c2 :
  agree c1 c2 (reads cfg t) -> build_env_sb sx cfg t tmp c1 = build_env_sb sx cfg t tmp c2.
Proof.
  intros H; unfold reads in H.
  assert (Ht : agree c1 c2 (c_pass_unsafe cfg ++ c_pass_env cfg ++ opt_list (t_pass_unsafe t) ++ opt_list (t_pass_env t))).
  { intros n Hn; apply H. rewrite !app_assoc in *. apply in_or_app; left; exact Hn. }
  assert (Hc : agree c1 c2 (code_reads cfg t)).
  { intros n Hn; apply H. do 4 (apply in_or_app; right). exact Hn. }
  unfold build_env_sb. rewrite (target_env_agree _ _ _ _ Ht).
  assert (Hs : secrets_value c1 (t_secrets t) = secrets_value c2 (t_secrets t)).
  { apply (secrets_value_agree cfg t); [exact Hc|]. unfold has_tilde_secrets; intros E.
    apply orb_false_iff in E as [E _]; exact E. }
  assert (Hn : forall e,
    fold_left (fun a kv => set (s "SECRETS_" ++ to_upper (fst kv)) (secrets_value c1 (snd kv)) a) (t_named_secrets t) e =
    fold_left (fun a kv => set (s "SECRETS_" ++ to_upper (fst kv)) (secrets_value c2 (snd kv)) a) (t_named_secrets t) e).
  { apply fold_left_ext_in; intros a kv Hkv. f_equal.
    apply (secrets_value_agree cfg t); [exact Hc|]. unfold has_tilde_secrets; intros E.
    apply orb_false_iff in E as [_ E].
    exact (existsb_false_in _ _ kv E Hkv). }
  rewrite Hn. revert Hs. destruct (t_secrets t) as [|s0 l0]; intros Hs; [reflexivity|]. now rewrite Hs.
Qed.

Lemma build_env_agree cfg t tmp c1 c2 :
  agree c1 c2 (reads cfg t) -> build_env cfg t tmp c1 = build_env cfg t tmp c2.
Proof. exact (build_env_sb_agree no_sbx cfg t tmp c1 c2). Qed.

(* ------------------------------------------------------------------ target.Env is a map: its presentation order is irrelevant *)
Definition key_le (x y : str * str) : Prop := str_leb (fst x) (fst y) = true.

Lemma str_leb_total a b : str_leb a b = false -> str_leb b a = true.
Proof.
  unfold str_leb. rewrite (str_cmp_antisym a b). destruct (str_cmp a b); cbn; congruence.
Qed.

Lemma str_leb_antisym a b : str_leb a b = true -> str_leb b a = true -> a = b.
Proof.
  unfold str_leb. rewrite (str_cmp_antisym a b). destruct (str_cmp a b) eqn:E; cbn; try congruence.
  intros _ _. now apply str_cmp_eq.
Qed.

Lemma str_leb_trans a b c : str_leb a b = true -> str_leb b c = true -> str_leb a c = true.
Proof.
  unfold str_leb. destruct (str_cmp a b) eqn:E1; try congruence; destruct (str_cmp b c) eqn:E2; try congruence; intros _ _.
  - apply str_cmp_eq in E1, E2; subst. now rewrite str_cmp_refl.
  - apply str_cmp_eq in E1; subst. now rewrite E2.
  - apply str_cmp_eq in E2; subst. now rewrite E1.
  - now rewrite (str_cmp_lt_trans _ _ _ E1 E2).
Qed.

Lemma insert_env_perm kv l : Permutation (kv :: l) (insert_env kv l).
Proof.
  induction l as [|x l IH]; cbn [insert_env]; [reflexivity|].
  destruct (str_leb (fst kv) (fst x)); [reflexivity|].
  rewrite perm_swap. now constructor.
Qed.

Lemma sort_env_perm l : Permutation l (sort_env l).
Proof.
  induction l as [|x l IH]; cbn; [constructor|].
  rewrite <- insert_env_perm. now constructor.
Qed.

Lemma insert_env_sorted kv l : StronglySorted key_le l -> StronglySorted key_le (insert_env kv l).
Proof.
  induction 1 as [|x l Hs IH Hall]; cbn [insert_env]; [repeat constructor|].
  destruct (str_leb (fst kv) (fst x)) eqn:E.
  - constructor; [constructor; assumption|]. constructor; [exact E|].
    eapply Forall_impl; [|exact Hall]. intros y Hy. exact (str_leb_trans _ _ _ E Hy).
  - constructor; [exact IH|].
    apply (Permutation_Forall (insert_env_perm kv l)). constructor; [|exact Hall].
    exact (str_leb_total _ _ E).
Qed.

Lemma sort_env_sorted l : StronglySorted key_le (sort_env l).
Proof. induction l as [|x l IH]; cbn; [constructor|]. now apply insert_env_sorted. Qed.

Lemma sorted_perm_unique l1 : forall l2,
  StronglySorted key_le l1 -> StronglySorted key_le l2 -> NoDup (map fst l1) -> Permutation l1 l2 -> l1 = l2.
Proof.
  induction l1 as [|x r1 IH]; intros l2 S1 S2 Hnd Hp.
  - now apply Permutation_nil in Hp.
  - destruct l2 as [|y r2]; [apply Permutation_sym, Permutation_nil in Hp; discriminate|].
    inversion S1 as [|? ? S1' A1]; inversion S2 as [|? ? S2' A2]; subst.
    inversion Hnd as [|? ? Hnotin Hnd']; subst.
    assert (Hxy : x = y).
    { assert (Hx : In x (y :: r2)) by (apply (Permutation_in _ Hp); now left).
      assert (Hy : In y (x :: r1)) by (apply (Permutation_in _ (Permutation_sym Hp)); now left).
      destruct Hx as [->|Hx]; [reflexivity|]. destruct Hy as [->|Hy]; [reflexivity|].
      assert (Hk : fst x = fst y).
      { apply str_leb_antisym; [exact (proj1 (Forall_forall _ _) A1 y Hy)|exact (proj1 (Forall_forall _ _) A2 x Hx)]. }
      exfalso; apply Hnotin. rewrite Hk. now apply in_map. }
    subst y. f_equal. apply IH; auto. exact (Permutation_cons_inv Hp).
Qed.

Lemma sort_env_perm_eq e1 e2 : NoDup (map fst e1) -> Permutation e1 e2 -> sort_env e1 = sort_env e2.
Proof.
  intros Hnd Hp. apply sorted_perm_unique; try apply sort_env_sorted.
  - apply (Permutation_NoDup (l := map fst e1)); [|exact Hnd]. apply Permutation_map, sort_env_perm.
  - rewrite <- (sort_env_perm e1), <- (sort_env_perm e2). exact Hp.
Qed.

Lemma build_env_sb_env_order sx cfg t tmp c e1 e2 :
  NoDup (map fst e1) -> Permutation e1 e2 -> build_env_sb sx cfg (with_env t e1) tmp c = build_env_sb sx cfg (with_env t e2) tmp c.
Proof.
  intros Hnd Hp. unfold build_env_sb, with_user_env, target_env, with_env; cbn [t_env t_pkg t_pkg_dir t_name t_local t_pass_unsafe
    t_pass_env t_srcs t_outs t_src_list_files t_named_srcs t_named_outs t_tools t_secrets t_named_secrets].
  now rewrite (sort_env_perm_eq e1 e2 Hnd Hp).
Qed.

Lemma build_env_env_order cfg t tmp c e1 e2 :
  NoDup (map fst e1) -> Permutation e1 e2 -> build_env cfg (with_env t e1) tmp c = build_env cfg (with_env t e2) tmp c.
Proof. exact (build_env_sb_env_order no_sbx cfg t tmp c e1 e2). Qed.

Lemma reads_with_env cfg t e : reads cfg (with_env t e) = reads cfg t.
Proof. reflexivity. Qed.

(* C10_determined, for sandboxed and non-sandboxed targets *)
Lemma determined_sb sx cfg t tmp c1 c2 e1 e2 :
  NoDup (map fst (t_env t)) -> Permutation e1 (t_env t) -> Permutation e2 (t_env t) -> agree c1 c2 (reads cfg t) ->
  build_env_sb sx cfg (with_env t e1) tmp c1 = build_env_sb sx cfg (with_env t e2) tmp c2.
Proof.
  intros Hnd P1 P2 Ha.
  rewrite (build_env_sb_env_order sx cfg t tmp c1 e1 e2).
  - apply build_env_sb_agree. now rewrite reads_with_env.
  - apply (Permutation_NoDup (l := map fst (t_env t))); [|exact Hnd]. apply Permutation_map, Permutation_sym, P1.
  - now rewrite P1, P2.
Qed.

Lemma determined cfg t tmp c1 c2 e1 e2 :
  NoDup (map fst (t_env t)) -> Permutation e1 (t_env t) -> Permutation e2 (t_env t) -> agree c1 c2 (reads cfg t) ->
  build_env cfg (with_env t e1) tmp c1 = build_env cfg (with_env t e2) tmp c2.
Proof. exact (determined_sb no_sbx cfg t tmp c1 c2 e1 e2). Qed.

(* ------------------------------------------------------------------ unframed name=value runs *)
Definition kv_stream (g : str -> str) (names : list str) : str := concat (map (fun n => n ++ s "=" ++ g n) names).

Fixpoint count (v : str) (l : list str) : nat :=
  match l with [] => 0%nat | x :: r => ((if str_eqb v x then 1 else 0) + count v r)%nat end.

Lemma app_eq_len {A} (a b x y : list A) : length a = length b -> a ++ x = b ++ y -> a = b /\ x = y.
Proof.
  revert b; induction a as [|h a IH]; intros [|h' b] Hl H; cbn in *; try discriminate; [auto|].
  injection H as -> H. destruct (IH b) as [-> ->]; auto.
Qed.

Lemma kv_stream_len g1 g2 v names :
  (forall n, n <> v -> g1 n = g2 n) ->
  (length (kv_stream g1 names) + count v names * length (g2 v) = length (kv_stream g2 names) + count v names * length (g1 v))%nat.
Proof.
  intros Ho; induction names as [|n r IH]; [reflexivity|].
  unfold kv_stream in *; cbn [map concat count]. rewrite !app_length.
  destruct (str_eqb_spec v n) as [<-|Hne].
  - lia.
  - rewrite (Ho n) by congruence. lia.
Qed.

(* one differing value, everything else equal: the runs differ *)
Lemma kv_stream_single g1 g2 v names :
  (forall n, n <> v -> g1 n = g2 n) -> In v names -> g1 v <> g2 v -> kv_stream g1 names <> kv_stream g2 names.
Proof.
  intros Ho; induction names as [|n r IH]; intros Hin Hd Heq; [destruct Hin|].
  unfold kv_stream in Heq; cbn [map concat] in Heq. fold (kv_stream g1 r) in Heq. fold (kv_stream g2 r) in Heq.
  destruct (str_eqb_spec n v) as [->|Hne].
  - rewrite <- !app_assoc in Heq. apply app_inv_head in Heq. cbn [app] in Heq. injection Heq as Heq.
    assert (Hl := kv_stream_len g1 g2 v r Ho).
    assert (Hl2 : (length (g1 v) + length (kv_stream g1 r) = length (g2 v) + length (kv_stream g2 r))%nat)
      by (rewrite <- !app_length; now rewrite Heq).
    assert (Hlen : length (g1 v) = length (g2 v)) by nia.
    destruct (app_eq_len _ _ _ _ Hlen Heq) as [E _]. exact (Hd E).
  - rewrite (Ho n Hne) in Heq. apply app_inv_head in Heq.
    destruct Hin as [E|Hin]; [congruence|]. exact (IH Hin Hd Heq).
Qed.

Lemma kv_stream_ext g1 g2 names : (forall n, In n names -> g1 n = g2 n) -> kv_stream g1 names = kv_stream g2 names.
Proof.
  intros H; unfold kv_stream; f_equal. apply map_ext_in; intros n Hn. now rewrite (H n Hn).
Qed.

Lemma pass_env_stream_kv t c : pass_env_stream t c = kv_stream (getenv c) (opt_list (t_pass_env t)).
Proof. reflexivity. Qed.

(* C10_hashed, target level, as strong as the code allows: ONE variable differs *)
Lemma rule_stream_single t pre post c1 c2 v :
  In v (opt_list (t_pass_env t)) -> getenv c1 v <> getenv c2 v ->
  (forall n, In n (opt_list (t_pass_env t)) -> n <> v -> getenv c1 n = getenv c2 n) ->
  rule_stream pre post t c1 <> rule_stream pre post t c2.
Proof.
  intros Hin Hd Ho Heq. unfold rule_stream in Heq. apply app_inv_head, app_inv_tail in Heq.
  rewrite !pass_env_stream_kv in Heq.
  (* restrict g2 to agree with g1 outside the list: use a patched function *)
  set (g2 := fun n => if mem n (opt_list (t_pass_env t)) then getenv c2 n else getenv c1 n).
  assert (E2 : kv_stream (getenv c2) (opt_list (t_pass_env t)) = kv_stream g2 (opt_list (t_pass_env t))).
  { apply kv_stream_ext; intros n Hn; unfold g2. now rewrite (In_mem _ _ Hn). }
  rewrite E2 in Heq. revert Heq. apply (kv_stream_single (getenv c1) g2 v); auto.
  - intros n Hne; unfold g2. destruct (mem n (opt_list (t_pass_env t))) eqn:E; [|reflexivity].
    apply Ho; [now apply mem_In|exact Hne].
  - unfold g2. now rewrite (In_mem _ _ Hin).
Qed.

(* C10_unhashed *)
Lemma rule_stream_unhashed t pre post c1 c2 :
  agree c1 c2 (opt_list (t_pass_env t)) -> rule_stream pre post t c1 = rule_stream pre post t c2.
Proof.
  intros H; unfold rule_stream; do 2 f_equal. rewrite !pass_env_stream_kv.
  apply kv_stream_ext; intros n Hn. exact (agree_getenv _ _ _ _ H Hn).
Qed.

Lemma config_stream_unhashed cfg c1 c2 :
  agree c1 c2 (c_pass_env cfg) -> config_stream cfg c1 = config_stream cfg c2.
Proof.
  intros H; unfold config_stream, config_env_stream. now rewrite (get_build_env_hash_agree _ _ _ H).
Qed.

Lemma unhashed cfg t pre post c1 c2 :
  agree c1 c2 (hashed_reads cfg t) ->
  rule_stream pre post t c1 = rule_stream pre post t c2 /\ config_stream cfg c1 = config_stream cfg c2.
Proof.
  intros H; unfold hashed_reads in H; split.
  - apply rule_stream_unhashed; exact (agree_app_r _ _ _ _ H).
  - apply config_stream_unhashed; exact (agree_app_l _ _ _ _ H).
Qed.

(* ------------------------------------------------------------------ the config hash: one [build] passenv variable changes *)
Definition adj (cfg : config) (v x : str) : str := if str_eqb v PATH then c_location cfg ++ s ":" ++ x else x.

Section OneVariable.
  Variables (cfg : config) (c1 c2 : env) (v a b : str).
  Hypothesis Hv1 : lookup v c1 = Some a.
  Hypothesis Hv2 : lookup v c2 = Some b.
  Hypothesis Hothers : forall n, n <> v -> lookup n c1 = lookup n c2.

  Lemma step_cases k st1 st2 :
    (k = v /\ add_env_step cfg c1 st1 k = (set v (adj cfg v a) (fst st1), if str_eqb v PATH then false else snd st1)
           /\ add_env_step cfg c2 st2 k = (set v (adj cfg v b) (fst st2), if str_eqb v PATH then false else snd st2))
    \/ (k <> v /\ exists x, lookup k c1 = Some x /\ lookup k c2 = Some x
           /\ add_env_step cfg c1 st1 k = (set k (adj cfg k x) (fst st1), if str_eqb k PATH then false else snd st1)
           /\ add_env_step cfg c2 st2 k = (set k (adj cfg k x) (fst st2), if str_eqb k PATH then false else snd st2))
    \/ (k <> v /\ add_env_step cfg c1 st1 k = st1 /\ add_env_step cfg c2 st2 k = st2).
  Proof.
    unfold add_env_step, lookup_env, adj. destruct (str_eqb_spec k v) as [->|Hne].
    - left. rewrite Hv1, Hv2. destruct (str_eqb v PATH); auto.
    - right. rewrite <- (Hothers k Hne). destruct (lookup k c1) as [x|].
      + left. split; [exact Hne|]. exists x. destruct (str_eqb k PATH); auto.
      + right. auto.
  Qed.

  Lemma add_env_keys vars : forall st1 st2, map fst (fst st1) = map fst (fst st2) ->
    map fst (fst (add_env cfg c1 vars st1)) = map fst (fst (add_env cfg c2 vars st2)).
  Proof.
    unfold add_env; induction vars as [|k vars IH]; intros st1 st2 H; cbn [fold_left]; [exact H|].
    apply IH. destruct (step_cases k st1 st2) as [(_ & -> & ->)|[(_ & x & _ & _ & -> & ->)|(_ & -> & ->)]]; cbn [fst];
      auto using keys_set.
  Qed.

  Lemma add_env_others vars : forall st1 st2, (forall k, k <> v -> lookup k (fst st1) = lookup k (fst st2)) ->
    forall k, k <> v -> lookup k (fst (add_env cfg c1 vars st1)) = lookup k (fst (add_env cfg c2 vars st2)).
  Proof.
    unfold add_env; induction vars as [|n vars IH]; intros st1 st2 H; cbn [fold_left]; [exact H|].
    apply IH. intros k Hk.
    destruct (step_cases n st1 st2) as [(_ & -> & ->)|[(_ & x & _ & _ & -> & ->)|(_ & -> & ->)]]; cbn [fst].
    - rewrite !lookup_set_other by exact Hk. now apply H.
    - rewrite !lookup_set. destruct (str_eqb k n); [reflexivity|now apply H].
    - now apply H.
  Qed.

  Lemma add_env_value c x vars : lookup v c = Some x -> forall st,
    In v vars \/ lookup v (fst st) = Some (adj cfg v x) ->
    lookup v (fst (add_env cfg c vars st)) = Some (adj cfg v x).
  Proof.
    intros Hc; unfold add_env; induction vars as [|n vars IH]; intros st H; cbn [fold_left].
    - destruct H as [[]|H]; exact H.
    - apply IH. unfold add_env_step, lookup_env. destruct (str_eqb_spec n v) as [->|Hne].
      + right. rewrite Hc. unfold adj. destruct (str_eqb v PATH); cbn [fst]; apply lookup_set_same.
      + destruct H as [[E|H]|H]; [congruence|now left|right].
        destruct (lookup n c); [|exact H].
        destruct (str_eqb n PATH); cbn [fst]; rewrite lookup_set_other by congruence; exact H.
  Qed.
End OneVariable.

Lemma In_insert_sorted x k l : In x (insert_sorted k l) <-> x = k \/ In x l.
Proof.
  induction l as [|y l IH]; cbn [insert_sorted]; [cbn; intuition|].
  destruct (str_leb k y); cbn [In]; [intuition|]. rewrite IH. intuition.
Qed.

Lemma In_sort_strs x l : In x (sort_strs l) <-> In x l.
Proof.
  induction l as [|y l IH]; cbn [sort_strs fold_right]; [reflexivity|].
  fold (sort_strs l). rewrite In_insert_sorted, IH. cbn; intuition.
Qed.

Definition env_val (e : env) (k : str) : str := match lookup k e with Some v => v | None => [] end.

Lemma config_env_stream_kv cfg c :
  config_env_stream cfg c =
  kv_stream (env_val (get_build_env cfg c false false))
            (filter (fun k => negb (has_prefix SECRET k)) (sort_strs (map fst (get_build_env cfg c false false)))).
Proof. reflexivity. Qed.

(* C10_hashed, config level, as strong as the code allows: ONE variable, set in both callers, not SECRET-prefixed *)
Lemma config_stream_single cfg c1 c2 v a b :
  In v (c_pass_env cfg) -> has_prefix SECRET v = false ->
  lookup v c1 = Some a -> lookup v c2 = Some b -> a <> b ->
  (forall n, n <> v -> lookup n c1 = lookup n c2) ->
  config_stream cfg c1 <> config_stream cfg c2.
Proof.
  intros Hin Hsec H1 H2 Hab Ho Heq. unfold config_stream in Heq.
  do 3 apply app_inv_head in Heq. rewrite !config_env_stream_kv in Heq.
  rewrite !get_build_env_hash_form in Heq.
  set (e0 := fold_left (fun e kv => set (norm_key (fst kv)) (snd kv) e) (c_buildenv cfg) []) in *.
  set (m1 := fst (add_env cfg c1 (c_pass_env cfg) (e0, false))) in *.
  set (m2 := fst (add_env cfg c2 (c_pass_env cfg) (e0, false))) in *.
  assert (Hk : map fst m1 = map fst m2) by (apply (add_env_keys cfg c1 c2 v a b H1 H2 Ho); reflexivity).
  assert (Hoth : forall k, k <> v -> lookup k m1 = lookup k m2)
    by (apply (add_env_others cfg c1 c2 v a b H1 H2 Ho); reflexivity).
  assert (V1 : lookup v m1 = Some (adj cfg v a)) by (apply add_env_value; auto).
  assert (V2 : lookup v m2 = Some (adj cfg v b)) by (apply add_env_value; auto).
  rewrite <- Hk in Heq. revert Heq.
  apply (kv_stream_single (env_val m1) (env_val m2) v).
  - intros n Hn; unfold env_val. now rewrite (Hoth n Hn).
  - apply filter_In; split; [|now rewrite Hsec]. apply In_sort_strs. exact (lookup_some_in_keys _ _ _ V1).
  - unfold env_val; rewrite V1, V2. unfold adj. destruct (str_eqb v PATH).
    + intros E. apply app_inv_head in E. apply app_inv_head in E. exact (Hab E).
    + exact Hab.
Qed.

(* a pass_unsafe_env variable of the configuration is visible (and, by config_stream_unhashed, not hashed) *)
Lemma add_env_notin cfg c vars k : ~ In k vars -> forall st, lookup k (fst (add_env cfg c vars st)) = lookup k (fst st).
Proof.
  unfold add_env; induction vars as [|n vars IH]; intros Hn st; cbn [fold_left]; [reflexivity|].
  rewrite IH by (intros H; apply Hn; now right).
  unfold add_env_step. destruct (lookup_env c n); [|reflexivity].
  assert (k <> n) by (intros ->; apply Hn; now left).
  destruct (str_eqb n PATH); cbn [fst]; now rewrite lookup_set_other.
Qed.

Lemma config_unsafe_visible cfg c v x :
  In v (c_pass_unsafe cfg) -> ~ In v (c_pass_env cfg) -> v <> PATH -> lookup v c = Some x ->
  lookup v (config_build_env cfg c) = Some x.
Proof.
  intros Hin Hnot Hp Hc. unfold config_build_env, get_build_env.
  set (st1 := add_env cfg c (c_pass_unsafe cfg) _).
  assert (V : lookup v (fst st1) = Some (adj cfg v x)) by (apply add_env_value; auto).
  unfold adj in V. apply str_eqb_neq in Hp. rewrite Hp in V.
  assert (V2 : lookup v (fst (add_env cfg c (c_pass_env cfg) st1)) = Some x) by (now rewrite add_env_notin).
  destruct (snd (add_env cfg c (c_pass_env cfg) st1)); [|exact V2].
  rewrite lookup_set_other; [exact V2|]. now apply str_eqb_neq.
Qed.

(* ------------------------------------------------------------------ witnesses of what the unchanged code does not guarantee *)
Definition empty_cfg (passenv : list str) : config :=
  {| c_lang := s "en_GB.UTF-8"; c_arch := s "amd64"; c_os := s "linux"; c_pkg_config_path := []; c_buildenv := [];
     c_pass_unsafe := []; c_pass_env := passenv; c_location := s "/opt/plz"; c_path := default_path;
     c_remote_url := []; c_build_config := s "opt"; c_nonce := s "1402"; c_licences_reject := [] |}.

Definition simple_target (pass : option (list str)) (uenv : list (str * str)) : target :=
  {| t_pkg := s "p"; t_pkg_dir := s "p"; t_name := s "t"; t_local := false; t_pass_unsafe := None; t_pass_env := pass;
     t_srcs := []; t_outs := [s "o"]; t_src_list_files := false; t_named_srcs := []; t_named_outs := []; t_tools := [];
     t_secrets := []; t_named_secrets := []; t_env := uenv |}.

(* pass_env = [T_A, T_B]; {T_A="", T_B="T_B=q"} and {T_A="T_B=", T_B="q"} both hash the bytes T_A=T_B=T_B=q *)
Definition w_target := simple_target (Some [s "T_A"; s "T_B"]) [].
Definition w_c1 : env := [(s "T_A", []); (s "T_B", s "T_B=q")].
Definition w_c2 : env := [(s "T_A", s "T_B="); (s "T_B", s "q")].

Lemma collision_witness :
  In (s "T_A") (opt_list (t_pass_env w_target)) /\ getenv w_c1 (s "T_A") <> getenv w_c2 (s "T_A")
  /\ rule_stream [] [] w_target w_c1 = rule_stream [] [] w_target w_c2
  /\ lookup (s "T_A") (build_env (empty_cfg []) w_target (s "/tmp/x") w_c1)
     <> lookup (s "T_A") (build_env (empty_cfg []) w_target (s "/tmp/x") w_c2).
Proof. vm_compute. repeat split; try (left; reflexivity); discriminate. Qed.

(* [build] passenv = SECRET_X : visible, not hashed *)
Definition w_cfg := empty_cfg [s "SECRET_X"].
Definition w_s1 : env := [(s "SECRET_X", s "s1")].
Definition w_s2 : env := [(s "SECRET_X", s "s2")].

Lemma secret_witness :
  In (s "SECRET_X") (c_pass_env w_cfg)
  /\ lookup (s "SECRET_X") (config_build_env w_cfg w_s1) <> lookup (s "SECRET_X") (config_build_env w_cfg w_s2)
  /\ config_stream w_cfg w_s1 = config_stream w_cfg w_s2.
Proof. vm_compute. repeat split; try (left; reflexivity); discriminate. Qed.

Lemma refute_hashed_target :
  ~ (forall t pre post c1 c2 v, In v (opt_list (t_pass_env t)) -> getenv c1 v <> getenv c2 v ->
       rule_stream pre post t c1 <> rule_stream pre post t c2).
Proof.
  intros H. destruct collision_witness as (Hin & Hd & Heq & _). exact (H w_target [] [] w_c1 w_c2 (s "T_A") Hin Hd Heq).
Qed.

Lemma refute_hashed_config :
  ~ (forall cfg c1 c2 v, In v (c_pass_env cfg) ->
       lookup v (config_build_env cfg c1) <> lookup v (config_build_env cfg c2) ->
       config_stream cfg c1 <> config_stream cfg c2).
Proof.
  intros H. destruct secret_witness as (Hin & Hd & Heq). exact (H w_cfg w_s1 w_s2 (s "SECRET_X") Hin Hd Heq).
Qed.
