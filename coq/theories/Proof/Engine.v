(* Engine - lemmas shared by the C01 / C03 / C02 proofs: decidable equalities, what one build step may
   touch (frame), what it leaves behind when it succeeds (settled). *)
From PlzV Require Import Base.Harness Base.StrFacts Model.Engine.
From Coq Require Import Lia.

(* ------------------------------------------------------------------------------------------ *)
(* booleans and lists *)

Lemma mem_In k l : mem k l = true <-> In k l.
Proof.
  unfold mem. rewrite existsb_exists. split.
  - intros [x [Hin Heq]]. apply str_eqb_eq in Heq. subst. exact Hin.
  - intros H. exists k. split; [exact H | apply str_eqb_refl].
Qed.

Lemma mem_false k l : mem k l = false <-> ~ In k l.
Proof.
  split.
  - intros H Hin. apply mem_In in Hin. congruence.
  - intros H. destruct (mem k l) eqn:E; [|reflexivity]. apply mem_In in E. contradiction.
Qed.

Lemma nodup_str_NoDup l : nodup_str l = true -> NoDup l.
Proof.
  induction l as [|x l IH]; cbn [nodup_str]; intros H; [constructor|].
  apply andb_prop in H. destruct H as [H1 H2]. constructor.
  - apply negb_true_iff in H1. apply mem_false in H1. exact H1.
  - apply IH. exact H2.
Qed.

Lemma bool_eqb_spec a b : reflect (a = b) (Bool.eqb a b).
Proof. destruct a, b; constructor; congruence. Qed.

Lemma path_eqb_spec (a b : path) : reflect (a = b) (path_eqb a b).
Proof.
  destruct a as [g x], b as [g' y]. unfold path_eqb. cbn [fst snd].
  destruct (bool_eqb_spec g g') as [->|Hne]; cbn [andb].
  - destruct (str_eqb_spec x y) as [->|Hne]; constructor; congruence.
  - constructor; congruence.
Qed.

Lemma skey_eqb_spec (a b : skey) : reflect (a = b) (skey_eqb a b).
Proof.
  unfold skey_eqb. apply list_eqb_spec. intros [p x] [q y]. cbn [fst snd].
  destruct (path_eqb_spec p q) as [->|Hne]; cbn [andb].
  - destruct (str_eqb_spec x y) as [->|Hne]; constructor; congruence.
  - constructor; congruence.
Qed.

Lemma strs_eqb_spec (a b : list str) : reflect (a = b) (list_eqb str_eqb a b).
Proof. apply list_eqb_spec. apply str_eqb_spec. Qed.

Lemma rule_key_eqb_spec (a b : rule_key) : reflect (a = b) (rule_key_eqb a b).
Proof.
  destruct a as [d o], b as [d' o']. unfold rule_key_eqb. cbn [fst snd].
  destruct (str_eqb_spec d d') as [->|Hne]; cbn [andb].
  - destruct (strs_eqb_spec o o') as [->|Hne]; constructor; congruence.
  - constructor; congruence.
Qed.

Lemma rkey_eqb_spec (a b : rkey) : reflect (a = b) (rkey_eqb a b).
Proof.
  destruct a as [d k], b as [d' k']. unfold rkey_eqb. cbn [fst snd].
  destruct (rule_key_eqb_spec d d') as [->|Hne]; cbn [andb].
  - destruct (skey_eqb_spec k k') as [->|Hne]; constructor; congruence.
  - constructor; congruence.
Qed.

Lemma rkey_eqb_refl a : rkey_eqb a a = true.
Proof. destruct (rkey_eqb_spec a a); congruence. Qed.
Lemma skey_eqb_refl a : skey_eqb a a = true.
Proof. destruct (skey_eqb_spec a a); congruence. Qed.

(* ------------------------------------------------------------------------------------------ *)
(* store updates *)

Lemma set_out_outs st rel e rel' :
  s_outs (set_out st rel e) rel' = if str_eqb rel' rel then e else s_outs st rel'.
Proof. reflexivity. Qed.
Lemma set_out_same st rel e : s_outs (set_out st rel e) rel = e.
Proof. rewrite set_out_outs, str_eqb_refl. reflexivity. Qed.
Lemma set_out_other st rel e rel' : rel' <> rel -> s_outs (set_out st rel e) rel' = s_outs st rel'.
Proof. intros H. rewrite set_out_outs. apply str_eqb_neq in H. rewrite H. reflexivity. Qed.
Lemma set_out_meta st rel e : s_meta (set_out st rel e) = s_meta st.
Proof. reflexivity. Qed.
Lemma set_meta_outs st l : s_outs (set_meta st l) = s_outs st.
Proof. reflexivity. Qed.
Lemma set_meta_same st l : s_meta (set_meta st l) l = true.
Proof. cbn. unfold upd. rewrite str_eqb_refl. reflexivity. Qed.
Lemma set_meta_other st l l' : l' <> l -> s_meta (set_meta st l) l' = s_meta st l'.
Proof. intros H. cbn. unfold upd. apply str_eqb_neq in H. rewrite H. reflexivity. Qed.

Lemma remove_fold_outs rels : forall st rel, ~ In rel rels ->
  s_outs (fold_left (fun s x => set_out s x None) rels st) rel = s_outs st rel.
Proof.
  induction rels as [|x rels IH]; intros st rel Hn; cbn [fold_left]; [reflexivity|].
  rewrite IH by (intros H; apply Hn; right; exact H).
  apply set_out_other. intros ->. apply Hn. left. reflexivity.
Qed.
Lemma remove_fold_meta rels : forall st, s_meta (fold_left (fun s x => set_out s x None) rels st) = s_meta st.
Proof. induction rels as [|x rels IH]; intros st; cbn [fold_left]; [reflexivity|]. rewrite IH. reflexivity. Qed.

Lemma remove_outputs_outs t st rel : ~ In rel (out_rels t) -> s_outs (remove_outputs t st) rel = s_outs st rel.
Proof. apply remove_fold_outs. Qed.
Lemma remove_outputs_meta t st : s_meta (remove_outputs t st) = s_meta st.
Proof. apply remove_fold_meta. Qed.

Lemma move_fold_outs rk t news : forall st rel, ~ In rel (map (out_rel t) (map fst news)) ->
  s_outs (fold_left (move_output rk t) news st) rel = s_outs st rel.
Proof.
  induction news as [|on news IH]; intros st rel Hn; cbn [fold_left]; [reflexivity|].
  rewrite IH by (intros H; apply Hn; right; exact H).
  unfold move_output. apply set_out_other. intros ->. apply Hn. left. reflexivity.
Qed.
Lemma move_fold_meta rk t news : forall st, s_meta (fold_left (move_output rk t) news st) = s_meta st.
Proof. induction news as [|on news IH]; intros st; cbn [fold_left]; [reflexivity|]. rewrite IH. reflexivity. Qed.

(* after the moves every declared output carries the record *)
Lemma move_fold_rec rk t news : forall st o, In o (map fst news) ->
  exists e, s_outs (fold_left (move_output rk t) news st) (out_rel t o) = Some e /\ e_rec e = Some rk.
Proof.
  induction news as [|on news IH]; intros st o Hin; [destruct Hin|].
  cbn [fold_left]. destruct (in_dec (list_eq_dec N.eq_dec) o (map fst news)) as [Hlater|Hnot].
  - apply IH. exact Hlater.
  - destruct Hin as [Heq|Hin]; [|contradiction].
    assert (Hfr : forall st', s_outs (fold_left (move_output rk t) news st') (out_rel t o) = s_outs st' (out_rel t o)).
    { intros st'. destruct (in_dec (list_eq_dec N.eq_dec) (out_rel t o) (map (out_rel t) (map fst news))) as [Hi|Hni].
      - (* some later out has the same path: it carries the record too; handled by IH on that name *)
        exfalso. apply in_map_iff in Hi. destruct Hi as [o' [Hrel Ho']].
        unfold out_rel, join in Hrel. destruct (t_pkg t) as [|c pk].
        + subst o'. contradiction.
        + apply app_inv_head in Hrel. injection Hrel as ->. contradiction.
      - apply move_fold_outs. exact Hni. }
    rewrite Hfr. unfold move_output. rewrite Heq. rewrite set_out_same. eexists. split; reflexivity.
Qed.

(* ------------------------------------------------------------------------------------------ *)
(* actions name exactly the declared outputs *)

Lemma act_names k outs ins news : act k outs ins = Some news -> map fst news = outs.
Proof.
  destruct k as [c| |content]; cbn [act].
  - destruct c.
    + destruct outs as [|o rest]; [discriminate|]. destruct (all_files ins); [|discriminate].
      intros H. injection H as <-. cbn [map fst]. rewrite map_map. cbn [fst]. rewrite map_id. reflexivity.
    + destruct outs as [|o [|o2 rest]]; try discriminate. intros H. injection H as <-. reflexivity.
    + destruct outs as [|o [|o2 rest]]; try discriminate. intros H. injection H as <-. reflexivity.
    + intros H. injection H as <-. rewrite map_map. cbn [fst]. rewrite map_id. reflexivity.
    + discriminate.
  - discriminate.
  - destruct outs as [|o [|o2 rest]]; try discriminate. intros H. injection H as <-. reflexivity.
Qed.

(* ------------------------------------------------------------------------------------------ *)
(* frame: one build step (cache off) touches only the target's own outputs and metadata *)

Lemma build_filegroup_frame r t : forall rn,
  let rn' := build_filegroup r t rn in
  (forall rel, ~ In rel (out_rels t) -> s_outs (rn_st rn') rel = s_outs (rn_st rn) rel)
  /\ s_meta (rn_st rn') = s_meta (rn_st rn)
  /\ rn_log rn' = rn_log rn
  /\ (rn_failed rn' = rn_failed rn \/ exists n, rn_failed rn' = repeat (t_label t) (S n) ++ rn_failed rn).
Proof.
  unfold build_filegroup, out_rels, out_rel. generalize (outputs t) as fs.
  induction fs as [|f fs IH]; intros rn; cbn [fold_left map].
  - cbn. repeat split; auto.
  - set (rn1 := match alookup (join (t_pkg t) f) (r_files r) with
                | Some c => _ | None => _ end).
    specialize (IH rn1). cbn zeta in IH. destruct IH as (Ho & Hm & Hl & Hf).
    assert (H1 : (forall rel, rel <> join (t_pkg t) f -> s_outs (rn_st rn1) rel = s_outs (rn_st rn) rel)
                 /\ s_meta (rn_st rn1) = s_meta (rn_st rn) /\ rn_log rn1 = rn_log rn
                 /\ (rn_failed rn1 = rn_failed rn \/ rn_failed rn1 = t_label t :: rn_failed rn)).
    { subst rn1. destruct (alookup (join (t_pkg t) f) (r_files r)) as [c|].
      - destruct (s_outs (rn_st rn) (join (t_pkg t) f)) as [e|].
        + destruct (str_eqb (stream (e_node e)) c); cbn; repeat split; auto.
          intros rel Hne. apply set_out_other. exact Hne.
        + cbn. repeat split; auto. intros rel Hne. apply set_out_other. exact Hne.
      - unfold fail_run. cbn. repeat split; auto. }
    destruct H1 as (Ho1 & Hm1 & Hl1 & Hf1).
    repeat split.
    + intros rel Hn. rewrite Ho by (intros H; apply Hn; right; exact H).
      apply Ho1. intros ->. apply Hn. left. reflexivity.
    + congruence.
    + congruence.
    + destruct Hf as [Hf|[n Hf]], Hf1 as [Hf1|Hf1]; rewrite Hf, Hf1.
      * left. reflexivity.
      * right. exists 0. reflexivity.
      * right. exists n. reflexivity.
      * right. exists (S n). cbn [repeat]. rewrite <- app_comm_cons.
        change (t_label t :: repeat (t_label t) n ++ t_label t :: rn_failed rn)
          with (repeat (t_label t) (S n) ++ t_label t :: rn_failed rn).
        replace (t_label t :: rn_failed rn) with (repeat (t_label t) 1 ++ rn_failed rn) by reflexivity.
        rewrite app_assoc, <- repeat_app. replace (S n + 1) with (S (S n)) by lia. reflexivity.
Qed.

Lemma run_action_frame r rn t rk :
  let rn' := run_action false r rn t rk in
  (forall rel, ~ In rel (out_rels t) -> s_outs (rn_st rn') rel = s_outs (rn_st rn) rel)
  /\ (forall l, l <> t_label t -> s_meta (rn_st rn') l = s_meta (rn_st rn) l).
Proof.
  unfold run_action. destruct (gather (read r (rn_st rn)) (all_paths r t)) as [ins|].
  - destruct (act (t_kind t) (outputs t) (tmp_ins ins)) as [news|] eqn:Ha; cbn [rn_st].
    + apply act_names in Ha. split.
      * intros rel Hn. rewrite move_fold_outs by (rewrite Ha; exact Hn). reflexivity.
      * intros l Hl. rewrite move_fold_meta. apply set_meta_other. exact Hl.
    + split; [intros rel Hn; apply remove_outputs_outs; exact Hn|intros l _; rewrite remove_outputs_meta; reflexivity].
  - unfold fail_run. cbn [rn_st].
    split; [intros rel Hn; apply remove_outputs_outs; exact Hn|intros l _; rewrite remove_outputs_meta; reflexivity].
Qed.

Lemma build_rule_frame r rn t :
  let rn' := build_rule false r rn t in
  (forall rel, ~ In rel (out_rels t) -> s_outs (rn_st rn') rel = s_outs (rn_st rn) rel)
  /\ (forall l, l <> t_label t -> s_meta (rn_st rn') l = s_meta (rn_st rn) l).
Proof.
  unfold build_rule. destruct (negb (needs_build r (rn_st rn) t)); [split; reflexivity|].
  destruct (source_key r (rn_st rn) t) as [sk|].
  - apply run_action_frame.
  - unfold fail_run. cbn [rn_st].
    split; [intros rel Hn; apply remove_outputs_outs; exact Hn|intros l _; rewrite remove_outputs_meta; reflexivity].
Qed.

Lemma build_one_frame r rn t :
  let rn' := build_one false r rn t in
  (forall rel, ~ In rel (out_rels t) -> s_outs (rn_st rn') rel = s_outs (rn_st rn) rel)
  /\ (forall l, l <> t_label t -> s_meta (rn_st rn') l = s_meta (rn_st rn) l).
Proof.
  unfold build_one. destruct (blocked r rn t); [split; reflexivity|].
  destruct (is_filegroup t).
  - destruct (build_filegroup_frame r t rn) as (Ho & Hm & _). split; [exact Ho|]. intros l _. rewrite Hm. reflexivity.
  - apply build_rule_frame.
Qed.

(* the log and the failed list only grow, and only by the target's own label *)
Lemma build_one_log c r rn t :
  rn_log (build_one c r rn t) = rn_log rn \/ rn_log (build_one c r rn t) = t_label t :: rn_log rn.
Proof.
  unfold build_one. destruct (blocked r rn t); [left; reflexivity|].
  destruct (is_filegroup t).
  - left. apply build_filegroup_frame.
  - unfold build_rule. destruct (negb (needs_build r (rn_st rn) t)); [left; reflexivity|].
    destruct (source_key r (rn_st rn) t) as [sk|]; [|left; reflexivity].
    destruct (if c then s_cache (rn_st rn) (t_label t) (t_defkey t, sk) else None); [left; reflexivity|].
    unfold run_action. destruct (gather _ _); [|left; reflexivity].
    destruct (act _ _ _); right; reflexivity.
Qed.

Lemma build_one_failed c r rn t :
  exists n, rn_failed (build_one c r rn t) = repeat (t_label t) n ++ rn_failed rn.
Proof.
  unfold build_one. destruct (blocked r rn t); [exists 1; reflexivity|].
  destruct (is_filegroup t).
  - destruct (build_filegroup_frame r t rn) as (_ & _ & _ & [Hf|[n Hf]]); [exists 0|exists (S n)]; exact Hf.
  - unfold build_rule. destruct (negb (needs_build r (rn_st rn) t)); [exists 0; reflexivity|].
    destruct (source_key r (rn_st rn) t) as [sk|]; [|exists 1; reflexivity].
    destruct (if c then s_cache (rn_st rn) (t_label t) (t_defkey t, sk) else None); [exists 0; reflexivity|].
    unfold run_action. destruct (gather _ _); [|exists 1; reflexivity].
    destruct (act _ _ _); [exists 0|exists 1]; reflexivity.
Qed.
