(* Engine - lemmas shared by the C01 / C03 / C02 proofs: decidable equalities, what one build step may
   touch (frame), what it leaves behind when it succeeds (settled). *)
From PlzV Require Import Base.Harness Base.StrFacts Model.Engine.
From Coq Require Import Lia.

(* ------------------------------------------------------------------------------------------ *)
(* booleans and lists *)

Lemma mem_In k l : mem k l = true <-> In k l.
Proof.
  unfold mem. rewrite existsb_exists. split.
  - intros [x [Hin Heq]]. apply str_eqb_eq in Heq. subst. exact Hin.
  - intros H. exists k. split; [exact H | apply str_eqb_refl].
Qed.

Lemma mem_false k l : mem k l = false <-> ~ In k l.
Proof.
  split.
  - intros H Hin. apply mem_In in Hin. congruence.
  - intros H. destruct (mem k l) eqn:E; [|reflexivity]. apply mem_In in E. contradiction.
Qed.

Lemma nodup_str_NoDup l : nodup_str l = true -> NoDup l.
Proof.
  induction l as [|x l IH]; cbn [nodup_str]; intros H; [constructor|].
  apply andb_prop in H. destruct H as [H1 H2]. constructor.
  - apply negb_true_iff in H1. apply mem_false in H1. exact H1.
  - apply IH. exact H2.
Qed.

Lemma bool_eqb_spec a b : reflect (a = b) (Bool.eqb a b).
Proof. destruct a, b; constructor; congruence. Qed.

Lemma path_eqb_spec (a b : path) : reflect (a = b) (path_eqb a b).
Proof.
  destruct a as [g x], b as [g' y]. unfold path_eqb. cbn [fst snd].
  destruct (bool_eqb_spec g g') as [->|Hne]; cbn [andb].
  - destruct (str_eqb_spec x y) as [->|Hne]; constructor; congruence.
  - constructor; congruence.
Qed.

Lemma skey_eqb_spec (a b : skey) : reflect (a = b) (skey_eqb a b).
Proof.
  unfold skey_eqb. apply list_eqb_spec. intros [p x] [q y]. cbn [fst snd].
  destruct (path_eqb_spec p q) as [->|Hne]; cbn [andb].
  - destruct (str_eqb_spec x y) as [->|Hne]; constructor; congruence.
  - constructor; congruence.
Qed.

Lemma strs_eqb_spec (a b : list str) : reflect (a = b) (list_eqb str_eqb a b).
Proof. apply list_eqb_spec. apply str_eqb_spec. Qed.

Lemma rule_key_eqb_spec (a b : rule_key) : reflect (a = b) (rule_key_eqb a b).
Proof.
  destruct a as [d o], b as [d' o']. unfold rule_key_eqb. cbn [fst snd].
  destruct (str_eqb_spec d d') as [->|Hne]; cbn [andb].
  - destruct (strs_eqb_spec o o') as [->|Hne]; constructor; congruence.
  - constructor; congruence.
Qed.

Lemma rkey_eqb_spec (a b : rkey) : reflect (a = b) (rkey_eqb a b).
Proof.
  destruct a as [d k], b as [d' k']. unfold rkey_eqb. cbn [fst snd].
  destruct (rule_key_eqb_spec d d') as [->|Hne]; cbn [andb].
  - destruct (skey_eqb_spec k k') as [->|Hne]; constructor; congruence.
  - constructor; congruence.
Qed.

Lemma rkey_eqb_refl a : rkey_eqb a a = true.
Proof. destruct (rkey_eqb_spec a a); congruence. Qed.
Lemma skey_eqb_refl a : skey_eqb a a = true.
Proof. destruct (skey_eqb_spec a a); congruence. Qed.

(* ------------------------------------------------------------------------------------------ *)
(* store updates *)

Lemma set_out_outs st rel e rel' :
  s_outs (set_out st rel e) rel' = if str_eqb rel' rel then e else s_outs st rel'.
Proof. reflexivity. Qed.
Lemma set_out_same st rel e : s_outs (set_out st rel e) rel = e.
Proof. rewrite set_out_outs, str_eqb_refl. reflexivity. Qed.
Lemma set_out_other st rel e rel' : rel' <> rel -> s_outs (set_out st rel e) rel' = s_outs st rel'.
Proof. intros H. rewrite set_out_outs. apply str_eqb_neq in H. rewrite H. reflexivity. Qed.
Lemma set_out_meta st rel e : s_meta (set_out st rel e) = s_meta st.
Proof. reflexivity. Qed.
Lemma set_meta_outs st l : s_outs (set_meta st l) = s_outs st.
Proof. reflexivity. Qed.
Lemma set_meta_same st l : s_meta (set_meta st l) l = true.
Proof. cbn. unfold upd. rewrite str_eqb_refl. reflexivity. Qed.
Lemma set_meta_other st l l' : l' <> l -> s_meta (set_meta st l) l' = s_meta st l'.
Proof. intros H. cbn. unfold upd. apply str_eqb_neq in H. rewrite H. reflexivity. Qed.

Lemma remove_fold_outs rels : forall st rel, ~ In rel rels ->
  s_outs (fold_left (fun s x => set_out s x None) rels st) rel = s_outs st rel.
Proof.
  induction rels as [|x rels IH]; intros st rel Hn; cbn [fold_left]; [reflexivity|].
  rewrite IH by (intros H; apply Hn; right; exact H).
  apply set_out_other. intros ->. apply Hn. left. reflexivity.
Qed.
Lemma remove_fold_meta rels : forall st, s_meta (fold_left (fun s x => set_out s x None) rels st) = s_meta st.
Proof. induction rels as [|x rels IH]; intros st; cbn [fold_left]; [reflexivity|]. rewrite IH. reflexivity. Qed.

Lemma remove_outputs_outs t st rel : ~ In rel (out_rels t) -> s_outs (remove_outputs t st) rel = s_outs st rel.
Proof. apply remove_fold_outs. Qed.
Lemma remove_outputs_meta t st : s_meta (remove_outputs t st) = s_meta st.
Proof. apply remove_fold_meta. Qed.

Lemma move_fold_outs rk t news : forall st rel, ~ In rel (map (out_rel t) (map fst news)) ->
  s_outs (fold_left (move_output rk t) news st) rel = s_outs st rel.
Proof.
  induction news as [|on news IH]; intros st rel Hn; cbn [fold_left]; [reflexivity|].
  rewrite IH by (intros H; apply Hn; right; exact H).
  unfold move_output. apply set_out_other. intros ->. apply Hn. left. reflexivity.
Qed.
Lemma move_fold_meta rk t news : forall st, s_meta (fold_left (move_output rk t) news st) = s_meta st.
Proof. induction news as [|on news IH]; intros st; cbn [fold_left]; [reflexivity|]. rewrite IH. reflexivity. Qed.

(* after the moves every declared output carries the record *)
Lemma move_fold_rec rk t news : forall st o, In o (map fst news) ->
  exists e, s_outs (fold_left (move_output rk t) news st) (out_rel t o) = Some e /\ e_rec e = Some rk.
Proof.
  induction news as [|on news IH]; intros st o Hin; [destruct Hin|].
  cbn [fold_left]. destruct (in_dec (list_eq_dec N.eq_dec) o (map fst news)) as [Hlater|Hnot].
  - apply IH. exact Hlater.
  - destruct Hin as [Heq|Hin]; [|contradiction].
    assert (Hfr : forall st', s_outs (fold_left (move_output rk t) news st') (out_rel t o) = s_outs st' (out_rel t o)).
    { intros st'. destruct (in_dec (list_eq_dec N.eq_dec) (out_rel t o) (map (out_rel t) (map fst news))) as [Hi|Hni].
      - (* some later out has the same path: it carries the record too; handled by IH on that name *)
        exfalso. apply in_map_iff in Hi. destruct Hi as [o' [Hrel Ho']].
        unfold out_rel, join in Hrel. destruct (t_pkg t) as [|c pk].
        + subst o'. contradiction.
        + apply app_inv_head in Hrel. injection Hrel as ->. contradiction.
      - apply move_fold_outs. exact Hni. }
    rewrite Hfr. unfold move_output. rewrite Heq. rewrite set_out_same. eexists. split; reflexivity.
Qed.

(* ------------------------------------------------------------------------------------------ *)
(* actions name exactly the declared outputs *)

Lemma act_names k outs ins news : act k outs ins = Some news -> map fst news = outs.
Proof.
  destruct k as [c| |content]; cbn [act].
  - destruct c.
    + destruct outs as [|o rest]; [discriminate|]. destruct (all_files (src_ins ins)); [|discriminate].
      intros H. injection H as <-. cbn [map fst]. rewrite map_map. cbn [fst]. rewrite map_id. reflexivity.
    + destruct outs as [|o [|o2 rest]]; try discriminate. intros H. injection H as <-. reflexivity.
    + destruct outs as [|o [|o2 rest]]; try discriminate. intros H. injection H as <-. reflexivity.
    + intros H. injection H as <-. rewrite map_map. cbn [fst]. rewrite map_id. reflexivity.
    + discriminate.
    + destruct outs as [|o [|o2 rest]]; try discriminate. intros H. injection H as <-. reflexivity.
    + destruct outs as [|o [|o2 rest]]; try discriminate. destruct (all_files _); [|discriminate].
      intros H. injection H as <-. reflexivity.
    + destruct outs as [|o [|o2 rest]]; try discriminate. intros H. injection H as <-. reflexivity.
    + discriminate.
    + destruct outs as [|o [|o2 rest]]; try discriminate. destruct (all_files _); [|discriminate].
      intros H. injection H as <-. reflexivity.
  - discriminate.
  - destruct outs as [|o [|o2 rest]]; try discriminate. intros H. injection H as <-. reflexivity.
Qed.

(* ------------------------------------------------------------------------------------------ *)
(* AddOutput, the names found in an output directory, moveOutputs *)

Lemma add_out_In x l y : In y (add_out x l) <-> y = x \/ In y l.
Proof.
  induction l as [|z l IH]; cbn [add_out In]; [intuition congruence|].
  destruct (str_cmp x z) eqn:E.
  - apply str_cmp_eq in E. subst z. cbn [In]. intuition congruence.
  - cbn [In]. intuition congruence.
  - cbn [In]. rewrite IH. intuition congruence.
Qed.

Lemma add_outs_In xs : forall l y, In y (add_outs xs l) <-> In y xs \/ In y l.
Proof.
  unfold add_outs. induction xs as [|x xs IH]; intros l y; cbn [fold_left In]; [tauto|].
  rewrite IH, add_out_In. intuition congruence.
Qed.

Lemma ins_entry_names k v l : map fst (ins_entry k v l) = add_out k (map fst l).
Proof.
  induction l as [|[k' v'] l IH]; cbn [ins_entry map fst add_out]; [reflexivity|].
  destruct (str_cmp k k') eqn:E; cbn [map fst]; [apply str_cmp_eq in E; subst; reflexivity|reflexivity|]. rewrite IH. reflexivity.
Qed.

Lemma copy_fold_names ins : forall acc,
  map fst (fold_left (fun es pn => ins_entry (basename (fst pn)) (snd pn) es) ins acc)
  = fold_left (fun a p => add_out (basename p) a) (map fst ins) (map fst acc).
Proof.
  induction ins as [|pn ins IH]; intros acc; cbn [fold_left map]; [reflexivity|].
  rewrite IH, ins_entry_names. reflexivity.
Qed.

Lemma gather_paths rd l ins : gather rd l = Some ins -> map fst ins = l.
Proof.
  revert ins. induction l as [|p l IH]; intros ins; cbn [gather].
  - intros H. injection H as <-. reflexivity.
  - destruct (rd p); [|discriminate]. destruct (gather rd l) as [ns|]; [|discriminate].
    intros H. injection H as <-. cbn [map fst]. rewrite (IH ns eq_refl). reflexivity.
Qed.

(* what the output_dirs command finds is named by the paths alone *)
Lemma found_names_spec r st t ins : gather (read r st) (all_paths r t) = Some ins ->
  map fst (copy_entries (tmp_ins ins)) = found_names r t.
Proof.
  intros Hg. unfold copy_entries, found_names. rewrite copy_fold_names. cbn [map].
  apply gather_paths in Hg. rewrite <- Hg. unfold tmp_ins. rewrite !map_map. cbn [fst snd]. clear Hg.
  generalize (@nil str). induction ins as [|pn ins IH]; intros acc; cbn [fold_left map]; [reflexivity|].
  apply IH.
Qed.

Lemma collect_names tmp outs moved : collect tmp outs = Some moved -> map fst moved = outs.
Proof.
  revert moved. induction outs as [|o outs IH]; intros moved; cbn [collect].
  - intros H. injection H as <-. reflexivity.
  - destruct (alookup o tmp); [|discriminate]. destruct (collect tmp outs) as [l|]; [|discriminate].
    intros H. injection H as <-. cbn [map fst]. rewrite (IH l eq_refl). reflexivity.
Qed.

Lemma od_cmd_found outs ins found news : od_cmd outs ins = Some (found, news) -> found = copy_entries ins.
Proof.
  unfold od_cmd. destruct outs as [|o rest]; [discriminate|]. destruct (all_files ins); [|discriminate].
  intros H. injection H as <- _. reflexivity.
Qed.

Lemma out_rels_claimed r t rel : In rel (out_rels t) -> In rel (claimed r t).
Proof. intros H. unfold claimed. apply in_or_app. left. exact H. Qed.

Lemma remove_outs_outs t outs st rel : ~ In rel (map (out_rel t) outs) -> s_outs (remove_outs t outs st) rel = s_outs st rel.
Proof. apply remove_fold_outs. Qed.
Lemma remove_outs_meta t outs st : s_meta (remove_outs t outs st) = s_meta st.
Proof. apply remove_fold_meta. Qed.
Lemma remove_fold_dyn rels : forall st, s_dyn (fold_left (fun s x => set_out s x None) rels st) = s_dyn st.
Proof. induction rels as [|x rels IH]; intros st; cbn [fold_left]; [reflexivity|]. rewrite IH. reflexivity. Qed.
Lemma remove_outs_dyn t outs st : s_dyn (remove_outs t outs st) = s_dyn st.
Proof. apply remove_fold_dyn. Qed.
Lemma move_fold_dyn rk t news : forall st, s_dyn (fold_left (move_output rk t) news st) = s_dyn st.
Proof. induction news as [|on news IH]; intros st; cbn [fold_left]; [reflexivity|]. rewrite IH. reflexivity. Qed.

(* the paths a build of an output_dirs target from the outputs `outs0` may touch *)
Lemma rebuild_od_frame r rn t outs0 :
  let rn' := rebuild_od r rn t outs0 in
  (forall rel, ~ In rel (map (out_rel t) outs0) -> ~ In rel (map (out_rel t) (found_names r t)) ->
     s_outs (rn_st rn') rel = s_outs (rn_st rn) rel)
  /\ (forall l, l <> t_label t -> s_meta (rn_st rn') l = s_meta (rn_st rn) l /\ s_dyn (rn_st rn') l = s_dyn (rn_st rn) l).
Proof.
  unfold rebuild_od. destruct (source_key r (rn_st rn) t) as [sk|].
  2:{ unfold fail_run. cbn [rn_st]. split.
      - intros rel H0 _. apply remove_outs_outs. exact H0.
      - intros l _. rewrite remove_outs_meta, remove_outs_dyn. split; reflexivity. }
  unfold run_od. destruct (gather (read r (rn_st rn)) (all_paths r t)) as [ins|] eqn:Eg.
  2:{ unfold fail_run. cbn [rn_st]. split.
      - intros rel H0 _. apply remove_outs_outs. exact H0.
      - intros l _. rewrite remove_outs_meta, remove_outs_dyn. split; reflexivity. }
  destruct (od_cmd outs0 (tmp_ins ins)) as [[found news]|] eqn:Ec.
  2:{ cbn [rn_st]. split.
      - intros rel H0 _. apply remove_outs_outs. exact H0.
      - intros l _. rewrite remove_outs_meta, remove_outs_dyn. split; reflexivity. }
  pose proof (od_cmd_found _ _ _ _ Ec) as Hf. subst found. rewrite (found_names_spec r (rn_st rn) t ins Eg).
  assert (Hpaths : forall rel, ~ In rel (map (out_rel t) outs0) -> ~ In rel (map (out_rel t) (found_names r t)) ->
            ~ In rel (map (out_rel t) (add_outs (found_names r t) outs0))).
  { intros rel H0 H1 Hi. apply in_map_iff in Hi. destruct Hi as [o [<- Ho]]. apply add_outs_In in Ho.
    destruct Ho as [Ho|Ho]; [apply H1|apply H0]; apply in_map; exact Ho. }
  assert (Hmeta : forall l, l <> t_label t ->
            s_meta (set_meta_dyn (rn_st rn) (t_label t) (found_names r t)) l = s_meta (rn_st rn) l
            /\ s_dyn (set_meta_dyn (rn_st rn) (t_label t) (found_names r t)) l = s_dyn (rn_st rn) l).
  { intros l Hl. cbn. unfold upd. apply str_eqb_neq in Hl. rewrite Hl. split; reflexivity. }
  destruct (collect (copy_entries (tmp_ins ins) ++ news) (add_outs (found_names r t) outs0)) as [moved|] eqn:Eco; cbn [rn_st].
  - apply collect_names in Eco. split.
    + intros rel H0 H1. rewrite move_fold_outs; [reflexivity|]. rewrite Eco. apply Hpaths; assumption.
    + intros l Hl. rewrite move_fold_meta, move_fold_dyn. apply Hmeta. exact Hl.
  - split.
    + intros rel H0 H1. rewrite remove_outs_outs; [reflexivity|]. apply Hpaths; assumption.
    + intros l Hl. rewrite remove_outs_meta, remove_outs_dyn. apply Hmeta. exact Hl.
Qed.

Lemma build_rule_od_frame r rn t : stale_flow r (rn_st rn) t = false -> could_modify t = true ->
  let rn' := build_rule_od r rn t in
  (forall rel, ~ In rel (claimed r t) -> s_outs (rn_st rn') rel = s_outs (rn_st rn) rel)
  /\ (forall l, l <> t_label t -> s_meta (rn_st rn') l = s_meta (rn_st rn) l /\ s_dyn (rn_st rn') l = s_dyn (rn_st rn) l).
Proof.
  intros Hst Hcm. unfold build_rule_od. unfold stale_flow in Hst. rewrite Hcm in Hst. cbn [andb] in Hst.
  destruct (needs_build r (rn_st rn) t).
  - destruct (rebuild_od_frame r rn t (outputs t)) as [Ho Hm]. split; [|exact Hm].
    intros rel Hn. apply Ho; intros Hi; apply Hn; unfold claimed; rewrite Hcm; apply in_or_app; [left|right]; exact Hi.
  - cbn [negb andb] in Hst. rewrite Hst. split; [reflexivity|]. intros l _. split; reflexivity.
Qed.

(* ------------------------------------------------------------------------------------------ *)
(* frame: one build step (cache off) touches only the target's own outputs and metadata *)

Lemma build_filegroup_frame r t : forall rn,
  let rn' := build_filegroup r t rn in
  (forall rel, ~ In rel (out_rels t) -> s_outs (rn_st rn') rel = s_outs (rn_st rn) rel)
  /\ s_meta (rn_st rn') = s_meta (rn_st rn)
  /\ rn_log rn' = rn_log rn
  /\ (rn_failed rn' = rn_failed rn \/ exists n, rn_failed rn' = repeat (t_label t) (S n) ++ rn_failed rn).
Proof.
  unfold build_filegroup, out_rels, out_rel. generalize (outputs t) as fs.
  induction fs as [|f fs IH]; intros rn; cbn [fold_left map].
  - cbn. repeat split; auto.
  - set (rn1 := match fg_src r (join (t_pkg t) f) with
                | Some c => _ | None => _ end).
    specialize (IH rn1). cbn zeta in IH. destruct IH as (Ho & Hm & Hl & Hf).
    assert (H1 : (forall rel, rel <> join (t_pkg t) f -> s_outs (rn_st rn1) rel = s_outs (rn_st rn) rel)
                 /\ s_meta (rn_st rn1) = s_meta (rn_st rn) /\ rn_log rn1 = rn_log rn
                 /\ (rn_failed rn1 = rn_failed rn \/ rn_failed rn1 = t_label t :: rn_failed rn)).
    { subst rn1. destruct (fg_src r (join (t_pkg t) f)) as [c|].
      - destruct (s_outs (rn_st rn) (join (t_pkg t) f)) as [e|].
        + destruct (str_eqb (stream (e_node e)) (stream c)); cbn; repeat split; auto.
          intros rel Hne. apply set_out_other. exact Hne.
        + cbn. repeat split; auto. intros rel Hne. apply set_out_other. exact Hne.
      - unfold fail_run. cbn. repeat split; auto. }
    destruct H1 as (Ho1 & Hm1 & Hl1 & Hf1).
    repeat split.
    + intros rel Hn. rewrite Ho by (intros H; apply Hn; right; exact H).
      apply Ho1. intros ->. apply Hn. left. reflexivity.
    + congruence.
    + congruence.
    + destruct Hf as [Hf|[n Hf]], Hf1 as [Hf1|Hf1]; rewrite Hf, Hf1.
      * left. reflexivity.
      * right. exists 0. reflexivity.
      * right. exists n. reflexivity.
      * right. exists (S n). cbn [repeat]. rewrite <- app_comm_cons.
        change (t_label t :: repeat (t_label t) n ++ t_label t :: rn_failed rn)
          with (repeat (t_label t) (S n) ++ t_label t :: rn_failed rn).
        replace (t_label t :: rn_failed rn) with (repeat (t_label t) 1 ++ rn_failed rn) by reflexivity.
        rewrite app_assoc, <- repeat_app. replace (S n + 1) with (S (S n)) by lia. reflexivity.
Qed.

Lemma build_filegroup_dyn r t : forall rn, s_dyn (rn_st (build_filegroup r t rn)) = s_dyn (rn_st rn).
Proof.
  unfold build_filegroup. generalize (outputs t) as fs.
  induction fs as [|f fs IH]; intros rn; cbn [fold_left]; [reflexivity|].
  rewrite IH. destruct (fg_src r (join (t_pkg t) f)) as [c|]; [|reflexivity].
  cbn zeta. destruct (s_outs (rn_st rn) (join (t_pkg t) f)) as [e|]; [destruct (str_eqb _ _)|]; reflexivity.
Qed.

Lemma set_meta_dyn_other st l l' : l' <> l -> s_dyn (set_meta st l) l' = s_dyn st l'.
Proof. intros H. cbn. unfold upd. apply str_eqb_neq in H. rewrite H. reflexivity. Qed.

Lemma run_action_frame r rn t rk :
  let rn' := run_action false r rn t rk in
  (forall rel, ~ In rel (out_rels t) -> s_outs (rn_st rn') rel = s_outs (rn_st rn) rel)
  /\ (forall l, l <> t_label t -> s_meta (rn_st rn') l = s_meta (rn_st rn) l /\ s_dyn (rn_st rn') l = s_dyn (rn_st rn) l).
Proof.
  unfold run_action. destruct (gather_in r (rn_st rn) t) as [ins|].
  - destruct (act (t_kind t) (outputs t) (tmp_ins ins)) as [news|] eqn:Ha; cbn [rn_st].
    + apply act_names in Ha. split.
      * intros rel Hn. rewrite move_fold_outs by (rewrite Ha; exact Hn). reflexivity.
      * intros l Hl. rewrite move_fold_meta, move_fold_dyn. split; [apply set_meta_other|apply set_meta_dyn_other]; exact Hl.
    + split; [intros rel Hn; apply remove_outputs_outs; exact Hn|intros l _; rewrite remove_outputs_meta; unfold remove_outputs; rewrite remove_fold_dyn; split; reflexivity].
  - unfold fail_run. cbn [rn_st].
    split; [intros rel Hn; apply remove_outputs_outs; exact Hn|intros l _; rewrite remove_outputs_meta; unfold remove_outputs; rewrite remove_fold_dyn; split; reflexivity].
Qed.

Lemma build_rule_frame r rn t :
  let rn' := build_rule false r rn t in
  (forall rel, ~ In rel (out_rels t) -> s_outs (rn_st rn') rel = s_outs (rn_st rn) rel)
  /\ (forall l, l <> t_label t -> s_meta (rn_st rn') l = s_meta (rn_st rn) l /\ s_dyn (rn_st rn') l = s_dyn (rn_st rn) l).
Proof.
  unfold build_rule. destruct (negb (needs_build r (rn_st rn) t)); [split; [reflexivity|intros l _; split; reflexivity]|].
  destruct (source_key r (rn_st rn) t) as [sk|].
  - apply run_action_frame.
  - unfold fail_run. cbn [rn_st].
    split; [intros rel Hn; apply remove_outputs_outs; exact Hn|intros l _; rewrite remove_outputs_meta; unfold remove_outputs; rewrite remove_fold_dyn; split; reflexivity].
Qed.

(* a step that does not go through stale_flow writes only what its target claims *)
Definition quiet_step (r : repo) (rn : run) (t : target) : Prop :=
  blocked r rn t = false -> stale_flow r (rn_st rn) t = false.

Lemma build_one_frame r rn t : quiet_step r rn t ->
  let rn' := build_one false r rn t in
  (forall rel, ~ In rel (claimed r t) -> s_outs (rn_st rn') rel = s_outs (rn_st rn) rel)
  /\ (forall l, l <> t_label t -> s_meta (rn_st rn') l = s_meta (rn_st rn) l /\ s_dyn (rn_st rn') l = s_dyn (rn_st rn) l).
Proof.
  intros Hq. unfold build_one. unfold quiet_step in Hq.
  destruct (blocked r rn t); [split; [reflexivity|intros l _; split; reflexivity]|].
  specialize (Hq eq_refl).
  destruct (is_filegroup t).
  - destruct (build_filegroup_frame r t rn) as (Ho & Hm & _). split.
    + intros rel Hn. apply Ho. intros Hi. apply Hn. apply out_rels_claimed. exact Hi.
    + intros l _. rewrite Hm, build_filegroup_dyn. split; reflexivity.
  - destruct (could_modify t) eqn:Ecm.
    + apply build_rule_od_frame; assumption.
    + destruct (build_rule_frame r rn t) as [Ho Hm]. split; [|exact Hm].
      intros rel Hn. apply Ho. intros Hi. apply Hn. apply out_rels_claimed. exact Hi.
Qed.

(* the log and the failed list only grow, and only by the target's own label *)
Lemma build_one_log c r rn t :
  rn_log (build_one c r rn t) = rn_log rn \/ rn_log (build_one c r rn t) = t_label t :: rn_log rn.
Proof.
  unfold build_one. destruct (blocked r rn t); [left; reflexivity|].
  destruct (is_filegroup t).
  - left. apply build_filegroup_frame.
  - destruct (could_modify t).
    { assert (Hre : forall outs0, rn_log (rebuild_od r rn t outs0) = rn_log rn \/ rn_log (rebuild_od r rn t outs0) = t_label t :: rn_log rn).
      { intros outs0. unfold rebuild_od. destruct (source_key r (rn_st rn) t); [|left; reflexivity].
        unfold run_od. destruct (gather _ _); [|left; reflexivity].
        destruct (od_cmd _ _) as [[found news]|]; [|right; reflexivity].
        destruct (collect _ _); right; reflexivity. }
      unfold build_rule_od. destruct (needs_build r (rn_st rn) t); [apply Hre|].
      destruct (needs_build_post _ _ _ _); [apply Hre|left; reflexivity]. }
    unfold build_rule. destruct (negb (needs_build r (rn_st rn) t)); [left; reflexivity|].
    destruct (source_key r (rn_st rn) t) as [sk|]; [|left; reflexivity].
    destruct (if c then s_cache (rn_st rn) (t_label t) ((t_defkey t, []), sk) else None); [left; reflexivity|].
    unfold run_action. destruct (gather_in _ _ _); [|left; reflexivity].
    destruct (act _ _ _); right; reflexivity.
Qed.

Lemma build_one_failed c r rn t :
  exists n, rn_failed (build_one c r rn t) = repeat (t_label t) n ++ rn_failed rn.
Proof.
  unfold build_one. destruct (blocked r rn t); [exists 1; reflexivity|].
  destruct (is_filegroup t).
  - destruct (build_filegroup_frame r t rn) as (_ & _ & _ & [Hf|[n Hf]]); [exists 0|exists (S n)]; exact Hf.
  - destruct (could_modify t).
    { assert (Hre : forall outs0, exists n, rn_failed (rebuild_od r rn t outs0) = repeat (t_label t) n ++ rn_failed rn).
      { intros outs0. unfold rebuild_od. destruct (source_key r (rn_st rn) t); [|exists 1; reflexivity].
        unfold run_od. destruct (gather _ _); [|exists 1; reflexivity].
        destruct (od_cmd _ _) as [[found news]|]; [|exists 1; reflexivity].
        destruct (collect _ _); [exists 0|exists 1]; reflexivity. }
      unfold build_rule_od. destruct (needs_build r (rn_st rn) t); [apply Hre|].
      destruct (needs_build_post _ _ _ _); [apply Hre|exists 0; reflexivity]. }
    unfold build_rule. destruct (negb (needs_build r (rn_st rn) t)); [exists 0; reflexivity|].
    destruct (source_key r (rn_st rn) t) as [sk|]; [|exists 1; reflexivity].
    destruct (if c then s_cache (rn_st rn) (t_label t) ((t_defkey t, []), sk) else None); [exists 0; reflexivity|].
    unfold run_action. destruct (gather_in _ _ _); [|exists 1; reflexivity].
    destruct (act _ _ _); [exists 0|exists 1]; reflexivity.
Qed.

(* ------------------------------------------------------------------------------------------ *)
(* the tools loop of sourceHash ranges over AllTools() (Gen/EngineRecord.v, source_hash_tools = TAllTools): the tool outputs
   that enter the source key are ALL tool outputs, those of dict-form (named) tools included.  Every theorem about
   source_key goes through this lemma: it stops holding when the loop ranges over target.Tools. *)
Lemma hashed_tool_paths_all r t : hashed_tool_paths r t = tool_paths r t.
Proof. reflexivity. Qed.
