(* C15 - proofs, part 2: all interleavings.
   Inv is an invariant of every configuration reachable by any schedule from any thread programs:
     - the log of effect steps, read in order, is a run of the sequential specification with the
       same results (linearisability, one effect step per atomic operation);
     - the shard state satisfies wf (Proof/C15.v: a channel is closed iff its key has been added);
     - every thread that waits on a channel waits on the channel made for its key;
     - GetOrSet's function has run, or is about to run, at most once per key. *)
From PlzV Require Import Base.Harness Model.C15 Proof.C15.
From Coq Require Import Lia Permutation.

Section Lts.
Variable V : Type.
Variable zero : V.
Variable has_err : V -> bool.
Variable sh : key -> N.

Notation state := (state V).
Notation sstate := (sstate V).
Notation prim := (prim V).
Notation pres := (pres V).
Notation instr := (instr V).
Notation thread := (thread V).
Notation global := (global V).
Notation config := (config V).
Notation sec_prim := (sec_prim V zero sh).
Notation spec_prim := (spec_prim V zero sh).
Notation tstep := (tstep V zero has_err sh).
Notation step_at := (step_at V zero has_err sh).
Notation cstep := (cstep V zero has_err sh).
Notation run := (run V zero has_err sh).
Notation wf := (wf V).
Notation Rel := (Rel V).
Notation added := (added V).
Notation change := (change V).
Notation spec_accepts := (spec_accepts V zero sh).
Notation res_equiv := (res_equiv V).

(* ---------- the history of effect steps ---------- *)
Definition hist_of (g : global) : list (prim * pres) :=
  map (fun e => (ev_prim e, ev_res e)) (rev (g_log g)).

Fixpoint spec_final (sp : sstate) (h : list (prim * pres)) : sstate :=
  match h with
  | [] => sp
  | (p, _) :: h' => spec_final (fst (spec_prim p sp)) h'
  end.

Lemma spec_final_snoc : forall h sp p r,
  spec_final sp (h ++ [(p, r)]) = fst (spec_prim p (spec_final sp h)).
Proof. induction h as [|[p0 r0] h IH]; intros sp p r; cbn [app spec_final]; [reflexivity|apply IH]. Qed.

Lemma spec_accepts_snoc : forall h sp p r,
  spec_accepts sp h -> res_equiv r (snd (spec_prim p (spec_final sp h))) -> spec_accepts sp (h ++ [(p, r)]).
Proof.
  induction h as [|[p0 r0] h IH]; intros sp p r; cbn [app C15.spec_accepts spec_final].
  - tauto.
  - intros [H1 H2] H3. split; [exact H1|now apply IH].
Qed.

Definition LinInv (g : global) : Prop :=
  Rel (g_st g) (spec_final (sinit V) (hist_of g)) /\ spec_accepts (sinit V) (hist_of g).

Lemma hist_of_cons : forall s l r tid p res,
  hist_of (mkG s (mkEv tid p res :: l) r) = hist_of (mkG s l r) ++ [(p, res)].
Proof. intros; unfold hist_of; cbn [g_log rev]. now rewrite map_app. Qed.

Lemma LinInv_event : forall g tid p,
  LinInv g ->
  LinInv (mkG (fst (sec_prim p (g_st g))) (mkEv tid p (snd (sec_prim p (g_st g))) :: g_log g) (g_runs g)).
Proof.
  intros [s l r] tid p [HRel Hacc]. cbn [g_st g_log g_runs] in *.
  destruct (Rel_step V zero has_err sh p s _ HRel) as [H1 H2].
  unfold LinInv. rewrite hist_of_cons. cbn [g_st]. rewrite spec_final_snoc.
  assert (hist_of (mkG (fst (sec_prim p s)) l r) = hist_of (mkG s l r)) as E by reflexivity.
  rewrite E. split; [exact H1|]. now apply spec_accepts_snoc.
Qed.

Lemma LinInv_runs : forall s l r r', LinInv (mkG s l r) -> LinInv (mkG s l r').
Proof. intros s l r r' H; exact H. Qed.

(* ---------- facts about shard.Get ---------- *)
Lemma get_fast_prim : forall k s r, sec_get_fast V zero k s = Some r -> sec_prim (PGet k) s = (s, RGet r).
Proof. intros k s r H; cbn [C15.sec_prim]. now rewrite H. Qed.

Lemma get_slow_prim : forall k s, sec_prim (PGet k) s = (fst (sec_get_slow V zero k s), RGet (snd (sec_get_slow V zero k s))).
Proof.
  intros k s; cbn [C15.sec_prim]. unfold sec_get_fast, sec_get_slow.
  destruct (afind k (tbl s)); reflexivity.
Qed.

Definition present (k : key) (s : state) : Prop := afind k (tbl s) <> None.

Lemma get_first_absent : forall k s r, snd (sec_prim (PGet k) s) = RGet r -> snd r = true ->
  afind k (tbl s) = None.
Proof.
  intros k s r; cbn [C15.sec_prim]; unfold sec_get_fast, sec_get_slow.
  destruct (afind k (tbl s)) as [[v|c]|]; cbn [snd entry_res]; intros H; inversion H; subst; cbn; congruence.
Qed.

Lemma get_present_after : forall k s, present k (fst (sec_prim (PGet k) s)).
Proof.
  intros k s; unfold present; cbn [C15.sec_prim]; unfold sec_get_fast, sec_get_slow.
  destruct (afind k (tbl s)) as [e|] eqn:E; cbn [fst tbl]; [congruence|].
  rewrite afind_aset_eq. discriminate.
Qed.

Lemma get_chan_alloc : forall k s r c, wf s -> snd (sec_prim (PGet k) s) = RGet r ->
  snd (fst r) = Some c -> In (c, k) (alloc (fst (sec_prim (PGet k) s))).
Proof.
  intros k s r c W; cbn [C15.sec_prim]; unfold sec_get_fast, sec_get_slow.
  destruct (afind k (tbl s)) as [[v|c0]|] eqn:E; cbn [snd fst entry_res alloc]; intros H; inversion H; subst; cbn [fst snd];
    intros Hc; inversion Hc; subst.
  - now apply (wf_wait V s W).
  - now left.
Qed.

Lemma change_present_mono : forall s s' k, change s s' -> present k s -> present k s'.
Proof.
  intros s s' k C H; unfold present in *; destruct C as [|k0 v0 _|k0 v0 c0 _|k0 _]; cbn [st_put st_fill st_wait tbl]; auto;
    (destruct (N.eq_dec k k0) as [E|E]; [subst; rewrite afind_aset_eq; discriminate|now rewrite afind_aset_neq]).
Qed.

(* ---------- threads ---------- *)
Definition instr_ok (s : state) (i : instr) : Prop :=
  match i with
  | IWait c k => In (c, k) (alloc s)
  | _ => True
  end.

Definition pend_i (i : instr) : list key := match i with IRunF k => [k] | _ => [] end.
Definition pend (t : thread) : list key := flat_map pend_i t.
Definition pending (ths : list thread) : list key := flat_map pend ths.

Lemma pend_app : forall a b, pend (a ++ b) = pend a ++ pend b.
Proof. intros; unfold pend; apply flat_map_app. Qed.

Lemma instr_ok_mono : forall s s' i, change s s' -> instr_ok s i -> instr_ok s' i.
Proof. intros s s' [] C H; cbn in *; auto. now apply (change_alloc_mono V s s'). Qed.

Lemma thread_ok_mono : forall s s' (t : thread), change s s' -> Forall (instr_ok s) t -> Forall (instr_ok s') t.
Proof. intros s s' t C H. eapply Forall_impl; [|exact H]. intros i; now apply instr_ok_mono. Qed.

(* what the caller does after Get: new instructions are well-formed, and f is scheduled only by the first caller *)
Lemma after_get_ok : forall q k s r, wf s -> snd (sec_prim (PGet k) s) = RGet r ->
  Forall (instr_ok (fst (sec_prim (PGet k) s))) (after_get V has_err q k r).
Proof.
  intros q k s r W Hr. destruct q as [| |v]; cbn [after_get].
  - constructor.
  - destruct (snd (fst r)) as [c|] eqn:Ec; [|constructor].
    repeat constructor. cbn. now apply (get_chan_alloc k s r c).
  - destruct (has_err (fst (fst r))); [constructor|].
    destruct (snd r); [repeat constructor|].
    destruct (snd (fst r)) as [c|] eqn:Ec; [|constructor].
    repeat constructor. cbn. now apply (get_chan_alloc k s r c).
Qed.

Lemma after_get_pend : forall q k r,
  pend (after_get V has_err q k r) = [] \/ (pend (after_get V has_err q k r) = [k] /\ snd r = true).
Proof.
  intros q k r. destruct q as [| |v]; cbn [after_get].
  - now left.
  - destruct (snd (fst r)); now left.
  - destruct (has_err (fst (fst r))); [now left|].
    destruct (snd r); [right; split; reflexivity|].
    destruct (snd (fst r)); now left.
Qed.

(* the part of the invariant that concerns the stepping thread t; P = keys pending in the other threads *)
Definition Local (t : thread) (P : list key) (g : global) : Prop :=
  LinInv g /\ Forall (instr_ok (g_st g)) t
  /\ NoDup (pend t ++ P ++ g_runs g)
  /\ (forall k, In k (pend t ++ P ++ g_runs g) -> present k (g_st g)).

Lemma Local_wf : forall t P g, Local t P g -> wf (g_st g).
Proof. intros t P g [[[W _] _] _]; exact W. Qed.

Lemma tstep_local : forall tid g t t' g' P,
  tstep tid g t = Some (t', g') -> Local t P g ->
  Local t' P g' /\ change (g_st g) (g_st g').
Proof.
  intros tid g t t' g' P Hstep HL. pose proof (Local_wf _ _ _ HL) as W.
  destruct HL as [HLin [Hok [Hnd Hpres]]].
  destruct t as [|i rest]; [discriminate|]. cbn [C15.tstep] in Hstep.
  inversion Hok as [|? ? Hi Hrest]; subst.
  destruct i as [p|k q|k q|c k|k].
  - (* one section *)
    pose proof (sec_prim_change V zero sh p (g_st g)) as C.
    pose proof (LinInv_event g tid p HLin) as HLin'.
    destruct (sec_prim p (g_st g)) as [s' r]. cbn [fst snd] in *.
    inversion Hstep; subst; clear Hstep. cbn [g_st g_runs]. split; [|exact C].
    split; [exact HLin'|]. split; [now apply (thread_ok_mono (g_st g))|].
    split; [exact Hnd|]. intros k Hk. apply (change_present_mono (g_st g)); [exact C|now apply Hpres].
  - (* Get, first section *)
    destruct (sec_get_fast V zero k (g_st g)) as [r|] eqn:E.
    + inversion Hstep; subst; clear Hstep. cbn [g_st g_runs].
      pose proof (get_fast_prim k (g_st g) r E) as Hp.
      pose proof (LinInv_event g tid (PGet k) HLin) as HLin'. rewrite Hp in HLin'. cbn [fst snd] in HLin'.
      split; [|constructor]. split; [exact HLin'|].
      assert (snd (sec_prim (PGet k) (g_st g)) = RGet r) as Hr by now rewrite Hp.
      pose proof (after_get_ok q k (g_st g) r W Hr) as Hnew. rewrite Hp in Hnew. cbn [fst] in Hnew.
      split; [apply Forall_app; split; assumption|].
      rewrite pend_app. destruct (after_get_pend q k r) as [Ep|[Ep Hf]].
      * rewrite Ep. cbn [app]. split; assumption.
      * exfalso. pose proof (get_first_absent k (g_st g) r Hr Hf) as Hab.
        unfold sec_get_fast in E. rewrite Hab in E. discriminate.
    + inversion Hstep; subst; clear Hstep. split; [|constructor].
      split; [exact HLin|]. split; [constructor; [exact I|exact Hrest]|]. split; assumption.
  - (* Get, second section *)
    pose proof (get_slow_prim k (g_st g)) as Hp.
    destruct (sec_get_slow V zero k (g_st g)) as [s' r] eqn:E. cbn [fst snd] in Hp.
    inversion Hstep; subst; clear Hstep. cbn [g_st g_runs].
    pose proof (sec_prim_change V zero sh (PGet k) (g_st g)) as C. rewrite Hp in C. cbn [fst] in C.
    pose proof (LinInv_event g tid (PGet k) HLin) as HLin'. rewrite Hp in HLin'. cbn [fst snd] in HLin'.
    split; [|exact C]. split; [exact HLin'|].
    assert (snd (sec_prim (PGet k) (g_st g)) = RGet r) as Hr by now rewrite Hp.
    pose proof (after_get_ok q k (g_st g) r W Hr) as Hnew. rewrite Hp in Hnew. cbn [fst] in Hnew.
    split; [apply Forall_app; split; [exact Hnew|now apply (thread_ok_mono (g_st g))]|].
    rewrite pend_app. cbn [pend flat_map pend_i app] in Hnd, Hpres.
    destruct (after_get_pend q k r) as [Ep|[Ep Hf]]; rewrite Ep; cbn [app].
    * split; [exact Hnd|]. intros k0 Hk0. apply (change_present_mono (g_st g)); [exact C|now apply Hpres].
    * pose proof (get_first_absent k (g_st g) r Hr Hf) as Hab.
      split.
      -- constructor; [|exact Hnd]. intros Hin. apply (Hpres k Hin). exact Hab.
      -- intros k0 [Ek|Hk0].
         ++ subst k0. pose proof (get_present_after k (g_st g)) as Hpa. rewrite Hp in Hpa. exact Hpa.
         ++ apply (change_present_mono (g_st g)); [exact C|now apply Hpres].
  - (* <-c *)
    destruct (cmem c (closed (g_st g))); [|discriminate].
    inversion Hstep; subst; clear Hstep. split; [|constructor].
    split; [exact HLin|]. split; [exact Hrest|]. split; assumption.
  - (* f() *)
    inversion Hstep; subst; clear Hstep. cbn [g_st g_runs]. split; [|constructor].
    split; [exact HLin|]. split; [exact Hrest|].
    cbn [pend flat_map pend_i app] in Hnd, Hpres. fold (pend t') in Hnd, Hpres.
    assert (Permutation (k :: pend t' ++ P ++ g_runs g) (pend t' ++ P ++ k :: g_runs g)) as HP.
    { rewrite !app_assoc. apply Permutation_middle. }
    split.
    + eapply Permutation_NoDup; [exact HP|exact Hnd].
    + intros k0 Hk0. apply Hpres. eapply Permutation_in; [apply Permutation_sym, HP|exact Hk0].
Qed.

(* ---------- configurations ---------- *)
Definition Inv (c : config) : Prop :=
  LinInv (snd c)
  /\ Forall (fun t => Forall (instr_ok (g_st (snd c))) t) (fst c)
  /\ NoDup (pending (fst c) ++ g_runs (snd c))
  /\ (forall k, In k (pending (fst c) ++ g_runs (snd c)) -> present k (g_st (snd c))).

Lemma step_at_split : forall n tid ths g ths' g',
  step_at n tid ths g = Some (ths', g') ->
  exists l1 t l2 t', ths = l1 ++ t :: l2 /\ ths' = l1 ++ t' :: l2 /\ length l1 = n /\ tstep tid g t = Some (t', g').
Proof.
  induction n as [|n IH]; intros tid ths g ths' g' H; destruct ths as [|t r]; cbn [C15.step_at] in H; try discriminate.
  - destruct (tstep tid g t) as [[t' g1]|] eqn:E; [|discriminate]. inversion H; subst.
    exists [], t, r, t'. repeat split; auto.
  - destruct (step_at n tid r g) as [[r' g1]|] eqn:E; [|discriminate]. inversion H; subst.
    destruct (IH _ _ _ _ _ E) as [l1 [t0 [l2 [t' [E1 [E2 [E3 E4]]]]]]].
    exists (t :: l1), t0, l2, t'. subst. repeat split; auto.
Qed.

Lemma pending_split : forall l1 t l2, pending (l1 ++ t :: l2) = pending l1 ++ pend t ++ pending l2.
Proof. intros; unfold pending. rewrite flat_map_app. reflexivity. Qed.

Lemma pending_perm : forall l1 t l2 (R : list key),
  Permutation (pending (l1 ++ t :: l2) ++ R) (pend t ++ (pending l1 ++ pending l2) ++ R).
Proof.
  intros. rewrite pending_split. rewrite <- !app_assoc. apply Permutation_app_swap_app.
Qed.

Lemma cstep_inv : forall c n, Inv c -> Inv (cstep c n).
Proof.
  intros [ths g] n HI. unfold C15.cstep. cbn [fst snd].
  destruct (step_at n n ths g) as [[ths' g']|] eqn:E; [|exact HI].
  destruct (step_at_split _ _ _ _ _ _ E) as [l1 [t [l2 [t' [E1 [E2 [_ Hstep]]]]]]]. subst ths ths'.
  destruct HI as [HLin [Hok [Hnd Hpres]]]. cbn [fst snd] in *.
  apply Forall_app in Hok. destruct Hok as [Hok1 Hok2]. inversion Hok2 as [|? ? Hokt Hok2']; subst.
  assert (Local t (pending l1 ++ pending l2) g) as HL.
  { split; [exact HLin|]. split; [exact Hokt|]. split.
    - eapply Permutation_NoDup; [apply pending_perm|exact Hnd].
    - intros k Hk. apply Hpres. eapply Permutation_in; [apply Permutation_sym, pending_perm|exact Hk]. }
  destruct (tstep_local _ _ _ _ _ _ Hstep HL) as [[HLin' [Hokt' [Hnd' Hpres']]] C].
  split; [exact HLin'|]. split.
  - apply Forall_app. split.
    + eapply Forall_impl; [|exact Hok1]. intros a; now apply thread_ok_mono.
    + constructor; [exact Hokt'|]. eapply Forall_impl; [|exact Hok2']. intros a; now apply thread_ok_mono.
  - split.
    + eapply Permutation_NoDup; [apply Permutation_sym, pending_perm|exact Hnd'].
    + intros k Hk. apply Hpres'. eapply Permutation_in; [apply pending_perm|exact Hk].
Qed.

Lemma run_inv : forall sched c, Inv c -> Inv (run sched c).
Proof.
  induction sched as [|n r IH]; intros c HI; cbn [C15.run fold_left]; [exact HI|].
  apply IH. now apply cstep_inv.
Qed.

(* the initial configuration: API programs contain no wait and no pending f *)
Lemma values_instrs_plain : forall n i, Forall (instr_ok (init V)) (values_instrs V n i) /\ pend (values_instrs V n i) = [].
Proof.
  induction n as [|n IH]; intros i; cbn [values_instrs]; [split; [constructor|reflexivity]|].
  destruct (IH (N.succ i)) as [H1 H2]. split; [constructor; [exact I|exact H1]|exact H2].
Qed.

Lemma expand_plain : forall nsh o, Forall (instr_ok (init V)) (expand V nsh o) /\ pend (expand V nsh o) = [].
Proof.
  intros nsh [[k v|k v|k v|k|k|k| |i|k v]|k]; cbn [expand]; try (split; [repeat constructor|reflexivity]).
  apply values_instrs_plain.
Qed.

Lemma prog_plain : forall nsh p, Forall (instr_ok (init V)) (concat (map (expand V nsh) p)) /\ pend (concat (map (expand V nsh) p)) = [].
Proof.
  intros nsh p; induction p as [|o r [IH1 IH2]]; cbn [map concat]; [split; [constructor|reflexivity]|].
  destruct (expand_plain nsh o) as [H1 H2]. split; [apply Forall_app; split; assumption|].
  rewrite pend_app, H2, IH2. reflexivity.
Qed.

Lemma start_inv : forall nsh progs, Inv (start V nsh progs).
Proof.
  intros nsh progs. unfold start, Inv. cbn [fst snd g_st g_runs].
  split; [|split; [|split]].
  - split; [apply (Rel_init V zero has_err sh)|exact I].
  - apply Forall_forall. intros t Ht. apply in_map_iff in Ht. destruct Ht as [p [E _]]. subst t.
    apply prog_plain.
  - assert (pending (map (fun p => concat (map (expand V nsh) p)) progs) = []) as E.
    { induction progs as [|p r IH]; [reflexivity|]. cbn [map]. unfold pending in *. cbn [flat_map].
      rewrite IH. destruct (prog_plain nsh p) as [_ H2]. now rewrite H2. }
    rewrite E. constructor.
  - assert (pending (map (fun p => concat (map (expand V nsh) p)) progs) = []) as E.
    { induction progs as [|p r IH]; [reflexivity|]. cbn [map]. unfold pending in *. cbn [flat_map].
      rewrite IH. destruct (prog_plain nsh p) as [_ H2]. now rewrite H2. }
    rewrite E. cbn. tauto.
Qed.

Definition reach (nsh : nat) (progs : list (list (top V))) (sched : list nat) : config :=
  run sched (start V nsh progs).

Lemma reach_inv : forall nsh progs sched, Inv (reach nsh progs sched).
Proof. intros; apply run_inv, start_inv. Qed.

(* every step of every thread is silent (fast path miss, released wait, f()) or is exactly one atomic
   operation: the single step at which the operation takes effect and which fixes its result *)
Definition effect_of (c c' : config) : Prop :=
  (g_st (snd c') = g_st (snd c) /\ g_log (snd c') = g_log (snd c))
  \/ exists tid p, g_log (snd c') = mkEv tid p (snd (sec_prim p (g_st (snd c)))) :: g_log (snd c)
                 /\ g_st (snd c') = fst (sec_prim p (g_st (snd c))).

Lemma tstep_effect : forall tid g t t' g', tstep tid g t = Some (t', g') ->
  (g_st g' = g_st g /\ g_log g' = g_log g)
  \/ exists p, g_log g' = mkEv tid p (snd (sec_prim p (g_st g))) :: g_log g /\ g_st g' = fst (sec_prim p (g_st g)).
Proof.
  intros tid g t t' g' H. destruct t as [|[p|k q|k q|c k|k] rest]; cbn [C15.tstep] in H; [discriminate|..].
  - right. exists p. destruct (sec_prim p (g_st g)) as [s' r]. inversion H; subst. cbn. auto.
  - destruct (sec_get_fast V zero k (g_st g)) as [r|] eqn:E; inversion H; subst; [|now left].
    right. exists (PGet k). rewrite (get_fast_prim k (g_st g) r E). cbn. auto.
  - right. exists (PGet k). rewrite (get_slow_prim k (g_st g)).
    destruct (sec_get_slow V zero k (g_st g)) as [s' r]. inversion H; subst. cbn. auto.
  - destruct (cmem c (closed (g_st g))); inversion H; subst. now left.
  - inversion H; subst. now left.
Qed.

Lemma cstep_effect : forall c n, effect_of c (cstep c n).
Proof.
  intros [ths g] n. unfold C15.cstep, effect_of. cbn [fst snd].
  destruct (step_at n n ths g) as [[ths' g']|] eqn:E; cbn [snd]; [|now left].
  destruct (step_at_split _ _ _ _ _ _ E) as [l1 [t [l2 [t' [_ [_ [_ Hstep]]]]]]].
  destruct (tstep_effect _ _ _ _ _ Hstep) as [H|[p H]]; [now left|right; now exists n, p].
Qed.

(* ---------- the theorems about all interleavings ---------- *)
(* linearisability: the effect steps, in the order in which they happened, are a run of the
   sequential specification that returns to every operation exactly what the operation returned *)
Theorem linearizable : forall nsh progs sched,
  spec_accepts (sinit V) (hist_of (snd (reach nsh progs sched))).
Proof. intros. destruct (reach_inv nsh progs sched) as [[_ H] _]. exact H. Qed.

Theorem reach_wf : forall nsh progs sched, wf (g_st (snd (reach nsh progs sched))).
Proof. intros. destruct (reach_inv nsh progs sched) as [[[W _] _] _]. exact W. Qed.

(* a thread blocked in <-c (c obtained from GetOrWait(k)) can proceed iff k has been added *)
Theorem wait_enabled_iff_added : forall nsh progs sched l1 c k rest l2 tid,
  fst (reach nsh progs sched) = l1 ++ (IWait c k :: rest) :: l2 ->
  (tstep tid (snd (reach nsh progs sched)) (IWait c k :: rest) <> None
   <-> added k (g_st (snd (reach nsh progs sched)))).
Proof.
  intros nsh progs sched l1 c k rest l2 tid E.
  destruct (reach_inv nsh progs sched) as [[[W _] _] [Hok _]].
  rewrite E in Hok. apply Forall_app in Hok. destruct Hok as [_ Hok].
  inversion Hok as [|? ? Ht _]; subst. inversion Ht as [|? ? Hi _]; subst. cbn in Hi.
  cbn [C15.tstep]. split.
  - destruct (cmem c (closed (g_st (snd (reach nsh progs sched))))) eqn:Ec; [|congruence].
    intros _. now apply (not_before_added V _ c k W Hi).
  - intros Ha. rewrite (no_lost_wakeup V _ c k W Hi Ha). discriminate.
Qed.

Lemma nodup_app_r : forall A (a b : list A), NoDup (a ++ b) -> NoDup b.
Proof. intros A a b; induction a as [|x a IH]; cbn [app]; [auto|]. intros H; inversion H; auto. Qed.

(* GetOrSet's function runs at most once per key *)
Theorem getorset_once : forall nsh progs sched, NoDup (g_runs (snd (reach nsh progs sched))).
Proof.
  intros. destruct (reach_inv nsh progs sched) as [_ [_ [Hnd _]]].
  exact (nodup_app_r _ _ _ Hnd).
Qed.

(* a value, once added, is changed only by the effect step of an overwriting Set of that key *)
Theorem step_value_stable : forall nsh progs sched n k v,
  let c := reach nsh progs sched in
  afind k (tbl (g_st (snd c))) = Some (Val v) ->
  afind k (tbl (g_st (snd (cstep c n)))) = Some (Val v)
  \/ exists tid v' r, g_log (snd (cstep c n)) = mkEv tid (PSet k v' true) r :: g_log (snd c).
Proof.
  intros nsh progs sched n k v c Hk.
  destruct (cstep_effect c n) as [[Hs _]|[tid [p [Hl Hs]]]]; rewrite Hs; [now left|].
  destruct (prim_value_stable V zero sh p _ k v Hk) as [H|[v' Hp]]; [now left|].
  right. subst p. exists tid, v'. eexists. exact Hl.
Qed.

(* no spurious wake-up: a step closes a channel only if it adds the key the channel was made for;
   that key is unique, so adding k' never closes the channel of another key k *)
Theorem step_no_spurious : forall nsh progs sched n ch,
  let c := reach nsh progs sched in
  cmem ch (closed (g_st (snd c))) = false ->
  cmem ch (closed (g_st (snd (cstep c n)))) = true ->
  exists k, In (ch, k) (alloc (g_st (snd c))) /\ ~ added k (g_st (snd c)) /\ added k (g_st (snd (cstep c n)))
            /\ (forall k', In (ch, k') (alloc (g_st (snd c))) -> k' = k).
Proof.
  intros nsh progs sched n ch c Ho Hc. pose proof (reach_wf nsh progs sched) as W. fold c in W.
  assert (change (g_st (snd c)) (g_st (snd (cstep c n)))) as C.
  { destruct (cstep_effect c n) as [[Hs _]|[tid [p [_ Hs]]]]; rewrite Hs; [constructor|apply sec_prim_change]. }
  destruct (change_closes V _ _ ch W C Ho Hc) as [k [H1 [H2 H3]]].
  exists k. repeat split; auto. intros k' Hk'. exact (wf_chan_key V _ W ch k' k Hk' H1).
Qed.

End Lts.
