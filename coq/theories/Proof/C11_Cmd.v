(* C11 - the EFFECTIVE test command: BuildTarget.getCommand on a per-config dict (a Go map, so iterated in
   an arbitrary order), what of it enters the runtime key, and what an edit of the active / of an inactive
   config's command does to the reports of a history.  The property theorems are in Props/C11.v. *)
From PlzV Require Import Base.Harness Base.StrFacts Gen.C11RuntimeHash Model.C11 Proof.C11.
From Coq Require Import Lia Permutation.

(* ---------------------------------------------------------------------------------------------- *)
(* Go's < on strings *)

Lemma ltb_irrefl a : str_ltb a a = false.
Proof. unfold str_ltb; rewrite str_cmp_refl; reflexivity. Qed.

Lemma ltb_trans a b c : str_ltb a b = true -> str_ltb b c = true -> str_ltb a c = true.
Proof.
  unfold str_ltb; intros H1 H2.
  destruct (str_cmp a b) eqn:E1; try discriminate. destruct (str_cmp b c) eqn:E2; try discriminate.
  rewrite (str_cmp_lt_trans _ _ _ E1 E2); reflexivity.
Qed.

Lemma ltb_asym a b : str_ltb a b = true -> str_ltb b a = false.
Proof.
  unfold str_ltb; intros H. rewrite (str_cmp_antisym a b). destruct (str_cmp a b); try discriminate; reflexivity.
Qed.

Lemma ltb_total a b : str_ltb a b = false -> str_ltb b a = false -> a = b.
Proof.
  unfold str_ltb; intros H1 H2. apply str_cmp_eq. rewrite (str_cmp_antisym a b) in H2.
  destruct (str_cmp a b); cbn in *; try discriminate; reflexivity.
Qed.

(* ---------------------------------------------------------------------------------------------- *)
(* the highest-key loop of getCommand does not depend on the iteration order of the map *)

Section Highest.
Variable A : Type.

Definition pick (acc e : str * A) : str * A := if str_ltb (fst acc) (fst e) then e else acc.

Definition is_max (acc : str * A) (l : list (str * A)) (m : str * A) : Prop :=
  (m = acc /\ forall e, In e l -> str_ltb (fst acc) (fst e) = false)
  \/ (In m l /\ str_ltb (fst acc) (fst m) = true /\ forall e, In e l -> str_ltb (fst m) (fst e) = false).

Lemma fold_pick_max l : forall acc, is_max acc l (fold_left pick l acc).
Proof.
  induction l as [|e l IH]; intros acc; cbn [fold_left].
  - left; split; [reflexivity | intros e []].
  - unfold pick at 2. destruct (str_ltb (fst acc) (fst e)) eqn:Hlt.
    + destruct (IH e) as [[Hm Hall] | (Hin & Hgt & Hall)]; right.
      * rewrite Hm; split; [left; reflexivity|]. split; [exact Hlt|].
        intros x [<-|Hx]; [apply ltb_irrefl | auto].
      * split; [right; exact Hin|]. split; [exact (ltb_trans _ _ _ Hlt Hgt)|].
        intros x [<-|Hx]; [apply ltb_asym, Hgt | auto].
    + destruct (IH acc) as [[Hm Hall] | (Hin & Hgt & Hall)]; [left | right].
      * split; [exact Hm|]. intros x [<-|Hx]; auto.
      * split; [right; exact Hin|]. split; [exact Hgt|].
        intros x [<-|Hx]; [|auto].
        destruct (str_ltb (fst (fold_left pick l acc)) (fst e)) eqn:Hc; [|reflexivity].
        rewrite (ltb_trans _ _ _ Hgt Hc) in Hlt; discriminate.
Qed.

Lemma nodup_keys_inj (l : list (str * A)) a b :
  NoDup (map fst l) -> In a l -> In b l -> fst a = fst b -> a = b.
Proof.
  induction l as [|e l IH]; cbn; [intros _ []|].
  intros Hnd [<-|Ha] [<-|Hb] Hk; inversion Hnd as [|? ? Hnot Hnd']; subst; auto.
  - exfalso; apply Hnot; rewrite Hk; apply in_map, Hb.
  - exfalso; apply Hnot; rewrite <- Hk; apply in_map, Ha.
Qed.

Lemma is_max_unique acc l l' m m' :
  Permutation l l' -> NoDup (map fst l) -> is_max acc l m -> is_max acc l' m' -> m = m'.
Proof.
  intros Hp Hnd [[-> Hall] | (Hin & Hgt & Hall)] [[-> Hall'] | (Hin' & Hgt' & Hall')].
  - reflexivity.
  - apply (Permutation_in _ (Permutation_sym Hp)) in Hin'. rewrite (Hall _ Hin') in Hgt'; discriminate.
  - apply (Permutation_in _ Hp) in Hin. rewrite (Hall' _ Hin) in Hgt; discriminate.
  - pose proof (Permutation_in _ (Permutation_sym Hp) Hin') as Hin'l.
    pose proof (Permutation_in _ Hp Hin) as Hinl'.
    apply (nodup_keys_inj l); auto. apply ltb_total; [exact (Hall _ Hin'l) | exact (Hall' _ Hinl')].
Qed.

Lemma fold_pick_perm acc l l' :
  Permutation l l' -> NoDup (map fst l) -> fold_left pick l acc = fold_left pick l' acc.
Proof. intros Hp Hnd. exact (is_max_unique acc l l' _ _ Hp Hnd (fold_pick_max l acc) (fold_pick_max l' acc)). Qed.
End Highest.

Lemma highest_perm l l' : Permutation l l' -> NoDup (map fst l) -> highest l = highest l'.
Proof. intros Hp Hnd. unfold highest. exact (fold_pick_perm _ _ l l' Hp Hnd). Qed.

Lemma assoc_in {A} k (l : list (str * A)) v : assoc k l = Some v -> In (k, v) l.
Proof.
  induction l as [|[k' v'] l IH]; cbn; [discriminate|].
  destruct (str_eqb_spec k k') as [->|Hne]; [intros [= ->]; left; reflexivity | intros H; right; auto].
Qed.

Lemma in_assoc {A} k (l : list (str * A)) v : NoDup (map fst l) -> In (k, v) l -> assoc k l = Some v.
Proof.
  induction l as [|[k' v'] l IH]; cbn; [intros _ []|].
  intros Hnd [[= -> ->]|Hin]; [rewrite str_eqb_refl; reflexivity|].
  inversion Hnd as [|? ? Hnot Hnd']; subst.
  destruct (str_eqb_spec k k') as [->|Hne]; [|auto].
  exfalso; apply Hnot. change k' with (fst (k', v)); apply in_map, Hin.
Qed.

Lemma assoc_perm {A} k (l l' : list (str * A)) :
  Permutation l l' -> NoDup (map fst l) -> assoc k l = assoc k l'.
Proof.
  intros Hp Hnd. assert (Hnd' : NoDup (map fst l')) by (eapply Permutation_NoDup; [apply Permutation_map, Hp | exact Hnd]).
  destruct (assoc k l) as [v|] eqn:E.
  - symmetry; apply in_assoc; [exact Hnd'|]. exact (Permutation_in _ Hp (assoc_in _ _ _ E)).
  - destruct (assoc k l') as [v'|] eqn:E'; [|reflexivity].
    apply assoc_in in E'. apply (Permutation_in _ (Permutation_sym Hp)) in E'.
    rewrite (in_assoc _ _ _ Hnd E') in E; discriminate.
Qed.

(* getCommand on a dict does not depend on the order in which Go iterates the map (a map has distinct keys) *)
Theorem get_command_perm cfg l l' :
  Permutation l l' -> NoDup (map fst l) ->
  get_command cfg (PerConfig l) = get_command cfg (PerConfig l').
Proof.
  intros Hp Hnd. cbn [get_command].
  assert (Hch : forall ch, choose cfg l ch = choose cfg l' ch).
  { intros [| |]; cbn [choose]; [apply assoc_perm | apply assoc_perm | rewrite (highest_perm _ _ Hp Hnd)]; auto. }
  induction get_command_order as [|ch r IH]; cbn [first_choice]; [reflexivity|].
  rewrite Hch, IH; reflexivity.
Qed.

(* the command of the ACTIVE config wins whenever the dict has one, whatever else the dict holds.
   (Depends on Gen.get_command_order, read off getCommand.) *)
Theorem get_command_active cfg l e : assoc cfg l = Some e -> get_command cfg (PerConfig l) = e.
Proof. intros H; cbn [get_command]. unfold get_command_order; cbn [first_choice choose]. rewrite H; reflexivity. Qed.

(* without one for the active config, the fallback config's *)
Theorem get_command_fallback cfg l e :
  assoc cfg l = None -> assoc fallback_config l = Some e -> get_command cfg (PerConfig l) = e.
Proof. intros H1 H2; cbn [get_command]. unfold get_command_order; cbn [first_choice choose]. rewrite H1, H2; reflexivity. Qed.

(* ---------------------------------------------------------------------------------------------- *)
(* what the invocation sees of the target is determined by the effective command *)

Definition with_cmds (ts : tsrc) (c : tcmds) : tsrc :=
  {| ts_rule := ts_rule ts; ts_cmds := c; ts_files := ts_files ts; ts_bin := ts_bin ts; ts_build := ts_build ts |}.

(* the test part of the rule stream, as the source writes it (Gen.rule_test_writes), is the effective text *)
Lemma test_part_stream cfg c : concat (test_part cfg c) = fst (get_command cfg c).
Proof. unfold test_part, rule_test_writes; cbn [map concat app]. rewrite app_nil_r; reflexivity. Qed.

Lemma runtime_key_effective cfg ts :
  runtime_key (effective cfg ts)
  = (concat (ts_rule ts) ++ fst (get_command cfg (ts_cmds ts)),
     combine_files files_combine (map file_stream (runtime_files (ts_files ts)))).
Proof. unfold runtime_key, effective; cbn [t_rule t_files]. rewrite concat_app, test_part_stream; reflexivity. Qed.

(* an edit of the commands of INACTIVE configs (any number of them, entries added or removed) changes
   nothing the invocation sees *)
Theorem effective_active_only cfg ts l l' e :
  assoc cfg l = Some e -> assoc cfg l' = Some e ->
  effective cfg (with_cmds ts (PerConfig l)) = effective cfg (with_cmds ts (PerConfig l')).
Proof.
  intros H H'. unfold effective, with_cmds, test_part; cbn [ts_rule ts_cmds ts_files ts_bin ts_build].
  rewrite (get_command_active cfg l e H), (get_command_active cfg l' e H'); reflexivity.
Qed.

(* a dict and the plain string holding its effective command are the same target to the invocation *)
Theorem effective_dict_vs_single cfg ts l text m :
  assoc cfg l = Some (text, m) ->
  runtime_key (effective cfg (with_cmds ts (PerConfig l))) = runtime_key (effective cfg (with_cmds ts (Single text m)))
  /\ t_cmd (effective cfg (with_cmds ts (PerConfig l))) = t_cmd (effective cfg (with_cmds ts (Single text m))).
Proof.
  intros H. rewrite !runtime_key_effective. unfold effective, with_cmds; cbn [ts_rule ts_cmds ts_files ts_bin ts_build t_cmd].
  rewrite (get_command_active cfg l _ H); cbn [get_command fst snd]. split; reflexivity.
Qed.

(* an edit that changes the text of the EFFECTIVE command (everything else of the rule unchanged) changes
   the runtime key: no result stored under the old key can be found any more *)
Theorem key_changes_with_effective_text cfg cfg' ts ts' :
  ts_rule ts = ts_rule ts' ->
  fst (get_command cfg (ts_cmds ts)) <> fst (get_command cfg' (ts_cmds ts')) ->
  runtime_key (effective cfg ts) <> runtime_key (effective cfg' ts').
Proof.
  intros Hr Hne Hk. rewrite !runtime_key_effective, Hr in Hk.
  injection Hk as Hk _. apply app_inv_head in Hk. contradiction.
Qed.

(* ---------------------------------------------------------------------------------------------- *)
(* histories *)

(* two steps that look the same to their invocations *)
Definition same_view (x x' : step) : Prop :=
  s_rm x = s_rm x' /\ s_args x = s_args x' /\ s_def x = s_def x'.

Lemma do_step_same_view c st x x' : same_view x x' -> do_step c st x = do_step c st x'.
Proof. intros (Hr & Ha & Hd); unfold do_step; rewrite Hr, Ha, Hd; reflexivity. Qed.

Lemma run_same_view c h h' : Forall2 same_view h h' -> forall st, run c st h = run c st h'.
Proof.
  induction 1 as [|x x' h h' Hx Hh IH]; intros st; cbn [run]; [reflexivity|].
  rewrite (do_step_same_view c st x x' Hx), IH; reflexivity.
Qed.

(* x' is x with the dict edited anywhere but at the active config *)
Definition inactive_edit (x x' : step) : Prop :=
  s_rm x = s_rm x' /\ s_args x = s_args x' /\ s_config x = s_config x' /\
  exists ts l l' e, s_src x = with_cmds ts (PerConfig l) /\ s_src x' = with_cmds ts (PerConfig l')
                    /\ assoc (resolve_config (s_config x)) l = Some e
                    /\ assoc (resolve_config (s_config x)) l' = Some e.

Lemma inactive_edit_same_view x x' : inactive_edit x x' -> same_view x x'.
Proof.
  intros (Hr & Ha & Hc & ts & l & l' & e & Hs & Hs' & Hl & Hl'). repeat split; auto.
  unfold s_def; rewrite <- Hc, Hs, Hs'. exact (effective_active_only _ ts l l' e Hl Hl').
Qed.

(* Only the active config's command can change what `plz test` reports: two histories (of any length) that
   differ, step by step, only in the commands of configs that are not the active one of that step produce
   the same reports and the same stored state. *)
Theorem inactive_config_edits_invisible c h h' :
  Forall2 (fun x x' => x = x' \/ inactive_edit x x') h h' ->
  reports c h = reports c h' /\ state_after c h = state_after c h'.
Proof.
  intros H. assert (Hv : Forall2 same_view h h').
  { induction H as [|x x' h h' Hx Hh IH]; constructor; auto.
    destruct Hx as [->|Hx]; [repeat split | apply inactive_edit_same_view, Hx]. }
  split; [unfold reports; rewrite (run_same_view c h h' Hv st0); reflexivity|].
  unfold state_after. generalize st0. induction Hv as [|x x' h0 h0' Hx Hh IH]; intros st; cbn [fold_left]; [reflexivity|].
  rewrite (do_step_same_view c st x x' Hx). apply IH.
  inversion H; subst; assumption.
Qed.

(* The active config's command must invalidate: whenever a result is reused, it comes from an earlier
   passing, argument-less run whose EFFECTIVE command text (under ITS config) is the current one - provided
   the rest of the rule is unchanged (the rule stream is unframed, see OtherKeyCollision). *)
Theorem reuse_has_effective_text c pre x :
  report_at c pre x = CachedPass ->
  exists pre1 y post1, pre = pre1 ++ y :: post1 /\ report_at c pre1 y = RanPass /\ s_args y = [] /\
    (ts_rule (s_src y) = ts_rule (s_src x) ->
     fst (get_command (resolve_config (s_config y)) (ts_cmds (s_src y)))
     = fst (get_command (resolve_config (s_config x)) (ts_cmds (s_src x)))).
Proof.
  intros Hr. destruct (cached_only_from_passing_run c pre x Hr) as [(pre1 & y & post1 & -> & Hy & Hk & Ha) _].
  exists pre1, y, post1; repeat split; auto.
  intros Hrule. unfold s_def in Hk. rewrite !runtime_key_effective, Hrule in Hk.
  injection Hk as Hk _. exact (app_inv_head _ _ _ Hk).
Qed.

(* ---------------------------------------------------------------------------------------------- *)
(* the remaining facts read off the source *)

(* filegroup outputs that are hard links to their source files are never hashed through the xattr: the
   model treats data that comes through a filegroup of source files like the source files themselves *)
Lemma filegroup_link_not_xattr_hashed : filegroup_same_branch_copies_hash = true.
Proof. reflexivity. Qed.

Lemma default_config_is_fallback : resolve_config [] = fallback_config.
Proof. reflexivity. Qed.
