(* C17 - parametricity of the evaluator in the ids it allocates, part 8: computed examples.  The hypotheses of
   package_result_independent_of_earlier_packages hold on the state the model's Subinclude leaves for d_lib; the
   earlier package xa really allocates (so the renaming is not the identity), the later package xc allocates lists,
   a dict and a function, calls its own function through map(), formats and sorts; and the hypothesis RestInv fails
   on the states of the three refuting classes. *)
From Coq Require Import String.
From PlzV Require Import Base.Harness Model.C16_Syntax Model.C16_Ops Model.C16_Prim Model.C16_Eval Model.C16.
From PlzV Require Import Proof.C17 Proof.C17_Inv Proof.C17_Main Proof.C17_NoConst Proof.C17_Iso Proof.C17_Examples Proof.C17_Sim1 Proof.C17_Sim7.
Local Open Scope list_scope.
Local Open Scope Z_scope.

(* package xc:  subinclude(...); own = FLAT + [4]; d = {"k": own, "n": 1}; def g(q): return q + 1
                m = map(g, [1, 2]); c = [x for x in FLAT if x < 3]; t = "%s-%s" % (str(d["k"]), len(own)); so = sorted(own) *)
Definition xc : prog :=
  [sub;
   SAssign (s "own") (Ex (XIdent (s "FLAT")) [OBin Add (ints [4])] None);
   SAssign (s "d") (Ex (XDict [(Ex (XStr (s "k")) [] None, id_ "own"); (Ex (XStr (s "n")) [] None, lit 1)]) [] None);
   SDef (s "g") [(s "q", None)] [SReturn (Some (Ex (XIdent (s "q")) [OBin Add (XInt 1)] None))];
   SAssign (s "m") (Ex (XCall (s "map") [(None, id_ "g"); (None, Ex (ints [1; 2]) [] None)]) [] None);
   SAssign (s "c") (Ex (XComp (id_ "x") [s "x"] (id_ "FLAT") (Some (Ex (XIdent (s "x")) [OBin C16_Syntax.Lt (XInt 3)] None))) [] None);
   SAssign (s "t") (Ex (XStr (s "%s-%s")) [OBin Mod (XList [Ex (XCall (s "str") [(None, Ex (XIndex (XIdent (s "d")) (Ex (XStr (s "k")) [] None)) [] None)]) [] None;
                                                              Ex (XCall (s "len") [(None, id_ "own")]) [] None])] None);
   SAssign (s "so") (Ex (XCall (s "sorted") [(None, id_ "own")]) [] None)].

Definition st_lib : state := state_after d_lib.
Definition st_lib_after_xa : state := snd (run_builds Asp [(lbl, d_lib)] FUEL [xa] st_lib).

Lemma sim_examples :
  rest_invb [(lbl, d_lib)] (Dead4 [] [0%nat] [] []) st_lib = true
  /\ closed_stateb st_lib = true
  /\ forallb no_const [xa; xb; xc] = true
  (* the earlier package allocated arrays, a function table entry... : the two runs of xc use different ids *)
  /\ (Nat.ltb (length (arrays st_lib)) (length (arrays st_lib_after_xa)) && Nat.ltb (length (fscopes st_lib)) (length (fscopes st_lib_after_xa))) = true
  (* what xc computes alone, from the state at rest *)
  /\ match map (@snd _ _) (fst (run_builds Asp [(lbl, d_lib)] FUEL [xc] st_lib)) with
     | [OGlobals a _] =>
         assoc_get (s "own") a = Some (OList false 0%nat [OInt 3; OInt 1; OInt 2; OInt 4])
         /\ assoc_get (s "m") a = Some (OList false 0%nat [OInt 2; OInt 3])
         /\ assoc_get (s "c") a = Some (OList false 1%nat [OInt 1; OInt 2])
         /\ assoc_get (s "t") a = Some (OStr (s "[3 1 2 4]-4"))
         /\ assoc_get (s "so") a = Some (OList false 0%nat [OInt 1; OInt 2; OInt 3; OInt 4])
         /\ assoc_get (s "g") a = Some (OFunc (s "g"))
     | _ => False
     end
  (* ... and (computed, not through the theorem) the same after xa *)
  /\ list_eqb outcome_eqb (map (@snd _ _) (fst (run_builds Asp [(lbl, d_lib)] FUEL [xc; xb] st_lib_after_xa)))
                          (map (@snd _ _) (fst (run_builds Asp [(lbl, d_lib)] FUEL [xc; xb] st_lib))) = true
  (* the hypothesis fails on the states of the refuting classes *)
  /\ rest_invb [(lbl, d_nested)] (Dead4 [] [] [] []) (state_after d_nested) = false
  /\ rest_invb [(lbl, d_mk)] (Dead4 [] [] [] []) (state_after d_mk) = false
  /\ rest_invb [(lbl, d_dflt)] (Dead4 [] [] [] []) (state_after d_dflt) = false.
Proof. vm_compute. repeat split. Qed.

(* the theorem instantiated: no computation of the second run is needed *)
Lemma xc_after_xa_by_theorem :
  map (@snd _ _) (fst (run_builds Asp [(lbl, d_lib)] FUEL [xc; xb] st_lib_after_xa)) =
  map (@snd _ _) (fst (run_builds Asp [(lbl, d_lib)] FUEL [xc; xb] st_lib)).
Proof.
  destruct sim_examples as (HR & HC & HN & _).
  apply (package_result_independent_of_earlier_packages [(lbl, d_lib)] FUEL (Dead4 [] [0%nat] [] []) st_lib [xa]
           (fst (run_builds Asp [(lbl, d_lib)] FUEL [xa] st_lib)) st_lib_after_xa [xc; xb]).
  - apply rest_invb_sound. exact HR.
  - exact HC.
  - constructor; [reflexivity|constructor].
  - unfold st_lib_after_xa. destruct (run_builds Asp [(lbl, d_lib)] FUEL [xa] st_lib). reflexivity.
Qed.

(* reflexivity of the relation: with nothing in between (all k = 0) a closed state at rest simulates itself *)
Lemma sim_refl_closed : forall defs D st, RestInv defs D st -> closed_stateb st = true ->
  sim (shift_of st st) defs (set_locals [] (set_cur (length (fscopes st)) st)) (set_locals [] (set_cur (length (fscopes st)) st)).
Proof.
  intros defs D st R Hc. apply sim_start; [exact Hc|apply unchanged_refl|exact (r_defs _ _ _ R)].
Qed.
