(* C38 - proofs about string literals (Model/C38Str.v):
   requote_same_value: for every body over the modelled alphabet (any length) that holds no backslash-newline in a
   single-line literal, the asp lexer reads from the canonical form that buildtools' quote() prints for the body's
   Unquote value exactly the value it reads from the original literal, and the canonical form is one complete token.
   The per-byte facts are decided by computation over the regenerated escape rules of the lexer (item_check_all), the
   statement about bodies of any length by induction.  single_line_continuation_differs is the witness of the defect
   class. *)
From Coq Require Import Lia.
From PlzV Require Import Base.Harness Base.StrFacts Gen.C38Fmt Model.C38Str.
Local Open Scope list_scope.
Local Open Scope N_scope.

(* ---- the lexer over items ------------------------------------------------------------------------------ *)
Definition lexable (q : N) (ml : bool) (it : item) : bool :=
  match it with
  | P b => negb (N.eqb b q) && negb (N.eqb b 0) && negb (N.eqb b 92) && (ml || negb (N.eqb b 10))
  | E _ => true
  end.

Lemma prepend_app : forall a b o, prepend a (prepend b o) = prepend (a ++ b) o.
Proof. intros a b [[v r]|]; cbn; [now rewrite app_assoc | reflexivity]. Qed.

Lemma consume_P : forall q ml b r, lexable q ml (P b) = true ->
  consume q ml false (b :: r) = prepend [b] (consume q ml false r).
Proof.
  intros q ml b r H. cbn [lexable] in H.
  apply andb_prop in H as [H Hnl]. apply andb_prop in H as [H H92]. apply andb_prop in H as [Hq H0].
  apply negb_true_iff in Hq, H0, H92.
  cbn [consume]. rewrite Hq, H0, H92.
  destruct (N.eqb b 10) eqn:E10.
  - apply N.eqb_eq in E10. subst b. destruct ml; [reflexivity | discriminate].
  - reflexivity.
Qed.

Lemma consume_E : forall q ml b r, N.eqb 92 q = false ->
  consume q ml false (92 :: b :: r) = prepend (asp_escape ml b) (consume q ml false r).
Proof. intros q ml b r H. cbn [consume]. rewrite H. reflexivity. Qed.

Lemma consume_items : forall q ml its tail, N.eqb 92 q = false -> forallb (lexable q ml) its = true ->
  consume q ml false (render its ++ tail) = prepend (flat_map (asp_item ml) its) (consume q ml false tail).
Proof.
  intros q ml its tail Hq. induction its as [|it its IH]; intros H.
  - cbn. destruct (consume q ml false tail) as [[v r]|]; reflexivity.
  - cbn [forallb] in H. apply andb_prop in H as [Hit H]. specialize (IH H).
    destruct it as [b|b]; cbn [render flat_map render1 asp_item app]; change (flat_map render1 its) with (render its).
    + rewrite (consume_P _ _ _ _ Hit), IH. apply prepend_app.
    + rewrite (consume_E _ _ _ _ Hq), IH. apply prepend_app.
Qed.

Lemma consume_delim : forall q ml, consume q ml false (delim q ml) = Some ([], []).
Proof. intros q [|]; cbn; rewrite !N.eqb_refl; reflexivity. Qed.

(* ---- Unquote and quote over items ------------------------------------------------------------------------- *)
Definition unq_ok (it : item) : bool :=
  match it with P b => negb (N.eqb b 92) | E b => negb (numeric_escape b) end.

Lemma unquote_items : forall its, forallb unq_ok its = true ->
  bt_unquote false (render its) = Some (flat_map bt_item its).
Proof.
  induction its as [|it its IH]; intros H; [reflexivity|].
  cbn [forallb] in H. apply andb_prop in H as [Hit H]. specialize (IH H).
  destruct it as [b|b]; cbn [unq_ok] in Hit; apply negb_true_iff in Hit;
    cbn [render flat_map render1 bt_item app bt_unquote]; fold (render its).
  - rewrite Hit, IH. reflexivity.
  - change (N.eqb 92 92) with true. cbn iota.
    destruct (N.eqb b 10); [exact IH|].
    destruct (unesc b); [now rewrite IH|]. rewrite Hit, IH. reflexivity.
Qed.

Definition value_ok (ml : bool) (c : N) : bool :=
  negb (ml && N.eqb c 34) && str_eqb (qbytes ml c) (render1 (qitem ml c)).

Lemma quote_items : forall ml v, forallb (value_ok ml) v = true ->
  bt_quote_body ml false v = render (map (qitem ml) v).
Proof.
  intros ml. induction v as [|c v IH]; intros H; [reflexivity|].
  cbn [forallb] in H. apply andb_prop in H as [Hc H]. specialize (IH H).
  unfold value_ok in Hc. apply andb_prop in Hc as [Hq Hb]. apply negb_true_iff in Hq. apply str_eqb_eq in Hb.
  cbn [bt_quote_body map render flat_map]. fold (render (map (qitem ml) v)).
  assert (Hc : N.eqb c 34 && ml && quote_lookahead v = false).
  { destruct ml; destruct (N.eqb c 34); try discriminate; reflexivity. }
  rewrite Hc, Hb, IH. reflexivity.
Qed.

Lemma flat_map_map : forall {A B C} (f : B -> list C) (g : A -> B) l, flat_map f (map g l) = flat_map (fun x => f (g x)) l.
Proof. induction l as [|x l IH]; cbn; [reflexivity | now rewrite IH]. Qed.

Lemma forallb_map' : forall {A B} (f : B -> bool) (g : A -> B) l, forallb f (map g l) = forallb (fun x => f (g x)) l.
Proof. induction l as [|x l IH]; cbn; [reflexivity | now rewrite IH]. Qed.

(* ---- the per-byte facts, decided by computation over the regenerated escape rules -------------------------- *)
Definition item_good (ml : bool) (it : item) : bool :=
  unq_ok it
  && str_eqb (flat_map (fun c => asp_item ml (qitem ml c)) (bt_item it)) (asp_item ml it)
  && forallb (fun c => lexable 34 ml (qitem ml c)) (bt_item it)
  && forallb (value_ok ml) (bt_item it).

Definition item_check (ml : bool) (it : item) : bool := negb (item_ok ml it) || joins_line ml it || item_good ml it.

Definition bytes127 : list N := map N.of_nat (seq 0 127).

Lemma in_bytes127 : forall b, b < 127 -> In b bytes127.
Proof.
  intros b H. unfold bytes127. apply in_map_iff. exists (N.to_nat b). split; [apply N2Nat.id|]. apply in_seq. lia.
Qed.

Lemma item_check_all :
  forallb (fun b => item_check true (P b) && item_check false (P b) && item_check true (E b) && item_check false (E b))
          bytes127 = true.
Proof. vm_compute. reflexivity. Qed.

Lemma item_facts : forall ml it, item_ok ml it = true -> joins_line ml it = false -> item_good ml it = true.
Proof.
  intros ml it Hok Hj.
  assert (Hb : item_byte it < 127).
  { unfold item_ok in Hok. apply andb_prop in Hok as [Hlt _]. now apply N.ltb_lt in Hlt. }
  pose proof (proj1 (forallb_forall _ _) item_check_all _ (in_bytes127 _ Hb)) as Hall. cbn beta in Hall.
  apply andb_prop in Hall as [Hall H4]. apply andb_prop in Hall as [Hall H3]. apply andb_prop in Hall as [H1 H2].
  assert (Hc : item_check ml it = true).
  { destruct it as [b|b]; destruct ml; cbn [item_byte] in *; assumption. }
  unfold item_check in Hc. rewrite Hok, Hj in Hc. exact Hc.
Qed.

(* ---- bodies of any length --------------------------------------------------------------------------------- *)
Definition body_ok (ml : bool) (its : list item) : bool :=
  forallb (fun it => item_ok ml it && negb (joins_line ml it)) its.

Lemma body_facts : forall ml its, body_ok ml its = true ->
  forallb unq_ok its = true
  /\ flat_map (fun c => asp_item ml (qitem ml c)) (flat_map bt_item its) = flat_map (asp_item ml) its
  /\ forallb (lexable 34 ml) (map (qitem ml) (flat_map bt_item its)) = true
  /\ forallb (value_ok ml) (flat_map bt_item its) = true.
Proof.
  intros ml. induction its as [|it its IH]; intros H; [repeat split; reflexivity|].
  cbn [body_ok forallb] in H. apply andb_prop in H as [Hit H]. apply andb_prop in Hit as [Hok Hj].
  apply negb_true_iff in Hj. destruct (IH H) as (I1 & I2 & I3 & I4).
  pose proof (item_facts ml it Hok Hj) as G. unfold item_good in G.
  apply andb_prop in G as [G G4]. apply andb_prop in G as [G G3]. apply andb_prop in G as [G1 G2].
  apply str_eqb_eq in G2.
  cbn [forallb flat_map]. rewrite flat_map_app, map_app, !forallb_app, G1, I1, G2, I2, I3, I4, G4.
  rewrite forallb_map', G3. repeat split; reflexivity.
Qed.

(* The re-quoted literal is one complete token and the lexer reads from it the value `flat_map (asp_item ml) its`;
   orig_same_value: that is the value it reads from the original literal. *)
Theorem requote_same_value : forall ml its, body_ok ml its = true ->
  exists v, bt_unquote false (render its) = Some v
            /\ lex_string (delim 34 ml ++ bt_quote_body ml false v ++ delim 34 ml) = Some (flat_map (asp_item ml) its, []).
Proof.
  intros ml its H. destruct (body_facts ml its H) as (F1 & F2 & F3 & F4).
  exists (flat_map bt_item its). split; [apply unquote_items; exact F1|].
  rewrite (quote_items ml _ F4).
  assert (Hc : consume 34 ml false (render (map (qitem ml) (flat_map bt_item its)) ++ delim 34 ml)
               = Some (flat_map (asp_item ml) its, [])).
  { rewrite (consume_items 34 ml _ _ eq_refl F3), consume_delim, flat_map_map, F2. cbn. now rewrite app_nil_r. }
  destruct ml.
  - cbn [delim app lex_string]. rewrite !N.eqb_refl. exact Hc.
  - cbn [delim app] in *. unfold lex_string.
    destruct (render (map (qitem false) (flat_map bt_item its)) ++ [34]) as [|x [|y l]] eqn:E; cbn [app];
      try exact Hc.
    (* at least two bytes follow the opening quote: they are not both quotes, or the body would be empty *)
    destruct (N.eqb x 34 && N.eqb y 34) eqn:Q; [|exact Hc].
    exfalso. apply andb_prop in Q as [Qx Qy]. apply N.eqb_eq in Qx, Qy. subst x y.
    cbn [consume] in Hc. discriminate Hc || (cbn in Hc; discriminate Hc).
Qed.

Theorem orig_same_value : forall q ml its, N.eqb 92 q = false -> forallb (lexable q ml) its = true ->
  consume q ml false (render its ++ delim q ml) = Some (flat_map (asp_item ml) its, []).
Proof.
  intros q ml its Hq H. rewrite (consume_items q ml its _ Hq H), consume_delim. cbn. now rewrite app_nil_r.
Qed.

(* ---- the defect class ---------------------------------------------------------------------------------------- *)
(* 'x\<newline>y' : asp keeps backslash and newline, the re-quoted "xy" has lost both *)
Definition w_body : list item := [P 120; E 10; P 121].
Lemma single_line_continuation_differs :
  lex_string (delim 39 false ++ render w_body ++ delim 39 false) = Some ([120; 92; 10; 121], [])
  /\ bt_print 39 false (render w_body) = Some (s """xy""")
  /\ lex_string (s """xy""") = Some ([120; 121], [])
  /\ body_ok false w_body = false /\ body_ok true w_body = true.
Proof. vm_compute. repeat split; reflexivity. Qed.
