(* C32 - proofs about the crash model (Model/C32.v). *)
From PlzV Require Import Base.Harness Base.StrFacts Model.C32.
From Coq Require Import Lia List.

(* ------------------------------------------------------------------------------------------ *)
(* general list facts *)

Lemma Forall_firstn {A} (P : A -> Prop) (l : list A) k : Forall P l -> Forall P (firstn k l).
Proof.
  revert k; induction l as [|x l IH]; intros [|k] H; cbn; try constructor.
  - inversion H; auto.
  - inversion H; auto.
Qed.

Lemma firstn_app_le {A} (l1 l2 : list A) k : k <= length l1 -> firstn k (l1 ++ l2) = firstn k l1.
Proof.
  intros H. rewrite firstn_app. replace (k - length l1) with 0 by lia. cbn. apply app_nil_r.
Qed.

Lemma firstn_app_gt {A} (l1 l2 : list A) k : length l1 <= k -> firstn k (l1 ++ l2) = l1 ++ firstn (k - length l1) l2.
Proof. intros H. rewrite firstn_app. f_equal. apply firstn_all2. exact H. Qed.

Lemma forallb_ext_in {A} (f g : A -> bool) (l : list A) :
  (forall x, In x l -> f x = g x) -> forallb f l = forallb g l.
Proof.
  induction l as [|x l IH]; intros H; cbn; [reflexivity|].
  rewrite (H x (or_introl eq_refl)), IH; [reflexivity|]. intros y Hy. apply H. right. exact Hy.
Qed.

Lemma forallb_ext {A} (f g : A -> bool) (l : list A) : (forall x, f x = g x) -> forallb f l = forallb g l.
Proof. intros H. apply forallb_ext_in. intros x _. apply H. Qed.

Lemma list_eqb_str_refl (d : list str) : list_eqb str_eqb d d = true.
Proof. destruct (list_eqb_spec str_eqb str_eqb_spec d d); congruence. Qed.

(* ------------------------------------------------------------------------------------------ *)
(* fs.WriteFile: the destination changes only at the final rename *)

Definition not_rename (x : wstep) : Prop := match x with WRename => False | _ => True end.

Lemma wrun_app l1 l2 s : wrun (l1 ++ l2) s = wrun l2 (wrun l1 s).
Proof. unfold wrun. apply fold_left_app. Qed.

Lemma wrun_no_rename l s : Forall not_rename l -> w_dest (wrun l s) = w_dest s.
Proof.
  revert s; induction l as [|x l IH]; intros s H; cbn; [reflexivity|].
  inversion H as [|? ? Hx Hl]; subst. unfold wrun in IH. rewrite IH by exact Hl.
  destruct x; cbn in *; try reflexivity; try contradiction; destruct (w_tmp s); reflexivity.
Qed.

Lemma wrun_writes chunks s f :
  w_tmp s = Some f ->
  wrun (map WWrite chunks) s = mkWst (w_dest s) (Some (mkW (w_data f ++ concat chunks) (w_mode f))) (w_dir s).
Proof.
  revert s f; induction chunks as [|c r IH]; intros s f H; cbn.
  - rewrite app_nil_r. destruct s as [d t di]; cbn in *. subst. destruct f; reflexivity.
  - unfold wrun in *. cbn. rewrite H.
    erewrite IH by (cbn; reflexivity). cbn. rewrite <- app_assoc. reflexivity.
Qed.

Lemma writefile_prefix dir old chunks mode k :
  let s := wrun (firstn k (wf_steps dir chunks mode)) (mkWst old None dir) in
  w_dest s = old \/ w_dest s = Some (mkW (concat chunks) (eff_mode mode)).
Proof.
  cbn zeta. unfold wf_steps.
  set (pre := (if dir then [] else [WMkdir]) ++ [WCreate] ++ map WWrite chunks ++ [WClose; WChmod (eff_mode mode)]).
  assert (Hsplit : (if dir then [] else [WMkdir]) ++ [WCreate] ++ map WWrite chunks ++ [WClose; WChmod (eff_mode mode); WRename]
                   = pre ++ [WRename]).
  { unfold pre. rewrite <- !app_assoc. cbn. reflexivity. }
  rewrite Hsplit.
  assert (Hpre : Forall not_rename pre).
  { unfold pre. apply Forall_app; split; [destruct dir; repeat constructor|].
    apply Forall_app; split; [repeat constructor|]. apply Forall_app; split; [|repeat constructor].
    apply Forall_forall. intros x Hx. apply in_map_iff in Hx. destruct Hx as [c [<- _]]. exact I. }
  destruct (Nat.le_gt_cases k (length pre)) as [Hle|Hgt].
  - left. rewrite firstn_app_le by exact Hle. rewrite wrun_no_rename; [reflexivity|]. apply Forall_firstn, Hpre.
  - right. rewrite firstn_app_gt by lia.
    assert (Hr : firstn (k - length pre) [WRename] = [WRename]).
    { destruct (k - length pre) eqn:E; [lia|]. cbn [firstn]. rewrite firstn_nil. reflexivity. }
    rewrite Hr.
    unfold pre. rewrite <- !app_assoc. rewrite !wrun_app.
    set (s0 := wrun (if dir then [] else [WMkdir]) (mkWst old None dir)).
    assert (H0 : w_tmp (wrun [WCreate] s0) = Some (mkW [] 384)) by reflexivity.
    rewrite (wrun_writes chunks _ _ H0). reflexivity.
Qed.

(* ------------------------------------------------------------------------------------------ *)
(* one target build *)

Lemma upd_same o n v : upd o n v n = v.
Proof. unfold upd. rewrite str_eqb_refl. reflexivity. Qed.

Lemma upd_other o n v m : m <> n -> upd o n v m = o m.
Proof. unfold upd. intros H. apply str_eqb_neq in H. rewrite H. reflexivity. Qed.

Lemma run_app l1 l2 s : run (l1 ++ l2) s = run l2 (run l1 s).
Proof. unfold run. apply fold_left_app. Qed.

Section Build.
  Variable t : target.
  Variable b : build.

  (* no output's stored path hash wrongly claims to be the new content *)
  Definition J (s : st) : Prop :=
    forall n f, s_out s n = Some f -> eff_hash f = b_new b n -> f_content f = b_new b n.

  Definition current (s : st) (n : name) : Prop :=
    exists f, s_out s n = Some f /\ f_content f = b_new b n /\ eff_hash f = b_new b n.

  Definition outs_current (s : st) : Prop := forall n, In n (all_outs t b) -> current s n.

  (* the next normal build either rebuilds the target or reuses exactly what a completed build leaves *)
  Definition safe (s : st) : Prop :=
    J s /\
    match decide t (with_force b false) s with
    | Rebuild => True
    | Fail => False
    | Reuse => outs_current s /\ md_full t b s = true
    end.

  (* ---- J along every prefix ---- *)

  Definition step_ok (s : st) (x : step) : Prop :=
    match x with
    | DamageOut n => forall f, s_out s n = Some f -> eff_hash f <> b_new b n
    | MvOut n c => c = b_new b n
    | _ => True
    end.

  Fixpoint ok_list (s : st) (l : list step) : Prop :=
    match l with
    | [] => True
    | x :: r => step_ok s x /\ ok_list (run1 x s) r
    end.

  Lemma J_run1 s x : J s -> step_ok s x -> J (run1 x s).
  Proof.
    intros HJ Hok. destruct x; cbn [run1]; try exact HJ.
    - (* DamageOut *)
      destruct (s_out s n) as [f0|] eqn:E; [|exact HJ].
      intros m f. cbn [s_out]. unfold upd. destruct (str_eqb_spec m n) as [->|Hne].
      + intros [= <-]. unfold eff_hash; cbn [f_hash f_content].
        destruct (f_hash f0) as [h|] eqn:Eh.
        * intros Heq. exfalso. apply (Hok f0 E). unfold eff_hash. rewrite Eh. exact Heq.
        * intros Heq. exact Heq.
      + apply HJ.
    - (* RmOut *)
      intros m f. cbn [s_out]. unfold upd. destruct (str_eqb_spec m n) as [->|Hne]; [discriminate|apply HJ].
    - (* MvOut *)
      cbn in Hok. subst c. intros m f. cbn [s_out]. unfold upd. destruct (str_eqb_spec m n) as [->|Hne].
      + intros [= <-]. cbn. auto.
      + apply HJ.
    - (* SetHash *)
      destruct (s_out s n) as [f0|] eqn:E; [|exact HJ].
      intros m f. cbn [s_out]. unfold upd. destruct (str_eqb_spec m n) as [->|Hne].
      + intros [= <-]. unfold eff_hash; cbn. auto.
      + apply HJ.
    - (* SetRec *)
      destruct (s_out s n) as [f0|] eqn:E; [|exact HJ].
      intros m f. cbn [s_out]. unfold upd. destruct (str_eqb_spec m n) as [->|Hne].
      + intros [= <-]. unfold eff_hash; cbn [f_hash f_content]. apply (HJ n f0 E).
      + apply HJ.
    - (* SetMdRec *) destruct (s_md s); exact HJ.
  Qed.

  Lemma J_prefix l : forall s k, J s -> ok_list s l -> J (run (firstn k l) s).
  Proof.
    induction l as [|x l IH]; intros s k HJ Hok.
    - destruct k; exact HJ.
    - destruct k as [|k]; [exact HJ|]. cbn [firstn]. unfold run; cbn [fold_left]. fold (run (firstn k l) (run1 x s)).
      destruct Hok as [Hx Hl]. apply IH; [apply J_run1; assumption|exact Hl].
  Qed.

  Lemma ok_list_app l1 : forall s l2, ok_list s l1 -> ok_list (run l1 s) l2 -> ok_list s (l1 ++ l2).
  Proof.
    induction l1 as [|x l1 IH]; intros s l2 H1 H2; cbn; [exact H2|].
    destruct H1 as [Hx Hl]. split; [exact Hx|]. apply IH; [exact Hl|exact H2].
  Qed.

  Definition plain (x : step) : Prop := match x with DamageOut _ | MvOut _ _ => False | _ => True end.

  Lemma ok_list_plain l : forall s, Forall plain l -> ok_list s l.
  Proof.
    induction l as [|x l IH]; intros s H; cbn; [exact I|].
    inversion H as [|? ? Hx Hl]; subst. split; [destruct x; cbn in *; try exact I; contradiction|apply IH, Hl].
  Qed.

  Lemma ok_move_steps s n : ok_list s (move_steps b s n).
  Proof.
    unfold move_steps. destruct (s_out s n) as [f|] eqn:E.
    - destruct (N.eqb_spec (eff_hash f) (b_new b n)) as [Heq|Hne]; cbn; [exact I|].
      repeat split. intros f' Hf'. rewrite E in Hf'. injection Hf' as <-. exact Hne.
    - cbn. auto.
  Qed.

  Lemma ok_moves l : forall s, ok_list s (moves b l s).
  Proof.
    induction l as [|n r IH]; intros s; cbn [moves]; [exact I|].
    apply ok_list_app; [apply ok_move_steps|apply IH].
  Qed.

  (* ---- what the moves achieve ---- *)

  Lemma move_steps_out s n m :
    s_out (run (move_steps b s n) s) m =
      if str_eqb m n then
        match s_out s n with
        | Some f => if N.eqb (eff_hash f) (b_new b n) then Some f else Some (mkFile (b_new b n) (Some (b_new b n)) None)
        | None => Some (mkFile (b_new b n) (Some (b_new b n)) None)
        end
      else s_out s m.
  Proof.
    unfold move_steps. destruct (s_out s n) as [f|] eqn:E.
    - destruct (N.eqb (eff_hash f) (b_new b n)) eqn:Eh.
      + cbn. destruct (str_eqb_spec m n) as [->|]; [exact E|reflexivity].
      + unfold run. cbn [fold_left run1]. rewrite E. cbn [s_out]. unfold upd.
        destruct (str_eqb m n); reflexivity.
    - unfold run. cbn [fold_left run1 s_out]. unfold upd. destruct (str_eqb m n); reflexivity.
  Qed.

  Lemma move_steps_md s n : s_md (run (move_steps b s n) s) = s_md s /\ s_fb (run (move_steps b s n) s) = s_fb s.
  Proof.
    unfold move_steps. destruct (s_out s n) as [f|] eqn:E.
    - destruct (N.eqb (eff_hash f) (b_new b n)); [split; reflexivity|].
      unfold run. cbn [fold_left run1]. rewrite E. split; reflexivity.
    - split; reflexivity.
  Qed.

  Lemma current_after_move s n : J s -> current (run (move_steps b s n) s) n.
  Proof.
    intros HJ. unfold current. rewrite move_steps_out, str_eqb_refl.
    destruct (s_out s n) as [f|] eqn:E.
    - destruct (N.eqb_spec (eff_hash f) (b_new b n)) as [Heq|Hne].
      + exists f. split; [reflexivity|]. split; [apply (HJ n f E Heq)|exact Heq].
      + eexists; split; [reflexivity|]. split; reflexivity.
    - eexists; split; [reflexivity|]. split; reflexivity.
  Qed.

  Lemma current_kept_by_move s n m : current s m -> J s -> current (run (move_steps b s n) s) m.
  Proof.
    intros Hc HJ. destruct (str_eqb_spec m n) as [->|Hne]; [apply current_after_move, HJ|].
    unfold current. rewrite move_steps_out. apply str_eqb_neq in Hne. rewrite Hne. exact Hc.
  Qed.

  Lemma J_after_move s n : J s -> J (run (move_steps b s n) s).
  Proof.
    intros HJ. pose proof (J_prefix (move_steps b s n) s (length (move_steps b s n)) HJ (ok_move_steps s n)) as H.
    rewrite firstn_all in H. exact H.
  Qed.

  Lemma moves_ok l : forall s, J s ->
    let s' := run (moves b l s) s in
    J s' /\ (forall n, In n l -> current s' n) /\ (forall m, current s m -> current s' m)
    /\ s_md s' = s_md s /\ s_fb s' = s_fb s.
  Proof.
    induction l as [|n r IH]; intros s HJ; cbn zeta.
    - cbn. repeat split; auto. intros n [].
    - cbn [moves]. rewrite run_app.
      set (s1 := run (move_steps b s n) s).
      assert (HJ1 : J s1) by apply J_after_move, HJ.
      destruct (IH s1 HJ1) as [HJ' [Hin [Hkeep [Hmd Hfb]]]].
      destruct (move_steps_md s n) as [Hmd1 Hfb1].
      split; [exact HJ'|]. split; [|split; [|split]].
      + intros m [<-|Hm]; [apply Hkeep, current_after_move, HJ|apply Hin, Hm].
      + intros m Hc. apply Hkeep, current_kept_by_move; assumption.
      + rewrite Hmd. exact Hmd1.
      + rewrite Hfb. exact Hfb1.
  Qed.

  (* ---- steps that keep a complete state complete ---- *)

  Definition keeps (x : step) : Prop :=
    match x with SetHash _ | SetRec _ _ | SetMdRec _ | FbTrunc | FbWrite _ => True | _ => False end.

  Lemma keeps_plain x : keeps x -> plain x.
  Proof. destruct x; cbn; auto. Qed.

  Lemma keeps_run1 s x : keeps x ->
    (forall m, current s m -> current (run1 x s) m) /\ (md_full t b s = true -> md_full t b (run1 x s) = true).
  Proof.
    intros Hk. destruct x; cbn in Hk; try contradiction; cbn [run1].
    - (* SetHash *)
      destruct (s_out s n) as [f0|] eqn:E; [|auto]. split; [|auto].
      intros m [f [Hf [Hc He]]]. unfold current. cbn [s_out]. unfold upd.
      destruct (str_eqb_spec m n) as [->|Hne].
      + rewrite E in Hf. injection Hf as <-. eexists; split; [reflexivity|]. unfold eff_hash; cbn. auto.
      + exists f; auto.
    - (* SetRec *)
      destruct (s_out s n) as [f0|] eqn:E; [|auto]. split; [|auto].
      intros m [f [Hf [Hc He]]]. unfold current. cbn [s_out]. unfold upd.
      destruct (str_eqb_spec m n) as [->|Hne].
      + rewrite E in Hf. injection Hf as <-. eexists; split; [reflexivity|]. unfold eff_hash in *; cbn. auto.
      + exists f; auto.
    - (* SetMdRec *)
      destruct (s_md s) as [m0|] eqn:E; [|auto]. split; [auto|].
      unfold md_full. rewrite E. cbn [s_md m_c]. destruct m0 as [c r']; cbn. auto.
    - split; auto.
    - split; auto.
  Qed.

  Lemma keeps_run l : forall s, Forall keeps l ->
    (forall m, current s m -> current (run l s) m) /\ (md_full t b s = true -> md_full t b (run l s) = true).
  Proof.
    induction l as [|x l IH]; intros s H; [cbn; auto|].
    inversion H as [|? ? Hx Hl]; subst. unfold run; cbn [fold_left]. fold (run l (run1 x s)).
    destruct (keeps_run1 s x Hx) as [H1 H2]. destruct (IH (run1 x s) Hl) as [H3 H4]. split; auto.
  Qed.

  Lemma keeps_sethash l : Forall keeps (map SetHash l).
  Proof. apply Forall_forall. intros x Hx. apply in_map_iff in Hx. destruct Hx as [n [<- _]]. exact I. Qed.

  Lemma keeps_rec_steps l : Forall keeps (rec_steps b l).
  Proof.
    unfold rec_steps. destruct l as [|n r]; [repeat constructor|].
    apply Forall_app; split; [|repeat constructor].
    apply Forall_forall. intros x Hx. apply in_map_iff in Hx. destruct Hx as [m [<- _]]. exact I.
  Qed.

  (* ---- the three parts of build_steps ---- *)

  Definition pre : list step := md_steps (if t_mod t then b_dirouts b else []).
  Definition partP (s : st) : list step := pre ++ moves b (all_outs t b) (run pre s) ++ map SetHash (all_outs t b).
  Definition partR : list step := rec_steps b (all_outs t b).

  Lemma build_steps_split s : build_steps t b s = partP s ++ partR.
  Proof. unfold build_steps, partP, partR, pre. cbn zeta. rewrite <- !app_assoc. reflexivity. Qed.

  Lemma pre_out s : s_out (run pre s) = s_out s.
  Proof. unfold pre, md_steps, run. cbn. reflexivity. Qed.

  Lemma J_pre s : J s -> J (run pre s).
  Proof. intros H n f. rewrite pre_out. apply H. Qed.

  Lemma ok_build_steps s : ok_list s (build_steps t b s).
  Proof.
    unfold build_steps. cbn zeta. fold pre.
    apply ok_list_app; [apply ok_list_plain; unfold pre, md_steps; cbn; repeat constructor|].
    apply ok_list_app; [apply ok_moves|].
    apply ok_list_plain. apply Forall_app; split.
    - eapply Forall_impl; [apply keeps_plain|apply keeps_sethash].
    - eapply Forall_impl; [apply keeps_plain|apply keeps_rec_steps].
  Qed.

  (* after StoreTargetMetadata, moveOutputs and the output hash: everything is in place, only the record is missing *)
  Lemma complete_after_P s : J s ->
    let s' := run (partP s) s in J s' /\ outs_current s' /\ md_full t b s' = true.
  Proof.
    intros HJ. cbn zeta. unfold partP. rewrite !run_app.
    set (s1 := run pre s).
    assert (HJ1 : J s1) by apply J_pre, HJ.
    destruct (moves_ok (all_outs t b) s1 HJ1) as [HJ2 [Hin [_ [Hmd _]]]].
    set (s2 := run (moves b (all_outs t b) s1) s1) in *.
    destruct (keeps_run (map SetHash (all_outs t b)) s2 (keeps_sethash _)) as [Hc Hm].
    split; [|split].
    - pose proof (J_prefix (map SetHash (all_outs t b)) s2 (length (map SetHash (all_outs t b))) HJ2) as H.
      rewrite firstn_all in H. apply H. apply ok_list_plain. eapply Forall_impl; [apply keeps_plain|apply keeps_sethash].
    - intros n Hn. apply Hc, Hin, Hn.
    - apply Hm. unfold md_full. rewrite Hmd. unfold s1, pre, md_steps, run. cbn. apply list_eqb_str_refl.
  Qed.

  Lemma safe_of_complete s : J s -> outs_current s -> md_full t b s = true -> safe s.
  Proof.
    intros HJ Hc Hm. split; [exact HJ|]. unfold decide.
    destruct (needs false t (with_force b false) (declared t) s); [exact I|].
    destruct (t_mod t) eqn:Emod; [|auto].
    pose proof Hm as Hm0. unfold md_full in Hm0. destruct (s_md s) as [[[|d] r]|] eqn:E; try discriminate.
    destruct (needs true t (with_force b false) (add_outs (declared t) d) s); [exact I|].
    split; [exact Hc|exact Hm].
  Qed.

  (* a completed build *)
  Lemma full_complete s : J s ->
    let s' := full t b s in J s' /\ outs_current s' /\ md_full t b s' = true.
  Proof.
    intros HJ. cbn zeta. unfold full. rewrite build_steps_split, run_app.
    destruct (complete_after_P s HJ) as [HJ' [Hc Hm]].
    destruct (keeps_run partR (run (partP s) s) (keeps_rec_steps _)) as [Hc' Hm'].
    split; [|split].
    - pose proof (J_prefix partR (run (partP s) s) (length partR) HJ') as H. rewrite firstn_all in H. apply H.
      apply ok_list_plain. eapply Forall_impl; [apply keeps_plain|apply keeps_rec_steps].
    - intros n Hn. apply Hc', Hc, Hn.
    - apply Hm', Hm.
  Qed.

  (* ---- before the record is written, a stale record stays stale ---- *)

  Definition early (x : step) : Prop :=
    match x with SetRec _ _ | SetMdRec _ | FbTrunc | FbWrite _ => False | _ => True end.

  Lemma read_outs_in_none names : forall s h n, In n names -> attr_of s n = None -> read_outs names s h = None.
  Proof.
    induction names as [|m r IH]; intros s h n Hin Hn; [destruct Hin|].
    cbn [read_outs]. destruct Hin as [->|Hin].
    - rewrite Hn. reflexivity.
    - destruct (attr_of s m); [|reflexivity]. destruct h as [h'|].
      + destruct (rec_eqb h' r0); [eapply IH; eassumption|reflexivity].
      + eapply IH; eassumption.
  Qed.

  Lemma read_outs_ext names : forall s s' h, (forall n, In n names -> attr_of s n = attr_of s' n) ->
    read_outs names s h = read_outs names s' h.
  Proof.
    induction names as [|m r IH]; intros s s' h H; [reflexivity|].
    cbn [read_outs]. rewrite <- (H m (or_introl eq_refl)).
    destruct (attr_of s m); [|reflexivity].
    destruct h as [h'|]; [destruct (rec_eqb h' r0); [|reflexivity]|]; apply IH; intros n Hn; apply H; right; exact Hn.
  Qed.

  Lemma read_outs_some_none names : forall s h, read_outs names s h = Some None -> names = [] /\ h = None.
  Proof.
    induction names as [|m r IH]; intros s h H; cbn [read_outs] in H.
    - injection H as ->. auto.
    - destruct (attr_of s m); [|discriminate]. destruct h as [h'|].
      + destruct (rec_eqb h' r0); [|discriminate]. apply IH in H. destruct H; discriminate.
      + apply IH in H. destruct H; discriminate.
  Qed.

  Definition mdrec (s : st) : option rec := match s_md s with Some m => m_rec m | None => None end.

  Lemma rec_matches_ext post bb names s s' :
    (forall n, In n names -> s_out s n = s_out s' n) -> mdrec s = mdrec s' -> s_fb s = s_fb s' ->
    rec_matches post t bb names s = rec_matches post t bb names s'.
  Proof.
    intros Ho Hm Hf. unfold rec_matches, read_rec.
    rewrite (read_outs_ext names s s' None) by (intros n Hn; unfold attr_of; rewrite (Ho n Hn); reflexivity).
    fold (mdrec s) (mdrec s'). rewrite Hm, Hf.
    assert (Hex : forallb (exists_out s) names = forallb (exists_out s') names).
    { apply forallb_ext_in. intros n Hn. unfold exists_out. rewrite (Ho n Hn). reflexivity. }
    rewrite Hex. reflexivity.
  Qed.

  Lemma rec_matches_missing post bb names s n :
    In n names -> attr_of s n = None -> rec_matches post t bb names s = false.
  Proof.
    intros Hin Hn. unfold rec_matches, read_rec. rewrite (read_outs_in_none names s None n Hin Hn). reflexivity.
  Qed.

  Definition name_in_dec (n : name) (l : list name) : {In n l} + {~ In n l} := in_dec (list_eq_dec N.eq_dec) n l.

  Lemma early_keeps_stale bb names s x :
    early x -> rec_matches false t bb names (run1 x s) = true -> rec_matches false t bb names s = true.
  Proof.
    intros He. destruct x; cbn in He; try contradiction; cbn [run1].
    - (* RmMd *)
      intros H. unfold rec_matches, read_rec in *. cbn [s_md s_fb] in H.
      rewrite (read_outs_ext names _ s None) in H by (intros; reflexivity).
      destruct (read_outs names s None) as [[h|]|] eqn:E; try exact H.
      cbn [negb andb] in *. destruct (t_mod t); cbn [andb] in *; [discriminate|exact H].
    - (* MdTmp *) auto.
    - (* MvMd *)
      intros H. unfold rec_matches, read_rec in *. cbn [s_md s_fb m_rec] in H.
      rewrite (read_outs_ext names _ s None) in H by (intros; reflexivity).
      destruct (read_outs names s None) as [[h|]|] eqn:E; try exact H.
      cbn [negb andb] in *. destruct (t_mod t); cbn [andb] in *; [discriminate|exact H].
    - (* DamageOut *)
      destruct (s_out s n) as [f|] eqn:E; [|auto]. intros H. rewrite <- H. symmetry.
      unfold rec_matches, read_rec.
      rewrite (read_outs_ext names _ s None).
      2:{ intros m _. unfold attr_of. cbn [s_out]. unfold upd. destruct (str_eqb_spec m n) as [->|]; [rewrite E|]; reflexivity. }
      cbn [s_md s_fb].
      assert (Hex : forallb (exists_out (mkSt (s_md s) (upd (s_out s) n (Some (mkFile junk (f_hash f) (f_rec f)))) (s_fb s))) names
                    = forallb (exists_out s) names).
      { apply forallb_ext. intros m. unfold exists_out. cbn [s_out]. unfold upd.
        destruct (str_eqb_spec m n) as [->|]; [rewrite E|]; reflexivity. }
      rewrite Hex. reflexivity.
    - (* RmOut *)
      intros H. destruct (name_in_dec n names) as [Hin|Hnin].
      + rewrite (rec_matches_missing false bb names _ n Hin) in H; [discriminate|].
        unfold attr_of. cbn [s_out]. rewrite upd_same. reflexivity.
      + rewrite <- H. symmetry. apply rec_matches_ext; try reflexivity.
        intros m Hm. cbn [s_out]. rewrite upd_other; [reflexivity|]. intros ->. contradiction.
    - (* MvOut *)
      intros H. destruct (name_in_dec n names) as [Hin|Hnin].
      + rewrite (rec_matches_missing false bb names _ n Hin) in H; [discriminate|].
        unfold attr_of. cbn [s_out]. rewrite upd_same. reflexivity.
      + rewrite <- H. symmetry. apply rec_matches_ext; try reflexivity.
        intros m Hm. cbn [s_out]. rewrite upd_other; [reflexivity|]. intros ->. contradiction.
    - (* SetHash *)
      destruct (s_out s n) as [f|] eqn:E; [|auto]. intros H. rewrite <- H. symmetry.
      unfold rec_matches, read_rec.
      rewrite (read_outs_ext names _ s None).
      2:{ intros m _. unfold attr_of. cbn [s_out]. unfold upd. destruct (str_eqb_spec m n) as [->|]; [rewrite E|]; reflexivity. }
      cbn [s_md s_fb].
      assert (Hex : forallb (exists_out (mkSt (s_md s) (upd (s_out s) n (Some (mkFile (f_content f) (Some (f_content f)) (f_rec f)))) (s_fb s))) names
                    = forallb (exists_out s) names).
      { apply forallb_ext. intros m. unfold exists_out. cbn [s_out]. unfold upd.
        destruct (str_eqb_spec m n) as [->|]; [rewrite E|]; reflexivity. }
      rewrite Hex. reflexivity.
  Qed.

  Lemma early_list_keeps_stale bb names l : forall s, Forall early l ->
    rec_matches false t bb names s = false -> rec_matches false t bb names (run l s) = false.
  Proof.
    induction l as [|x l IH]; intros s H Hs; [exact Hs|].
    inversion H as [|? ? Hx Hl]; subst. unfold run; cbn [fold_left]. fold (run l (run1 x s)).
    apply IH; [exact Hl|]. destruct (rec_matches false t bb names (run1 x s)) eqn:E; [|reflexivity].
    apply early_keeps_stale in E; [congruence|exact Hx].
  Qed.

  Lemma early_move_steps s n : Forall early (move_steps b s n).
  Proof.
    unfold move_steps. destruct (s_out s n); [destruct (N.eqb _ _)|]; repeat constructor.
  Qed.

  Lemma early_moves l : forall s, Forall early (moves b l s).
  Proof.
    induction l as [|n r IH]; intros s; cbn [moves]; [constructor|].
    apply Forall_app; split; [apply early_move_steps|apply IH].
  Qed.

  Lemma early_partP s : Forall early (partP s).
  Proof.
    unfold partP. apply Forall_app; split; [unfold pre, md_steps; cbn; repeat constructor|].
    apply Forall_app; split; [apply early_moves|].
    apply Forall_forall. intros x Hx. apply in_map_iff in Hx. destruct Hx as [n [<- _]]. exact I.
  Qed.

  (* ---- the theorem for one killed build ---- *)

  (* If the build starts from a state whose record is not the current one (the normal reason for a build),
     then after ANY number of its steps the next normal build either rebuilds the target or finds exactly
     the outputs, metadata and record of a completed build. *)
  Lemma crash_safe s k : J s -> in_window t b s = false -> safe (crash k t b s).
  Proof.
    intros HJ Hw. unfold crash.
    assert (HJk : J (run (firstn k (build_steps t b s)) s)) by (apply J_prefix; [exact HJ|apply ok_build_steps]).
    revert HJk. rewrite build_steps_split.
    destruct (Nat.le_gt_cases k (length (partP s))) as [Hle|Hgt].
    - rewrite firstn_app_le by exact Hle. intros HJk. split; [exact HJk|].
      assert (Hst : rec_matches false t (with_force b false) (declared t) (run (firstn k (partP s)) s) = false).
      { apply early_list_keeps_stale; [apply Forall_firstn, early_partP|exact Hw]. }
      unfold decide, needs. rewrite Hst. cbn [negb]. rewrite orb_true_r. cbn [orb]. exact I.
    - rewrite firstn_app_gt by lia. rewrite run_app. intros HJk.
      destruct (complete_after_P s HJ) as [_ [Hc Hm]].
      destruct (keeps_run (firstn (k - length (partP s)) partR) (run (partP s) s)
                          (Forall_firstn _ _ _ (keeps_rec_steps _))) as [Hc' Hm'].
      apply safe_of_complete; [exact HJk| |apply Hm', Hm].
      intros n Hn. apply Hc', Hc, Hn.
  Qed.

  (* ---- recovery ---- *)

  Lemma visible_of_current s : outs_current s -> visible t b s = map (fun n => Some (b_new b n)) (all_outs t b).
  Proof.
    intros H. unfold visible. apply map_ext_in. intros n Hn.
    destruct (H n Hn) as [f [Hf [Hc _]]]. rewrite Hf. cbn. rewrite Hc. reflexivity.
  Qed.

  (* ---- the inductive invariant: whenever the record read by the pre-build check is the current one, the
          outputs are those of the current tree and the metadata file, if present, is complete ---- *)

  Definition trusted (s : st) : Prop :=
    J s /\ (in_window t b s = true -> outs_current s /\ (md_exists s = true -> md_full t b s = true)).

  Lemma trusted_safe s : trusted s -> safe s.
  Proof.
    intros [HJ Hw]. split; [exact HJ|]. unfold decide, needs.
    change (rec_matches false t (with_force b false) (declared t) s) with (in_window t b s).
    destruct (md_exists s) eqn:Em; cbn [negb orb]; [|exact I].
    destruct (in_window t b s) eqn:Ew; cbn [negb orb]; [|exact I].
    cbn [with_force b_force].
    destruct (Hw eq_refl) as [Hc Hm]. specialize (Hm eq_refl).
    destruct (t_mod t) eqn:Emod; [|auto].
    pose proof Hm as Hm0. unfold md_full in Hm0. destruct (s_md s) as [[[|d] r]|] eqn:E; try discriminate.
    match goal with |- context [if ?c then Rebuild else Reuse] => destruct c end; [exact I|split; assumption].
  Qed.

  Definition gentle (x : step) : Prop :=
    match x with
    | RmMd | MdTmp _ | SetHash _ | SetRec _ _ | SetMdRec _ | FbTrunc | FbWrite _ => True
    | MvMd d => d = (if t_mod t then b_dirouts b else [])
    | _ => False
    end.

  Definition Q (s : st) : Prop := outs_current s /\ (md_exists s = true -> md_full t b s = true).

  Lemma keeps_gentle x : keeps x -> gentle x.
  Proof. destruct x; cbn; intros H; try exact I; contradiction. Qed.

  Lemma keeps_md_exists s x : keeps x -> md_exists (run1 x s) = md_exists s.
  Proof.
    destruct x; cbn [keeps]; try contradiction; intros _; cbn [run1]; unfold md_exists;
      try reflexivity; try (destruct (s_out s n); reflexivity).
    destruct (s_md s) eqn:E; cbn; rewrite ?E; reflexivity.
  Qed.

  Lemma gentle_run1 s x : gentle x -> Q s -> Q (run1 x s).
  Proof.
    intros Hg [Hc Hm].
    assert (Hk : keeps x -> Q (run1 x s)).
    { intros Hk. destruct (keeps_run1 s x Hk) as [H1 H2]. split.
      - intros n Hn. apply H1, Hc, Hn.
      - rewrite (keeps_md_exists s x Hk). intros Hex. apply H2, Hm, Hex. }
    destruct x; cbn [gentle] in Hg; try contradiction; try (apply Hk; exact I).
    - (* RmMd *) split; [exact Hc|]. cbn. discriminate.
    - (* MdTmp *) split; assumption.
    - (* MvMd *) subst dirouts. split; [exact Hc|]. intros _. unfold md_full. cbn. apply list_eqb_str_refl.
  Qed.

  Lemma gentle_prefix l : forall s k, Forall gentle l -> Q s -> Q (run (firstn k l) s).
  Proof.
    induction l as [|x l IH]; intros s k H HQ.
    - destruct k; exact HQ.
    - destruct k as [|k]; [exact HQ|]. inversion H as [|? ? Hx Hl]; subst.
      cbn [firstn]. unfold run; cbn [fold_left]. fold (run (firstn k l) (run1 x s)).
      apply IH; [exact Hl|apply gentle_run1; assumption].
  Qed.

  Lemma moves_nil l : forall s, (forall n, In n l -> current s n) -> moves b l s = [].
  Proof.
    induction l as [|a l IH]; intros s H; cbn [moves]; [reflexivity|].
    assert (H0 : move_steps b s a = []).
    { unfold move_steps. destruct (H a (or_introl eq_refl)) as [f [Hf [_ He]]]. rewrite Hf, He, N.eqb_refl. reflexivity. }
    rewrite H0. cbn. apply IH. intros n Hn. apply H. right. exact Hn.
  Qed.

  (* A build killed after ANY number of its steps, started from ANY trusted state (forced or not), leaves a trusted state. *)
  Lemma crash_trusted s k : trusted s -> trusted (crash k t b s).
  Proof.
    intros [HJ Hw]. unfold crash.
    assert (HJk : J (run (firstn k (build_steps t b s)) s)) by (apply J_prefix; [exact HJ|apply ok_build_steps]).
    destruct (in_window t b s) eqn:Ew.
    - (* the record is current: the outputs are, so nothing is moved and every step keeps them *)
      destruct (Hw eq_refl) as [Hc Hm].
      assert (Hmv : moves b (all_outs t b) (run pre s) = []).
      { apply moves_nil. intros n Hn. destruct (Hc n Hn) as [f Hf]. exists f. rewrite pre_out. exact Hf. }
      assert (HQ : Q (run (firstn k (build_steps t b s)) s)).
      { apply gentle_prefix; [|split; assumption].
        unfold build_steps. cbn zeta. fold pre. rewrite Hmv. cbn [app].
        apply Forall_app; split; [unfold pre, md_steps; cbn; repeat constructor|].
        apply Forall_app; split.
        - eapply Forall_impl; [apply keeps_gentle|apply keeps_sethash].
        - eapply Forall_impl; [apply keeps_gentle|apply keeps_rec_steps]. }
      split; [exact HJk|]. intros _. exact HQ.
    - (* the record is stale: it stays stale until everything is in place *)
      revert HJk. rewrite build_steps_split.
      destruct (Nat.le_gt_cases k (length (partP s))) as [Hle|Hgt].
      + rewrite firstn_app_le by exact Hle. intros HJk. split; [exact HJk|]. intros Hin.
        assert (Hst : in_window t b (run (firstn k (partP s)) s) = false).
        { apply early_list_keeps_stale; [apply Forall_firstn, early_partP|exact Ew]. }
        rewrite Hst in Hin. discriminate.
      + rewrite firstn_app_gt by lia. rewrite run_app. intros HJk.
        destruct (complete_after_P s HJ) as [_ [Hc Hm]].
        destruct (keeps_run (firstn (k - length (partP s)) partR) (run (partP s) s)
                            (Forall_firstn _ _ _ (keeps_rec_steps _))) as [Hc' Hm'].
        split; [exact HJk|]. intros _. split.
        * intros n Hn. apply Hc', Hc, Hn.
        * intros _. apply Hm', Hm.
  Qed.

  Lemma trusted_of_complete s : J s -> outs_current s -> md_full t b s = true -> trusted s.
  Proof. intros HJ Hc Hm. split; [exact HJ|]. intros _. split; [exact Hc|intros _; exact Hm]. Qed.

End Build.

(* the force flag only enters through `needs` *)
Lemma moves_force b f l : forall s, moves (with_force b f) l s = moves b l s.
Proof.
  induction l as [|n r IH]; intros s; cbn [moves]; [reflexivity|].
  unfold move_steps at 1 3. cbn [with_force b_new]. fold (move_steps b s n).
  change (match s_out s n with
          | Some f0 => if N.eqb (eff_hash f0) (b_new b n) then [] else [DamageOut n; RmOut n; MvOut n (b_new b n)]
          | None => [MvOut n (b_new b n)]
          end) with (move_steps b s n).
  rewrite IH. reflexivity.
Qed.

Lemma build_steps_force t b f s : build_steps t (with_force b f) s = build_steps t b s.
Proof. unfold build_steps. cbn zeta. rewrite moves_force. reflexivity. Qed.

Lemma crash_force t b f k s : crash k t (with_force b f) s = crash k t b s.
Proof. unfold crash. rewrite build_steps_force. reflexivity. Qed.

Lemma full_force t b f s : full t (with_force b f) s = full t b s.
Proof. unfold full. rewrite build_steps_force. reflexivity. Qed.

Definition good_end (t : target) (b : build) (s' : st) : Prop :=
  visible t b s' = visible t b (clean t b) /\ md_full t b s' = true.

Lemma J_empty b : J b empty_st.
Proof. intros n f H. discriminate. Qed.

Lemma recover_good t b s : safe t b s -> exists s', recover t b s = Some s' /\ good_end t b s'.
Proof.
  intros [HJ Hd]. unfold good_end, clean.
  destruct (full_complete t b empty_st (J_empty b)) as [_ [Hcc _]].
  rewrite (full_force t b false empty_st). rewrite (visible_of_current t b _ Hcc).
  unfold recover. rewrite (full_force t b false s).
  destruct (decide t (with_force b false) s).
  - destruct (full_complete t b s HJ) as [_ [Hc Hm]].
    eexists; split; [reflexivity|]. split; [apply visible_of_current, Hc|exact Hm].
  - destruct Hd as [Hc Hm]. eexists; split; [reflexivity|]. split; [apply visible_of_current, Hc|exact Hm].
  - contradiction.
Qed.

(* ---- histories, full strength (since fix e0ea5c1: the metadata file is written with temp file + rename) ---- *)

Lemma after_trusted t b evs : forall s, trusted t b s -> trusted t b (after t b evs s).
Proof.
  induction evs as [|e r IH]; intros s H; [exact H|].
  unfold after. cbn [fold_left]. apply IH. unfold step_event.
  destruct (decide t (with_force b (fst e)) s); try exact H.
  rewrite crash_force. apply crash_trusted, H.
Qed.

Lemma histories_full t b s0 evs :
  trusted t b s0 -> exists s', recover t b (after t b evs s0) = Some s' /\ good_end t b s'.
Proof. intros H. apply recover_good, trusted_safe, after_trusted, H. Qed.

Lemma build_one_full t b s0 k :
  trusted t b s0 ->
  trusted t b (crash k t b s0)
  /\ exists s', recover t b (crash k t b s0) = Some s' /\ good_end t b s'.
Proof.
  intros H. pose proof (crash_trusted t b s0 k H) as Hk.
  split; [exact Hk|apply recover_good, trusted_safe, Hk].
Qed.

Lemma trusted_empty t b : trusted t b empty_st.
Proof.
  split; [apply J_empty|]. intros H. exfalso. revert H.
  unfold in_window, rec_matches, read_rec. destruct (declared t) as [|n r]; cbn.
  - destruct (t_mod t); cbn; discriminate.
  - discriminate.
Qed.

(* ---- the former witnesses (pre-fix defect classes), kept as regression examples ---- *)

Definition wt : target := mkT [s "a"] true.                      (* one declared output and an output_dir *)
Definition wcur : rec := mkRec 1 2 3 4 5.
Definition wb : build := mkB [s "b"] (fun n => if str_eqb n (s "a") then 7 else 8)%N wcur false.
Definition wdone : st := full wt wb empty_st.                     (* a completed build *)

Lemma wdone_trusted : trusted wt wb wdone.
Proof.
  destruct (full_complete wt wb empty_st (J_empty wb)) as [HJ [Hc Hm]].
  apply trusted_of_complete; assumption.
Qed.

Definition ends_clean (st' : option st) : bool :=
  match st' with
  | Some s' => list_eqb (option_eqb N.eqb) (visible wt wb s') [Some 7; Some 8]%N && md_full wt wb s'
  | None => false
  end.

(* `plz build --rebuild` of the completed build killed after each number of steps (before the fix: k = 2 failed) *)
Lemma forced_rebuild_recovers :
  forallb (fun k => ends_clean (recover wt wb (after wt wb [(true, k)] wdone))) (seq 0 16) = true.
Proof. vm_compute. reflexivity. Qed.

(* two kills of normal builds in a row, every pair of step counts (before the fix: (8, 2) failed) *)
Lemma double_kill_recovers :
  forallb (fun k1 => forallb (fun k2 => ends_clean (recover wt wb (after wt wb [(false, k1); (false, k2)] empty_st))) (seq 0 16)) (seq 0 16) = true.
Proof. vm_compute. reflexivity. Qed.
