(* C36, round-2 follow-up - original targets.
   Which targets the build treats as ORIGINAL (selected on the command line): TargetSet (target_set.go), AddOriginalTarget,
   isOriginalTarget - whose returned condition is Gen.is_original_cond, translated from the source -, and the tests a
   `plz test` run executes over a graph with arbitrary dependency edges.
   Main results:
     ts_inv_history          invariant of the TargetSet over every history of Add calls
     is_original_spec        isOriginalTarget = named, or member of a requested :all AND BuildState.ShouldInclude
     is_original_iff_listed  IsOriginalTarget agrees with the listing ExpandAllOriginalLabels, for every graph
     is_original_selected    ... and with the documented rule `selected` (label filters AND exclude patterns)
     tests_run_exact         the tests run are exactly the tests among ExpandOriginalLabels, whatever the dependency edges
     excluded_test_never_run an excluded target is never run as a test, whatever depends on it *)
From Coq Require Import String.
From PlzV Require Import Base.Harness Base.StrFacts Gen.LabelFilter Model.C36 Proof.C36_spec Proof.C36.
From Coq Require Import Lia Permutation List.
Local Open Scope list_scope.

(* the condition of isOriginalTarget, as translated from the source by gotrans: matched && (wasExact ||
   state.ShouldInclude(target)) - the BuildState filter (exclude build patterns and labels), not the label filter alone *)
Lemma gen_is_original_cond m e ssi tsi : is_original_cond m e ssi tsi = m && (e || ssi).
Proof. reflexivity. Qed.

(* ---- equalities ---------------------------------------------------------------------------------------- *)
Lemma label_eqb_eq a b : label_eqb a b = true <-> a = b.
Proof.
  unfold label_eqb. rewrite !andb_true_iff, !str_eqb_eq. destruct a as [a1 a2 a3], b as [b1 b2 b3]; cbn. split.
  - intros [[-> ->] ->]. reflexivity.
  - intros E. injection E as -> -> ->. repeat split.
Qed.

Lemma mem_label_in l ls : mem_label l ls = true <-> In l ls.
Proof.
  unfold mem_label. rewrite existsb_exists. split.
  - intros [x [H E]]. apply label_eqb_eq in E. subst. exact H.
  - intros H. exists l. split; [exact H | apply label_eqb_eq; reflexivity].
Qed.

Lemma pkey_eqb_eq a b : pkey_eqb a b = true <-> a = b.
Proof.
  unfold pkey_eqb. rewrite andb_true_iff, !str_eqb_eq. destruct a as [a1 a2], b as [b1 b2]; cbn [fst snd]. split.
  - intros [-> ->]. reflexivity.
  - intros E. injection E as -> ->. split; reflexivity.
Qed.

Lemma all_name L : is_all_targets L = true <-> l_name L = s "all".
Proof. unfold is_all_targets. rewrite gen_all_targets. apply str_eqb_eq. Qed.

Lemma sub_name L : is_all_subpackages L = true <-> l_name L = s "...".
Proof. unfold is_all_subpackages. rewrite gen_all_sub. apply str_eqb_eq. Qed.

Lemma nodup_map_inj {A B} (f : A -> B) (l : list A) a b :
  NoDup (map f l) -> In a l -> In b l -> f a = f b -> a = b.
Proof.
  induction l as [|x l IH]; intros Hnd Ha Hb E; [destruct Ha|]. cbn [map] in Hnd.
  inversion Hnd as [|? ? Hx Hnd']; subst. destruct Ha as [->|Ha], Hb as [->|Hb].
  - reflexivity.
  - exfalso. apply Hx. rewrite E. apply in_map. exact Hb.
  - exfalso. apply Hx. rewrite <- E. apply in_map. exact Ha.
  - apply IH; assumption.
Qed.

(* in a well-formed graph the label identifies the target *)
Lemma graph_label_inj g p t p' t' :
  wf_graph g -> In p g -> In t (p_targets p) -> In p' g -> In t' (p_targets p') -> t_label t = t_label t' ->
  p = p' /\ t = t'.
Proof.
  intros [Hk Hp] Hin Ht Hin' Ht' E.
  destruct (Hp p Hin) as [Hn Hw]. destruct (Hp p' Hin') as [Hn' Hw'].
  destruct (Hw t Ht) as [E1 E2]. destruct (Hw' t' Ht') as [E1' E2'].
  unfold t_label in E. injection E as Es Ep En.
  assert (p = p') as <-.
  { apply (nodup_map_inj pkg_key g p p' Hk Hin Hin').
    assert (Hs : p_sub p = p_sub p') by congruence. assert (Hm : p_name p = p_name p') by congruence.
    unfold pkg_key. rewrite Hs, Hm. reflexivity. }
  split; [reflexivity|]. apply (nodup_map_inj t_name (p_targets p) t t' Hn Ht Ht' En).
Qed.

(* ---- TargetSet: the invariant over every history of Add calls --------------------------------------------- *)

Definition ts_inv (ts : target_set) : Prop :=
  (forall l, In l (ts_targets ts) <-> In l (ts_everything ts) /\ is_all_targets l = false)
  /\ (forall k, In k (ts_packages ts) <->
                exists L, In L (ts_everything ts) /\ is_all_targets L = true /\ label_key L = k)
  /\ (forall l, In l (ts_everything ts) -> is_all_subpackages l = false).

Lemma ts_inv_empty : ts_inv empty_ts.
Proof.
  split; [|split].
  - intros l. cbn. split; [intros [] | intros [[] _]].
  - intros k. cbn. split; [intros [] | intros [L [[] _]]].
  - intros l [].
Qed.

Lemma ts_add_inv ts l ts' :
  ts_inv ts -> ts_add ts l = Some ts' -> ts_inv ts' /\ ts_everything ts' = ts_everything ts ++ [l].
Proof.
  intros [H1 [H2 H3]] Hadd. unfold ts_add in Hadd.
  destruct (is_all_subpackages l) eqn:Hsub; [discriminate|].
  destruct (is_all_targets l) eqn:Hall; injection Hadd as <-; (split; [|reflexivity]).
  - split; [|split].
    + intros l0. cbn [ts_targets ts_everything]. rewrite H1, in_app_iff. cbn [In]. split.
      * intros [Ha Hb]. split; [left; exact Ha | exact Hb].
      * intros [[Ha | [<- | []]] Hb]; [split; assumption | congruence].
    + intros k. cbn [ts_packages ts_everything In]. rewrite H2. split.
      * intros [<- | [L [Ha [Hb Hc]]]].
        -- exists l. split; [apply in_or_app; right; left; reflexivity | split; [exact Hall | reflexivity]].
        -- exists L. split; [apply in_or_app; left; exact Ha | split; assumption].
      * intros [L [Ha [Hb Hc]]]. apply in_app_or in Ha as [Ha | [<- | []]].
        -- right. exists L. repeat split; assumption.
        -- left. exact Hc.
    + intros l0 Hin. cbn [ts_everything] in Hin.
      apply in_app_or in Hin as [Hin | [<- | []]]; [apply H3; exact Hin | exact Hsub].
  - split; [|split].
    + intros l0. cbn [ts_targets ts_everything In]. rewrite H1, in_app_iff. cbn [In]. split.
      * intros [<- | [Ha Hb]]; [split; [right; left; reflexivity | exact Hall] | split; [left; exact Ha | exact Hb]].
      * intros [[Ha | [<- | []]] Hb]; [right; split; assumption | left; reflexivity].
    + intros k. cbn [ts_packages ts_everything]. rewrite H2. split.
      * intros [L [Ha [Hb Hc]]]. exists L. split; [apply in_or_app; left; exact Ha | split; assumption].
      * intros [L [Ha [Hb Hc]]]. apply in_app_or in Ha as [Ha | [<- | []]]; [|congruence].
        exists L. repeat split; assumption.
    + intros l0 Hin. cbn [ts_everything] in Hin.
      apply in_app_or in Hin as [Hin | [<- | []]]; [apply H3; exact Hin | exact Hsub].
Qed.

Fixpoint ts_add_all (ts : target_set) (ls : list label) : option target_set :=
  match ls with
  | [] => Some ts
  | l :: r => match ts_add ts l with None => None | Some ts' => ts_add_all ts' r end
  end.

(* every history of Add calls that does not panic: the two maps are exactly the named labels and the packages of the
   :all labels added so far, AllTargets() is the history itself, and no `...` label is ever held *)
Theorem ts_inv_history ls : forall ts ts', ts_inv ts -> ts_add_all ts ls = Some ts' ->
  ts_inv ts' /\ ts_everything ts' = ts_everything ts ++ ls.
Proof.
  induction ls as [|l r IH]; intros ts ts' Hinv Hadd; cbn [ts_add_all] in Hadd.
  - injection Hadd as <-. split; [exact Hinv | rewrite app_nil_r; reflexivity].
  - destruct (ts_add ts l) as [ts1|] eqn:H1; [|discriminate].
    destruct (ts_add_inv ts l ts1 Hinv H1) as [Hinv1 He1].
    destruct (IH ts1 ts' Hinv1 Hadd) as [Hinv' He']. split; [exact Hinv'|].
    rewrite He', He1, <- app_assoc. reflexivity.
Qed.

(* ---- AddOriginalTarget ------------------------------------------------------------------------------------ *)

(* the requested labels that AddOriginalTarget keeps: those no exclude expression covers as a whole *)
Definition kept (st : state) (requested : list label) : list label :=
  filter (fun l => negb (any_includes (st_exclude_targets st) l)) requested.

Lemma fold_add_original st requested : forall acc,
  fold_left (add_original st) requested acc = acc ++ kept st requested.
Proof.
  induction requested as [|l r IH]; intros acc; cbn [fold_left kept filter]; [rewrite app_nil_r; reflexivity|].
  rewrite IH. unfold add_original. fold (kept st r).
  destruct (any_includes (st_exclude_targets st) l); cbn [negb]; [reflexivity|].
  rewrite <- app_assoc. reflexivity.
Qed.

Lemma originals_spec st requested : forall ts ts', ts_inv ts -> originals st ts requested = Some ts' ->
  ts_inv ts' /\ ts_everything ts' = ts_everything ts ++ kept st requested.
Proof.
  induction requested as [|l r IH]; intros ts ts' Hinv Ho; cbn [originals kept filter] in *.
  - injection Ho as <-. split; [exact Hinv | rewrite app_nil_r; reflexivity].
  - unfold add_original_ts in Ho. fold (kept st r).
    destruct (any_includes (st_exclude_targets st) l); cbn [negb].
    + apply IH; assumption.
    + destruct (ts_add ts l) as [ts1|] eqn:H1; [|discriminate].
      destruct (ts_add_inv ts l ts1 Hinv H1) as [Hinv1 He1].
      destruct (IH ts1 ts' Hinv1 Ho) as [Hinv' He']. split; [exact Hinv'|].
      rewrite He', He1, <- app_assoc. reflexivity.
Qed.

(* the TargetSet after the requested labels: the invariant holds, and AllTargets() is what the existing model of
   ExpandOriginalLabels (fold_left add_original) expands *)
Lemma originals_everything st requested ts :
  originals st empty_ts requested = Some ts ->
  ts_inv ts /\ ts_everything ts = kept st requested /\ ts_everything ts = fold_left (add_original st) requested [].
Proof.
  intros Ho. destruct (originals_spec st requested empty_ts ts ts_inv_empty Ho) as [Hinv He].
  cbn in He. split; [exact Hinv|]. split; [exact He|]. rewrite fold_add_original. exact He.
Qed.

Lemma kept_in st requested L :
  In L (kept st requested) <-> In L requested /\ any_includes (st_exclude_targets st) L = false.
Proof. unfold kept. rewrite filter_In, negb_true_iff. reflexivity. Qed.

(* ---- isOriginalTarget -------------------------------------------------------------------------------------- *)

(* a requested :all label of the target's package (and repository) is held *)
Definition package_requested (ts : target_set) (t : target) : Prop :=
  exists L, In L (ts_everything ts) /\ is_all_targets L = true /\ l_pkg L = t_pkg t /\ l_sub L = t_sub t.

(* the target itself was requested by name *)
Definition named (ts : target_set) (t : target) : Prop :=
  In (t_label t) (ts_everything ts) /\ is_all_targets (t_label t) = false.

(* isOriginalTarget(target, false), for every TargetSet a history of Add calls can produce: the target was named, or
   a :all label of its package is held AND BuildState.ShouldInclude accepts it - the filter that knows the exclude
   build patterns.  (Depends on the translated condition: with `target.ShouldInclude(state.Include, state.Exclude)`
   in the source this proof fails.) *)
Theorem is_original_spec st ts t :
  ts_inv ts ->
  (is_original st ts t = true <-> named ts t \/ (package_requested ts t /\ state_should_include st t = true)).
Proof.
  intros [H1 [H2 H3]]. unfold is_original, ts_match, named, package_requested.
  destruct (mem_label (t_label t) (ts_targets ts)) eqn:Hm.
  - rewrite gen_is_original_cond. cbn. split; [|reflexivity]. intros _. left.
    apply mem_label_in in Hm. apply H1. exact Hm.
  - rewrite gen_is_original_cond, orb_false_l, andb_true_iff, existsb_exists. split.
    + intros [[k [Hk Ek]] Hs]. right. split; [|exact Hs]. apply pkey_eqb_eq in Ek. subst k.
      apply H2 in Hk as [L [Ha [Hb Hc]]]. exists L. unfold label_key in Hc. cbn [t_label l_pkg l_sub] in Hc.
      injection Hc as Hp Hsub. repeat split; assumption.
    + intros [Hn | [[L [Ha [Hb [Hp Hsub]]]] Hs]].
      * apply H1 in Hn. apply mem_label_in in Hn. congruence.
      * split; [|exact Hs]. exists (label_key (t_label t)). split; [|apply pkey_eqb_eq; reflexivity].
        apply H2. exists L. split; [exact Ha|]. split; [exact Hb|].
        unfold label_key. cbn [t_label l_pkg l_sub]. rewrite Hp, Hsub. reflexivity.
Qed.

(* MatchExact: isOriginalTarget(target, true) is `named` *)
Lemma ts_match_exact_spec ts t : ts_inv ts -> (ts_match_exact ts (t_label t) = true <-> named ts t).
Proof. intros [H1 _]. unfold ts_match_exact, named. rewrite mem_label_in. apply H1. Qed.

(* the expansion of a requested :all label is what ActivateTarget queues for it *)
Lemma expand_all_is_activate st g L jt lbl :
  is_all_targets L = true -> (In lbl (expand_pseudo st g L jt) <-> In lbl (activate st g jt L)).
Proof. intros Hall. unfold expand_pseudo, activate. rewrite Hall, sort_in. reflexivity. Qed.

Lemma all_not_sub L : is_all_targets L = true -> is_all_subpackages L = false.
Proof.
  intros H. apply all_name in H. destruct (is_all_subpackages L) eqn:E; [|reflexivity].
  apply sub_name in E. rewrite H in E. discriminate.
Qed.

(* membership in the expansion of the held labels, for a target of the graph *)
Lemma listed_spec st g ts jt p t :
  wf_graph g -> ts_inv ts -> In p g -> In t (p_targets p) ->
  (In (t_label t) (expand_labels st g (ts_everything ts) jt) <->
   named ts t \/ (package_requested ts t /\ state_should_include st t = true /\ (jt = true -> t_test t = true))).
Proof.
  intros Hwf [H1 [H2 H3]] Hp Ht. rewrite expand_labels_in. unfold named, package_requested.
  destruct (proj2 Hwf p Hp) as [_ Hw]. destruct (Hw t Ht) as [Epkg Esub]. split.
  - intros [L [HL [[Hps E] | [Hps Hin]]]].
    + left. subst L. split; [exact HL|]. unfold is_pseudo in Hps. apply orb_false_iff in Hps. apply Hps.
    + right. assert (Hall : is_all_targets L = true).
      { unfold is_pseudo in Hps. rewrite (H3 L HL) in Hps. exact Hps. }
      apply (expand_pseudo_in st g L jt _ (proj1 Hwf) Hps) in Hin.
      destruct Hin as [p' [t' [Hp' [Hc [Ht' [El [Hj Hs]]]]]]].
      destruct (graph_label_inj g p' t' p t Hwf Hp' Ht' Hp Ht El) as [-> ->].
      split; [|split; assumption]. exists L. split; [exact HL|]. split; [exact Hall|].
      destruct Hc as [[_ [Hn Hsb]] | [Hn _]].
      * split; congruence.
      * apply all_name in Hall. rewrite Hall in Hn. discriminate.
  - intros [[Hin Hna] | [[L [HL [Hall [Hpk Hsb]]]] [Hs Hj]]].
    + exists (t_label t). split; [exact Hin|]. left. split; [|reflexivity].
      unfold is_pseudo. rewrite Hna, (H3 _ Hin). reflexivity.
    + exists L. split; [exact HL|]. right.
      assert (Hps : is_pseudo L = true) by (unfold is_pseudo; rewrite Hall; apply orb_true_r).
      split; [exact Hps|]. apply (expand_pseudo_in st g L jt _ (proj1 Hwf) Hps).
      exists p, t. split; [exact Hp|]. split; [|repeat split; assumption].
      left. apply all_name in Hall. split; [exact Hall|]. split; congruence.
Qed.

(* THE AGREEMENT OF THE TWO SITES: for every well-formed graph (whatever its dependency edges - they play no part),
   every filter state and every list of requested labels, IsOriginalTarget accepts a target of the graph exactly when
   ExpandAllOriginalLabels lists it. *)
Theorem is_original_iff_listed st g requested ts p t :
  wf_graph g -> originals st empty_ts requested = Some ts -> In p g -> In t (p_targets p) ->
  (is_original st ts t = true <-> In (t_label t) (expand_originals st g requested false)).
Proof.
  intros Hwf Ho Hp Ht. destruct (originals_everything st requested ts Ho) as [Hinv [_ He]].
  unfold expand_originals. rewrite <- He.
  rewrite (is_original_spec st ts t Hinv), (listed_spec st g ts false p t Hwf Hinv Hp Ht). split.
  - intros [H | [H1 H2]]; [left; exact H | right; repeat split; try assumption; discriminate].
  - intros [H | [H1 [H2 _]]]; [left; exact H | right; split; assumption].
Qed.

(* ... and read against the documented rule: a target that was not requested by name is original exactly when a :all
   label of its package was requested (and not dropped) and the rule selects it - label filters AND exclude build
   patterns; outside the defect class `confused` exactly, and never too much whatever the subrepos *)
Theorem is_original_selected cur include exclude st requested ts t :
  set_include_and_exclude cur empty_state include exclude = Some st ->
  originals st empty_ts requested = Some ts ->
  ~ named ts t ->
  (is_original st ts t = true -> package_requested ts t /\ selected cur include exclude t)
  /\ (confused st t = false ->
      (is_original st ts t = true <-> package_requested ts t /\ selected cur include exclude t))
  /\ (excluded cur exclude t -> is_original st ts t = false).
Proof.
  intros Hset Ho Hnn. destruct (originals_everything st requested ts Ho) as [Hinv _].
  pose proof (is_original_spec st ts t Hinv) as Hspec. split; [|split].
  - intros H. apply Hspec in H as [H | [H1 H2]]; [contradiction|].
    split; [exact H1 | apply (state_should_include_sound _ _ _ _ t Hset H2)].
  - intros Hc. split.
    + intros H. apply Hspec in H as [H | [H1 H2]]; [contradiction|].
      split; [exact H1 | apply (state_should_include_sound _ _ _ _ t Hset H2)].
    + intros [H1 H2]. apply Hspec. right. split; [exact H1|].
      apply (state_should_include_complete _ _ _ _ t Hset Hc H2).
  - intros Hex. clear Hspec. destruct (is_original st ts t) eqn:E; [|reflexivity].
    apply (is_original_spec st ts t Hinv) in E as [E | [_ E]]; [contradiction|].
    rewrite (exclusion_wins _ _ _ _ t Hset Hex) in E. discriminate.
Qed.

(* a target is `named` only if its own label was requested *)
Lemma named_requested st requested ts t :
  originals st empty_ts requested = Some ts -> named ts t -> In (t_label t) requested.
Proof.
  intros Ho [Hin _]. destruct (originals_everything st requested ts Ho) as [_ [He _]].
  rewrite He in Hin. apply kept_in in Hin. apply Hin.
Qed.

(* ---- the tests a `plz test` run executes --------------------------------------------------------------------- *)

Lemma queue_step_incl dm universe queued l :
  In l universe -> In l queued -> In l (queue_step dm universe queued).
Proof.
  intros Hu Hq. unfold queue_step. apply filter_In. split; [exact Hu|].
  apply mem_label_in in Hq. rewrite Hq. reflexivity.
Qed.

(* whatever the dependency edges, everything queued at the start stays queued *)
Lemma queued_after_incl dm universe n : forall queued l,
  In l universe -> In l queued -> In l (queued_after n dm universe queued).
Proof.
  induction n as [|n IH]; intros queued l Hu Hq; cbn [queued_after]; [exact Hq|].
  destruct (Nat.eqb _ _); [exact Hq|]. apply IH; [exact Hu|]. apply queue_step_incl; assumption.
Qed.

Lemma in_all_targets g p t : In p g -> In t (p_targets p) -> In t (all_targets g).
Proof. intros Hp Ht. unfold all_targets. apply in_flat_map. exists p. split; assumption. Qed.

Lemma all_targets_in g t : In t (all_targets g) -> exists p, In p g /\ In t (p_targets p).
Proof. unfold all_targets. rewrite in_flat_map. tauto. Qed.

(* every root that is a target of the graph is built, whatever the dependency edges *)
Lemma roots_built st g dm nt ts p t :
  In p g -> In t (p_targets p) -> In (t_label t) (roots st g nt ts) -> In (t_label t) (built st g dm nt ts).
Proof.
  intros Hp Ht Hr. unfold built.
  assert (Hu : In (t_label t) (map t_label (all_targets g))) by (apply in_map, (in_all_targets g p t Hp Ht)).
  apply queued_after_incl; [exact Hu|]. apply filter_In. split; [exact Hu|]. apply mem_label_in. exact Hr.
Qed.

(* the roots are the expansion of the held labels (ActivateTarget and expandOriginalPseudoTarget use the same test) *)
Lemma roots_are_listed st g ts nt lbl :
  ts_inv ts -> (In lbl (roots st g nt ts) <-> In lbl (expand_labels st g (ts_everything ts) nt)).
Proof.
  intros [_ [_ H3]]. unfold roots. rewrite in_flat_map, expand_labels_in. split.
  - intros [L [HL Hin]]. exists L. split; [exact HL|]. destruct (is_all_targets L) eqn:Hall.
    + right. split; [unfold is_pseudo; rewrite Hall; apply orb_true_r|].
      apply expand_all_is_activate; assumption.
    + left. unfold activate in Hin. rewrite Hall in Hin. destruct Hin as [<-|[]].
      split; [|reflexivity]. unfold is_pseudo. rewrite Hall, (H3 L HL). reflexivity.
  - intros [L [HL [[Hps ->] | [Hps Hin]]]]; exists L; (split; [exact HL|]).
    + unfold activate. unfold is_pseudo in Hps. apply orb_false_iff in Hps as [_ ->]. left. reflexivity.
    + assert (Hall : is_all_targets L = true) by (unfold is_pseudo in Hps; rewrite (H3 L HL) in Hps; exact Hps).
      apply expand_all_is_activate; assumption.
Qed.

(* THE TESTS RUN: for every well-formed graph and EVERY dependency map dm (any edges, between any candidates, cyclic or
   not), the tests handed to QueueTestTarget are exactly the tests among ExpandOriginalLabels() under NeedTests.  An
   excluded test that an included target depends on is built, and is not run. *)
Theorem tests_run_exact st g dm requested ts p t :
  wf_graph g -> originals st empty_ts requested = Some ts -> In p g -> In t (p_targets p) ->
  (In (t_label t) (tests_run st g dm ts) <->
   t_test t = true /\ In (t_label t) (expand_originals st g requested true)).
Proof.
  intros Hwf Ho Hp Ht. destruct (originals_everything st requested ts Ho) as [Hinv [_ He]].
  unfold expand_originals. rewrite <- He.
  rewrite (listed_spec st g ts true p t Hwf Hinv Hp Ht).
  unfold tests_run. cbv zeta. rewrite in_map_iff. split.
  - intros [t' [El Hin]]. apply filter_In in Hin as [Hin Hf].
    apply all_targets_in in Hin as [p' [Hp' Ht']].
    destruct (graph_label_inj g p' t' p t Hwf Hp' Ht' Hp Ht El) as [-> ->].
    apply andb_true_iff in Hf as [Hf Ho']. apply andb_true_iff in Hf as [_ Htest].
    split; [exact Htest|]. apply (is_original_spec st ts t Hinv) in Ho' as [H | [H1 H2]];
      [left; exact H | right; split; [exact H1 | split; [exact H2 | intros _; exact Htest]]].
  - intros [Htest Hl]. exists t. split; [reflexivity|]. apply filter_In. split; [apply (in_all_targets g p t Hp Ht)|].
    rewrite Htest, andb_true_r. apply andb_true_iff. split.
    + apply mem_label_in. apply (roots_built st g dm true ts p t Hp Ht).
      apply (roots_are_listed st g ts true _ Hinv). apply (listed_spec st g ts true p t Hwf Hinv Hp Ht). exact Hl.
    + apply (is_original_spec st ts t Hinv). destruct Hl as [H | [H1 [H2 _]]]; [left; exact H | right; split; assumption].
Qed.

(* exclusion always takes priority, down to what is executed: a target some --exclude argument covers (label group or
   build pattern) and that was not itself requested by name is never run as a test - whatever depends on it *)
Theorem excluded_test_never_run cur include exclude st g dm requested ts p t :
  set_include_and_exclude cur empty_state include exclude = Some st ->
  wf_graph g -> originals st empty_ts requested = Some ts -> In p g -> In t (p_targets p) ->
  excluded cur exclude t -> ~ In (t_label t) requested ->
  ~ In (t_label t) (tests_run st g dm ts).
Proof.
  intros Hset Hwf Ho Hp Ht Hex Hnr Hrun.
  assert (Hnn : ~ named ts t) by (intros Hn; apply Hnr, (named_requested st requested ts t Ho Hn)).
  destruct (is_original_selected cur include exclude st requested ts t Hset Ho Hnn) as [_ [_ Hx]].
  specialize (Hx Hex).
  unfold tests_run in Hrun. cbv zeta in Hrun. apply in_map_iff in Hrun as [t' [El Hin]].
  apply filter_In in Hin as [Hin Hf]. apply all_targets_in in Hin as [p' [Hp' Ht']].
  destruct (graph_label_inj g p' t' p t Hwf Hp' Ht' Hp Ht El) as [-> ->].
  apply andb_true_iff in Hf as [_ Hf]. congruence.
Qed.

(* the TargetSet after any history of Add calls, as its readers see it *)
Lemma ts_history_readers ls ts :
  ts_add_all empty_ts ls = Some ts ->
  ts_everything ts = ls
  /\ (forall l, ts_match_exact ts l = true <-> In l ls /\ is_all_targets l = false)
  /\ (forall l, fst (ts_match ts l) = true <->
                (In l ls /\ is_all_targets l = false)
                \/ exists L, In L ls /\ is_all_targets L = true /\ l_pkg L = l_pkg l /\ l_sub L = l_sub l).
Proof.
  intros H. destruct (ts_inv_history ls empty_ts ts ts_inv_empty H) as [[H1 [H2 H3]] He]. cbn in He.
  split; [exact He|]. rewrite <- He. split.
  - intros l. unfold ts_match_exact. rewrite mem_label_in. apply H1.
  - intros l. unfold ts_match. destruct (mem_label l (ts_targets ts)) eqn:Hm; cbn [fst].
    + split; [|reflexivity]. intros _. left. apply H1, mem_label_in, Hm.
    + rewrite existsb_exists. split.
      * intros [k [Hk Ek]]. right. apply pkey_eqb_eq in Ek. subst k. apply H2 in Hk as [L [Ha [Hb Hc]]].
        unfold label_key in Hc. injection Hc as Hp Hs. exists L. repeat split; assumption.
      * intros [Hn | [L [Ha [Hb [Hp Hs]]]]].
        -- apply H1, mem_label_in in Hn. congruence.
        -- exists (label_key l). split; [|apply pkey_eqb_eq; reflexivity]. apply H2. exists L.
           split; [exact Ha|]. split; [exact Hb|]. unfold label_key. rewrite Hp, Hs. reflexivity.
Qed.
