(* C28 - the tie between the model of walk and the program gotrans regenerates from
   src/remote/utils.go on every run: interpreting the regenerated program IS the model's `finish`. *)
From Coq Require Import String.
From PlzV Require Import Base.Harness Model.C28 Proof.C28 Gen.DirWalk.

Section Interp.
  Variable srt : sorter.

  Record wst := WS { w_files : list fnode; w_dirs : list dnode; w_syms : list snode; w_last : str }.

  Definition wstep_run (st : wst) (w : wstep) : wst :=
    match w with
    | WFill | WDigest => st                      (* the recursion and the digest: structure of Model.walk *)
    | WLast init => WS (w_files st) (w_dirs st) (w_syms st) (s init)
    | WSort f =>
        if String.eqb f "Files" then WS (srt _ fname (w_files st)) (w_dirs st) (w_syms st) (w_last st)
        else if String.eqb f "Directories" then WS (w_files st) (srt _ dname (w_dirs st)) (w_syms st) (w_last st)
        else if String.eqb f "Symlinks" then WS (w_files st) (w_dirs st) (srt _ sname (w_syms st)) (w_last st)
        else st
    | WDedup f =>
        if String.eqb f "Files" then
          WS (fst (dedup fname (w_last st) (w_files st))) (w_dirs st) (w_syms st) (snd (dedup fname (w_last st) (w_files st)))
        else if String.eqb f "Directories" then
          WS (w_files st) (fst (dedup dname (w_last st) (w_dirs st))) (w_syms st) (snd (dedup dname (w_last st) (w_dirs st)))
        else if String.eqb f "Symlinks" then
          WS (w_files st) (w_dirs st) (fst (dedup sname (w_last st) (w_syms st))) (snd (dedup sname (w_last st) (w_syms st)))
        else st
    end.

  Definition interp (prog : list wstep) (d : dirmsg) : dirmsg :=
    let st := fold_left wstep_run prog (WS (files d) (dirs d) (syms d) []) in
    DM (w_files st) (w_dirs st) (w_syms st).

  (* breaks (and with it the check) as soon as walk sorts, or removes duplicates, differently *)
  Lemma gen_walk_is_finish : forall d, interp walk_prog d = finish srt d.
  Proof. intros d. rewrite finish_eq. reflexivity. Qed.
End Interp.

Lemma gen_has_child_scans_directories : has_child_field = "Directories"%string.
Proof. reflexivity. Qed.

Lemma gen_env_sorted_by_name : env_sort_key = "Name"%string.
Proof. reflexivity. Qed.

(* C28 deepening: gotrans also pins (fail closed) the pb.Action literals of buildAction and uploadAction, the
   build Command literal and the prefix code of buildCommand, targetPlatformProperties, convertPlatform,
   BuildTarget.AllOutputs / Outputs / insert; the model's actmsg / cmdmsg have exactly the fields the code fills. *)
Lemma gen_action_fields : action_fields = ["CommandDigest"; "InputRootDigest"; "Timeout"; "Platform"]%string.
Proof. reflexivity. Qed.

Lemma gen_command_fields : command_fields = ["Platform"; "Arguments"; "EnvironmentVariables"; "OutputPaths"]%string.
Proof. reflexivity. Qed.

(* the shapes under which the model's all_outputs / target_platform leave output directories and platform
   properties in declaration order, and sort target.Env keys and the outputs *)
Lemma gen_sorted_by_code :
  sorted_by_code = [("target.Env keys", true); ("Outputs", true); ("OutputDirectories", false); ("Platform", false)]%string.
Proof. reflexivity. Qed.
