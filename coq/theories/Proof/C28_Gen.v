(* C28 - the tie between the model of walk and the program gotrans regenerates from
   src/remote/utils.go on every run: interpreting the regenerated program IS the model's `finish`. *)
From Coq Require Import String.
From PlzV Require Import Base.Harness Model.C28 Proof.C28 Proof.C28_Conc Proof.C28_Memo Gen.DirWalk.

Section Interp.
  Variable srt : sorter.

  Record wst := WS { w_files : list fnode; w_dirs : list dnode; w_syms : list snode; w_last : str }.

  Definition wstep_run (st : wst) (w : wstep) : wst :=
    match w with
    | WFill | WDigest => st                      (* the recursion and the digest: structure of Model.walk *)
    | WLast init => WS (w_files st) (w_dirs st) (w_syms st) (s init)
    | WSort f =>
        if String.eqb f "Files" then WS (srt _ fname (w_files st)) (w_dirs st) (w_syms st) (w_last st)
        else if String.eqb f "Directories" then WS (w_files st) (srt _ dname (w_dirs st)) (w_syms st) (w_last st)
        else if String.eqb f "Symlinks" then WS (w_files st) (w_dirs st) (srt _ sname (w_syms st)) (w_last st)
        else st
    | WDedup f =>
        if String.eqb f "Files" then
          WS (fst (dedup fname (w_last st) (w_files st))) (w_dirs st) (w_syms st) (snd (dedup fname (w_last st) (w_files st)))
        else if String.eqb f "Directories" then
          WS (w_files st) (fst (dedup dname (w_last st) (w_dirs st))) (w_syms st) (snd (dedup dname (w_last st) (w_dirs st)))
        else if String.eqb f "Symlinks" then
          WS (w_files st) (w_dirs st) (fst (dedup sname (w_last st) (w_syms st))) (snd (dedup sname (w_last st) (w_syms st)))
        else st
    end.

  Definition interp (prog : list wstep) (d : dirmsg) : dirmsg :=
    let st := fold_left wstep_run prog (WS (files d) (dirs d) (syms d) []) in
    DM (w_files st) (w_dirs st) (w_syms st).

  (* breaks (and with it the check) as soon as walk sorts, or removes duplicates, differently *)
  Lemma gen_walk_is_finish : forall d, interp walk_prog d = finish srt d.
  Proof. intros d. rewrite finish_eq. reflexivity. Qed.
End Interp.

Lemma gen_has_child_scans_directories : has_child_field = "Directories"%string.
Proof. reflexivity. Qed.

Lemma gen_env_sorted_by_name : env_sort_key = "Name"%string.
Proof. reflexivity. Qed.

(* C28 deepening: gotrans also pins (fail closed) the pb.Action literals of buildAction and uploadAction, the
   build Command literal and the prefix code of buildCommand, targetPlatformProperties, convertPlatform,
   BuildTarget.AllOutputs / Outputs / insert; the model's actmsg / cmdmsg have exactly the fields the code fills. *)
Lemma gen_action_fields : action_fields = ["CommandDigest"; "InputRootDigest"; "Timeout"; "Platform"]%string.
Proof. reflexivity. Qed.

Lemma gen_command_fields : command_fields = ["Platform"; "Arguments"; "EnvironmentVariables"; "OutputPaths"]%string.
Proof. reflexivity. Qed.

(* the shapes under which the model's all_outputs / target_platform leave output directories and platform
   properties in declaration order, and sort target.Env keys and the outputs *)
Lemma gen_sorted_by_code :
  sorted_by_code = [("target.Env keys", true); ("Outputs", true); ("OutputDirectories", false); ("Platform", false)]%string.
Proof. reflexivity. Qed.

(* ---- follow-up round 2 ----
   Client.digestMessage, regenerated as a program: each step names the buffer it writes or reads and whether that
   buffer is shared between goroutines.  The model's machine interprets the regenerated program; these two lemmas
   break as soon as the serialised bytes are kept anywhere but in a slice the calling goroutine allocated. *)
Definition to_dstep (g : dgstep) : dstep :=
  match g with
  | GMarshal sh _ => DMarshal (if sh then BShared else BLocal)
  | GHash sh _ => DHash (if sh then BShared else BLocal)
  end.
Definition gen_digest_prog : list dstep := map to_dstep digest_message_prog.

Lemma gen_digest_prog_all_local : all_local gen_digest_prog = true.
Proof. reflexivity. Qed.

Lemma gen_digest_prog_is_local : gen_digest_prog = local_prog.
Proof. reflexivity. Qed.

(* the projection theorem, for the program the source has *)
Lemma gen_conc_projection HM jobs sched i :
  nth_error (snd (conc_run HM gen_digest_prog jobs sched)) i
  = option_map (fun j => alone HM gen_digest_prog (count_occ Nat.eq_dec sched i) (spawn j)) (nth_error jobs i).
Proof. exact (conc_run_projection HM gen_digest_prog gen_digest_prog_all_local jobs sched i). Qed.

Lemma gen_conc_action_digest H HC HA srt quote c :
  forall (ds : list decl) (sched : list nat) (i : nat) (d : decl) (t : thread),
    nth_error ds i = Some d ->
    nth_error (snd (conc_run (hm H HC HA) gen_digest_prog (map (decl_job H srt quote c) ds) sched)) i = Some t ->
    (forall root, option_map snd (build H srt (d_ops d)) = Some root ->
       exists k, t_done t = firstn k (action_digests (hm H HC HA) root (command_of srt quote c d root) (d_timeout d)
                                                     (target_platform (d_labels d) (f_plat c))))
    /\ ((9 <= count_occ Nat.eq_dec sched i)%nat -> forall dg, action_digest H HC HA srt quote c d = Some dg -> last (t_done t) [] = dg).
Proof. exact (conc_action_digest H HC HA srt quote c gen_digest_prog gen_digest_prog_all_local gen_digest_prog_is_local). Qed.

(* PathHasher.Hash: the store into the memo, regenerated: guarded by err == nil.  memo_history_fresh is stated for
   the guarded store; it applies to the source only while this holds. *)
Lemma gen_hash_memo_guarded : hash_memo_store_guarded = true /\ hash_memo_store_cond = "err == nil"%string.
Proof. split; reflexivity. Qed.

Lemma gen_memo_history_fresh h : forall fs mm, memo_inv fs mm -> repairs_only fs h ->
  run_hist hash_memo_store_guarded fs mm h = fresh_hist hash_memo_store_guarded fs h.
Proof. exact (memo_history_fresh h). Qed.
