(* C35 - filegroups of one package within one plz invocation (the fg_ functions of Model/C35.v): the per-run memo of
   filegroupBuilder as state, the states of same-package source targets.  Invariant over all orders of
   builders sharing files, induction over the invocation and over the history of invocations. *)
From PlzV Require Import Base.Harness Base.StrFacts Model.C35 Proof.C35.
From Coq Require Import Lia.

(* ------------------------------------------------------------------------------------------ *)
(* the little file system *)

Lemma flookup_fset_same p o d : flookup p (fset p o d) = Some o.
Proof. unfold fset; cbn. rewrite N.eqb_refl. reflexivity. Qed.

Lemma flookup_fset_other p q o d : q <> p -> flookup q (fset p o d) = flookup q d.
Proof. intros NE. unfold fset; cbn. destruct (N.eqb_spec p q); [congruence|reflexivity]. Qed.

Lemma flookup_fremove_same p d : flookup p (fremove p d) = None.
Proof.
  induction d as [|[q o] d IH]; cbn; auto.
  destruct (N.eqb_spec q p); cbn; auto.
  destruct (N.eqb_spec q p); [contradiction|exact IH].
Qed.

Lemma flookup_fremove_other p q d : q <> p -> flookup q (fremove p d) = flookup q d.
Proof.
  intros NE. induction d as [|[r o] d IH]; cbn; auto.
  destruct (N.eqb_spec r p); cbn.
  - subst. destruct (N.eqb_spec p q); [congruence|exact IH].
  - destruct (N.eqb_spec r q); auto.
Qed.

(* after RemoveOutputs a path is absent, or untouched *)
Lemma flookup_fg_remove q srcs d :
  flookup q (fg_remove srcs d) = None \/ flookup q (fg_remove srcs d) = flookup q d.
Proof.
  induction srcs as [|sr r IH]; cbn; auto.
  destruct (N.eq_dec q (s_path sr)) as [->|NE].
  - left. apply flookup_fremove_same.
  - rewrite flookup_fremove_other by exact NE. exact IH.
Qed.

Lemma flookup_fg_remove_in sr srcs d : In sr srcs -> flookup (s_path sr) (fg_remove srcs d) = None.
Proof.
  induction srcs as [|x r IH]; cbn; [tauto|]. intros [->|Hin].
  - apply flookup_fremove_same.
  - destruct (N.eq_dec (s_path sr) (s_path x)) as [E|NE].
    + rewrite E. apply flookup_fremove_same.
    + rewrite flookup_fremove_other by exact NE. apply IH; exact Hin.
Qed.

Lemma fg_outs_some d srcs outs : fg_outs d srcs = Some outs -> length outs = length srcs.
Proof.
  revert outs. induction srcs as [|sr r IH]; cbn; intros outs.
  - intros E; inversion E; reflexivity.
  - destruct (flookup (s_path sr) d); [|discriminate]. destruct (fg_outs d r); [|discriminate].
    intros E; inversion E; subst. cbn. f_equal. apply IH; reflexivity.
Qed.

(* ------------------------------------------------------------------------------------------ *)
(* decidable equality of sources, consistency of an invocation *)

Lemma out_eqb_eq a b : out_eqb a b = true -> a = b.
Proof.
  destruct a as [x|x], b as [y|y]; cbn; try discriminate.
  - intros E. apply str_eqb_eq in E. congruence.
  - intros E. destruct (list_eqb_spec str_eqb str_eqb_spec x y); congruence.
Qed.

Lemma origin_eqb_eq a b : origin_eqb a b = true -> a = b.
Proof. destruct a as [|[]], b as [|[]]; cbn; try discriminate; reflexivity. Qed.

Lemma fsrc_eqb_eq a b : fsrc_eqb a b = true -> a = b.
Proof.
  destruct a as [pa oa ga], b as [pb ob gb]; unfold fsrc_eqb; cbn.
  intros E. apply andb_true_iff in E. destruct E as [E E3]. apply andb_true_iff in E. destruct E as [E1 E2].
  apply N.eqb_eq in E1. apply out_eqb_eq in E2. apply origin_eqb_eq in E3. congruence.
Qed.

(* the Prop a consistent invocation gives: over a set S of sources, the path determines the source *)
Definition functional (S : list fsrc) : Prop :=
  forall a b, In a S -> In b S -> s_path a = s_path b -> a = b.

Lemma run_consistent_functional gs : run_consistent gs = true -> functional (flat_map g_srcs gs).
Proof.
  unfold run_consistent, functional. intros C a b Ha Hb E.
  rewrite forallb_forall in C. specialize (C a Ha). rewrite forallb_forall in C. specialize (C b Hb).
  apply orb_true_iff in C. destruct C as [C|C].
  - apply negb_true_iff in C. apply N.eqb_neq in C. contradiction.
  - apply fsrc_eqb_eq; exact C.
Qed.

(* ------------------------------------------------------------------------------------------ *)
(* the invariant of one invocation *)

Section Fg.
Variable H : hashfun.
Hypothesis H_size : H_sized H.
Variable cfg : config.

(* fg_same looks at the disk through the one path only *)
Lemma fg_same_ext d d' sr : flookup (s_path sr) d = flookup (s_path sr) d' -> fg_same H (hashfn cfg) d sr = fg_same H (hashfn cfg) d' sr.
Proof. unfold fg_same. intros ->. reflexivity. Qed.

Lemma fg_same_absent d sr : flookup (s_path sr) d = None -> fg_same H (hashfn cfg) d sr = false.
Proof. unfold fg_same. intros ->. reflexivity. Qed.

(* d0: the disk the invocation started from; S: the sources of the invocation.
   (a) a path recorded as "not changed" was in place, with the content of its source, when the invocation started;
   (b) a path that is not in the memo yet is as it was when the invocation started, or has been removed *)
Definition MInv (d0 : fdisk) (S : list fsrc) (m : fmemo) (d : fdisk) : Prop :=
  (forall sr, In sr S -> flookup (s_path sr) m = Some false -> fg_same H (hashfn cfg) d0 sr = true)
  /\ (forall p, flookup p m = None -> flookup p d = flookup p d0 \/ flookup p d = None).

Lemma MInv_start d0 S : MInv d0 S [] d0.
Proof. split; [intros sr _ E; discriminate|intros p _; left; reflexivity]. Qed.

Lemma MInv_remove d0 S m d srcs : MInv d0 S m d -> MInv d0 S m (fg_remove srcs d).
Proof.
  intros [A B]. split; [exact A|]. intros p Hp.
  destruct (flookup_fg_remove p srcs d) as [E|E]; [right; exact E|]. rewrite E. apply B; exact Hp.
Qed.

Lemma fg_file_inv d0 S m d sr :
  functional S -> In sr S -> MInv d0 S m d ->
  match fg_file H (hashfn cfg) m d sr with
  | (m1, d1, c, e) =>
      MInv d0 S m1 d1 /\ (e = false -> c = false -> fg_same H (hashfn cfg) d0 sr = true)
  end.
Proof.
  intros F Hin [A B]. unfold fg_file.
  destruct (fg_from_exists d sr); cbn [negb].
  2:{ split; [split; assumption|discriminate]. }
  destruct (flookup (s_path sr) m) as [b|] eqn:M.
  - split; [split; assumption|]. intros _. unfold memo_hit. intros ->. apply A; assumption.
  - destruct (fg_same H (hashfn cfg) d sr) eqn:Sm.
    + (* same: memo := false *)
      assert (fg_same H (hashfn cfg) d0 sr = true) as S0.
      { destruct (B _ M) as [E|E].
        - rewrite <- (fg_same_ext d d0 sr E). exact Sm.
        - rewrite (fg_same_absent d sr E) in Sm. discriminate. }
      split; [|intros _ _; exact S0]. split.
      * intros sr' Hin' L. cbn [flookup] in L. destruct (N.eqb_spec (s_path sr) (s_path sr')) as [E|NE].
        -- rewrite (F sr' sr Hin' Hin (eq_sym E)). exact S0.
        -- apply A; assumption.
      * intros p L. cbn [flookup] in L. destruct (N.eqb_spec (s_path sr) p); [discriminate|]. apply B; exact L.
    + (* put in place: memo := true *)
      split; [|intros _ C; discriminate]. split.
      * intros sr' Hin' L. cbn [flookup] in L. unfold memo_store_built in L.
        destruct (N.eqb_spec (s_path sr) (s_path sr')); [discriminate|]. apply A; assumption.
      * intros p L. cbn [flookup] in L. destruct (N.eqb_spec (s_path sr) p) as [E|NE]; [discriminate|].
        rewrite flookup_fset_other by congruence. apply B; exact L.
Qed.

Lemma fg_place_inv d0 S srcs : forall m d,
  functional S -> (forall sr, In sr srcs -> In sr S) -> MInv d0 S m d ->
  match fg_place H (hashfn cfg) m d srcs with
  | (m1, d1, c, e) =>
      MInv d0 S m1 d1
      /\ (e = false -> c = false -> forall sr, In sr srcs -> fg_same H (hashfn cfg) d0 sr = true)
  end.
Proof.
  induction srcs as [|sr r IH]; intros m d F Sub I; cbn [fg_place].
  - split; [exact I|]. intros _ _ sr [].
  - pose proof (fg_file_inv d0 S m d sr F (Sub sr (or_introl eq_refl)) I) as P.
    destruct (fg_file H (hashfn cfg) m d sr) as [[[m1 d1] c] e].
    destruct P as [I1 P1]. destruct e.
    + split; [exact I1|discriminate].
    + assert (forall x, In x r -> In x S) as Sub' by (intros x Hx; apply Sub; right; exact Hx).
      pose proof (IH m1 d1 F Sub' I1) as Q.
      destruct (fg_place H (hashfn cfg) m1 d1 r) as [[[m2 d2] c2] e2].
      destruct Q as [I2 Q2]. split; [exact I2|].
      intros E C x [<-|Hx].
      * apply orb_false_iff in C. destruct C as [C _]. apply P1; auto.
      * apply orb_false_iff in C. destruct C as [_ C]. apply Q2; auto.
Qed.

(* ------------------------------------------------------------------------------------------ *)
(* what one filegroup build of an invocation that started from d0 must satisfy *)
Definition fg_event_good (d0 : fdisk) (e : fevent) : Prop :=
  let g := fe_def e in
  (* success with declared hashes: the outputs now in plz-out were verified and hash to a declared value -
     unless everything was already in place when the invocation started (the known defect class) *)
  (fr_ok (fe_res e) = true -> g_declared g <> [] ->
     (exists outs, fr_seen (fe_res e) = Some outs /\ fg_outs (fe_after e) (g_srcs g) = Some outs
                   /\ matches H cfg outs (g_declared g))
     \/ fg_in_place H cfg d0 g = true)
  (* failure: nothing is left; and when the verification ran on a complete set of outputs it failed on a real mismatch *)
  /\ (fr_ok (fe_res e) = false ->
        (forall sr, In sr (g_srcs g) -> flookup (s_path sr) (fe_after e) = None)
        /\ (forall outs, fr_seen (fe_res e) = Some outs -> g_declared g <> [] /\ ~ matches H cfg outs (g_declared g))).

Lemma fg_build_good d0 S m d g :
  functional S -> (forall sr, In sr (g_srcs g) -> In sr S) -> MInv d0 S m d ->
  match fg_build H cfg m d g with
  | (m1, d1, res) => MInv d0 S m1 d1 /\ fg_event_good d0 {| fe_def := g; fe_res := res; fe_after := d1 |}
  end.
Proof.
  intros F Sub I. unfold fg_build.
  pose proof (fg_place_inv d0 S (g_srcs g) m d F Sub I) as P.
  destruct (fg_place H (hashfn cfg) m d (g_srcs g)) as [[[m1 d1] changed] err].
  destruct P as [I1 P1].
  assert (forall dd, forall sr, In sr (g_srcs g) -> flookup (s_path sr) (fg_remove (g_srcs g) dd) = None) as Gone
      by (intros dd sr Hsr; apply flookup_fg_remove_in; exact Hsr).
  destruct err.
  - split; [apply MInv_remove; exact I1|]. unfold fg_event_good; cbn. split; [discriminate|].
    intros _. split; [apply Gone|discriminate].
  - destruct (changed || existsb src_triggers (g_srcs g)) eqn:C.
    + destruct (fg_outs d1 (g_srcs g)) as [outs|] eqn:O.
      * destruct (accepted (check_rule_hashes H cfg outs (g_declared g))) eqn:A.
        -- split; [exact I1|]. unfold fg_event_good; cbn. split; [|discriminate].
           intros _ NE. left. exists outs. split; [reflexivity|]. split; [exact O|].
           apply (check_iff H H_size) in A. destruct A as [E|M]; [contradiction|exact M].
        -- split; [apply MInv_remove; exact I1|]. unfold fg_event_good; cbn. split; [discriminate|].
           intros _. split; [apply Gone|]. intros outs' E. inversion E; subst outs'. split.
           ++ intros E0. rewrite E0 in A. discriminate.
           ++ intros M. assert (accepted (check_rule_hashes H cfg outs (g_declared g)) = true) as T
                  by (apply (check_iff H H_size); right; exact M).
              rewrite T in A. discriminate.
      * split; [apply MInv_remove; exact I1|]. unfold fg_event_good; cbn. split; [discriminate|].
        intros _. split; [apply Gone|discriminate].
    + split; [exact I1|]. unfold fg_event_good; cbn. split; [|discriminate].
      intros _ _. right. apply orb_false_iff in C. destruct C as [C1 C2].
      unfold fg_in_place. apply forallb_forall. intros sr Hsr.
      rewrite (P1 eq_refl C1 sr Hsr). cbn.
      apply negb_true_iff. destruct (src_triggers sr) eqn:T; auto.
      assert (existsb src_triggers (g_srcs g) = true) as X by (apply existsb_exists; exists sr; auto).
      rewrite X in C2. discriminate.
Qed.

(* one invocation: any number of filegroups, in any order, sharing any files *)
Lemma fg_run_good d0 S gs : forall m d,
  functional S -> (forall sr, In sr (flat_map g_srcs gs) -> In sr S) -> MInv d0 S m d ->
  Forall (fg_event_good d0) (fst (fg_run H cfg m d gs)).
Proof.
  induction gs as [|g r IH]; intros m d F Sub I; cbn [fg_run]; [constructor|].
  assert (forall sr, In sr (g_srcs g) -> In sr S) as SubG
      by (intros sr Hsr; apply Sub; cbn; apply in_or_app; left; exact Hsr).
  pose proof (fg_build_good d0 S m d g F SubG I) as B.
  destruct (fg_build H cfg m d g) as [[m1 d1] res]. destruct B as [I1 G].
  assert (forall sr, In sr (flat_map g_srcs r) -> In sr S) as SubR
      by (intros sr Hsr; apply Sub; cbn; apply in_or_app; right; exact Hsr).
  pose proof (IH m1 d1 F SubR I1) as R.
  destruct (fg_run H cfg m1 d1 r) as [evs d2]. cbn [fst] in *. constructor; assumption.
Qed.

Theorem fg_invocation_good d0 gs :
  run_consistent gs = true -> Forall (fg_event_good d0) (fst (fg_run H cfg [] d0 gs)).
Proof.
  intros C. apply (fg_run_good d0 (flat_map g_srcs gs)).
  - apply run_consistent_functional; exact C.
  - auto.
  - apply MInv_start.
Qed.

(* every history of invocations, deletions of plz-out and generators (re)placing their outputs *)
Theorem fg_history_good steps : forall d,
  hist_consistent steps = true ->
  Forall (fun r => let '(d0, evs, _) := r in Forall (fg_event_good d0) evs) (fg_hist H cfg d steps).
Proof.
  induction steps as [|st r IH]; intros d C; cbn [fg_hist]; [constructor|].
  destruct st as [|p o|gs]; cbn [hist_consistent] in C.
  - apply IH; exact C.
  - apply IH; exact C.
  - apply andb_true_iff in C. destruct C as [C1 C2].
    pose proof (fg_invocation_good d gs C1) as G.
    destruct (fg_run H cfg [] d gs) as [evs d']. cbn [fst] in G. constructor; [exact G|apply IH; exact C2].
Qed.

(* the two shapes the follow-up was about, as corollaries for ALL hash functions, contents and hash lists:
   (1) a filegroup over a same-package target that was Built or restored from the cache (Cached) in this
       invocation never succeeds unverified, whatever is on the disk and in the memo *)
Corollary fg_triggering_source_verified d0 S m d g :
  functional S -> (forall sr, In sr (g_srcs g) -> In sr S) -> MInv d0 S m d ->
  existsb src_triggers (g_srcs g) = true -> g_declared g <> [] ->
  match fg_build H cfg m d g with
  | (_, d1, res) => fr_ok res = true ->
      exists outs, fg_outs d1 (g_srcs g) = Some outs /\ matches H cfg outs (g_declared g)
  end.
Proof.
  intros F Sub I T NE. pose proof (fg_build_good d0 S m d g F Sub I) as B.
  destruct (fg_build H cfg m d g) as [[m1 d1] res]. destruct B as [_ [G _]]. cbn in G.
  intros OK. destruct (G OK NE) as [(outs & _ & O & M)|P]; [exists outs; auto|].
  exfalso. unfold fg_in_place in P. rewrite forallb_forall in P.
  apply existsb_exists in T. destruct T as (sr & Hsr & Tr). specialize (P sr Hsr).
  rewrite Tr in P. rewrite andb_false_r in P. discriminate.
Qed.

(* (2) a filegroup that exports a file which was NOT in place when the invocation started never succeeds
       unverified, however many other filegroups put that file in place before it *)
Corollary fg_shared_file_verified d0 gs :
  run_consistent gs = true ->
  Forall (fun e => fr_ok (fe_res e) = true -> g_declared (fe_def e) <> [] ->
                   existsb (fun sr => negb (fg_same H (hashfn cfg) d0 sr)) (g_srcs (fe_def e)) = true ->
                   exists outs, fg_outs (fe_after e) (g_srcs (fe_def e)) = Some outs /\ matches H cfg outs (g_declared (fe_def e)))
         (fst (fg_run H cfg [] d0 gs)).
Proof.
  intros C. pose proof (fg_invocation_good d0 gs C) as G.
  eapply Forall_impl; [|exact G]. intros e [Ge _] OK NE X.
  destruct (Ge OK NE) as [(outs & _ & O & M)|P]; [exists outs; auto|].
  exfalso. unfold fg_in_place in P. rewrite forallb_forall in P.
  apply existsb_exists in X. destruct X as (sr & Hsr & Ns). specialize (P sr Hsr).
  apply negb_true_iff in Ns. rewrite Ns in P. discriminate.
Qed.

End Fg.

(* ------------------------------------------------------------------------------------------ *)
(* witnesses (toyH, default_cfg from Proof/C35.v) *)

Definition fw_good : str := hex (toyH Sha1 (s "hi")).
Definition fw_src (st : tstate) : fsrc := {| s_path := 1; s_out := OFile (s "hi"); s_origin := FromTarget st |}.
Definition fw_file : fsrc := {| s_path := 2; s_out := OFile (s "hi"); s_origin := FromFile |}.

(* the known class, over a same-package target: built without hashes, then reused with a wrong list *)
Definition fw_inplace_steps : list hstep :=
  [HPut 1 (OFile (s "hi")); HRun [{| g_declared := []; g_srcs := [fw_src TBuilt] |}];
   HPut 1 (OFile (s "hi")); HRun [{| g_declared := [s "00"]; g_srcs := [fw_src TReused] |}]].

(* a source restored from the cache into an empty plz-out: verified (rejected, nothing left; then accepted);
   a plain export and a pinned one sharing a file that is not in plz-out: the pinned one is verified, in both orders
   (when the pinned one goes first and fails, it removes the file and the plain one, handed the verdict "changed" by
   the memo, fails on the missing output) *)
Definition fw_steps : list hstep :=
  [HWipe; HPut 1 (OFile (s "hi")); HRun [{| g_declared := [s "00"]; g_srcs := [fw_src TCached] |}];
   HPut 1 (OFile (s "hi")); HRun [{| g_declared := [fw_good]; g_srcs := [fw_src TCached] |}];
   HWipe; HRun [{| g_declared := []; g_srcs := [fw_file] |}; {| g_declared := [s "00"]; g_srcs := [fw_file] |}];
   HRun [{| g_declared := [s "00"]; g_srcs := [fw_file] |}; {| g_declared := []; g_srcs := [fw_file] |}];
   HRun [{| g_declared := []; g_srcs := [fw_file] |}; {| g_declared := [s "sha1: " ++ fw_good]; g_srcs := [fw_file] |}]].

Definition fg_obs (steps : list hstep) : list (list (bool * bool) * list (option out)) :=
  map (fun r => let '(_, evs, d') := r in
                (map (fun e => (fr_ok (fe_res e), fr_checked (fe_res e))) evs, [flookup 1%N d'; flookup 2%N d']))
      (fg_hist toyH default_cfg [] steps).

Lemma fw_steps_obs :
  hist_consistent fw_steps = true
  /\ fg_obs fw_steps =
     [([(false, true)], [None; None]);
      ([(true, true)], [Some (OFile (s "hi")); None]);
      ([(true, true); (false, true)], [None; None]);
      ([(false, true); (false, true)], [None; None]);
      ([(true, true); (true, true)], [None; Some (OFile (s "hi"))])].
Proof. vm_compute. split; reflexivity. Qed.

Lemma fw_inplace_obs :
  hist_consistent fw_inplace_steps = true
  /\ fg_obs fw_inplace_steps = [([(true, true)], [Some (OFile (s "hi")); None]); ([(true, false)], [Some (OFile (s "hi")); None])].
Proof. vm_compute. split; reflexivity. Qed.

Definition fg_bad (H : hashfun) (cfg : config) (e : fevent) : bool :=
  fr_ok (fe_res e) && negb (fr_checked (fe_res e))
  && match g_declared (fe_def e), fg_outs (fe_after e) (g_srcs (fe_def e)) with
     | [], _ => false
     | _, None => true
     | dl, Some outs => negb (accepted (check_rule_hashes H cfg outs dl))
     end.

(* the strict statement (no exception for files in place) is false *)
Lemma fw_inplace_bad :
  existsb (fun r => let '(_, evs, _) := r in existsb (fg_bad toyH default_cfg) evs) (fg_hist toyH default_cfg [] fw_inplace_steps) = true.
Proof. vm_compute. reflexivity. Qed.

(* the statement without the exception for files already in place *)
Definition fg_event_strict (H : hashfun) (cfg : config) (e : fevent) : Prop :=
  fr_ok (fe_res e) = true -> g_declared (fe_def e) <> [] ->
  exists outs, fg_outs (fe_after e) (g_srcs (fe_def e)) = Some outs /\ matches H cfg outs (g_declared (fe_def e)).

Lemma fg_bad_not_strict H cfg e : H_sized H -> fg_bad H cfg e = true -> ~ fg_event_strict H cfg e.
Proof.
  intros HS B S. unfold fg_bad in B. apply andb_true_iff in B. destruct B as [B B3].
  apply andb_true_iff in B. destruct B as [B1 _].
  destruct (g_declared (fe_def e)) as [|h hs] eqn:D; [discriminate|].
  assert (h :: hs <> []) as NE by discriminate.
  unfold fg_event_strict in S. rewrite D in S. destruct (S B1 NE) as (outs & O & M).
  rewrite O in B3. apply negb_true_iff in B3.
  assert (accepted (check_rule_hashes H cfg outs (h :: hs)) = true) as T by (apply (check_iff H HS); right; exact M).
  rewrite T in B3. discriminate.
Qed.

Lemma fw_refutes_strict :
  ~ (forall H, H_sized H -> forall cfg d steps, hist_consistent steps = true ->
       Forall (fun r => let '(_, evs, _) := r in Forall (fg_event_strict H cfg) evs) (fg_hist H cfg d steps)).
Proof.
  intros S. specialize (S toyH toyH_sized default_cfg [] fw_inplace_steps (proj1 fw_inplace_obs)).
  pose proof fw_inplace_bad as B. apply existsb_exists in B. destruct B as ([[d0 evs] d'] & Hin & Be).
  rewrite Forall_forall in S. specialize (S _ Hin). cbn in S.
  apply existsb_exists in Be. destruct Be as (e & He & Bad).
  rewrite Forall_forall in S. exact (fg_bad_not_strict _ _ _ toyH_sized Bad (S e He)).
Qed.
