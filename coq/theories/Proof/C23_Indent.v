(* C23 - the indentation printed by `plz query deps` is the cost of the path by which the target was FIRST reached.

   deps_g below is deps (Model/C23.v) with two ghost components that the Go code does not have: the call stack
   (the labels from the root down to the target being expanded) and a log that records, for every label at the
   moment it is put into `done`, the stack at that moment - its first-reach path.  Erasing the ghosts gives back
   the model exactly (deps_roots_g_erase), every label is logged at most once (it is reached once: `done`), and
   every printed line (lv, l) has a logged path root -> ... -> l, a real dependency chain, whose 0/1 cost is lv + 1
   (the printed target itself costs one level; indentation counts from 0). *)
From Coq Require Import Lia.
From PlzV Require Import Base.Harness Model.C23 Proof.C23_Spec Proof.C23.

Definition glog := list (label * list label).
Definition gstate := (dstate * glog)%type.

Fixpoint deps_loop_g (rec : label -> Z -> list label -> gstate -> option gstate)
         (g : graph) (hidden : bool) (it : tinfo) (cur : Z) (stk : list label) (ls : list label) (sg : gstate)
  : option gstate :=
  match ls with
  | [] => Some sg
  | l :: ls' =>
      let st := fst sg in
      if mem l (fst st) then deps_loop_g rec g hidden it cur stk ls' sg
      else
        let lg := (l, stk ++ [l]) :: snd sg in
        match find g l with
        | None => deps_loop_g rec g hidden it cur stk ls' ((l :: fst st, snd st), lg)
        | Some il =>
            let r :=
              if hidden || negb (has_parent l il)
              then rec l (cur + 1)%Z (stk ++ [l]) ((l :: fst st, snd st ++ [(cur, l)]), lg)
              else if N.eqb (t_parent il) (t_parent it)
                   then rec l cur (stk ++ [l]) ((l :: fst st, snd st), lg)
                   else rec l (cur + 1)%Z (stk ++ [l]) ((l :: fst st, snd st), lg) in
            match r with
            | None => None
            | Some sg' => deps_loop_g rec g hidden it cur stk ls' sg'
            end
        end
  end.

Fixpoint deps_g (fuel : nat) (g : graph) (hidden : bool) (lim : Z) (t : label) (cur : Z) (stk : list label) (sg : gstate)
  : option gstate :=
  match fuel with
  | O => None
  | S f =>
      if Z.eqb cur lim then Some sg
      else match find g t with
           | None => Some sg
           | Some it => deps_loop_g (deps_g f g hidden lim) g hidden it cur stk (succs g [] it) sg
           end
  end.

Fixpoint deps_roots_g (g : graph) (hidden : bool) (lim : Z) (roots : list label) (sg : gstate) : option gstate :=
  match roots with
  | [] => Some sg
  | r :: rs =>
      match deps_g (fuel_of g) g hidden lim r 0%Z [r] sg with
      | None => None
      | Some sg' => deps_roots_g g hidden lim rs sg'
      end
  end.

(* ---- erasing the ghosts gives the model ---- *)
Lemma deps_loop_g_erase :
  forall recg rec g hid it cur stk,
    (forall l c s sg, option_map fst (recg l c s sg) = rec l c (fst sg)) ->
    forall ls sg, option_map fst (deps_loop_g recg g hid it cur stk ls sg) = deps_loop rec g hid it cur ls (fst sg).
Proof.
  intros recg rec g hid it cur stk Hrec. induction ls as [|l ls IH]; intros sg; cbn [deps_loop_g deps_loop]; [reflexivity|].
  destruct (mem l (fst (fst sg))); [apply IH|].
  destruct (find g l) as [il|]; [|rewrite IH; reflexivity].
  match goal with |- option_map fst (match ?rg with _ => _ end) = match ?r with _ => _ end =>
    assert (Hr : option_map fst rg = r) end.
  { destruct (hid || negb (has_parent l il)); [|destruct (N.eqb (t_parent il) (t_parent it))]; rewrite Hrec; reflexivity. }
  match type of Hr with option_map fst ?rg = _ => destruct rg as [sg'|] end; cbn [option_map] in Hr; rewrite <- Hr; [apply IH | reflexivity].
Qed.

Lemma deps_g_erase : forall fuel g hid lim t cur stk sg,
  option_map fst (deps_g fuel g hid lim t cur stk sg) = deps fuel g hid lim t cur (fst sg).
Proof.
  induction fuel as [|f IH]; intros g hid lim t cur stk sg; cbn [deps_g deps]; [reflexivity|].
  destruct (Z.eqb cur lim); [reflexivity|]. destruct (find g t) as [it|]; [|reflexivity].
  apply deps_loop_g_erase. intros l c s sg0. apply IH.
Qed.

Lemma deps_roots_g_erase : forall g hid lim roots sg,
  option_map fst (deps_roots_g g hid lim roots sg) = deps_roots g hid lim roots (fst sg).
Proof.
  intros g hid lim. induction roots as [|r roots IH]; intros sg; cbn [deps_roots_g deps_roots]; [reflexivity|].
  pose proof (deps_g_erase (fuel_of g) g hid lim r 0%Z [r] sg) as Hr.
  destruct (deps_g (fuel_of g) g hid lim r 0 [r] sg) as [sg'|]; cbn [option_map] in Hr; rewrite <- Hr; [apply IH | reflexivity].
Qed.

(* ---- paths as label lists ---- *)
Fixpoint pcost (g : graph) (hid : bool) (p : list label) : Z :=
  match p with
  | x :: r => match r with
              | y :: _ => (ecost g hid x y + pcost g hid r)%Z
              | [] => 0%Z
              end
  | [] => 0%Z
  end.

Lemma last_app_one : forall (p : list label) l d, last (p ++ [l]) d = l.
Proof.
  induction p as [|x p IH]; intros l d; [reflexivity|].
  cbn [app]. destruct p as [|y p]; [reflexivity|]. change (last (x :: (y :: p) ++ [l]) d) with (last ((y :: p) ++ [l]) d). apply IH.
Qed.

Lemma chain_app_one : forall (E : label -> label -> Prop) p x l, chain E (x :: p) -> E (last (x :: p) x) l -> chain E ((x :: p) ++ [l]).
Proof.
  intros E. induction p as [|y p IH]; intros x l Hc He.
  - cbn [app chain]. cbn [last] in He. split; [exact He | exact I].
  - cbn [chain] in Hc. destruct Hc as [Hxy Hc].
    change ((x :: y :: p) ++ [l]) with (x :: ((y :: p) ++ [l])).
    change (chain E (x :: (y :: p) ++ [l])) with (E x y /\ chain E ((y :: p) ++ [l])). split; [exact Hxy|].
    apply IH; [exact Hc|]. change (last (x :: y :: p) x) with (last (y :: p) x) in He. rewrite (last_nonempty p y x y) in He. exact He.
Qed.

Lemma pcost_app_one : forall g hid p x l, pcost g hid ((x :: p) ++ [l]) = (pcost g hid (x :: p) + ecost g hid (last (x :: p) x) l)%Z.
Proof.
  intros g hid. induction p as [|y p IH]; intros x l.
  - cbn [app pcost last]. lia.
  - change ((x :: y :: p) ++ [l]) with (x :: ((y :: p) ++ [l])).
    change (pcost g hid (x :: (y :: p) ++ [l])) with (ecost g hid x y + pcost g hid ((y :: p) ++ [l]))%Z.
    change (pcost g hid (x :: y :: p)) with (ecost g hid x y + pcost g hid (y :: p))%Z.
    rewrite IH. change (last (x :: y :: p) x) with (last (y :: p) x). rewrite (last_nonempty p y x y). lia.
Qed.

Lemma NoDup_snoc : forall (A : Type) (l : list A) x, NoDup l -> ~ In x l -> NoDup (l ++ [x]).
Proof.
  intros A. induction l as [|y l IH]; intros x Hn Hx; cbn [app].
  - constructor; [intros [] | constructor].
  - inversion Hn as [|? ? Hy Hn']; subst. constructor.
    + intros Hin. apply in_app_or in Hin. destruct Hin as [Hin|[Hin|[]]]; [contradiction|]. subst. apply Hx. left. reflexivity.
    + apply IH; [exact Hn' | intros Hin; apply Hx; right; exact Hin].
Qed.

Section Indent.
  Variable g : graph.
  Variable hid : bool.
  Variable lim : Z.
  Variable roots : list label.

  (* p is a dependency chain from one of the queried roots down to t, of cost c *)
  Definition reach_path (p : list label) (t : label) (c : Z) : Prop :=
    exists r p', p = r :: p' /\ In r roots /\ last p r = t /\ chain (edge g []) p /\ pcost g hid p = c.

  Lemma reach_path_snoc : forall p t c l, reach_path p t c -> edge g [] t l -> reach_path (p ++ [l]) l (c + ecost g hid t l)%Z.
  Proof.
    intros p t c l [r [p' [Hp [Hr [Hl [Hc Hcost]]]]]] He. subst p. exists r, (p' ++ [l]).
    split; [reflexivity|]. split; [exact Hr|]. split; [apply last_app_one|]. split.
    - apply chain_app_one; [exact Hc | rewrite Hl; exact He].
    - rewrite pcost_app_one, Hl, Hcost. reflexivity.
  Qed.

  Definition ginv (sg : gstate) : Prop :=
    let done := fst (fst sg) in let out := snd (fst sg) in let log := snd sg in
    map fst log = done /\ NoDup done /\ incl (map snd out) done /\ NoDup (map snd out) /\
    (forall l p, In (l, p) log -> exists c, reach_path p l c) /\
    (forall lv l, In (lv, l) out -> exists p, In (l, p) log /\ reach_path p l (lv + 1)%Z).

  Lemma ginv_add : forall done out log l p c, ginv ((done, out), log) -> ~ In l done -> reach_path p l c ->
    ginv ((l :: done, out), (l, p) :: log).
  Proof.
    intros done out log l p c Hg Hn Hp. unfold ginv in *. cbn [fst snd] in *. destruct Hg as [G1 [G2 [G3 [G4 [G5 G6]]]]].
    split; [cbn [map fst]; rewrite G1; reflexivity|]. split; [constructor; assumption|].
    split; [intros z Hz; right; apply G3; exact Hz|]. split; [exact G4|]. split.
    - intros l0 p0 [Hin|Hin]; [injection Hin as <- <-; exists c; exact Hp | apply G5; exact Hin].
    - intros lv l0 Hin. destruct (G6 lv l0 Hin) as [p0 [Hlog Hrp]]. exists p0. split; [right; exact Hlog | exact Hrp].
  Qed.

  Lemma ginv_add_printed : forall done out log l p cur, ginv ((done, out), log) -> ~ In l done -> reach_path p l (cur + 1)%Z ->
    ginv ((l :: done, out ++ [(cur, l)]), (l, p) :: log).
  Proof.
    intros done out log l p cur Hg Hn Hp. pose proof (ginv_add done out log l p _ Hg Hn Hp) as Ha.
    unfold ginv in *. cbn [fst snd] in *. destruct Ha as [G1 [G2 [G3 [G4 [G5 G6]]]]]. destruct Hg as [_ [_ [G3' _]]].
    split; [exact G1|]. split; [exact G2|]. split; [|split; [|split]].
    - rewrite map_app. cbn [map snd]. intros z Hz. apply in_app_or in Hz. destruct Hz as [Hz|[Hz|[]]]; [apply G3; exact Hz | left; exact Hz].
    - rewrite map_app. cbn [map snd]. apply NoDup_snoc; [exact G4|]. intros Hin. apply Hn. apply G3'. exact Hin.
    - exact G5.
    - intros lv l0 Hin. apply in_app_or in Hin. destruct Hin as [Hin|[Hin|[]]]; [apply G6; exact Hin|].
      injection Hin as <- <-. exists p. split; [left; reflexivity | exact Hp].
  Qed.

  Lemma deps_loop_g_inv :
    forall recg t it cur stk, find g t = Some it -> reach_path stk t cur ->
      (forall l c s sg sg', reach_path s l c -> ginv sg -> recg l c s sg = Some sg' -> ginv sg') ->
      forall ls sg sg', incl ls (succs g [] it) -> ginv sg -> deps_loop_g recg g hid it cur stk ls sg = Some sg' -> ginv sg'.
  Proof.
    intros recg t it cur stk Hf Hstk Hrec. induction ls as [|l ls IH]; intros sg sg' Hsub Hg H; cbn [deps_loop_g] in H.
    - injection H as <-. exact Hg.
    - assert (Hsub' : incl ls (succs g [] it)) by (intros z Hz; apply Hsub; right; exact Hz).
      destruct sg as [[done out] log]. cbn [fst snd] in H.
      destruct (mem l done) eqn:Em; [eapply IH; eauto|]. apply mem_false_In in Em.
      assert (He : edge g [] t l) by (exists it; split; [exact Hf | apply Hsub; left; reflexivity]).
      pose proof (reach_path_snoc stk t cur l Hstk He) as Hp.
      destruct (find g l) as [il|] eqn:Hfl.
      2:{ eapply IH; [exact Hsub'| |exact H]. eapply ginv_add; eauto. }
      match type of H with match ?r with _ => _ end = _ => destruct r as [sg1|] eqn:Er; [|discriminate] end.
      eapply IH; [exact Hsub'| |exact H].
      assert (Hcost : ecost g hid t l = if hid || negb (has_parent l il) then 1%Z
                                        else if N.eqb (t_parent il) (t_parent it) then 0%Z else 1%Z).
      { unfold ecost. destruct hid; [reflexivity|]. rewrite Hf, Hfl. cbn [orb].
        destruct (has_parent l il); cbn [negb andb]; reflexivity. }
      rewrite Hcost in Hp.
      destruct (hid || negb (has_parent l il)).
      + eapply Hrec; [exact Hp| |exact Er]. apply ginv_add_printed; assumption.
      + destruct (N.eqb (t_parent il) (t_parent it)).
        * rewrite Z.add_0_r in Hp. eapply Hrec; [exact Hp| |exact Er]. eapply ginv_add; eauto.
        * eapply Hrec; [exact Hp| |exact Er]. eapply ginv_add; eauto.
  Qed.

  Lemma deps_g_inv : forall fuel t cur stk sg sg', reach_path stk t cur -> ginv sg ->
    deps_g fuel g hid lim t cur stk sg = Some sg' -> ginv sg'.
  Proof.
    induction fuel as [|f IH]; intros t cur stk sg sg' Hs Hg H; cbn [deps_g] in H; [discriminate|].
    destruct (Z.eqb cur lim); [injection H as <-; exact Hg|].
    destruct (find g t) as [it|] eqn:Hf; [|injection H as <-; exact Hg].
    eapply (deps_loop_g_inv (deps_g f g hid lim) t it cur stk Hf Hs); [|apply incl_refl|exact Hg|exact H].
    intros l c s sg0 sg1 Hp Hg0 Hr. eapply IH; eauto.
  Qed.

  Lemma deps_roots_g_inv : forall rs sg sg', incl rs roots -> ginv sg -> deps_roots_g g hid lim rs sg = Some sg' -> ginv sg'.
  Proof.
    induction rs as [|r rs IH]; intros sg sg' Hi Hg H; cbn [deps_roots_g] in H.
    - injection H as <-. exact Hg.
    - destruct (deps_g (fuel_of g) g hid lim r 0 [r] sg) as [sg1|] eqn:E1; [|discriminate].
      eapply IH; [intros z Hz; apply Hi; right; exact Hz| |exact H].
      eapply deps_g_inv; [|exact Hg|exact E1].
      exists r, []. split; [reflexivity|]. split; [apply Hi; left; reflexivity|]. split; [reflexivity|]. split; [exact I | reflexivity].
  Qed.
End Indent.

(* the indentation of every printed line is (the cost of the target's first-reach path) - 1; every target is reached,
   logged and printed at most once *)
Theorem deps_indent_first_reach :
  forall g roots hid lim,
    exists done out log,
      deps_roots_g g hid lim roots (([], []), []) = Some ((done, out), log) /\
      deps_query g roots hid lim = Some out /\
      map fst log = done /\ NoDup done /\ NoDup (map snd out) /\
      forall lv l, In (lv, l) out -> exists p, In (l, p) log /\ reach_path g hid roots p l (lv + 1)%Z.
Proof.
  intros g roots hid lim.
  pose proof (deps_roots_g_erase g hid lim roots (([], []), [])) as He. cbn [fst] in He.
  destruct (deps_roots_g g hid lim roots (([], []), [])) as [[[done out] log]|] eqn:E; cbn [option_map] in He.
  2:{ exfalso. eapply deps_roots_total. symmetry. exact He. }
  exists done, out, log. split; [reflexivity|]. split; [unfold deps_query; rewrite <- He; reflexivity|].
  assert (H0 : ginv g hid roots (([], []), [])).
  { split; [reflexivity|]. split; [constructor|]. split; [intros z []|]. split; [constructor|]. split; [intros ? ? [] | intros ? ? []]. }
  destruct (deps_roots_g_inv g hid lim roots roots _ _ (incl_refl _) H0 E) as [G1 [G2 [_ [G4 [_ G6]]]]]. cbn [fst snd] in *.
  repeat split; assumption.
Qed.

(* the DESIGN.md witness: x (4) is printed at indentation 2 because it was first reached by root-a-m-x (cost 3),
   although root-b-x costs 2 *)
Example indent_witness :
  exists done log, deps_roots_g w_deps false (-1) [3%N] (([], []), []) =
    Some ((done, [(0%Z, 0%N); (1%Z, 2%N); (2%Z, 4%N); (3%Z, 5%N); (0%Z, 1%N)]), log)
    /\ In (4%N, [3; 0; 2; 4]%N) log /\ pcost w_deps false [3; 0; 2; 4]%N = 3%Z /\ pcost w_deps false [3; 1; 4]%N = 2%Z.
Proof. eexists. eexists. split; [vm_compute; reflexivity|]. split; [vm_compute; tauto|]. split; vm_compute; reflexivity. Qed.
