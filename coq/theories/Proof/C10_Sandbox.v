(* C10 follow-up - (a) when exactly the unchanged name=value framing of ruleHash can collide, and
   (b) the way from the environment MAP (core.BuildEnvironment) to the process the action runs in:
   ExecCommand / ExecWithTimeout / os/exec / `plz sandbox`. *)
From Coq Require Import String.
From PlzV Require Import Base.Harness Model.C10 Proof.C10.
From Coq Require Import Permutation Lia.

(* ------------------------------------------------------------------ (a) framing *)
Definition EQ : N := ch "=".
Definition no_eq (x : str) : Prop := contains_byte EQ x = false.

(* the bytes before the first "=" *)
Fixpoint before_eq (x : str) : str :=
  match x with
  | [] => []
  | c :: r => if N.eqb EQ c then [] else c :: before_eq r
  end.

Lemma before_eq_app x r : no_eq x -> before_eq (x ++ EQ :: r) = x.
Proof.
  unfold no_eq. induction x as [|c x IH]; cbn [contains_byte before_eq app]; intros H.
  - now rewrite N.eqb_refl.
  - apply orb_false_iff in H as [Hc Hx]. rewrite Hc. now rewrite (IH Hx).
Qed.

Lemma no_eq_app a b : no_eq a -> no_eq b -> no_eq (a ++ b).
Proof. unfold no_eq; intros Ha Hb. rewrite contains_byte_app, Ha, Hb. reflexivity. Qed.

Lemma s_eq : s "=" = [EQ].
Proof. reflexivity. Qed.

Lemma kv_stream_cons g n ns : kv_stream g (n :: ns) = n ++ EQ :: g n ++ kv_stream g ns.
Proof. unfold kv_stream; cbn [map concat]. rewrite s_eq. now rewrite <- !app_assoc. Qed.

(* Without an "=" inside a name or a value the unchanged framing is injective: equal streams, equal values.
   (So every collision of the known class pass-env-unframed-collision needs a value that contains "=".) *)
Lemma kv_stream_inj_no_eq g1 g2 names :
  (forall n, In n names -> no_eq n /\ no_eq (g1 n) /\ no_eq (g2 n)) ->
  kv_stream g1 names = kv_stream g2 names ->
  forall n, In n names -> g1 n = g2 n.
Proof.
  induction names as [|m ns IH]; intros Hne Heq n Hin; [destruct Hin|].
  rewrite !kv_stream_cons in Heq. apply app_inv_head in Heq. injection Heq as Heq.
  assert (Hm : g1 m = g2 m /\ kv_stream g1 ns = kv_stream g2 ns).
  { destruct (Hne m (or_introl eq_refl)) as (_ & H1 & H2).
    destruct ns as [|m2 ms].
    - unfold kv_stream in Heq; cbn [map concat] in Heq. rewrite !app_nil_r in Heq. now split.
    - rewrite !kv_stream_cons in Heq.
      destruct (Hne m2 (or_intror (or_introl eq_refl))) as (Hn2 & _ & _).
      assert (Hb : g1 m ++ m2 = g2 m ++ m2).
      { rewrite <- (before_eq_app (g1 m ++ m2) (g1 m2 ++ kv_stream g1 ms)) by now apply no_eq_app.
        rewrite <- (before_eq_app (g2 m ++ m2) (g2 m2 ++ kv_stream g2 ms)) by now apply no_eq_app.
        rewrite <- !app_assoc. now rewrite Heq. }
      apply app_inv_tail in Hb. split; [exact Hb|].
      rewrite !kv_stream_cons. rewrite Hb in Heq. now apply app_inv_head in Heq. }
  destruct Hm as [Hm Hrest]. destruct Hin as [<-|Hin]; [exact Hm|].
  apply IH; auto. intros k Hk; apply Hne; now right.
Qed.

Lemma rule_stream_injective_no_eq t pre post c1 c2 :
  (forall n, In n (opt_list (t_pass_env t)) -> no_eq n /\ no_eq (getenv c1 n) /\ no_eq (getenv c2 n)) ->
  rule_stream pre post t c1 = rule_stream pre post t c2 ->
  forall n, In n (opt_list (t_pass_env t)) -> getenv c1 n = getenv c2 n.
Proof.
  intros Hne Heq. unfold rule_stream in Heq. apply app_inv_head in Heq. apply app_inv_tail in Heq.
  rewrite !pass_env_stream_kv in Heq. exact (kv_stream_inj_no_eq _ _ _ Hne Heq).
Qed.

(* the seeded shape: without the "=" the pair VER=1V2,V="" / VER=1,V=2V would collide; the unchanged framing separates it *)
Example framing_separates_seeded_pair :
  let t := simple_target (Some [s "VER"; s "V"]) [] in
  let c1 := [(s "VER", s "1V2"); (s "V", [])] in
  let c2 := [(s "VER", s "1"); (s "V", s "2V")] in
  concat (map (fun n => n ++ getenv c1 n) [s "VER"; s "V"]) = concat (map (fun n => n ++ getenv c2 n) [s "VER"; s "V"])
  /\ rule_stream [] [] t c1 <> rule_stream [] [] t c2.
Proof. vm_compute. split; [reflexivity|discriminate]. Qed.

(* ------------------------------------------------------------------ (b) from the map to the process *)
Lemma set_nonempty k v m : set k v m <> [].
Proof. destruct m as [|[k' w] r]; cbn [set]; [discriminate|]. destruct (str_eqb k k'); discriminate. Qed.

Lemma fold_left_inv {A B} (P : A -> Prop) (f : A -> B -> A) l :
  (forall a b, P a -> P (f a b)) -> forall a, P a -> P (fold_left f l a).
Proof. intros Hf. induction l as [|b l IH]; intros a Ha; cbn [fold_left]; auto. Qed.

Definition nonempty (e : env) : Prop := e <> [].

Lemma build_env_sb_nonempty sx cfg t tmp c : build_env_sb sx cfg t tmp c <> [].
Proof.
  unfold build_env_sb, with_user_env.
  apply (fold_left_inv nonempty); [intros a b _; apply set_nonempty|].
  assert (Hf : forall {B} (k : B -> str) (v : B -> str) l e, nonempty e ->
            nonempty (fold_left (fun a kv => set (k kv) (v kv) a) l e)).
  { intros B k v l e He. apply (fold_left_inv nonempty); [intros; apply set_nonempty|exact He]. }
  destruct (sb_target sx && negb (is_nil (sb_dirs sx)))%bool; [apply set_nonempty|].
  apply (Hf _ (fun kv => s "SECRETS_" ++ to_upper (fst kv)) (fun kv => secrets_value c (snd kv))).
  destruct (t_secrets t); [|apply set_nonempty].
  destruct (t_tools t) as [|x [|y r]]; try apply set_nonempty.
Qed.

Lemma cmd_env_nonempty mode uid net mount e : e <> [] -> cmd_env mode uid net mount e <> [].
Proof. unfold cmd_env. intros He H. apply app_eq_nil in H as [_ H]. exact (He H). Qed.

(* a non-empty cmd.Env cuts the process off from the parent's environment *)
Lemma child_env_indep c1 c2 d1 d2 l : l <> [] -> child_env c1 d1 l = child_env c2 d2 l.
Proof. destruct l; [intros H; now destruct H|reflexivity]. Qed.

Lemma action_env_indep mode uid net mount c1 c2 d1 d2 e :
  e <> [] -> action_env mode uid net mount c1 d1 e = action_env mode uid net mount c2 d2 e.
Proof.
  intros He. unfold action_env.
  now rewrite (child_env_indep c1 c2 d1 d2 _ (cmd_env_nonempty mode uid net mount e He)).
Qed.

(* The environment of the action's PROCESS - sandboxed by the built-in sandbox, by an external tool, or not at all -
   is determined by configuration, target and the listed caller variables. *)
Lemma action_env_determined mode uid net mount sx cfg t tmp c1 c2 e1 e2 :
  NoDup (map fst (t_env t)) -> Permutation e1 (t_env t) -> Permutation e2 (t_env t) -> agree c1 c2 (reads cfg t) ->
  action_env mode uid net mount c1 tmp (build_env_sb sx cfg (with_env t e1) tmp c1)
  = action_env mode uid net mount c2 tmp (build_env_sb sx cfg (with_env t e2) tmp c2).
Proof.
  intros Hnd P1 P2 Ha.
  rewrite (determined_sb sx cfg t tmp c1 c2 e1 e2 Hnd P1 P2 Ha).
  apply action_env_indep, build_env_sb_nonempty.
Qed.

(* ---- what the process sees: the last entry of the given list, else the fixed sandbox entry; never the caller *)
Definition entry_of (k : str) (l : env) : option str := lookup k (rev l).

Lemma lookup_app k a b : lookup k (a ++ b) = match lookup k a with Some v => Some v | None => lookup k b end.
Proof.
  induction a as [|[k' v] a IH]; cbn [app lookup]; [reflexivity|]. destruct (str_eqb k k'); [reflexivity|exact IH].
Qed.

Lemma lookup_add k l : forall m,
  lookup k (add m l) = match entry_of k l with Some v => Some v | None => lookup k m end.
Proof.
  unfold add, entry_of. induction l as [|[k' v] l IH]; intros m; cbn [fold_left rev]; [reflexivity|].
  rewrite IH. cbn [fst snd]. rewrite lookup_app. destruct (lookup k (rev l)); [reflexivity|].
  cbn [lookup]. rewrite lookup_set. destruct (str_eqb k k'); reflexivity.
Qed.

Lemma entry_of_app k a b : entry_of k (a ++ b) = match entry_of k b with Some v => Some v | None => entry_of k a end.
Proof. unfold entry_of. rewrite rev_app_distr. apply lookup_app. Qed.

Lemma lookup_map_values (f : str -> str) k e :
  lookup k (map (fun kv => (fst kv, f (snd kv))) e) = option_map f (lookup k e).
Proof.
  induction e as [|[k' v] e IH]; cbn [map lookup fst snd]; [reflexivity|]. destruct (str_eqb k k'); [reflexivity|exact IH].
Qed.

Lemma child_env_lookup caller dir l k : l <> [] -> lookup k (child_env caller dir l) = entry_of k l.
Proof.
  intros Hl. destruct l as [|x l]; [now destruct Hl|]. unfold child_env, dedup. rewrite lookup_add.
  cbn [lookup]. now destruct (entry_of k (x :: l)).
Qed.

Lemma sandbox_process_lookup e a :
  sandbox_process e = Some a -> exists f : str -> str, forall k, lookup k a = option_map f (lookup k e).
Proof.
  unfold sandbox_process. destruct (opt_str_eqb_early _ _).
  - intros [= <-]. exists (fun v => v). intros k. now destruct (lookup k e).
  - destruct (lookup (s "TMP_DIR") e) as [[|c d]|]; try discriminate.
    destruct (has_prefix (s "/tmp") (c :: d)); [discriminate|]. intros [= <-].
    exists (replace_all (c :: d) SANDBOX_DIR). intros k.
    exact (lookup_map_values (replace_all (c :: d) SANDBOX_DIR) k e).
Qed.

Lemma action_env_lookup mode uid net mount caller dir e a :
  e <> [] -> action_env mode uid net mount caller dir e = Some a ->
  exists f : str -> str, forall k,
    lookup k a = option_map f (match entry_of k e with Some v => Some v
                                                  | None => entry_of k (exec_preset mode uid net mount) end).
Proof.
  intros He. unfold action_env.
  assert (Hc : forall k, lookup k (child_env caller dir (cmd_env mode uid net mount e))
                         = match entry_of k e with Some v => Some v | None => entry_of k (exec_preset mode uid net mount) end).
  { intros k. rewrite child_env_lookup by now apply cmd_env_nonempty. unfold cmd_env. apply entry_of_app. }
  destruct mode.
  - intros [= <-]. exists (fun v => v). intros k. rewrite Hc. now destruct (entry_of k e).
  - intros H. destruct (sandbox_process_lookup _ _ H) as [f Hf]. exists f. intros k. now rewrite Hf, Hc.
  - intros [= <-]. exists (fun v => v). intros k. rewrite Hc.
    destruct (entry_of k e); [reflexivity|]. now destruct (entry_of k (exec_preset SbTool uid net mount)).
Qed.

Lemma entry_of_in k l v : entry_of k l = Some v -> In k (map fst l).
Proof.
  unfold entry_of. intros H. apply lookup_some_in_keys in H. rewrite map_rev in H. now apply in_rev in H.
Qed.

(* no variable is visible to the action's process that is neither a key of the environment map nor one of the (at most
   three) fixed sandbox control variables *)
Lemma action_env_keys mode uid net mount caller dir e a k v :
  e <> [] -> action_env mode uid net mount caller dir e = Some a -> lookup k a = Some v ->
  In k (map fst e) \/ In k (map fst (exec_preset mode uid net mount)).
Proof.
  intros He Ha Hk. destruct (action_env_lookup _ _ _ _ _ _ _ _ He Ha) as [f Hf]. rewrite Hf in Hk.
  destruct (entry_of k e) eqn:E1; [left; exact (entry_of_in _ _ _ E1)|].
  destruct (entry_of k (exec_preset mode uid net mount)) eqn:E2; [right; exact (entry_of_in _ _ _ E2)|discriminate].
Qed.

(* Were cmd.Env seeded with the parent's environment (the shape of the seeded mutation), the statement would be false:
   the model of THAT code lets an unlisted variable through. *)
Example seeded_parent_env_leaks :
  let e := [(s "TMP_DIR", s "/r/t"); (s "NAME", s "t")] in
  let caller := [(s "CI_JOB_TOKEN", s "hunter2")] in
  (exists a, action_env SbBuiltin (s "0") true true caller (s "/r/t") e = Some a /\ lookup (s "CI_JOB_TOKEN") a = None
             /\ lookup (s "TMP_DIR") a = Some SANDBOX_DIR /\ lookup (s "SHARE_MOUNT") a = Some (s "0"))
  /\ (exists a, sandbox_process (child_env [] (s "/r/t") (caller ++ cmd_env SbBuiltin (s "0") true true e)) = Some a
             /\ lookup (s "CI_JOB_TOKEN") a = Some (s "hunter2")).
Proof. split; eexists; vm_compute; repeat split; reflexivity. Qed.

(* an empty list is NOT hermetic (os/exec inherits, and adds PWD): the hypothesis e <> [] is needed, and holds for every build *)
Example empty_env_inherits :
  action_env SbNone [] false false [(s "LEAK", s "x")] (s "/d") [] = Some [(s "LEAK", s "x"); (s "PWD", s "/d")].
Proof. reflexivity. Qed.
