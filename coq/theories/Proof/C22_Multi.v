(* C22 - proofs about (1) several labels on one command line (findOriginalTaskSet) and (2) the breadth-first
   search of query.containsPackage (completion of `//dir/`), both against Proof/C22_Spec.v. *)
From Coq Require Import String.
From PlzV Require Import Base.Harness Base.StrFacts Model.C22 Proof.C22_Spec Proof.C22.
From PlzV Require Gen.FindBuildFiles.
From Coq Require Import Lia Permutation.

(* ------------------------------------------------------------------------------------------------ *)
(* the translated statements are the ones the model interprets *)

Lemma task_set_shape : task_set_ok = true.                                   Proof. reflexivity. Qed.
Lemma on_excluded_continue : on_excluded = RContinue.                        Proof. reflexivity. Qed.
Lemma lit_all_name : s FindBuildFiles.all_targets_name = s "all".            Proof. reflexivity. Qed.

(* ------------------------------------------------------------------------------------------------ *)
(* (1) findOriginalTaskSet: the labels added are exactly the union, over the labels of the command line, of what
   each stands for - whatever their number, order, nesting or shared name prefixes *)

Lemma original_task_exact cfg st : cfg_ok cfg -> starget_ok st ->
  exists out, original_task cfg (to_target st) = Some out /\ forall l, In l out <-> lists cfg st l.
Proof.
  intros Hc Hok. destruct st as [root kids|pkg name]; cbn [to_target original_task lists].
  - destruct Hok as [Hv Hwf]. destruct (expand_exact cfg root kids Hc Hv Hwf) as (pkgs & -> & Hp).
    eexists. split; [reflexivity|]. intros [p n]. cbn [fst snd]. rewrite lit_all_name. split.
    + intros H. apply in_map_iff in H as (p' & E & Hin). injection E as <- <-. split; [reflexivity|].
      now apply Hp.
    + intros [-> H]. apply in_map_iff. exists p. split; [reflexivity|]. now apply Hp.
  - eexists. split; [reflexivity|]. intros l. cbn [In]. split; [now intros [<-|[]]|now left].
Qed.

Lemma task_loop_exact cfg sts : cfg_ok cfg -> Forall starget_ok sts ->
  exists out, task_loop cfg (map to_target sts) = Some out
              /\ forall l, In l out <-> exists st, In st sts /\ lists cfg st l.
Proof.
  intros Hc Hok. induction Hok as [|st sts Hst _ IH].
  - exists []. split; [reflexivity|]. intros l. split; [intros []|now intros (st & [] & _)].
  - destruct IH as (b & Eb & Hb). destruct (original_task_exact cfg st Hc Hst) as (a & Ea & Ha).
    exists (a ++ b). cbn [map task_loop]. rewrite Ea, Eb. split; [reflexivity|].
    intros l. rewrite in_app_iff, Ha, Hb. split.
    + intros [H|(st' & Hin & H)]; [exists st; split; [now left|exact H]|exists st'; split; [now right|exact H]].
    + intros (st' & [<-|Hin] & H); [now left|right; now exists st'].
Qed.

Theorem task_set_exact cfg sts : cfg_ok cfg -> Forall starget_ok sts ->
  exists out, original_task_set cfg (map to_target sts) = Some out
              /\ forall l, In l out <-> exists st, In st sts /\ lists cfg st l.
Proof.
  intros Hc Hok. unfold original_task_set. rewrite task_set_shape. now apply task_loop_exact.
Qed.

(* the order of the labels on the command line is irrelevant for the set of labels added *)
Corollary task_set_order_irrelevant cfg sts sts' out out' :
  cfg_ok cfg -> Forall starget_ok sts -> Permutation sts sts' ->
  original_task_set cfg (map to_target sts) = Some out ->
  original_task_set cfg (map to_target sts') = Some out' ->
  forall l, In l out <-> In l out'.
Proof.
  intros Hc Hok Hp E E' l.
  assert (Hok' : Forall starget_ok sts').
  { rewrite Forall_forall in *. intros x Hx. apply Hok. eapply Permutation_in; [apply Permutation_sym; exact Hp|exact Hx]. }
  destruct (task_set_exact cfg sts Hc Hok) as (o & Eo & Ho). destruct (task_set_exact cfg sts' Hc Hok') as (o' & Eo' & Ho').
  rewrite E in Eo. rewrite E' in Eo'. injection Eo as <-. injection Eo' as <-. rewrite Ho, Ho'. split.
  - intros (st & Hin & H). exists st. split; [eapply Permutation_in; eassumption|exact H].
  - intros (st & Hin & H). exists st. split; [eapply Permutation_in; [apply Permutation_sym; exact Hp|exact Hin]|exact H].
Qed.

(* ------------------------------------------------------------------------------------------------ *)
(* (2) containsPackage: the breadth-first search with a work queue against the order-free reading *)

Fixpoint kids_size (l : list (str * node)) : nat :=
  match l with [] => O | nc :: r => node_size (snd nc) + kids_size r end.

Lemma node_size_dir cs : node_size (Dir cs) = S (kids_size cs).
Proof.
  induction cs as [|nc r IH]; [reflexivity|].
  change (node_size (Dir (nc :: r))) with (S (node_size (snd nc) + pred (node_size (Dir r)))).
  rewrite IH. reflexivity.
Qed.

Lemma node_size_pos n : 1 <= node_size n.
Proof. destruct n; [cbn; lia|rewrite node_size_dir; lia]. Qed.

Lemma kids_size_app a b : kids_size (a ++ b) = kids_size a + kids_size b.
Proof. induction a as [|x a IH]; cbn [app kids_size]; [reflexivity|rewrite IH; lia]. Qed.

Lemma kids_size_insert x l : kids_size (insert_by x l) = node_size (snd x) + kids_size l.
Proof.
  induction l as [|y r IH]; cbn [insert_by kids_size]; [reflexivity|].
  destruct (str_ltb (fst y) (fst x)); cbn [kids_size]; [rewrite IH|]; lia.
Qed.

Lemma kids_size_sort l : kids_size (sort_by l) = kids_size l.
Proof. induction l as [|x r IH]; cbn [sort_by kids_size]; [reflexivity|]. now rewrite kids_size_insert, IH. Qed.

Lemma existsb_sort_by {A} (f : str * A -> bool) l : existsb f (sort_by l) = existsb f l.
Proof.
  apply Bool.eq_iff_eq_true. rewrite !existsb_exists.
  split; intros (x & Hx & Hf); exists x; (split; [|exact Hf]); now apply sort_by_in.
Qed.

(* the sub-directories appended to the queue by one directory *)
Fixpoint cp_children (dir : str) (es : list (str * node)) : list (str * node) :=
  match es with
  | [] => []
  | (n, c) :: r => match c with
                   | Dir _ => (join dir n, c) :: cp_children dir r
                   | File _ => cp_children dir r
                   end
  end.

Definition is_dir_entry (dn : str * node) : bool := match snd dn with Dir _ => true | File _ => false end.

Lemma cp_entries_eq cfg dir es : forall q,
  cp_entries cfg dir es q =
  if existsb (fun nc => is_build_file cfg (fst nc)) es then None else Some (q ++ cp_children dir es).
Proof.
  induction es as [|[n c] r IH]; intros q; cbn [cp_entries existsb cp_children fst].
  - now rewrite app_nil_r.
  - destruct (is_build_file cfg n); [reflexivity|]. cbn [orb]. rewrite IH.
    destruct (existsb _ r); [reflexivity|]. destruct c; [reflexivity|]. now rewrite <- app_assoc.
Qed.

Lemma cp_children_size dir es : kids_size (cp_children dir es) <= kids_size es.
Proof.
  induction es as [|[n c] r IH]; cbn [cp_children kids_size snd]; [lia|].
  destruct c; cbn [kids_size snd]; [pose proof (node_size_pos (File k))|]; lia.
Qed.

Lemma cp_children_dirs dir es : forallb is_dir_entry (cp_children dir es) = true.
Proof. induction es as [|[n c] r IH]; [reflexivity|]. cbn [cp_children]. destruct c; [exact IH|]. cbn. exact IH. Qed.

Lemma cp_children_spec cfg dir es :
  existsb (fun dn => cp_spec cfg (fst dn) (snd dn)) (cp_children dir es)
  = existsb (fun nc => cp_spec cfg (join dir (fst nc)) (snd nc)) es.
Proof.
  induction es as [|[n c] r IH]; [reflexivity|]. cbn [cp_children existsb fst snd].
  destruct c; [cbn [cp_spec orb]; exact IH|]. cbn [existsb fst snd]. now rewrite IH.
Qed.

Lemma cp_spec_dir cfg dir cs :
  cp_spec cfg dir (Dir cs) = negb (is_excluded cfg dir)
                             && (existsb (fun nc => is_build_file cfg (fst nc)) cs
                                 || existsb (fun nc => cp_spec cfg (join dir (fst nc)) (snd nc)) cs).
Proof. reflexivity. Qed.

(* Invariant of the search: whatever is on the queue (directories only, total size below the fuel), the search
   answers whether SOME queued directory satisfies the order-free reading.  Induction over the fuel; every step
   removes the head and adds its sub-directories, so the total size of the queue strictly decreases. *)
Theorem cp_bfs_exact cfg : forall fuel q,
  forallb is_dir_entry q = true -> kids_size q < fuel ->
  cp_bfs RContinue cfg fuel q = Some (existsb (fun dn => cp_spec cfg (fst dn) (snd dn)) q).
Proof.
  induction fuel as [|fuel IH]; intros q Hd Hs; [lia|].
  destruct q as [|[dir n] q']; [reflexivity|].
  cbn [forallb] in Hd. apply andb_true_iff in Hd as [Hn Hd]. unfold is_dir_entry in Hn. cbn [snd] in Hn.
  destruct n as [k|cs]; [discriminate|].
  cbn [kids_size snd] in Hs. rewrite node_size_dir in Hs.
  cbn [cp_bfs existsb fst snd]. rewrite cp_spec_dir.
  destruct (is_excluded cfg dir).
  - cbn [negb andb orb]. apply IH; [exact Hd|lia].
  - cbn [negb andb]. rewrite cp_entries_eq, existsb_sort_by.
    destruct (existsb (fun nc => is_build_file cfg (fst nc)) cs); [reflexivity|]. cbn [orb].
    rewrite IH.
    + rewrite existsb_app, cp_children_spec, existsb_sort_by. now rewrite orb_comm.
    + rewrite forallb_app, Hd. apply cp_children_dirs.
    + rewrite kids_size_app. pose proof (cp_children_size dir (sort_by cs)) as H. rewrite kids_size_sort in H. lia.
Qed.

Lemma prefix_step (P : list str -> Prop) cs n chain :
  P cs -> (forall pre suf, chain = pre ++ suf -> P ((cs ++ [n]) ++ pre)) ->
  forall pre suf, n :: chain = pre ++ suf -> P (cs ++ pre).
Proof.
  intros H0 H pre suf E. destruct pre as [|m pre].
  - now rewrite app_nil_r.
  - cbn [app] in E. injection E as <- E. specialize (H pre suf E). now rewrite <- app_assoc in H.
Qed.

(* the order-free reading against the declarative one (structural induction over the tree) *)
Lemma cp_spec_reach cfg : forall t root kids, t = Dir kids -> valid_path root -> wf t = true ->
  (cp_spec cfg (path_str root) t = true <-> cp_reach cfg root t).
Proof.
  induction t as [k|kids0 IH] using node_ind'; intros root kids E Hv Hwf; [discriminate|].
  injection E as ->. rewrite Forall_forall in IH. rewrite cp_spec_dir. split.
  - intros H. apply andb_true_iff in H as [Hex H]. apply negb_true_iff in Hex.
    apply orb_true_iff in H as [H|H]; apply existsb_exists in H as ([n c] & Hin & H); cbn [fst snd] in H.
    + exists [], kids, n, c. repeat split; try assumption; [constructor|].
      intros pre suf E. destruct pre; [now rewrite app_nil_r|discriminate].
    + destruct c as [k|kids']; [discriminate|].
      destruct (wf_dir_inv _ _ _ Hwf Hin) as [Hn Hwc]. pose proof (valid_path_snoc root n Hv Hn) as Hv'.
      rewrite join_path_str in H by exact Hv.
      apply (IH (n, Dir kids') Hin (root ++ [n]) kids' eq_refl Hv' Hwc) in H.
      destruct H as (chain & kids2 & b & c & Hat & Hb & Hbf & Hpre).
      exists (n :: chain), kids2, b, c. repeat split; try assumption; [econstructor; eassumption|].
      now apply (prefix_step (fun cs => is_excluded cfg (path_str cs) = false)).
  - intros (chain & kids2 & b & c & Hat & Hb & Hbf & Hpre).
    assert (Hex : is_excluded cfg (path_str root) = false).
    { specialize (Hpre [] chain eq_refl). now rewrite app_nil_r in Hpre. }
    rewrite Hex. cbn [negb andb]. apply orb_true_iff.
    inversion Hat as [|kids1 n c0 rest t' Hin Hat']; subst.
    + left. apply existsb_exists. exists (b, c). split; [exact Hb|exact Hbf].
    + right. destruct c0 as [k0|kids']; [now apply at_path_file in Hat'|].
      destruct (wf_dir_inv _ _ _ Hwf Hin) as [Hn Hwc]. pose proof (valid_path_snoc root n Hv Hn) as Hv'.
      apply existsb_exists. exists (n, Dir kids'). split; [exact Hin|]. cbn [fst snd].
      rewrite join_path_str by exact Hv.
      apply (IH (n, Dir kids') Hin (root ++ [n]) kids' eq_refl Hv' Hwc).
      exists rest, kids2, b, c. repeat split; try assumption.
      intros pre suf E. specialize (Hpre (n :: pre) suf). cbn [app] in Hpre. rewrite E in Hpre.
      specialize (Hpre eq_refl). now rewrite <- app_assoc.
Qed.

(* containsPackage terminates (the fuel suffices) and says yes exactly when a BUILD-named entry is reachable
   through directories that are not isExcluded - independently of the order in which the queue is served *)
Theorem contains_package_exact cfg root kids : valid_path root -> wf (Dir kids) = true ->
  exists b, contains_package cfg (path_str root) (Dir kids) = Some b
            /\ (b = true <-> cp_reach cfg root (Dir kids)).
Proof.
  intros Hv Hwf. unfold contains_package. rewrite on_excluded_continue, cp_bfs_exact.
  - eexists. split; [reflexivity|]. cbn [existsb fst snd]. rewrite orb_false_r.
    now apply (cp_spec_reach cfg (Dir kids) root kids eq_refl Hv Hwf).
  - reflexivity.
  - cbn [kids_size snd]. lia.
Qed.

(* the link with the expansion: a directory whose `...` expansion lists at least one package is never hidden
   by the completion of `//dir/` *)
Theorem completion_covers_expansion cfg root kids : cfg_ok cfg -> valid_path root -> wf (Dir kids) = true ->
  (exists chain, is_package cfg root (Dir kids) chain) ->
  contains_package cfg (path_str root) (Dir kids) = Some true.
Proof.
  intros Hc Hv Hwf (chain & kids2 & Hat & (b & k & Hb & Hbf) & Hpre).
  destruct (contains_package_exact cfg root kids Hv Hwf) as (r & E & Hr). rewrite E. f_equal. apply Hr.
  exists chain, kids2, b, (File k). repeat split; try assumption.
  intros pre suf Ech. specialize (Hpre pre suf Ech).
  destruct (is_excluded cfg (path_str (root ++ pre))) eqn:Hex; [|reflexivity].
  destruct (at_path_valid _ _ _ Hwf Hat) as [Hvc _]. rewrite Ech in Hvc. apply Forall_app in Hvc as [Hvp _].
  rewrite (is_excluded_sound cfg (root ++ pre) Hc (valid_path_app _ _ Hv Hvp) Hex) in Hpre. discriminate.
Qed.
