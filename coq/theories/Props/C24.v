(* C24 - Change detection never misses an affected target.
   This file holds only the statement, the property theorems and their non-vacuity examples.
   Vocabulary (Proof/C24.v), all written against the graph, not against the code:
     consumes t f      one of t's sources / data entries is the file f or a directory above f;
     owned g t f       f is a repository-relative path and t's package is its closest enclosing package
                       (closest = the deepest directory of f that is a package, the root last);
     direct g files t  t is a target of g that consumes and owns one of the files;
     def_changed       the target does not exist before, or its rule hash / out-of-repo tool paths differ,
                       or the configuration hash differs;
     depends sub g u l u has a declared dependency that the build resolves (require/provide) to l, or u lives
                       in a subrepo defined by l, or (sub = true) u's package subincludes l;
     affected g E base the labels reachable from a base label over reverse E-edges;
     shown g incsub l  l passes the include/exclude labels and the subrepo filter of the query;
     complete ... rep  every base label, and with level -1 every affected label, that is shown is in rep.
   Vocabulary for the level-limited report (Proof/C24_Level.v):
     steps g E base k x       x is reached from a base label by exactly k reverse E-edges between targets of g;
     within level k           k = 0, or level = -1, or k <= level  (levels below -1 behave like 0);
     complete_within ... rep  every shown x with steps ... k x for some k within the level is in rep;
     exact_within ... ch rep  x is in rep IF AND ONLY IF it is shown and steps ... k x from a label of ch, k within the level;
     ch_files / ch_diff       the set changedTargets starts from (file consumers found by the package loop;
                              plus, in the before/after form, the targets diffGraphs marks);
     walk, dist_is, bfs_pops, bfs_states, sorted_q   the breadth-first search of findRevdeps (see below).
   Vocabulary for `plz query changes --since REV` end to end (Model/C24.v, Proof/C24_Since.v):
     snapshot                 a revision as the query sees it: configuration hash and build graph;
     repo, repo_of b0 s0 ops  a git repository (linear history of snapshots, branches, HEAD on a branch or detached)
                              and the one that `git init`, a first commit and the operations ops produce;
     resolve r x              the commit a revision argument (HEAD, HEAD~k, a branch, a commit) names;
     since_query first fallback prog r since files level incsub
                              one run of the exact-mode program prog (the statements of "query.changes" in
                              src/please.go) with CurrentRevIdentifier running `first`, else `fallback`: what it
                              prints and the repository it leaves behind;
     gen_since_program        the program and the two git commands as gotrans reads them from the source;
     state_changed sb sa a    target a of the newer revision is new, or its rule hash / tool paths differ, or the
                              configuration hash of the two revisions differs;  cfg_differs sb sa. *)
From Coq Require Import Sorted.
From PlzV Require Import Base.Harness Model.C24 Proof.C24 Proof.C24_Gen Proof.C24_Level Proof.C24_Since.

(* `plz query changes <files>`: nothing affected is missed *)
Definition C24_files : Prop :=
  forall g files level incsub,
    exists rep, changes g files level incsub = Some rep
      /\ (forall l, (exists t, direct g files t /\ t_id t = l) -> shown g incsub l = true -> In l rep)
      /\ (level = (-1)%Z ->
          forall x, affected g (depends true g) (fun l => exists t, direct g files t /\ t_id t = l) x ->
                    shown g incsub x = true -> In x rep).

(* `plz query changes --since`: before/after graphs plus the changed files *)
Definition C24_diff : Prop :=
  forall cfg before after files level incsub,
    exists rep, diff_changes cfg before after files level incsub = Some rep
      /\ (forall l, ((exists a, In a (g_targets after) /\ def_changed cfg before a /\ t_id a = l)
                     \/ (exists t, direct after files t /\ t_id t = l)) ->
                    shown after incsub l = true -> In l rep)
      /\ (level = (-1)%Z ->
          forall x, affected after (depends false after)
                      (fun l => (exists a, In a (g_targets after) /\ def_changed cfg before a /\ t_id a = l)
                                \/ (exists t, direct after files t /\ t_id t = l)) x ->
                    shown after incsub x = true -> In x rep).

Definition C24_statement : Prop := C24_files /\ C24_diff.

(* The unchanged code violates both conjuncts.  Files only: the targets of a package that subincludes a
   changed target are not reported (FindRevdeps is called with followSubincludes = false) ... *)
Theorem C24_refuted : ~ C24_statement.
Proof. intros [H _]. exact (files_claim_refuted H). Qed.
Print Assumptions C24_refuted.

(* ... and, in both forms, without --include_subrepos a host target that depends on a target of a subrepo is
   not reported when the target defining the subrepo changes. *)
Theorem C24_diff_refuted : ~ C24_diff.
Proof. exact diff_claim_refuted. Qed.
Print Assumptions C24_diff_refuted.

(* What holds, for ALL graphs, file lists, levels and flags (no bound):
   (1,2) both forms never run out of fuel, report every directly affected target (every consumer of a changed
         file whose package owns it; every target that is new or whose definition / configuration changed) and,
         with level -1, everything that depends on one over the edges the query records (code_dep: resolved
         declared dependencies, and the subrepo edge when --include_subrepos is given);
   (3,4) hence the full statement on every input outside the two defect classes (executable classifier);
   (5)   the package loop of changedTargets finds exactly the closest enclosing package. *)
Definition C24_partial_statement : Prop :=
  files_claim code_dep
  /\ diff_claim code_dep
  /\ (forall g files level incsub, defect_class true g incsub = None ->
        exists rep, changes g files level incsub = Some rep
                    /\ complete g incsub level (depends true g) (base_files g files) rep)
  /\ (forall cfg before after files level incsub, defect_class false after incsub = None ->
        exists rep, diff_changes cfg before after files level incsub = Some rep
                    /\ complete after incsub level (depends false after) (base_diff cfg before after files) rep)
  /\ (forall g segs, segs <> [] -> Forall wf_seg segs -> owner g (join segs) = closest (g_pkgs g) segs).

Theorem C24_partial : C24_partial_statement.
Proof.
  exact (conj files_claim_code (conj diff_claim_code (conj files_claim_class (conj diff_claim_class owner_closest)))).
Qed.
Print Assumptions C24_partial.

(* Non-vacuity (graph e_g of Proof/C24.v).  //a:lib (lib.go, directory res), //a/b:bin -> //a:lib,
   //a/b:test -> //a/b:bin; the file a/res/img/x.png lies under a directory source, its closest package is a
   (a/res and a/res/img are no packages); e_g0 is the graph before //a/b:bin was edited and //a/b:test added.
   The hypotheses of the theorems hold and the reported sets are the expected non-empty ones. *)
Example C24_nonvacuous :
  direct e_g [s "a/res/img/x.png"] e_lib
  /\ defect_class true e_g false = None
  /\ affected e_g (depends true e_g) (base_files e_g [s "a/res/img/x.png"]) 2%N
  /\ changes e_g [s "a/res/img/x.png"] 0 false = Some [0%N]
  /\ changes e_g [s "a/res/img/x.png"] (-1) false = Some [0; 1; 2]%N
  /\ changes e_g [s "a/b/res/img/x.png"] (-1) false = Some []
  /\ def_changed false e_g0 e_bin /\ def_changed false e_g0 e_tst
  /\ diff_changes false e_g0 e_g [] 0 false = Some [1; 2]%N
  /\ closest (g_pkgs e_g) [s "a"; s "res"; s "img"; s "x.png"] = Some (s "a")
  /\ closest (g_pkgs e_g) [s "a"; s "b"; s "res"; s "x.png"] = Some (s "a/b").
Proof.
  split; [exact e_direct|]. split; [reflexivity|]. split; [exact e_affected|].
  split; [vm_compute; reflexivity|]. split; [vm_compute; reflexivity|]. split; [vm_compute; reflexivity|].
  split; [right; left; eexists; split; [reflexivity | left; discriminate]|].
  split; [left; reflexivity|].
  split; [vm_compute; reflexivity|]. split; vm_compute; reflexivity.
Qed.

(* The defect classes are inhabited: the two witnesses are classified, and the code's answers on them. *)
Example C24_witnesses :
  defect_class true w_incl false = Some 2%N
  /\ changes w_incl [s "defs/rules.build_defs"] (-1) false = Some [0%N]
  /\ defect_class true w_subrepo false = Some 1%N
  /\ changes w_subrepo [s "third_party/sr.patch"] (-1) false = Some [2%N]
  /\ defect_class true w_subrepo true = None
  /\ changes w_subrepo [s "third_party/sr.patch"] (-1) true = Some [2; 0; 1]%N.
Proof. vm_compute. repeat split. Qed.

(* ------------------------------------------------------------------------------------------------------------- *)
(* `plz query changes --level N`: every target within N reverse-dependency steps of a directly affected target is
   reported (N = -1: all of them), in both forms of the query. *)
Definition C24_level_statement : Prop :=
  (forall g files level incsub,
     exists rep, changes g files level incsub = Some rep
       /\ forall k x, within level k -> steps g (depends true g) (fun l => exists t, direct g files t /\ t_id t = l) k x ->
                      shown g incsub x = true -> In x rep)
  /\ (forall cfg before after files level incsub,
       exists rep, diff_changes cfg before after files level incsub = Some rep
         /\ forall k x, within level k ->
               steps after (depends false after)
                 (fun l => (exists a, In a (g_targets after) /\ def_changed cfg before a /\ t_id a = l)
                           \/ (exists t, direct after files t /\ t_id t = l)) k x ->
               shown after incsub x = true -> In x rep).

(* The two defect classes refute it already at level 1 (subincluding package) and level 2 (subrepo edge). *)
Theorem C24_level_refuted : ~ C24_level_statement.
Proof. intros [H _]. exact (level_files_claim_refuted H). Qed.
Print Assumptions C24_level_refuted.

Theorem C24_level_diff_refuted :
  ~ (forall cfg before after files level incsub,
       exists rep, diff_changes cfg before after files level incsub = Some rep
         /\ complete_within after incsub level (depends false after) (base_diff cfg before after files) rep).
Proof. exact level_diff_claim_refuted. Qed.
Print Assumptions C24_level_diff_refuted.

(* What holds for ALL graphs, file lists, flags and ALL levels (any integer; no bound on the graph):
   (1) findRevdeps as changedTargets calls it (hidden = true: every edge costs one level) is a breadth-first search:
       every (label, depth) it pops carries the true distance of the label from the start set (a walk of that length
       exists, none shorter), the popped depths are non-decreasing, and at every loop head the queue is sorted, spans at
       most two consecutive depths and every entry carries its true distance;
   (2) its result is EXACTLY the labels with a walk of length k from the start set, 1 <= k <= N (any k >= 1 for N = -1,
       none for N < -1);
   (3,4) hence both forms of the query report EXACTLY: shown, and directly changed or within N steps of a directly
       changed label over the edges the query records;
   (5,6) outside the two defect classes the recorded edges ARE the dependency edges: the report is exact over `depends`
       and complete for the directly affected targets of the property (complete_within, which implies `complete`);
   (7) the start set is sound: a label is in it only because the package loop found a consumer of a listed file
       (or, before/after form, diffGraphs marked it). *)
Definition C24_level_partial_statement : Prop :=
  (forall g incsub maxd labels fuel, (-1 <= maxd)%Z ->
     (forall l d, In (l, d) (bfs_pops g incsub maxd fuel (init_state labels)) -> dist_is g incsub labels l d)
     /\ StronglySorted Z.le (map snd (bfs_pops g incsub maxd fuel (init_state labels)))
     /\ (forall st, In st (bfs_states g incsub maxd fuel (init_state labels)) ->
           sorted_q (q st) /\ forall l d, In (l, d) (q st) -> dist_is g incsub labels l d))
  /\ (forall g incsub maxd labels r, find_revdeps g incsub maxd labels = Some r ->
        forall t, In t r <-> exists k, (1 <= k)%nat /\ (maxd = (-1)%Z \/ (Z.of_nat k <= maxd)%Z) /\ walk g incsub labels k t)
  /\ (forall g files level incsub,
        exists rep, changes g files level incsub = Some rep
          /\ exact_within g incsub level (code_dep g incsub) (ch_files g files) rep)
  /\ (forall cfg before after files level incsub,
        exists rep, diff_changes cfg before after files level incsub = Some rep
          /\ exact_within after incsub level (code_dep after incsub) (ch_diff cfg before after files) rep)
  /\ (forall g files level incsub, defect_class true g incsub = None ->
        exists rep, changes g files level incsub = Some rep
          /\ exact_within g incsub level (depends true g) (ch_files g files) rep
          /\ complete_within g incsub level (depends true g) (base_files g files) rep)
  /\ (forall cfg before after files level incsub, defect_class false after incsub = None ->
        exists rep, diff_changes cfg before after files level incsub = Some rep
          /\ exact_within after incsub level (depends false after) (ch_diff cfg before after files) rep
          /\ complete_within after incsub level (depends false after) (base_diff cfg before after files) rep)
  /\ ((forall g files l, In l (ch_files g files) ->
         exists f p t, In f files /\ owner g f = Some p /\ In t (pkg_targets g p) /\ has_abs_source t f = true /\ t_id t = l)
      /\ (forall cfg before after files l, In l (ch_diff cfg before after files) ->
            (exists a, In a (g_targets after) /\ t_id a = l /\ def_changed cfg before a)
            \/ exists f p t, In f files /\ owner after f = Some p /\ In t (pkg_targets after p) /\
                             has_abs_source t f = true /\ t_id t = l)).

Theorem C24_level_partial : C24_level_partial_statement.
Proof.
  exact (conj find_revdeps_is_bfs (conj find_revdeps_exact (conj changes_exact (conj diff_exact
          (conj changes_level_class (conj diff_level_class (conj ch_files_sound ch_diff_sound))))))).
Qed.
Print Assumptions C24_level_partial.

(* Non-vacuity (graph d_g of Proof/C24_Level.v, a diamond): //p:x (x.c) <- //p:m <- //p:a <- //p:root and
   //p:x <- //p:b <- //p:root.  //p:root is 2 steps from //p:x over b and 3 steps over a, m: the premises hold, the
   level-limited reports are the expected ones (root appears at level 2), a level below -1 behaves like 0, and the
   search pops every label with its distance, in order. *)
Example C24_level_nonvacuous :
  direct d_g [s "p/x.c"] d_x
  /\ defect_class true d_g false = None
  /\ steps d_g (depends true d_g) (base_files d_g [s "p/x.c"]) 2 4%N /\ within 2 2 /\ ~ within 1 2
  /\ changes d_g [s "p/x.c"] 0 false = Some [0%N]
  /\ changes d_g [s "p/x.c"] 1 false = Some [0; 1; 3]%N
  /\ changes d_g [s "p/x.c"] 2 false = Some [0; 1; 3; 2; 4]%N
  /\ changes d_g [s "p/x.c"] (-2) false = Some [0%N]
  /\ bfs_pops d_g false 2 9 (init_state [0%N]) = [(0%N, 0%Z); (1%N, 1%Z); (3%N, 1%Z); (2%N, 2%Z); (4%N, 2%Z)]
  /\ bfs_pops d_g false (-1) 9 (init_state [0%N]) = [(0%N, 0%Z); (1%N, 1%Z); (3%N, 1%Z); (2%N, 2%Z); (4%N, 2%Z)].
Proof.
  split; [exact d_direct|]. split; [reflexivity|]. split; [exact d_steps_root|].
  split; [right; right; reflexivity|]. split; [unfold within; intros [H | [H | H]]; [discriminate | discriminate | exact (H eq_refl)]|].
  repeat split; vm_compute; reflexivity.
Qed.

(* The level-limited defect witnesses: classified, and what the code answers on them. *)
Example C24_level_witnesses :
  defect_class true w_incl false = Some 2%N
  /\ changes w_incl [s "defs/rules.build_defs"] 1 false = Some [0%N]
  /\ defect_class false w_subrepo false = Some 1%N
  /\ diff_changes false w_subrepo w_subrepo [s "third_party/sr.patch"] 2 false = Some [2%N]
  /\ diff_changes false w_subrepo w_subrepo [s "third_party/sr.patch"] 2 true = Some [2; 0; 1]%N.
Proof. vm_compute. repeat split. Qed.

(* ------------------------------------------------------------------------------------------------------------- *)
(* `plz query changes --since REV --level N` in exact mode, end to end: the program that src/please.go runs (as
   translated from the source), on ANY repository that git operations can produce and any REV that resolves, answers
   and puts the work tree back where it was (same branch, or detached at the same commit); the answer misses no
   target, within the level, whose full state - configuration hash included - differs between REV and HEAD, nor a
   consumer of a changed file, nor anything that depends on one. *)
Definition C24_since_statement : Prop :=
  forall prog first fallback, gen_since_program = Some (prog, first, fallback) ->
  forall b0 s0 ops since i files level incsub,
    let r := repo_of b0 s0 ops in
    resolve r since = Some i ->
    exists j sb sa rep,
      head_commit r = Some j /\ nth_error (commits r) i = Some sb /\ nth_error (commits r) j = Some sa
      /\ since_query first fallback prog r since files level incsub = Some (rep, r)
      /\ complete_within (sn_graph sa) incsub level (depends false (sn_graph sa))
                         (base_diff (cfg_differs sb sa) (sn_graph sb) (sn_graph sa) files) rep.

(* It fails exactly where the before/after form fails (the subrepo edge without --include_subrepos): every pair of
   states is the pair of revisions of a two-commit repository. *)
Theorem C24_since_refuted : ~ C24_since_statement.
Proof. intros H. exact (since_full_claim_refuted (H since_flow cri_first cri_fallback (proj1 c24_since_source))). Qed.
Print Assumptions C24_since_refuted.

(* What holds for ALL histories of git operations (any number of commits and branches, HEAD on a branch or detached),
   every revision argument that resolves, all file lists, levels and flags, for the program and the commands of the
   source:
   (1) the run answers, and leaves the repository exactly as it found it;
   (2) the two states it compares are (configuration of REV, graph of REV) and (configuration of the original HEAD
       commit, graph of that commit): every shown target whose full state differs is reported at every level, the
       report is complete over the recorded edges with level -1 and EXACT within the level;
   (3) outside the defect class it is complete within the level over the dependency edges. *)
Definition C24_since_partial_statement : Prop :=
  forall prog first fallback, gen_since_program = Some (prog, first, fallback) ->
  forall b0 s0 ops since i files level incsub,
    let r := repo_of b0 s0 ops in
    resolve r since = Some i ->
    exists j sb sa rep,
      head_commit r = Some j /\ nth_error (commits r) i = Some sb /\ nth_error (commits r) j = Some sa
      /\ since_query first fallback prog r since files level incsub = Some (rep, r)
      /\ (forall a, In a (g_targets (sn_graph sa)) -> state_changed sb sa a ->
                    shown (sn_graph sa) incsub (t_id a) = true -> In (t_id a) rep)
      /\ complete (sn_graph sa) incsub level (code_dep (sn_graph sa) incsub)
                  (base_diff (cfg_differs sb sa) (sn_graph sb) (sn_graph sa) files) rep
      /\ exact_within (sn_graph sa) incsub level (code_dep (sn_graph sa) incsub)
                      (ch_diff (cfg_differs sb sa) (sn_graph sb) (sn_graph sa) files) rep
      /\ (defect_class false (sn_graph sa) incsub = None ->
          complete_within (sn_graph sa) incsub level (depends false (sn_graph sa))
                          (base_diff (cfg_differs sb sa) (sn_graph sb) (sn_graph sa) files) rep).

Theorem C24_since_partial : C24_since_partial_statement.
Proof. exact since_partial_gen. Qed.
Print Assumptions C24_since_partial.

(* Non-vacuity: a two-commit repository whose second commit only changes the configuration hash (everything is
   reported), one whose second commit edits a definition and adds a target, queried from a DETACHED HEAD (both are
   reported, HEAD stays detached at the same commit); the premises hold (the history is one of git operations, HEAD~1
   resolves, the states differ).  The last two lines show that the theorem is about this program and these commands:
   without the readConfig() after the first checkout nothing is reported for the configuration-only commit, and with
   `git rev-parse --abbrev-ref HEAD` a detached HEAD is left on the old revision with an empty report. *)
Example C24_since_nonvacuous :
  gen_since_program = Some (since_flow, cri_first, cri_fallback)
  /\ resolve (x_repo x_cfg_ops) (RHeadMinus 1) = Some 0%nat
  /\ state_changed (mkSnap 7%N (x_g 1%N)) (mkSnap 8%N (x_g 1%N)) (x_t 1%N)
  /\ since_query cri_first cri_fallback since_flow (x_repo x_cfg_ops) (RHeadMinus 1) [] (-1) false
     = Some ([0%N], x_repo x_cfg_ops)
  /\ hd (x_repo x_build_ops) = Detached 1
  /\ since_query cri_first cri_fallback since_flow (x_repo x_build_ops) (RHeadMinus 1) [] (-1) false
     = Some ([0%N; 1%N], x_repo x_build_ops)
  /\ since_query cri_first cri_fallback
       [SOriginal false; SChangedFiles; SCheckoutSince; SParseBefore; SCheckoutOriginal; SReadConfig; SParseAfter; SDiff]
       (x_repo x_cfg_ops) (RHeadMinus 1) [] (-1) false = Some ([], x_repo x_cfg_ops)
  /\ since_query GRevParseAbbrevRef cri_fallback since_flow (x_repo x_build_ops) (RHeadMinus 1) [] (-1) false
     = Some ([], mkRepo (commits (x_repo x_build_ops)) (branches (x_repo x_build_ops)) (Detached 0)).
Proof.
  split; [exact (proj1 c24_since_source)|]. split; [reflexivity|].
  split; [right; right; discriminate|].
  repeat split; vm_compute; reflexivity.
Qed.
