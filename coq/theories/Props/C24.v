(* C24 - Change detection never misses an affected target.
   This file holds only the statement, the property theorems and their non-vacuity examples.
   Vocabulary (Proof/C24.v), all written against the graph, not against the code:
     consumes t f      one of t's sources / data entries is the file f or a directory above f;
     owned g t f       f is a repository-relative path and t's package is its closest enclosing package
                       (closest = the deepest directory of f that is a package, the root last);
     direct g files t  t is a target of g that consumes and owns one of the files;
     def_changed       the target does not exist before, or its rule hash / out-of-repo tool paths differ,
                       or the configuration hash differs;
     depends sub g u l u has a declared dependency that the build resolves (require/provide) to l, or u lives
                       in a subrepo defined by l, or (sub = true) u's package subincludes l;
     affected g E base the labels reachable from a base label over reverse E-edges;
     shown g incsub l  l passes the include/exclude labels and the subrepo filter of the query;
     complete ... rep  every base label, and with level -1 every affected label, that is shown is in rep. *)
From PlzV Require Import Base.Harness Model.C24 Proof.C24 Proof.C24_Gen.

(* `plz query changes <files>`: nothing affected is missed *)
Definition C24_files : Prop :=
  forall g files level incsub,
    exists rep, changes g files level incsub = Some rep
      /\ (forall l, (exists t, direct g files t /\ t_id t = l) -> shown g incsub l = true -> In l rep)
      /\ (level = (-1)%Z ->
          forall x, affected g (depends true g) (fun l => exists t, direct g files t /\ t_id t = l) x ->
                    shown g incsub x = true -> In x rep).

(* `plz query changes --since`: before/after graphs plus the changed files *)
Definition C24_diff : Prop :=
  forall cfg before after files level incsub,
    exists rep, diff_changes cfg before after files level incsub = Some rep
      /\ (forall l, ((exists a, In a (g_targets after) /\ def_changed cfg before a /\ t_id a = l)
                     \/ (exists t, direct after files t /\ t_id t = l)) ->
                    shown after incsub l = true -> In l rep)
      /\ (level = (-1)%Z ->
          forall x, affected after (depends false after)
                      (fun l => (exists a, In a (g_targets after) /\ def_changed cfg before a /\ t_id a = l)
                                \/ (exists t, direct after files t /\ t_id t = l)) x ->
                    shown after incsub x = true -> In x rep).

Definition C24_statement : Prop := C24_files /\ C24_diff.

(* The unchanged code violates both conjuncts.  Files only: the targets of a package that subincludes a
   changed target are not reported (FindRevdeps is called with followSubincludes = false) ... *)
Theorem C24_refuted : ~ C24_statement.
Proof. intros [H _]. exact (files_claim_refuted H). Qed.
Print Assumptions C24_refuted.

(* ... and, in both forms, without --include_subrepos a host target that depends on a target of a subrepo is
   not reported when the target defining the subrepo changes. *)
Theorem C24_diff_refuted : ~ C24_diff.
Proof. exact diff_claim_refuted. Qed.
Print Assumptions C24_diff_refuted.

(* What holds, for ALL graphs, file lists, levels and flags (no bound):
   (1,2) both forms never run out of fuel, report every directly affected target (every consumer of a changed
         file whose package owns it; every target that is new or whose definition / configuration changed) and,
         with level -1, everything that depends on one over the edges the query records (code_dep: resolved
         declared dependencies, and the subrepo edge when --include_subrepos is given);
   (3,4) hence the full statement on every input outside the two defect classes (executable classifier);
   (5)   the package loop of changedTargets finds exactly the closest enclosing package. *)
Definition C24_partial_statement : Prop :=
  files_claim code_dep
  /\ diff_claim code_dep
  /\ (forall g files level incsub, defect_class true g incsub = None ->
        exists rep, changes g files level incsub = Some rep
                    /\ complete g incsub level (depends true g) (base_files g files) rep)
  /\ (forall cfg before after files level incsub, defect_class false after incsub = None ->
        exists rep, diff_changes cfg before after files level incsub = Some rep
                    /\ complete after incsub level (depends false after) (base_diff cfg before after files) rep)
  /\ (forall g segs, segs <> [] -> Forall wf_seg segs -> owner g (join segs) = closest (g_pkgs g) segs).

Theorem C24_partial : C24_partial_statement.
Proof.
  exact (conj files_claim_code (conj diff_claim_code (conj files_claim_class (conj diff_claim_class owner_closest)))).
Qed.
Print Assumptions C24_partial.

(* Non-vacuity (graph e_g of Proof/C24.v).  //a:lib (lib.go, directory res), //a/b:bin -> //a:lib,
   //a/b:test -> //a/b:bin; the file a/res/img/x.png lies under a directory source, its closest package is a
   (a/res and a/res/img are no packages); e_g0 is the graph before //a/b:bin was edited and //a/b:test added.
   The hypotheses of the theorems hold and the reported sets are the expected non-empty ones. *)
Example C24_nonvacuous :
  direct e_g [s "a/res/img/x.png"] e_lib
  /\ defect_class true e_g false = None
  /\ affected e_g (depends true e_g) (base_files e_g [s "a/res/img/x.png"]) 2%N
  /\ changes e_g [s "a/res/img/x.png"] 0 false = Some [0%N]
  /\ changes e_g [s "a/res/img/x.png"] (-1) false = Some [0; 1; 2]%N
  /\ changes e_g [s "a/b/res/img/x.png"] (-1) false = Some []
  /\ def_changed false e_g0 e_bin /\ def_changed false e_g0 e_tst
  /\ diff_changes false e_g0 e_g [] 0 false = Some [1; 2]%N
  /\ closest (g_pkgs e_g) [s "a"; s "res"; s "img"; s "x.png"] = Some (s "a")
  /\ closest (g_pkgs e_g) [s "a"; s "b"; s "res"; s "x.png"] = Some (s "a/b").
Proof.
  split; [exact e_direct|]. split; [reflexivity|]. split; [exact e_affected|].
  split; [vm_compute; reflexivity|]. split; [vm_compute; reflexivity|]. split; [vm_compute; reflexivity|].
  split; [right; left; eexists; split; [reflexivity | left; discriminate]|].
  split; [left; reflexivity|].
  split; [vm_compute; reflexivity|]. split; vm_compute; reflexivity.
Qed.

(* The defect classes are inhabited: the two witnesses are classified, and the code's answers on them. *)
Example C24_witnesses :
  defect_class true w_incl false = Some 2%N
  /\ changes w_incl [s "defs/rules.build_defs"] (-1) false = Some [0%N]
  /\ defect_class true w_subrepo false = Some 1%N
  /\ changes w_subrepo [s "third_party/sr.patch"] (-1) false = Some [2%N]
  /\ defect_class true w_subrepo true = None
  /\ changes w_subrepo [s "third_party/sr.patch"] (-1) true = Some [2; 0; 1]%N.
Proof. vm_compute. repeat split. Qed.
