(* C21 - glob() returns exactly the files its documented semantics select.
   This file holds only the statement, the property theorems and their non-vacuity examples.
   Model: Model/C21.v (`glob`: Globber.Glob/glob/walkDir/shouldExcludeMatch/patternToMatcher/toRegexString of
   src/fs/glob.go; `glob_spec`: the documented semantics by path segments).
   Proofs: Proof/C21.v (matcher, path-string filters, witnesses), Proof/C21_paths.v (Join/Clean/Dir/Base on
   component lists), Proof/C21_walk.v (the walk), Proof/C21_tree.v (exclude lemma, filter composition, tree level),
   Proof/C21_cache.v (the Globber as a state machine: the walkedDirs cache over a history of Glob calls),
   Proof/C21_builtin.v (what counts as a build file entry: the glob() builtin's appended excludes and the walk's
   name-only sub-package guard, both regenerated from the source). *)
From PlzV Require Import Base.Harness Model.C21 Proof.C21 Proof.C21_paths Proof.C21_walk Proof.C21_tree Proof.C21_cache
  Proof.C21_builtin.

Definition C21_statement : Prop :=
  (* for all BUILD file names, package paths, directory trees, include and exclude patterns (`*`, `?`, [class],
     `**` as a whole segment; any literal bytes) and both flags: glob terminates normally and returns exactly
     the source files of the package that the reference selects - regular files (symlinks with include_symlinks)
     not in a sub-package, not in plz-out, not hidden nor inside a hidden directory unless hidden=True, matching
     an include pattern segment by segment and no exclude pattern *)
  forall bfn pkg tree incs excs hidden syms,
    inputs_ok pkg tree incs excs = true ->
    holds_on bfn pkg tree incs excs hidden syms.

(* The unchanged code violates the statement; one witness per defect class, each a vm_compute run of the model
   and each reproduced on the implementation by the harness. *)
Theorem C21_refuted : ~ C21_statement.
Proof. exact refuted_hidden_dir. Qed.
Print Assumptions C21_refuted.

Theorem C21_refuted_regex_metacharacter : ~ C21_statement.
Proof. exact refuted_regex_meta. Qed.

Theorem C21_refuted_directory_returned : ~ C21_statement.
Proof. exact refuted_directory. Qed.

Theorem C21_refuted_other_classes :
  (* leading ** in the root package; `?` in a ** pattern; negated class; entries named plz-out *)
  glob_agrees w_bfn [] w3_tree [[DStar; Seg txt_pat]] [] false false = false
  /\ glob_agrees w_bfn [s "p"] w5_tree [w5_pat] [] false false = false
  /\ glob_agrees w_bfn [s "p"] w5_tree [w6_pat] [] false false = false
  /\ glob_agrees w_bfn [] w7_tree [[Seg [AStar]; DStar]] [] false false = false.
Proof. exact refuted_others. Qed.

(* What the code does guarantee, at the level of the property itself: for ALL BUILD file names, package paths,
   well-formed trees (a directory of plain, pairwise distinct entry names, regular files and directories only),
   include and exclude lists and both flags that lie in none of the known defect classes - decided by the
   executable `defect_class` (Proof/C21_tree.v): a pattern outside the syntactic fragment or one that does not
   compile to its token translation, an exclude segment that is not a plain name, a package directory named like
   a BUILD file, a hidden directory with hidden=False, an entry named plz-out other than a top-level directory in
   the root package, an include pattern that matches a directory of the package - glob terminates normally and
   returns, as a set, exactly the files the documented semantics select. *)
Theorem C21_partial :
  forall bfn pkg tree incs excs hidden syms,
    inputs_ok pkg tree incs excs = true -> tree_wf tree = true ->
    defect_class bfn pkg tree incs excs hidden = None ->
    holds_on bfn pkg tree incs excs hidden syms.
Proof. exact tree_correct. Qed.
Print Assumptions C21_partial.

(* Its ingredients, each for ALL inputs.
   The walk (io/fs.WalkDir + SkipDir protocol, path.Join, filepath.Base/Dir on strings): it records the package
   directory and paths of entries of the tree, and declares sub-packages, such that after the sub-package filter
   exactly the entries of the package remain (`ents`: not under the repository's plz-out, not in or at the top of
   a directory holding a BUILD file). *)
Theorem C21_partial_walk :
  forall bfn pkg kids,
    forallb entry_name_ok pkg = true -> tree_wf (Dir kids) = true ->
    is_build_file bfn (root_str pkg) = false -> plz_ok (is_nil pkg) (Dir kids) = true ->
    exists F S,
      walk_dir bfn (root_str pkg) (Dir kids)
      = Walked (root_str pkg :: map (path_str pkg) F) [] (map (path_str pkg) S)
      /\ (forall f, In f F -> f <> [] /\ forallb entry_name_ok f = true)
      /\ (forall d, In d S -> d <> [] /\ forallb entry_name_ok d = true)
      /\ (forall f, (In f F /\ under_any S f = false) <-> In f (map fst (ents bfn (is_nil pkg) [] (Dir kids)))).
Proof. exact walk_characterised. Qed.

(* shouldExcludeMatch (isBathPathOf on filepath.Join(root, excl), the base-name rule for slash-free patterns,
   patternToMatcher with the switched root) = the reference's `excluded_by`, for every path of entry names. *)
Theorem C21_partial_exclude :
  forall pkg f excs,
    f <> [] -> forallb entry_name_ok pkg = true -> forallb entry_name_ok f = true ->
    forallb (exc_ok pkg) excs = true -> forallb pat_wf excs = true ->
    should_exclude (root_str pkg) (path_str pkg f) (map render excs)
    = Some (existsb (fun e => excluded_by e f) excs).
Proof. exact should_exclude_spec. Qed.

(* The matcher: a pattern without `?` and negated classes next to `**`, without a leading `**` in the root package
   and without consecutive `**`, whose literals are not '/', and which compiles (filepath.Join, the `**` switch, the
   six ReplaceAll passes of toRegexString, the parser - all executed by `compiles`) to its token translation,
   matches exactly the paths the segment-wise reference matches. *)
Theorem C21_partial_matcher :
  forall pkg p f,
    fragment pkg p = true -> compiles pkg p = true -> f <> [] -> forallb name_ok f = true ->
    exists ts, pattern_to_matcher (root_str pkg) (render p) = Some ts
               /\ tmatch ts (path_str pkg f) = segs_match p f.
Proof. exact matcher_correct. Qed.
Print Assumptions C21_partial_matcher.

(* The two path-string filters of Globber.glob, for ALL paths: the hidden test looks at the last component only
   (nothing else - which is both what it guarantees and the defect), and the sub-package test
   strings.HasPrefix(name, dir+"/") || name == dir is a test on whole leading components. *)
Theorem C21_partial_hidden :
  forall pkg f, f <> [] -> forallb name_ok (pkg ++ f) = true -> last f [] <> [] ->
    is_hidden (path_str pkg f) = name_hidden (last f []).
Proof. exact hidden_filter_is_base_name. Qed.

Theorem C21_partial_subpackage :
  forall d, d <> [] -> forallb name_ok d = true ->
  forall g, g <> [] -> forallb name_ok g = true ->
    is_in_directories (intercalate g) [intercalate d] = is_prefix_segs d g.
Proof. exact in_directory_whole_components. Qed.
Print Assumptions C21_partial_subpackage.

(* The Globber is persisted over several glob() calls of one BUILD file; its walkedDirs cache is state.
   Cache transparency: for ALL BUILD file names, file systems (any function from root paths to directory trees,
   None = no such directory) and histories of Glob calls on one Globber - any packages, patterns, excludes and flags,
   including calls that panic - every call returns exactly what the same call returns on a fresh Globber. *)
Theorem C21_cache_transparent :
  forall bfn fsys calls,
    fst (run_calls bfn fsys [] calls) = map (fun c => fst (glob_st bfn fsys [] c)) calls.
Proof. exact cache_transparent. Qed.
Print Assumptions C21_cache_transparent.

(* The invariant behind it, for every reachable state: each cached entry is what a walk of its root returns on this
   file system, the keys are pairwise distinct and are roots some call of the history named; and from every state
   with that invariant (not only the empty one) a further history is transparent, keeps the invariant and never
   changes or drops an entry. *)
Theorem C21_cache_invariant :
  forall bfn fsys h,
    let g := snd (run_calls bfn fsys [] h) in
    (forall root w, cache_get root g = Some w -> option_map (walk_dir bfn root) (fsys root) = Some w)
    /\ NoDup (map fst g)
    /\ (forall k, In k (map fst g) -> In k (map (fun c => root_of (c_pkg c)) h))
    /\ forall cs,
         fst (run_calls bfn fsys g cs) = map (fun c => fst (glob_st bfn fsys [] c)) cs
         /\ (forall root w, cache_get root g = Some w -> cache_get root (snd (run_calls bfn fsys g cs)) = Some w).
Proof. exact reachable_invariant. Qed.

(* A fresh Globber computes `glob`, so C21_partial holds for every call of every history: whatever was globbed
   before on the same Globber (other packages, hidden=False before hidden=True, ...), a call outside every defect
   class returns, as a set, exactly the documented selection. *)
Theorem C21_partial_history :
  forall bfn fsys h pkg tree incs excs hidden syms,
    fsys (root_of (pkg_name pkg)) = Some tree ->
    inputs_ok pkg tree incs excs = true -> tree_wf tree = true ->
    defect_class bfn pkg tree incs excs hidden = None ->
    exists out,
      fst (glob_st bfn fsys (snd (run_calls bfn fsys [] h))
             (Call (pkg_name pkg) (map render incs) (map render excs) hidden syms)) = Some out
      /\ forall x, In x out <-> exists f, x = intercalate f /\ In f (glob_spec bfn (pkg_name pkg) tree incs excs hidden syms).
Proof. exact history_correct. Qed.
Print Assumptions C21_partial_history.

(* Non-vacuity of the three: a five-call history on one Globber over a package with hidden files at two levels -
   hidden=False first, then the same patterns with hidden=True (which returns the hidden files from the cached walk),
   a second root, symlinks on, and a root that does not exist (panic, nothing cached): two roots end up cached and
   every result is the fresh one; the walkDir protocol regenerated from the source keys the cache by every
   parameter of walkDir; and a model of the seeded mutation (walk drops hidden entries unless asked, same key) is
   NOT transparent on the first two calls. *)
Example C21_cache_nonvacuous :
  fst (run_calls h_bfn (fs_of h_tree) [] h_calls)
  = [ Some [s "d/e.txt"; s "a.txt"];
      Some [s "d/.b.txt"; s "d/e.txt"; s ".top.txt"; s "a.txt"];
      Some [s "#c.txt#"; s ".b.txt"];
      Some [s "d/.b.txt"];
      None ]
  /\ map fst (snd (run_calls h_bfn (fs_of h_tree) [] h_calls)) = [s "d"; s "."]
  /\ Gen.GlobRegex.walkdir_lookup_key = Gen.GlobRegex.walkdir_params
  /\ Gen.GlobRegex.walkdir_store_key = Gen.GlobRegex.walkdir_params
  /\ fst (m3_glob1 h_bfn (fs_of h_tree) (s ".") (s "*.txt") true
             (snd (m3_glob1 h_bfn (fs_of h_tree) (s ".") (s "*.txt") false [])))
     <> fst (m3_glob1 h_bfn (fs_of h_tree) (s ".") (s "*.txt") true []).
Proof. exact cache_witnesses. Qed.

(* Non-vacuity: the witnesses are well-formed inputs on which the model was run ... *)
Example C21_refuted_nonvacuous :
  inputs_ok [s "p"] w1_tree [[DStar; Seg txt_pat]] [] = true
  /\ glob w_bfn (s "p") w1_tree [s "**/*.txt"] [] false false = Some [s ".hid/x.txt"; s "a.txt"]
  /\ glob_spec w_bfn (s "p") w1_tree [[DStar; Seg txt_pat]] [] false false = [[s "a.txt"]].
Proof. vm_compute. repeat split. Qed.

(* ... the tree-level theorem applies to a realistic package (BUILD file, nested directories, a hidden file, the
   repository's plz-out, a sub-package; includes d1/**/*.txt and lib/*.go, excludes *_test.go and d1/d2) with a
   non-empty result, every refuting witness above lies in a defect class, and of a 72-pattern family 58-64 patterns
   (depending on tree and package) lie in none ... *)
Example C21_partial_tree_nonvacuous :
  inputs_ok [] t8_tree t8_incs t8_excs = true /\ tree_wf t8_tree = true
  /\ defect_class w_bfn [] t8_tree t8_incs t8_excs false = None
  /\ glob w_bfn [] t8_tree (map render t8_incs) (map render t8_excs) false false = Some [s "d1/a.txt"; s "lib/a.go"]
  /\ defect_class w_bfn [s "p"] w1_tree [[DStar; Seg txt_pat]] [] false = Some DHiddenDirectory
  /\ defect_class w_bfn [s "p"] w3_tree [[Seg [AStar]]] [] false = Some DDirectoryMatched
  /\ map (fun tree => map (fun pkg => length (filter (in_domain pkg tree) sweep2)) [[]; [s "pkg"]]) [t8_tree; t9_tree]
     = [[59; 64]; [58; 61]]%nat.
Proof.
  destruct tree_domain_witness as (H1 & H2 & H3 & H4 & _). destruct witnesses_classified as (W1 & _ & W3 & _).
  exact (conj H1 (conj H2 (conj H3 (conj H4 (conj W1 (conj W3 (proj1 tree_domain_sweep))))))).
Qed.

(* ... and the hypotheses of the matcher theorem hold for real patterns: src/**/*.txt in package third_party/go+x
   is in the fragment, compiles to /(.*/)? , and selects src/a/b/c.txt but not src/a/b/c.go; 526 of the 584 patterns
   of the sweep family are in the fragment and every one of them compiles. *)
Example C21_partial_matcher_nonvacuous :
  let pkg := [s "third_party"; s "go+x"] in
  let p := [Seg (map ALit (s "src")); DStar; Seg txt_pat] in
  forallb (fun pkg => forallb (fun p => implb (fragment pkg p) (compiles pkg p)) sweep_pats)
          [[]; [s "pkg"]; [s "third_party"; s "go+x"]] = true
  /\ fragment pkg p = true /\ compiles pkg p = true
  /\ segs_match p [s "src"; s "a"; s "b"; s "c.txt"] = true
  /\ segs_match p [s "src"; s "c.txt"] = true
  /\ segs_match p [s "src"; s "a"; s "b"; s "c.go"] = false
  /\ pattern_to_matcher (root_str pkg) (render p) = Some (toks_of pkg p)
  (* a sibling that merely shares a name prefix with a sub-package is not inside it; a file in a hidden
     directory is not hidden for isHidden *)
  /\ is_in_directories (s "p/sub2/a.txt") [s "p/sub"] = false
  /\ is_in_directories (s "p/sub/a.txt") [s "p/sub"] = true
  /\ is_hidden (s "p/.hid/x.txt") = false /\ is_hidden (s "p/d/.x.txt") = true.
Proof. cbv zeta. split; [exact (proj1 compiles_sweep)|]. vm_compute. repeat split. Qed.

(* The glob() builtin of the BUILD language (src/parse/asp/builtins.go): the exclude list it hands to the Globber is
   the caller's plus what the regenerated append statement adds (builtin_appended, interpreted over the regenerated
   expression: every configured build file name, whatever file the package was parsed from).  For ALL build file
   name lists, parsed-from file names, package paths, trees of the tree-level domain (a package directory holding
   several configured build file names included), pattern lists and flags: it returns, as a set, exactly the
   documented selection with the build file names excluded, and no selected path ends in a configured build file
   name. *)
Theorem C21_partial_builtin :
  forall bfn pkgfile pkg tree incs excs hidden syms,
    inputs_ok pkg tree incs (excs ++ map lit_pat bfn) = true -> tree_wf tree = true ->
    defect_class bfn pkg tree incs (excs ++ map lit_pat bfn) hidden = None ->
    exists out,
      glob bfn (pkg_name pkg) tree (map render incs) (map render excs ++ builtin_appended bfn pkgfile) hidden syms = Some out
      /\ (forall x, In x out <-> exists f, x = intercalate f
                                 /\ In f (glob_spec bfn (pkg_name pkg) tree incs (excs ++ map lit_pat bfn) hidden syms))
      /\ (forall f, In f (glob_spec bfn (pkg_name pkg) tree incs (excs ++ map lit_pat bfn) hidden syms) ->
                    ~ In (last f []) bfn).
Proof. exact builtin_translated_correct. Qed.
Print Assumptions C21_partial_builtin.

(* "Is a build file entry" is decided by NAME alone.  The guard of the sub-package detection in walkDir, regenerated
   from the source and evaluated for every entry kind, is the name test (so the WalkDirFunc built from it is the
   model's); and for ALL build file names, roots and trees - symbolic links anywhere, as build files or not -
   walkDir declares the same sub-packages in the same order and records the same set of paths (files and links
   together) as on the tree with every link replaced by a regular file. *)
Theorem C21_walk_kind_independent :
  (forall bfn root path name n w, visit_gen bfn root path name n w = visit bfn root path name n w)
  /\ forall bfn root tree,
       w_subs (walk_dir bfn root tree) = w_subs (walk_dir bfn root (desym tree))
       /\ w_syms (walk_dir bfn root (desym tree)) = []
       /\ forall x, (In x (w_files (walk_dir bfn root tree)) \/ In x (w_syms (walk_dir bfn root tree)))
                    <-> In x (w_files (walk_dir bfn root (desym tree))).
Proof. exact (conj visit_regenerated walk_kind_independent). Qed.
Print Assumptions C21_walk_kind_independent.

(* Hence C21_partial_walk extends to trees with symbolic links: when the link-free image of the tree is in the
   tree-level domain, the walk of the tree itself declares sub-packages and records paths such that after the
   sub-package filter exactly the package's entries remain - a sub-directory whose build file is a link is a
   sub-package like any other. *)
Theorem C21_partial_walk_symlinks :
  forall bfn pkg kids,
    forallb entry_name_ok pkg = true -> tree_wf (desym (Dir kids)) = true ->
    is_build_file bfn (root_str pkg) = false -> plz_ok (is_nil pkg) (desym (Dir kids)) = true ->
    exists F S,
      w_subs (walk_dir bfn (root_str pkg) (Dir kids)) = map (path_str pkg) S
      /\ (forall x, (In x (w_files (walk_dir bfn (root_str pkg) (Dir kids))) \/ In x (w_syms (walk_dir bfn (root_str pkg) (Dir kids))))
                    <-> In x (root_str pkg :: map (path_str pkg) F))
      /\ (forall f, (In f F /\ under_any S f = false)
                    <-> In f (map fst (ents bfn (is_nil pkg) [] (desym (Dir kids))))).
Proof. exact walk_characterised_symlinks. Qed.

(* Non-vacuity: a package whose sub-directory `sub` has a symbolic link as BUILD file (outside tree_wf, its link-free
   image inside): `sub` is declared a sub-package and nothing beneath it is returned; a package directory holding
   BUILD and BUILD.plz is in the domain of C21_partial_builtin, the builtin returns neither, while the Globber given
   only the parsed file's own name as extra exclude returns the other one. *)
Example C21_build_entry_nonvacuous :
  (glob [s "BUILD"; s "BUILD.plz"] [] sym_tree [s "**/*.txt"; s "*.txt"] [] false true = Some [s "plain/p.txt"; s "a.txt"]
   /\ w_subs (walk_dir [s "BUILD"; s "BUILD.plz"] (s ".") sym_tree) = [s "sub"]
   /\ tree_wf (desym sym_tree) = true /\ tree_wf sym_tree = false)
  /\ (let bfn := [s "BUILD"; s "BUILD.plz"] in
      let incs := [[Seg (map ALit (s "BUILD") ++ [AStar])]; [Seg txt_pat]; [Seg (map ALit (s "dir")); Seg [AStar]]] in
      inputs_ok [s "pkg"] two_names_tree incs ([] ++ map lit_pat bfn) = true
      /\ tree_wf two_names_tree = true
      /\ defect_class bfn [s "pkg"] two_names_tree incs ([] ++ map lit_pat bfn) false = None
      /\ glob_builtin bfn (s "pkg") two_names_tree (map render incs) [] false false = Some [s "a.txt"; s "dir/x.txt"]
      /\ glob bfn (s "pkg") two_names_tree (map render incs) [s "BUILD"] false false
         = Some [s "BUILD.plz"; s "a.txt"; s "dir/x.txt"]).
Proof. exact (conj sym_tree_witness two_names_witness). Qed.
