(* C37 - Command location expansions name the files the command can use.
   This file holds only the statement, the property theorems and their non-vacuity examples. *)
From Coq Require Import String.
From PlzV Require Import Base.Harness Gen.CmdReplTables Model.C37 Proof.C37.
From PlzV Require Model.C20.
Local Open Scope list_scope.

(* Every $(location), $(locations), $(out_location), $(out_locations), $(dir), $(out_dir), $(exe) (and the other
   keywords of the pass list) sequence of a build command, in every world: if it expands, every path it produces is
   present where the command runs (build directory, or plz-out for the out_ forms and for tools) and the expansion
   is exactly one shell word per path; a sequence naming something that is not a dependency (a label the rule does
   not depend on, a malformed or foreign label, a file that is not a source), a single-output form on a dependency
   with several outputs, $(exe) of a non-binary, or an entry point the dependency does not have, does not expand. *)
Definition C37_statement : Prop :=
  (forall w fl inp text ps, wf_world w = true -> In fl (map snd passes) ->
     replace_sequence w false fl inp = ROk (text, ps) ->
     (forall p, In p ps -> present w p = true) /\ shell_words text = Some (map piece_word ps))
  /\ (forall w test fl inp, names_label_not_dependency w inp = true \/ names_file_not_dependency w fl inp = true ->
        forall text ps, replace_sequence w test fl inp <> ROk (text, ps))
  /\ (forall w test runnable dir outp hash inp lbl_s d, resolves w inp lbl_s [] d -> (1 < length (t_outs d))%nat ->
        replace_sequence w test (runnable, false, dir, outp, hash) inp = RErr)
  /\ (forall w test multiple dir outp hash inp lbl_s ep d, resolves w inp lbl_s ep d -> t_binary d = false ->
        replace_sequence w test (true, multiple, dir, outp, hash) inp = RErr)
  /\ (forall w test fl inp lbl_s ep d, resolves w inp lbl_s ep d -> is_nil ep = false -> assoc ep (t_eps d) = None ->
        snd fl = false -> forall text ps, replace_sequence w test fl inp <> ROk (text, ps)).

(* The code refutes it: an output named `a b.txt` expands to two words (quote only reacts to |&;()<>). *)
Theorem C37_refuted : ~ C37_statement.
Proof.
  exact (fun H => w_space_fails (proj1 H w_space loc_flags (s ":sp") _ _ w_space_wf loc_flags_in w_space_expands)).
Qed.
Print Assumptions C37_refuted.

(* What the code does guarantee, for all worlds, flags and arguments (no bound):
   - C37_exists: a sequence of a build command that expands and is in none of the five executable defect classes
     (Model.C37.defect_class) produces only paths that are present;
   - C37_one_word: the expansion is exactly one word per path whenever each path is a word the conservative splitter
     can vouch for (piece_ok), in particular whenever every name consists of ordinary characters and of the control
     operators | & ; ( ) < > (this clause uses the character set regenerated from `quote`);
   - C37_rejects: a label-like argument that names nothing the rule depends on is an error; single-output forms on
     several outputs and $(exe) of a non-binary are errors; an unknown entry point never expands (error or fatal);
   - the label parser's fuel never runs out; every pass hands replaceSequence exactly the captured argument. *)
Definition C37_partial_statement : Prop :=
  (forall w fl inp text ps, wf_world w = true -> replace_sequence w false fl inp = ROk (text, ps) ->
     defect_class w fl inp = None -> forall p, In p ps -> present w p = true)
  /\ (forall w test fl inp text ps, replace_sequence w test fl inp = ROk (text, ps) -> forallb piece_ok ps = true ->
        shell_words text = Some (map piece_word ps))
  /\ (forall w test fl inp text ps, replace_sequence w test fl inp = ROk (text, ps) -> forallb piece_name_ok ps = true ->
        shell_words text = Some (map piece_word ps))
  /\ (forall w test fl inp, names_label_not_dependency w inp = true -> replace_sequence w test fl inp = RErr)
  /\ (forall w test runnable dir outp hash inp lbl_s d, resolves w inp lbl_s [] d -> (1 < length (t_outs d))%nat ->
        replace_sequence w test (runnable, false, dir, outp, hash) inp = RErr)
  /\ (forall w test multiple dir outp hash inp lbl_s ep d, resolves w inp lbl_s ep d -> t_binary d = false ->
        replace_sequence w test (true, multiple, dir, outp, hash) inp = RErr)
  /\ (forall w test fl inp lbl_s ep d, resolves w inp lbl_s ep d -> is_nil ep = false -> assoc ep (t_eps d) = None ->
        replace_sequence w test fl inp = RErr \/ replace_sequence w test fl inp = RFatal
        \/ (exists h, replace_sequence w test fl inp = ROk (h, [PRaw h]) /\ snd fl = true))
  /\ (forall w test fl inp, replace_sequence w test fl inp <> RFuel)
  /\ forallb (fun p => Nat.eqb (snd (fst p)) (length (pass_prefix (fst (fst p))))) passes = true.

Theorem C37_partial : C37_partial_statement.
Proof.
  exact (conj exists_partial (conj one_word (conj one_word_names (conj rejects_label (conj rejects_wrong_count
        (conj rejects_not_binary (conj rejects_unknown_entry_point (conj never_out_of_fuel passes_offsets_ok)))))))).
Qed.
Print Assumptions C37_partial.

(* Non-vacuity: a world in no defect class - a source with two outputs (one needing quotes), a dep, a binary tool with
   an entry point - where the theorem's hypotheses hold and its conclusions can be seen by computation. *)
Example C37_partial_nonvacuous :
  let far := T (s "q/r", s "far") [s "f1.txt"; s "f;2.txt"] [] [] false in
  let lib := T (s "p", s "lib") [s "libdir"] [] [(s "main", s "libdir/in.txt")] false in
  let tool := T (s "t", s "tool") [s "bin/t.sh"] [] [(s "main", s "bin/t.sh")] true in
  let w := mk_world self_p [ILabel (s "q/r", s "far"); IFile (s "real.txt")] [ILabel (s "t", s "tool")] [(s "p", s "lib")]
                    [far; lib; tool] (s "/r") in
  wf_world w = true
  /\ replace_sequence w false locs_flags (s "//q/r:far")
     = ROk (s "q/r/f1.txt ""q/r/f;2.txt""", [PFile InTmp (s "q/r/f1.txt"); PFile InTmp (s "q/r/f;2.txt")])
  /\ defect_class w locs_flags (s "//q/r:far") = None
  /\ forallb (present w) [PFile InTmp (s "q/r/f1.txt"); PFile InTmp (s "q/r/f;2.txt")] = true
  /\ forallb piece_name_ok [PFile InTmp (s "q/r/f1.txt"); PFile InTmp (s "q/r/f;2.txt")] = true
  /\ shell_words (s "q/r/f1.txt ""q/r/f;2.txt""") = Some [s "q/r/f1.txt"; s "q/r/f;2.txt"]
  /\ replace_sequence w false loc_flags (s ":lib|main") = ROk (s "p/libdir/in.txt", [PFile InTmp (s "p/libdir/in.txt")])
  /\ defect_class w loc_flags (s ":lib|main") = None /\ present w (PFile InTmp (s "p/libdir/in.txt")) = true
  /\ replace_sequence w false exe_flags (s "//t:tool") = ROk (s "/r/plz-out/bin/t/bin/t.sh", [PFile InAbs (s "/r/plz-out/bin/t/bin/t.sh")])
  /\ defect_class w exe_flags (s "//t:tool") = None /\ present w (PFile InAbs (s "/r/plz-out/bin/t/bin/t.sh")) = true
  /\ replace_sequence w false loc_flags (s "real.txt") = ROk (s "p/real.txt", [PFile InTmp (s "p/real.txt")])
  /\ defect_class w loc_flags (s "real.txt") = None
  /\ names_label_not_dependency w (s "//q/r:other") = true /\ replace_sequence w false loc_flags (s "//q/r:other") = RErr
  /\ replace_sequence w false loc_flags (s "//q/r:far") = RErr
  /\ replace_sequence w false loc_flags (s ":lib|nosuch") = RFatal.
Proof. vm_compute. repeat split; reflexivity. Qed.

(* The defect classes are inhabited: each witness expands (or is not rejected) and names a path that is not there. *)
Example C37_defects_inhabited :
  (* undeclared-file-not-rejected *)
  replace_sequence w_nofile false loc_flags (s "real.txt") = ROk (s "p/real.txt", [PFile InTmp (s "p/real.txt")])
  /\ names_file_not_dependency w_nofile loc_flags (s "real.txt") = true
  /\ present w_nofile (PFile InTmp (s "p/real.txt")) = false
  /\ defect_class w_nofile loc_flags (s "real.txt") = Some DUndeclaredFile
  (* named-output-source-lists-all-outputs *)
  /\ replace_sequence w_named false locs_flags (s ":named")
     = ROk (s "p/n1.txt p/n2.txt", [PFile InTmp (s "p/n1.txt"); PFile InTmp (s "p/n2.txt")])
  /\ present w_named (PFile InTmp (s "p/n1.txt")) = true /\ present w_named (PFile InTmp (s "p/n2.txt")) = false
  /\ defect_class w_named locs_flags (s ":named") = Some DNamedOnly
  (* tool-entry-point-relative-path *)
  /\ replace_sequence w_toolep false exe_flags (s ":tool|main") = ROk (s "p/bin/t.sh", [PFile InTmp (s "p/bin/t.sh")])
  /\ present w_toolep (PFile InTmp (s "p/bin/t.sh")) = false
  /\ defect_class w_toolep exe_flags (s ":tool|main") = Some DToolEntryPoint
  (* dir-of-root-package-empty *)
  /\ replace_sequence w_rootdir false dir_flags (s ":rootdep") = ROk ([], [PDir InTmp []])
  /\ present w_rootdir (PDir InTmp []) = false /\ shell_words [] = Some []
  /\ defect_class w_rootdir dir_flags (s ":rootdep") = Some DRootDir
  (* self-reference-in-build-command *)
  /\ replace_sequence w_nofile false loc_flags (s ":gen") = ROk (s "p/gen.out", [PFile InTmp (s "p/gen.out")])
  /\ present w_nofile (PFile InTmp (s "p/gen.out")) = false
  /\ defect_class w_nofile loc_flags (s ":gen") = Some DSelf
  (* name-with-shell-char-outside-quote-set: the witness of C37_refuted, and a dollar inside quotes *)
  /\ shell_words (s "p/a b.txt") = Some [s "p/a"; s "b.txt"]
  /\ piece_ok (PFile InTmp (s "p/a b.txt")) = false /\ piece_ok (PFile InTmp (s "p/a;$b")) = false.
Proof. vm_compute. repeat split; reflexivity. Qed.
