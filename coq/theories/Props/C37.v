(* C37 - Command location expansions name the files the command can use.
   This file holds only the statement, the property theorems and their non-vacuity examples. *)
From Coq Require Import String.
From PlzV Require Import Base.Harness Gen.CmdReplTables Model.C37 Model.C37_Ext Proof.C37 Proof.C37_Ext.
From PlzV Require Model.C20.
Local Open Scope list_scope.

(* Every $(location), $(locations), $(out_location), $(out_locations), $(dir), $(out_dir), $(exe) (and the other
   keywords of the pass list) sequence of a build command, in every world: if it expands, every path it produces is
   present where the command runs (build directory, or plz-out for the out_ forms and for tools) and the expansion
   is exactly one shell word per path; a sequence naming something that is not a dependency (a label the rule does
   not depend on, a malformed or foreign label, a file that is not a source), a single-output form on a dependency
   with several outputs, $(exe) of a non-binary, or an entry point the dependency does not have, does not expand. *)
Definition C37_statement : Prop :=
  (forall w fl inp text ps, wf_world w = true -> In fl (map snd passes) ->
     replace_sequence w false fl inp = ROk (text, ps) ->
     (forall p, In p ps -> present w p = true) /\ shell_words text = Some (map piece_word ps))
  /\ (forall w test fl inp, names_label_not_dependency w inp = true \/ names_file_not_dependency w fl inp = true ->
        forall text ps, replace_sequence w test fl inp <> ROk (text, ps))
  /\ (forall w test runnable dir outp hash inp lbl_s d, resolves w inp lbl_s [] d -> (1 < length (t_outs d))%nat ->
        replace_sequence w test (runnable, false, dir, outp, hash) inp = RErr)
  /\ (forall w test multiple dir outp hash inp lbl_s ep d, resolves w inp lbl_s ep d -> t_binary d = false ->
        replace_sequence w test (true, multiple, dir, outp, hash) inp = RErr)
  /\ (forall w test fl inp lbl_s ep d, resolves w inp lbl_s ep d -> is_nil ep = false -> assoc ep (t_eps d) = None ->
        snd fl = false -> forall text ps, replace_sequence w test fl inp <> ROk (text, ps)).

(* The code refutes it: an output named `a b.txt` expands to two words (quote only reacts to |&;()<>). *)
Theorem C37_refuted : ~ C37_statement.
Proof.
  exact (fun H => w_space_fails (proj1 H w_space loc_flags (s ":sp") _ _ w_space_wf loc_flags_in w_space_expands)).
Qed.
Print Assumptions C37_refuted.

(* What the code does guarantee, for all worlds, flags and arguments (no bound):
   - C37_exists: a sequence of a build command that expands and is in none of the five executable defect classes
     (Model.C37.defect_class) produces only paths that are present;
   - C37_one_word: the expansion is exactly one word per path whenever each path is a word the conservative splitter
     can vouch for (piece_ok), in particular whenever every name consists of ordinary characters and of the control
     operators | & ; ( ) < > (this clause uses the character set regenerated from `quote`);
   - C37_rejects: a label-like argument that names nothing the rule depends on is an error; single-output forms on
     several outputs and $(exe) of a non-binary are errors; an unknown entry point never expands (error or fatal);
   - C37_exact_label: a label-like argument expands only if the label as written - package, name and subrepo - is
     the rule itself or literally one of the labels the rule names as a source, tool or dep; the same package:name in
     another repository (main repository vs. subrepo, or two subrepos) is rejected (uses the regenerated list of
     dependency lookups of replaceSequenceLabel);
   - C37_split_join: for every list of paths over ordinary characters and the operators, shell-splitting the
     space-joined list of individually quoted paths gives back exactly the paths, and that list is what the output
     loop of checkAndReplaceSequence builds (C37_join), whereas quoting the joined list once gives one word;
   - the label parser's fuel never runs out; every pass hands replaceSequence exactly the captured argument. *)
Definition C37_partial_statement : Prop :=
  (forall w fl inp text ps, wf_world w = true -> replace_sequence w false fl inp = ROk (text, ps) ->
     defect_class w fl inp = None -> forall p, In p ps -> present w p = true)
  /\ (forall w test fl inp text ps, replace_sequence w test fl inp = ROk (text, ps) -> forallb piece_ok ps = true ->
        shell_words text = Some (map piece_word ps))
  /\ (forall w test fl inp text ps, replace_sequence w test fl inp = ROk (text, ps) -> forallb piece_name_ok ps = true ->
        shell_words text = Some (map piece_word ps))
  /\ (forall w test fl inp, names_label_not_dependency w inp = true -> replace_sequence w test fl inp = RErr)
  /\ (forall w test runnable dir outp hash inp lbl_s d, resolves w inp lbl_s [] d -> (1 < length (t_outs d))%nat ->
        replace_sequence w test (runnable, false, dir, outp, hash) inp = RErr)
  /\ (forall w test multiple dir outp hash inp lbl_s ep d, resolves w inp lbl_s ep d -> t_binary d = false ->
        replace_sequence w test (true, multiple, dir, outp, hash) inp = RErr)
  /\ (forall w test fl inp lbl_s ep d, resolves w inp lbl_s ep d -> is_nil ep = false -> assoc ep (t_eps d) = None ->
        replace_sequence w test fl inp = RErr \/ replace_sequence w test fl inp = RFatal
        \/ (exists h, replace_sequence w test fl inp = ROk (h, [PRaw h]) /\ snd fl = true))
  /\ (forall w test fl inp text ps, looks_like_label inp = true -> replace_sequence w test fl inp = ROk (text, ps) ->
        exists l, C20.try_parse (fst (split_entry_point inp)) (w_pkg w) [] = C20.Parsed l /\
          (label_key l = t_lbl (w_self w)
           \/ (In (label_key l) (declared_labels w)
               /\ exists d, lookup_tgt (label_key l) (w_graph w) = Some d /\ In d (w_graph w) /\ t_lbl d = label_key l)))
  /\ (forall w test fl inp l, looks_like_label inp = true ->
        C20.try_parse (fst (split_entry_point inp)) (w_pkg w) [] = C20.Parsed l ->
        label_key l <> t_lbl (w_self w) -> ~ In (label_key l) (declared_labels w) ->
        replace_sequence w test fl inp = RErr)
  /\ (forall ps, forallb name_ok ps = true -> shell_words (join_sp (map quote ps)) = Some ps)
  /\ (forall w test runnable multiple dir outp is_self tool all d inp text ps,
        check_and_replace w test (runnable, multiple, dir, outp, false) is_self tool all d [] inp = ROk (text, ps) ->
        forallb name_ok (map piece_word ps) = true ->
        text = join_sp (map quote (map piece_word ps)) /\ shell_words text = Some (map piece_word ps))
  /\ (forall p q ps, forallb name_ok (p :: q :: ps) = true -> needs_quote (join_sp (p :: q :: ps)) = true ->
        shell_words (quote (join_sp (p :: q :: ps))) <> Some (p :: q :: ps))
  /\ (forall w test fl inp, replace_sequence w test fl inp <> RFuel)
  /\ forallb (fun p => Nat.eqb (snd (fst p)) (length (pass_prefix (fst (fst p))))) passes = true.

Theorem C37_partial : C37_partial_statement.
Proof.
  exact (conj exists_partial (conj one_word (conj one_word_names (conj rejects_label (conj rejects_wrong_count
        (conj rejects_not_binary (conj rejects_unknown_entry_point (conj expands_only_exact_dependency (conj rejects_other_subrepo
        (conj split_join_quote (conj car_text_is_join (conj quote_joined_once_wrong (conj never_out_of_fuel passes_offsets_ok))))))))))))).
Qed.
Print Assumptions C37_partial.

(* Non-vacuity: a world in no defect class - a source with two outputs (one needing quotes), a dep, a binary tool with
   an entry point - where the theorem's hypotheses hold and its conclusions can be seen by computation. *)
Example C37_partial_nonvacuous :
  let far := T (s "q/r", s "far", []) [s "f1.txt"; s "f;2.txt"] [] [] false in
  let lib := T (s "p", s "lib", []) [s "libdir"] [] [(s "main", s "libdir/in.txt")] false in
  let tool := T (s "t", s "tool", []) [s "bin/t.sh"] [] [(s "main", s "bin/t.sh")] true in
  let w := mk_world self_p [ILabel (s "q/r", s "far", []); IFile (s "real.txt")] [ILabel (s "t", s "tool", [])] [(s "p", s "lib", [])]
                    [far; lib; tool] (s "/r") in
  wf_world w = true
  /\ replace_sequence w false locs_flags (s "//q/r:far")
     = ROk (s "q/r/f1.txt ""q/r/f;2.txt""", [PFile InTmp (s "q/r/f1.txt"); PFile InTmp (s "q/r/f;2.txt")])
  /\ defect_class w locs_flags (s "//q/r:far") = None
  /\ forallb (present w) [PFile InTmp (s "q/r/f1.txt"); PFile InTmp (s "q/r/f;2.txt")] = true
  /\ forallb piece_name_ok [PFile InTmp (s "q/r/f1.txt"); PFile InTmp (s "q/r/f;2.txt")] = true
  /\ shell_words (s "q/r/f1.txt ""q/r/f;2.txt""") = Some [s "q/r/f1.txt"; s "q/r/f;2.txt"]
  /\ replace_sequence w false loc_flags (s ":lib|main") = ROk (s "p/libdir/in.txt", [PFile InTmp (s "p/libdir/in.txt")])
  /\ defect_class w loc_flags (s ":lib|main") = None /\ present w (PFile InTmp (s "p/libdir/in.txt")) = true
  /\ replace_sequence w false exe_flags (s "//t:tool") = ROk (s "/r/plz-out/bin/t/bin/t.sh", [PFile InAbs (s "/r/plz-out/bin/t/bin/t.sh")])
  /\ defect_class w exe_flags (s "//t:tool") = None /\ present w (PFile InAbs (s "/r/plz-out/bin/t/bin/t.sh")) = true
  /\ replace_sequence w false loc_flags (s "real.txt") = ROk (s "p/real.txt", [PFile InTmp (s "p/real.txt")])
  /\ defect_class w loc_flags (s "real.txt") = None
  /\ names_label_not_dependency w (s "//q/r:other") = true /\ replace_sequence w false loc_flags (s "//q/r:other") = RErr
  /\ replace_sequence w false loc_flags (s "//q/r:far") = RErr
  /\ replace_sequence w false loc_flags (s ":lib|nosuch") = RFatal.
Proof. vm_compute. repeat split; reflexivity. Qed.

(* The defect classes are inhabited: each witness expands (or is not rejected) and names a path that is not there. *)
Example C37_defects_inhabited :
  (* undeclared-file-not-rejected *)
  replace_sequence w_nofile false loc_flags (s "real.txt") = ROk (s "p/real.txt", [PFile InTmp (s "p/real.txt")])
  /\ names_file_not_dependency w_nofile loc_flags (s "real.txt") = true
  /\ present w_nofile (PFile InTmp (s "p/real.txt")) = false
  /\ defect_class w_nofile loc_flags (s "real.txt") = Some DUndeclaredFile
  (* named-output-source-lists-all-outputs *)
  /\ replace_sequence w_named false locs_flags (s ":named")
     = ROk (s "p/n1.txt p/n2.txt", [PFile InTmp (s "p/n1.txt"); PFile InTmp (s "p/n2.txt")])
  /\ present w_named (PFile InTmp (s "p/n1.txt")) = true /\ present w_named (PFile InTmp (s "p/n2.txt")) = false
  /\ defect_class w_named locs_flags (s ":named") = Some DNamedOnly
  (* tool-entry-point-relative-path *)
  /\ replace_sequence w_toolep false exe_flags (s ":tool|main") = ROk (s "p/bin/t.sh", [PFile InTmp (s "p/bin/t.sh")])
  /\ present w_toolep (PFile InTmp (s "p/bin/t.sh")) = false
  /\ defect_class w_toolep exe_flags (s ":tool|main") = Some DToolEntryPoint
  (* dir-of-root-package-empty *)
  /\ replace_sequence w_rootdir false dir_flags (s ":rootdep") = ROk ([], [PDir InTmp []])
  /\ present w_rootdir (PDir InTmp []) = false /\ shell_words [] = Some []
  /\ defect_class w_rootdir dir_flags (s ":rootdep") = Some DRootDir
  (* self-reference-in-build-command *)
  /\ replace_sequence w_nofile false loc_flags (s ":gen") = ROk (s "p/gen.out", [PFile InTmp (s "p/gen.out")])
  /\ present w_nofile (PFile InTmp (s "p/gen.out")) = false
  /\ defect_class w_nofile loc_flags (s ":gen") = Some DSelf
  (* name-with-shell-char-outside-quote-set: the witness of C37_refuted, and a dollar inside quotes *)
  /\ shell_words (s "p/a b.txt") = Some [s "p/a"; s "b.txt"]
  /\ piece_ok (PFile InTmp (s "p/a b.txt")) = false /\ piece_ok (PFile InTmp (s "p/a;$b")) = false.
Proof. vm_compute. repeat split; reflexivity. Qed.

(* Non-vacuity of the subrepo and splitting clauses: the rule depends on //path/to:target2 and on
   ///vendor/x//q:lib (and //q:lib, ///third_party/sub//path/to:target2 exist but are not dependencies). *)
Example C37_subrepo_nonvacuous :
  let t2 := T (s "path/to", s "target2", []) [s "t2.txt"] [] [] false in
  let t2s := T (s "path/to", s "target2", s "third_party/sub") [s "t2.txt"] [] [] false in
  let libs := T (s "q", s "lib", s "vendor/x") [s "l&1.a"; s "l2.a"] [] [] false in
  let libm := T (s "q", s "lib", []) [s "l1.a"] [] [] false in
  let w := mk_world self_p [ILabel (s "path/to", s "target2", []); ILabel (s "q", s "lib", s "vendor/x")] [] []
                    [t2; t2s; libs; libm] (s "/r") in
  wf_world w = true
  /\ replace_sequence w false loc_flags (s "//path/to:target2") = ROk (s "path/to/t2.txt", [PFile InTmp (s "path/to/t2.txt")])
  /\ replace_sequence w false loc_flags (s "///third_party/sub//path/to:target2") = RErr
  /\ replace_sequence w false loc_flags (s "@third_party/sub//path/to:target2") = RErr
  /\ replace_sequence w false locs_flags (s "//q:lib") = RErr
  /\ replace_sequence w false locs_flags (s "///other//q:lib") = RErr
  /\ replace_sequence w false locs_flags (s "///vendor/x//q:lib")
     = ROk (s """q/l&1.a"" q/l2.a", [PFile InTmp (s "q/l&1.a"); PFile InTmp (s "q/l2.a")])
  /\ replace_sequence w false (false, true, false, true, false) (s "///vendor/x//q:lib")
     = ROk (s """plz-out/gen/vendor/x/q/l&1.a"" plz-out/gen/vendor/x/q/l2.a",
            [PFile InRepo (s "plz-out/gen/vendor/x/q/l&1.a"); PFile InRepo (s "plz-out/gen/vendor/x/q/l2.a")])
  /\ defect_class w locs_flags (s "///vendor/x//q:lib") = None
  /\ forallb (present w) [PFile InTmp (s "q/l&1.a"); PFile InTmp (s "q/l2.a");
                          PFile InRepo (s "plz-out/gen/vendor/x/q/l&1.a"); PFile InRepo (s "plz-out/gen/vendor/x/q/l2.a")] = true
  /\ In (s "q", s "lib", s "vendor/x") (declared_labels w) /\ ~ In (s "q", s "lib", []) (declared_labels w)
  /\ forallb name_ok [s "q/l&1.a"; s "q/l2.a"] = true
  /\ join_sp (map quote [s "q/l&1.a"; s "q/l2.a"]) = s """q/l&1.a"" q/l2.a"
  /\ shell_words (s """q/l&1.a"" q/l2.a") = Some [s "q/l&1.a"; s "q/l2.a"]
  /\ shell_words (quote (join_sp [s "q/l&1.a"; s "q/l2.a"])) = Some [s "q/l&1.a q/l2.a"].
Proof.
  vm_compute. repeat split; try reflexivity.
  - right. left. reflexivity.
  - intros [H|[H|[]]]; discriminate H.
Qed.

(* ---- extension: require/provide, and $(worker ...) commands (Model/C37_Ext.v) ------------------------------------------ *)

(* Dependency resolution with require/provide (resolve interprets the guards of provideFor regenerated from the source):
   - a sequence naming a label the rule lists as a tool, or as data, expands exactly as in the world without any
     provides (so every clause of C37_partial holds for it: it names the tool's own outputs), whatever the tool
     provides and whatever the rule requires;
   - every dependency a label resolves to is the declared one or is listed in its provides under a language the rule
     requires (induction on the requires);
   - when nothing the rule declares is replaced (in particular without requires) the whole expansion of every command
     is the one of Model/C37.v. *)
Definition C37_provides_statement : Prop :=
  (forall w px test fl inp,
     (forall l, C20.try_parse (fst (split_entry_point inp)) (w_pkg w) [] = C20.Parsed l ->
                is_tool w (label_key l) = true \/ existsb (lbl_eqb (label_key l)) (px_data px) = true) ->
     replace_sequence_p w px test fl inp = replace_sequence w test fl inp)
  /\ (forall w px k, is_tool w k = true -> resolve w px k = [k])
  /\ (forall w px k k2, In k2 (resolve w px k) ->
        k2 = k \/ exists pv r l, assoc_lbl k (px_provides px) = Some pv /\ In r (px_requires px) /\ assoc r pv = Some l /\ In k2 l)
  /\ (forall w px test cmd, unresolved w px -> expand_cmd_p w px test cmd = expand_cmd w test cmd)
  /\ (forall w px, is_nil (px_requires px) = true -> unresolved w px).

Theorem C37_provides : C37_provides_statement.
Proof.
  exact (conj tool_sequence_not_substituted (conj resolve_tool (conj resolve_sound (conj expand_cmd_p_same no_requires_unresolved)))).
Qed.
Print Assumptions C37_provides.

(* $(worker ...) commands (worker_and_args interprets the body of workerAndArgs regenerated from the source):
   - a command WorkerCommandAndArgs / TestWorkerCommand accepts has BOTH halves expanded by replaceSequencesInternal:
     the arguments are the expansion of the trimmed text before && and the local command the expansion of the text
     after it, so a sequence that is rejected in either half makes the whole command an error;
   - it never accepts while handing out a value that comes from a failed expansion;
   - the same for the local command ReplaceTestSequences returns for a $(worker test command;
   - for EVERY straight-line program over the error variable that never starts an expansion while an unchecked error is
     pending and returns the error unless none can be pending: if it accepts, every expansion it performed succeeded
     (induction on the program); workerAndArgs as regenerated is such a program;
   - a pass that accepts a text has accepted every sequence it matched in it (induction on the text). *)
Definition C37_worker_statement : Prop :=
  (forall w px cmd t a l, worker_and_args w px cmd = WOk t a l ->
     match find_worker cmd with
     | None => t = [] /\ a = [] /\ expand_cmd_p w px false cmd = ROk l
     | Some (m1, (m2, m3, m4)) =>
         m1 = [] /\ expand_cmd_p w px false (trim_space m3) = ROk a /\ expand_cmd_p w px false m4 = ROk l
         /\ worker_seq w px m2 = ROk t
     end)
  /\ (forall w px cmd, worker_and_args w px cmd <> WBogus)
  /\ (forall w px cmd t a l, is_nil cmd = false -> has_prefix (s test_worker_prefix) cmd = true ->
        replace_test_sequences w px cmd = WOk t a l -> exists t' a', worker_and_args w px cmd = WOk t' a' l)
  /\ (forall exp wk steps pending sl err worker t a l,
        safe_prog pending steps = true -> (err = true -> pending = true) ->
        run_steps exp wk steps sl err worker = WOk t a l ->
        err = false /\ forall p, In p (parts_of steps) -> is_ok (exp p) = true)
  /\ (safe_prog false worker_steps = true /\ parts_of worker_steps = [PArgsTrim; PLocal])
  /\ (forall pre off f x skip o, scan pre off f x skip = ROk o ->
        forall a, In a (matched_args pre off x skip) -> is_ok (f a) = true).

Theorem C37_worker : C37_worker_statement.
Proof.
  exact (conj worker_accepts_only_expanded (conj worker_never_bogus (conj test_worker_accepts_only_expanded
        (conj run_safe (conj (conj worker_steps_safe worker_steps_parts) scan_ok_all))))).
Qed.
Print Assumptions C37_worker.

(* Non-vacuity: a code generator with provides = {'go': ':gen_lib'} used as a tool by a rule with requires = ['go']
   expands to the tool itself while a plain dep with the same provides is replaced; a worker command with a sequence
   naming a non-dependency before && is an error although its local part is fine, a valid one gives both halves. *)
Example C37_ext_nonvacuous :
  is_tool w_prov (t_lbl gen_tool) = true
  /\ expand_cmd_p w_prov px_prov false (s "$(location //tools:gen) $(exe //tools:gen)")
     = ROk (s "/r/plz-out/bin/tools/gen.sh /r/plz-out/bin/tools/gen.sh")
  /\ resolve w_prov px_prov (t_lbl some_dep) = [t_lbl gen_lib]
  /\ expand_cmd_p w_prov px_prov false (s "$(location //lib:dep)") = ROk (s "tools/gen_lib.a")
  /\ worker_and_args w_prov px_prov (s "$(worker //tools:gen) --in $(location //lib:not_a_dep) && echo ok") = WErr
  /\ expand_cmd_p w_prov px_prov false (s "echo ok") = ROk (s "echo ok")
  /\ matched_args (pass_prefix "location") 11 (s "--in $(location //lib:not_a_dep)") 0 = [s "//lib:not_a_dep"]
  /\ worker_and_args w_prov px_prov (s "$(worker //tools:gen) --in $(location //lib:dep) && echo $(locations //tools:gen)")
     = WOk (s "/r/plz-out/bin/tools/gen.sh") (s "--in tools/gen_lib.a") (s "echo /r/plz-out/bin/tools/gen.sh")
  /\ find_worker (s "$(worker //tools:gen) --in $(location //lib:dep) && echo $(locations //tools:gen)")
     = Some ([], (s "//tools:gen", s "--in $(location //lib:dep) ", s "echo $(locations //tools:gen)")).
Proof. vm_compute. repeat split; reflexivity. Qed.
