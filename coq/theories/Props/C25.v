(* C25 - Garbage collection never removes anything still needed.
   This file holds only the statement, the property theorems and their non-vacuity examples.
   Vocabulary (Proof/C25_Spec.v): Kept = the least set containing the roots of the property text (non-test
   binaries - every binary in conservative mode -, targets with a kept label, named targets, subincludes),
   closed under "depends on" and under "is a test of a kept target that is not test_only";
   uses t f = f is a source or data file of t, or lies inside a directory t lists. *)
From Coq Require Import Permutation.
From PlzV Require Import Base.Harness Model.C25 Proof.C25_Spec Proof.C25 Proof.C25_PkgMap.

Definition C25_statement : Prop :=
  forall (g : graph) (a : args) (removed : list label) (srcs : list str),
    gc g a = Some (removed, srcs) ->          (* targetsToRemove returned these two lists *)
    (* never proposes removing a target that a kept root transitively depends on *)
    (forall r, In r removed -> ~ Kept g a r)
    (* never proposes deleting a source file that any kept target uses *)
    /\ (forall f, In f srcs -> forall k t, Kept g a k -> find_target g k = Some t -> ~ uses t f).

(* The code violates it: //p:a_test is a test of //p:helper, which the kept test //p:z_test needs, and is
   proposed for removal together with its source (the pass over the tests is a single pass in label order). *)
Theorem C25_refuted : ~ C25_statement.
Proof.
  exact (fun H => proj1 (H w_order no_args _ _ w_order_gc) (lp "a_test") (or_introl eq_refl) w_order_kept).
Qed.
Print Assumptions C25_refuted.

(* What the code does guarantee, for ALL graphs and arguments:
   (1) outside the four listed defect classes (an executable classifier over the keep set the code
       computed) the property holds at full strength;
   (2) unconditionally: the gc sibling of every removed target is outside Kept1 - the roots, their
       dependency closure, the tests of what the roots alone keep, and the closure of those - and no
       removed source is a source of a Kept1 target.  (A target without gc_sibling label is its own sibling.)
   (3) see below: publicDependencies = test_of exactly; tests behind hidden chains of any length stay. *)
Definition C25_partial_statement : Prop :=
  (forall g a removed srcs, gc g a = Some (removed, srcs) -> defect_class g a = None ->
     safe_targets g a removed /\ safe_sources g a srcs)
  /\ (forall g a removed srcs, gc g a = Some (removed, srcs) ->
        (forall r, In r removed ->
           exists t, In t (g_targets g) /\ t_label t = r /\ ~ Kept1 g a (t_label (gc_sibling g t)))
        /\ (forall f, In f srcs -> forall k t, Kept1 g a k -> find_target g k = Some t -> ~ In f (t_srcs t)))
  (* (3) publicDependencies returns exactly what the test is a test of (test_of: looking through the hidden
         sub-targets of the test's own rule at ANY depth and through nothing else), and therefore a test that
         reaches a non-test_only target the roots keep through a chain hs - of any length - of hidden
         sub-targets of its own rule is not proposed for removal, nor are its sources (default mode; the
         test being its own gc sibling) *)
  /\ (forall g f t ds, public_deps f g t = Some ds -> forall x, In x ds <-> test_of g t x)
  /\ (forall g a removed srcs t hs x, gc g a = Some (removed, srcs) ->
        In t (g_targets g) -> t_test t = true -> a_include_tests a = false ->
        hidden_chain g t hs x -> Kept0 g a (t_label x) -> t_test_only x = false ->
        (forall t', In t' (g_targets g) -> t_label t' = t_label t -> t_label (gc_sibling g t') = t_label t) ->
        ~ In (t_label t) removed
        /\ (forall t' f, find_target g (t_label t) = Some t' -> In f (t_srcs t') -> ~ In f srcs))
  (* (4) the roots are enumerated over ALL packages of the graph.  gc.go never sees the graph's package store,
         it ranges over the copy PackageMap() builds (a Go map keyed by a string; key regenerated from
         graph.go / build_label.go).  For EVERY history ps of AddPackage calls on a new graph that did not
         panic, every order vals in which graph.packages.Values() lists the store, and well-formed names
         (wf_pkg: a host package's name does not begin with '@'; a subrepo's name has no "//" and no trailing
         "/"): the values of PackageMap() are exactly the packages that were added, one entry per key ... *)
  /\ (forall ps st vals, add_packages ps = Some st -> Permutation st vals -> (forall p, In p ps -> wf_pkg p = true) ->
        (forall p, In p (pm_values (package_map vals)) <-> In p ps)
        /\ (forall p, In p ps -> In (pkgmap_key_of p, p) (package_map vals))
        /\ NoDup (map fst (package_map vals))
        /\ length (package_map vals) = length ps)
  (*     ... hence (1) and (2) hold with Kept / Kept1 read on the graph whose packages are ALL the packages ever
         added (every subinclude of every one of them is a root, a named //pkg/... names the targets of every
         one it includes), while gc runs on what PackageMap() hands out *)
  /\ (forall ts ps st vals a removed srcs,
        add_packages ps = Some st -> Permutation st vals -> (forall p, In p ps -> wf_pkg p = true) ->
        gc (G ts (pm_values (package_map vals))) a = Some (removed, srcs) ->
        ((forall r, In r removed ->
            exists t, In t ts /\ t_label t = r /\ ~ Kept1 (G ts ps) a (t_label (gc_sibling (G ts ps) t)))
         /\ (forall f, In f srcs -> forall k t, Kept1 (G ts ps) a k -> find_target (G ts ps) k = Some t -> ~ In f (t_srcs t)))
        /\ (defect_class (G ts (pm_values (package_map vals))) a = None ->
            safe_targets (G ts ps) a removed /\ safe_sources (G ts ps) a srcs)).

Theorem C25_partial : C25_partial_statement.
Proof.
  exact (conj gc_safe_unless_defect (conj gc_safe_one_round (conj public_deps_exact (conj chain_test_not_removed
        (conj package_map_exact
              (fun ts ps st vals a removed srcs Hadd Hperm Hwf Hgc =>
                 conj (gc_safe_one_round_all_packages ts ps st vals a Hadd Hperm Hwf removed srcs Hgc)
                      (gc_safe_unless_defect_all_packages ts ps st vals a Hadd Hperm Hwf removed srcs Hgc))))))).
Qed.
Print Assumptions C25_partial.

(* Non-vacuity.  The graph of gc_test.go is outside every defect class, has targets kept and removed;
   each defect class is inhabited by a concrete graph on which the code really breaks the property. *)
Example C25_nonvacuous_ok :
  gc w_unit no_args = Some ([lq "src/cli" "cli"; lq "src/parse" "parse"], []) /\ defect_class w_unit no_args = None.
Proof. exact w_unit_ok. Qed.

Example C25_nonvacuous_classes :
  defect_class w_order no_args = Some TestNotRevisited /\
  defect_class w_sibling no_args = Some SiblingNotKept /\
  defect_class w_data no_args = Some DataOrDirectory.
Proof. exact w_classes. Qed.

(* (3) is not vacuous: //lib:k_test -> //lib:_k_test#main -> //lib:_k_test#lib -> //lib:k satisfies every
   hypothesis with hs of length two, and only //junk:junk is removed ... *)
Example C25_nonvacuous_chain :
  gc w_chain no_args = Some ([lq "junk" "junk"], [s "junk/junk.go"]) /\
  In c_ktest (g_targets w_chain) /\ t_test c_ktest = true /\ a_include_tests no_args = false /\
  hidden_chain w_chain c_ktest [c_hmain; c_hlib] c_k /\ Kept0 w_chain no_args (t_label c_k) /\ t_test_only c_k = false /\
  (forall t', In t' (g_targets w_chain) -> t_label t' = t_label c_ktest -> t_label (gc_sibling w_chain t') = t_label c_ktest).
Proof. exact w_chain_ok. Qed.

(* ... while a link that is a hidden sub-target of ANOTHER rule is not looked through: the test is a test of
   that link only, it is removed, and nothing kept needs it *)
Example C25_foreign_link_witness :
  (gc w_foreign no_args = Some ([lq "lib" "k_test"; lq "lib" "other"], [s "lib/k_test.go"; s "lib/other.go"])
   /\ defect_class w_foreign no_args = None
   /\ option_map (map t_label) (public_deps (fuel_of w_foreign) w_foreign c_ktest) = Some [lq "lib" "_other#lib"])
  /\ ~ Kept w_foreign no_args (lq "lib" "k_test").
Proof. exact (conj w_foreign_gc w_foreign_not_kept). Qed.

(* (4) is not vacuous: the subrepo third_party has a package lib, as the host repository has; only the host
   package lib subincludes //build_defs:defs.  Five AddPackage calls succeed, the names are well-formed, the
   copy has five entries ("lib" and "@third_party//lib" among its keys), and //build_defs:defs stays - with
   //lib/... named, so do the targets of the host package lib *)
Example C25_nonvacuous_all_packages :
  add_packages sh_ps = Some sh_ps /\ forallb wf_pkg sh_ps = true
  /\ map fst (package_map sh_ps) = [s "app"; s "lib"; s "build_defs"; s "old"; s "@third_party//lib"]
  /\ gc (gc_view (all_pkgs sh_ts sh_ps)) no_args = Some ([lq "lib" "api"; lq "lib" "codec"; lq "old" "junk"], [])
  /\ gc (gc_view (all_pkgs sh_ts sh_ps)) (A [] [lq "lib" "..."] [] [] false) = Some ([lq "old" "junk"], []).
Proof. exact w_shadow_ok. Qed.

(* ... and what (4) excludes: a copy keyed by the package name alone has four entries for the five packages,
   the host package lib is gone, and //build_defs:defs - subincluded by it alone - is proposed for removal *)
Example C25_by_name_witness :
  length (package_map_by_name sh_ps) = 4%nat
  /\ gc (G sh_ts (pm_values (package_map_by_name sh_ps))) no_args
     = Some ([lq "build_defs" "defs"; lq "build_defs" "helpers"; lq "lib" "api"; lq "lib" "codec"; lq "old" "junk"], []).
Proof. exact w_shadow_by_name_loses. Qed.

Example C25_sibling_witness :
  gc w_sibling no_args = Some ([lp "gen"; lp "gen_go"], []) /\ Kept w_sibling no_args (lp "gen_go").
Proof. exact (conj w_sibling_gc w_sibling_kept). Qed.

Example C25_data_witness :
  gc w_data no_args = Some ([lp "old"], [s "p/golden.txt"]) /\
  exists t, Kept w_data no_args (lp "bin") /\ find_target w_data (lp "bin") = Some t /\ uses t (s "p/golden.txt").
Proof. exact (conj w_data_gc (ex_intro _ _ w_data_used)). Qed.
