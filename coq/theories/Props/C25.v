(* C25 - Garbage collection never removes anything still needed.
   This file holds only the statement, the property theorems and their non-vacuity examples.
   Vocabulary (Proof/C25_Spec.v): Kept = the least set containing the roots of the property text (non-test
   binaries - every binary in conservative mode -, targets with a kept label, named targets, subincludes),
   closed under "depends on" and under "is a test of a kept target that is not test_only";
   uses t f = f is a source or data file of t, or lies inside a directory t lists. *)
From PlzV Require Import Base.Harness Model.C25 Proof.C25_Spec Proof.C25.

Definition C25_statement : Prop :=
  forall (g : graph) (a : args) (removed : list label) (srcs : list str),
    gc g a = Some (removed, srcs) ->          (* targetsToRemove returned these two lists *)
    (* never proposes removing a target that a kept root transitively depends on *)
    (forall r, In r removed -> ~ Kept g a r)
    (* never proposes deleting a source file that any kept target uses *)
    /\ (forall f, In f srcs -> forall k t, Kept g a k -> find_target g k = Some t -> ~ uses t f).

(* The code violates it: //p:a_test is a test of //p:helper, which the kept test //p:z_test needs, and is
   proposed for removal together with its source (the pass over the tests is a single pass in label order). *)
Theorem C25_refuted : ~ C25_statement.
Proof.
  exact (fun H => proj1 (H w_order no_args _ _ w_order_gc) (lp "a_test") (or_introl eq_refl) w_order_kept).
Qed.
Print Assumptions C25_refuted.

(* What the code does guarantee, for ALL graphs and arguments:
   (1) outside the four listed defect classes (an executable classifier over the keep set the code
       computed) the property holds at full strength;
   (2) unconditionally: the gc sibling of every removed target is outside Kept1 - the roots, their
       dependency closure, the tests of what the roots alone keep, and the closure of those - and no
       removed source is a source of a Kept1 target.  (A target without gc_sibling label is its own sibling.) *)
Definition C25_partial_statement : Prop :=
  (forall g a removed srcs, gc g a = Some (removed, srcs) -> defect_class g a = None ->
     safe_targets g a removed /\ safe_sources g a srcs)
  /\ (forall g a removed srcs, gc g a = Some (removed, srcs) ->
        (forall r, In r removed ->
           exists t, In t (g_targets g) /\ t_label t = r /\ ~ Kept1 g a (t_label (gc_sibling g t)))
        /\ (forall f, In f srcs -> forall k t, Kept1 g a k -> find_target g k = Some t -> ~ In f (t_srcs t))).

Theorem C25_partial : C25_partial_statement.
Proof. exact (conj gc_safe_unless_defect gc_safe_one_round). Qed.
Print Assumptions C25_partial.

(* Non-vacuity.  The graph of gc_test.go is outside every defect class, has targets kept and removed;
   each defect class is inhabited by a concrete graph on which the code really breaks the property. *)
Example C25_nonvacuous_ok :
  gc w_unit no_args = Some ([lq "src/cli" "cli"; lq "src/parse" "parse"], []) /\ defect_class w_unit no_args = None.
Proof. exact w_unit_ok. Qed.

Example C25_nonvacuous_classes :
  defect_class w_order no_args = Some TestNotRevisited /\
  defect_class w_sibling no_args = Some SiblingNotKept /\
  defect_class w_data no_args = Some DataOrDirectory.
Proof. exact w_classes. Qed.

Example C25_sibling_witness :
  gc w_sibling no_args = Some ([lp "gen"; lp "gen_go"], []) /\ Kept w_sibling no_args (lp "gen_go").
Proof. exact (conj w_sibling_gc w_sibling_kept). Qed.

Example C25_data_witness :
  gc w_data no_args = Some ([lp "old"], [s "p/golden.txt"]) /\
  exists t, Kept w_data no_args (lp "bin") /\ find_target w_data (lp "bin") = Some t /\ uses t (s "p/golden.txt").
Proof. exact (conj w_data_gc (ex_intro _ _ w_data_used)). Qed.
