(* C05 - Builds always terminate and report failure faithfully.
   Stated over every run of the scheduler LTS (Model/Sched.v).  This file holds only the statement, the property theorems
   and their non-vacuity examples.  There is no refutation: the one violation found while modelling (with --keep_going a
   failed build command left its target in forwardResults' activeTargets for ever, so the cycle check never ran again and
   a build that also contained a dependency cycle hung) was repaired in /repo (commit 9c1ce3e "fix: with --keep_going a
   build failure disabled cycle detection for the rest of the run"); the model follows the repaired code and the hang
   witness stays in the harness' adversarial stream.  Every conjunct of the statement is proved (C05_full), for all
   graphs, thread counts, --keep_going settings and all interleavings. *)
From PlzV Require Import Base.Harness Model.Sched Proof.Sched_Base Proof.Sched_Inv Proof.Sched_Deps Proof.C04 Proof.Sched_Measure Proof.C05 Proof.C05_Defs Proof.C05_Live Proof.C05_Exit Proof.C05_Subrepo.

(* the labels an invocation needs: the requested ones and, transitively, their dependencies *)
Definition needed (g : graph) (l : nat) : Prop := In l (g_req g) \/ exists r, In r (g_req g) /\ tdep g r l.

Definition C05_statement : Prop :=
  forall g, wf g ->
    (* termination, part 1: every run is finite; its length is bounded by a (linear) function of the graph *)
    (forall ls s, run g (init g) ls = Some s -> length ls <= mu_bound g) /\
    (* termination, part 2: a run that has not ended can always take a step (the 5 s cycle check counts as a step) *)
    (forall s, reachable g s -> exited s = false -> exists l, enabled g s l = true) /\
    (* when the invocation ends nothing is in flight, and every command that started has ended and is logged *)
    (forall s, reachable g s -> exited s = true ->
       quiet s /\ forall t, tstarts t (trace s) = 1 -> tends t (trace s) = 1 /\ completed (ts s t) = true) /\
    (* exit status non-zero exactly when a requested target or one of its dependencies could not be built *)
    (forall s, reachable g s -> exited s = true ->
       (failed s = false <->
        forall l, needed g l -> g_pkg_ok g (g_pkg g l) = true /\ ex s l = true /\ is_built (ts s l) = true)) /\
    (* it never runs a target one of whose (transitive) dependencies failed *)
    (forall s, reachable g s -> forall t, In (OStart t) (trace s) -> forall d, tdep g t d ->
       (exists o, built_kind o = true /\ In (OEnd d (RBuilt o)) (trace s)) /\
       ~ In (OEnd d RFailed) (trace s) /\ ~ In (OEnd d RDepFailed) (trace s)).

Theorem C05_full : C05_statement.
Proof. exact C05_all. Qed.
Print Assumptions C05_full.

(* Behind the bound: the measure mu strictly decreases with every step of every run, and the "if" half of the exit
   status holds at any time, not only at the end (kept from the first round; no wf hypothesis needed). *)
Theorem C05_partial :
  forall g,
    (forall ls s, run g (init g) ls = Some s -> length ls + mu g s <= mu_bound g) /\
    (forall s l, reachable g s -> enabled g s l = true -> mu g (apply g s l) < mu g s) /\
    (forall s, reachable g s ->
       ((exists t, (12 <= rank (ts s t))%N) \/ (exists o, In o (trace s) /\ bad_event o = true)) -> failed s = true).
Proof. exact C05_steps. Qed.
Print Assumptions C05_partial.

(* A dependency cycle among the needed labels always ends in a non-zero exit status (corollary of C05_full). *)
Theorem C05_cycle_reported : forall g, wf g -> forall s, reachable g s -> exited s = true ->
  (exists l, needed g l /\ tdep g l l) -> failed s = true.
Proof. exact cycle_exit_nonzero. Qed.
Print Assumptions C05_cycle_reported.

(* A state in which only the inactivity timer can move contains a dependency cycle through a needed label; the timer
   step is enabled for it and makes the exit status non-zero (corollary of the no-deadlock conjunct). *)
Theorem C05_quiescent_cycle : forall g, wf g -> forall s, reachable g s -> exited s = false ->
  (forall l, enabled g s l = true -> exists c, l = LTimerCycleCheck c) ->
  exists a c, enabled g s (LTimerCycleCheck (a :: c)) = true /\ needed g a /\ tdep g a a /\
              failed (apply g s (LTimerCycleCheck (a :: c))) = true.
Proof. exact only_timer_means_cycle. Qed.
Print Assumptions C05_quiescent_cycle.

(* Waiting, as the LTS abstracts it, is what the code does.  (1) core.waitOnChan - behind WaitForBuild and SyncParsePackage -
   run as the program gotrans reads against ANY sequence of close / 10 s-timer events returns only after the close.
   (2) A queueTargetAsync goroutine gets past a dependency only when FinishBuild has been called for it, and a dependency it
   passes is built.  (3) BUILD-file errors around subrepos: over every history of subinclude steps of the BUILD-file
   interpreters, checkSubrepo never makes the interpreter of a package wait (SyncParsePackage) for that same package -
   it reports "not defined in this package yet" exactly when the package that should define the subrepo is the one being
   interpreted. *)
Theorem C05_waits :
  (forall env b, wc_exec waitonchan_prog env false = Some b -> b = true) /\
  (forall g s, reachable g s -> forall t d,
     (enabled g s (LWaitDep t d) = true \/ enabled g s (LDepFailed t d) = true -> fin s d = true) /\
     (enabled g s (LWaitDep t d) = true -> is_built (ts s d) = true)) /\
  (forall roots steps p q, In (p, q) (waits (sub_run subrepo_guard_arg (mkPW roots []) steps)) -> p <> q) /\
  (forall label definer dependent,
     check_subrepo subrepo_guard_arg label definer dependent false = CSNotYet <-> definer = dependent).
Proof.
  split; [exact waitonchan_waits|]. split.
  - intros g s Hr t d. split; [exact (wait_step_needs_finish g s t d) | exact (passed_dependency_final g s Hr t d)].
  - split; [exact sub_run_from_start | exact check_subrepo_not_yet_iff].
Qed.
Print Assumptions C05_waits.
(* non-vacuity: an environment in which the timer fires twice before the close; a history that ends with a real wait *)
Example C05_waits_nonvacuous :
  wc_exec waitonchan_prog [WETimer; WETimer; WEClose] false = Some true /\
  wc_exec waitonchan_prog [WETimer; WETimer] false = None /\
  waits (sub_run subrepo_guard_arg (mkPW [(0, 1); (0, 2)] []) [((1, 0), (0, 2), (0, 1)); ((2, 0), (0, 1), (0, 1))]) = [((0, 1), (0, 2))] /\
  interp (sub_run subrepo_guard_arg (mkPW [(0, 1); (0, 2)] []) [((1, 0), (0, 2), (0, 1)); ((2, 0), (0, 1), (0, 1))]) = [(0, 2)].
Proof. repeat split; reflexivity. Qed.

(* Non-vacuity 1: the run found for an event sequence observed on the real plz (diamond, failing middle target,
   --keep_going): the graph is well-formed, the run ends (exited), a command started whose dependency chain is
   non-empty, a target is "dependency failed", the exit status is non-zero, and the bound is a concrete number. *)
Definition g_d : graph := graph_of [0;0;0;0] [[];[0];[0];[1;2]] [true;true;true;true] [true] [3;1] true 4.
Definition ev_d : list ev :=
  [EvStart 0; EvEnd 0 (RBuilt Built); EvStart 1; EvStart 2; EvEnd 2 RFailed; EvEnd 1 (RBuilt Built); EvEnd 3 RDepFailed].
Definition ls_d : list label := match witness g_d [] ev_d [] 0 with Some ls => ls | None => [] end.
Definition s_d : state := match run g_d (init g_d) ls_d with Some s => s | None => init g_d end.
Example C05_nonvacuous :
  run g_d (init g_d) ls_d <> None /\ length ls_d = 63 /\ mu_bound g_d = 196 /\
  exited s_d = true /\ failed s_d = true /\ In (OStart 1) (trace s_d) /\ tdep g_d 1 0 /\
  ts s_d 3 = DependencyFailed /\ tstarts 3 (trace s_d) = 0.
Proof.
  split; [vm_compute; discriminate|]. split; [vm_compute; reflexivity|]. split; [vm_compute; reflexivity|].
  split; [vm_compute; reflexivity|]. split; [vm_compute; reflexivity|].
  split; [vm_compute; tauto|]. split; [apply tdep_one; vm_compute; tauto|].
  split; vm_compute; reflexivity.
Qed.

(* Non-vacuity 2 (exit status zero): target 0 depends on target 1, both build; the run ends with exit status zero and
   both needed labels - the requested one and its dependency - are built.  The hypotheses of C05_full hold (wf). *)
Definition g_ok : graph := graph_of [0;0] [[1];[]] [true;true] [true] [0] false 2.
Definition ev_ok : list ev := [EvStart 1; EvEnd 1 (RBuilt Built); EvStart 0; EvEnd 0 (RBuilt Built)].
Definition ls_ok : list label := match witness g_ok [] ev_ok [] 0 with Some ls => ls | None => [] end.
Definition s_ok : state := match run g_ok (init g_ok) ls_ok with Some s => s | None => init g_ok end.
Example C05_nonvacuous_ok :
  wf g_ok /\ run g_ok (init g_ok) ls_ok <> None /\ exited s_ok = true /\ failed s_ok = false /\
  needed g_ok 0 /\ needed g_ok 1 /\ is_built (ts s_ok 0) = true /\ is_built (ts s_ok 1) = true.
Proof.
  split; [apply wf_of; [reflexivity | intros t Ht; apply graph_of_deps_out; exact Ht | reflexivity | cbn; auto with arith]|].
  split; [vm_compute; discriminate|]. split; [vm_compute; reflexivity|]. split; [vm_compute; reflexivity|].
  split; [left; cbn; auto|]. split; [right; exists 0; split; [cbn; auto | apply tdep_one; cbn; auto]|].
  split; vm_compute; reflexivity.
Qed.

(* Non-vacuity 3 (the blocked wait-for chain): targets 0 and 1 depend on each other.  After 14 steps both
   queueTargetAsync goroutines wait for each other: the run has not ended, the cycle check is enabled for the cycle
   0 -> 1 -> 0, and the run that takes it ends with a non-zero exit status; 0 is needed and lies on a cycle. *)
Definition g_c : graph := graph_of [0;0] [[1];[0]] [true;true] [true] [0] false 2.
Definition ls_c : list label := match witness g_c [] [EvErr 0 [0;1]] [] 0 with Some ls => ls | None => [] end.
Definition s_b : state := match run g_c (init g_c) (firstn 14 ls_c) with Some s => s | None => init g_c end.
Definition s_c : state := match run g_c (init g_c) ls_c with Some s => s | None => init g_c end.
Example C05_nonvacuous_cycle :
  wf g_c /\ run g_c (init g_c) (firstn 14 ls_c) <> None /\ exited s_b = false /\
  asy s_b 0 = AWait [1] /\ asy s_b 1 = AWait [0] /\ enabled g_c s_b (LTimerCycleCheck [0;1]) = true /\
  run g_c (init g_c) ls_c <> None /\ exited s_c = true /\ failed s_c = true /\ needed g_c 0 /\ tdep g_c 0 0.
Proof.
  split; [apply wf_of; [reflexivity | intros t Ht; apply graph_of_deps_out; exact Ht | reflexivity | cbn; auto with arith]|].
  split; [vm_compute; discriminate|]. split; [vm_compute; reflexivity|]. split; [vm_compute; reflexivity|].
  split; [vm_compute; reflexivity|]. split; [vm_compute; reflexivity|]. split; [vm_compute; discriminate|].
  split; [vm_compute; reflexivity|]. split; [vm_compute; reflexivity|]. split; [left; cbn; auto|].
  apply (tdep_step g_c 0 1 0); [cbn; auto | apply tdep_one; cbn; auto].
Qed.

(* Non-vacuity 4 (trace validation accepts a PREFIX of the logged stream, nothing else): the observation of
   replays/C05-tie-broken-1-7021bdac.json - --keep_going, f00 (label 0) fails, y00 <-> y01 (8, 9) form a cycle, the cycle
   error was logged by checkForCycles but CloseResults came before forwardResults had forwarded it.  No run reports
   exactly these events and ends without a lost tail (strategy 0); with a lost tail there is one (the cycle check, then
   the exit) and its exit status is non-zero; the same events with exit status 0 are rejected. *)
Definition g_p : graph :=
  graph_of [0;0;0;0;0;0;0;0;0;0] [[];[];[1];[1];[1];[1];[1];[2;3;4;5;6];[2;9];[8]]
           [true;true;true;true;true;true;true;true;true;true] [true] [8;0] true 16.
Definition ev_p : list ev := [EvStart 0; EvStart 1; EvEnd 0 RFailed; EvEnd 1 (RBuilt Built); EvStart 2; EvEnd 2 (RBuilt Built)].
Example C05_prefix_accepted :
  accepts_with g_p [] ev_p [] true 0 = false /\ accepts g_p [] ev_p [] true = true /\ accepts g_p [] ev_p [] false = false /\
  (match witness g_p [] ev_p [] 1 with Some ls => existsb (fun l => match l with LTimerCycleCheck _ => true | _ => false end) ls | None => false end) = true.
Proof. vm_compute. repeat split; reflexivity. Qed.
