(* C05 - Builds always terminate and report failure faithfully.
   Stated over every run of the scheduler LTS (Model/Sched.v).  This file holds only the statement, the property theorem
   and its non-vacuity examples.  Unlike C04 there is no refutation: the one violation found (with --keep_going a failed
   build command left its target in forwardResults' activeTargets for ever, so the cycle check never ran again and a build
   that also contained a dependency cycle hung) was repaired in /repo (commit "fix: with --keep_going a build failure
   disabled cycle detection for the rest of the run"); the model follows the repaired code.  Two conjuncts of the
   statement - absence of deadlock and the "only if" half of the exit-status clause - are NOT proved (see C05_partial and
   the level text); they are covered by trace validation and the oracle only. *)
From PlzV Require Import Base.Harness Model.Sched Proof.Sched_Base Proof.Sched_Inv Proof.Sched_Deps Proof.C04 Proof.Sched_Measure Proof.C05.

(* the labels an invocation needs: the requested ones and, transitively, their dependencies *)
Definition needed (g : graph) (l : nat) : Prop := In l (g_req g) \/ exists r, In r (g_req g) /\ tdep g r l.

Definition C05_statement : Prop :=
  forall g, wf g ->
    (* termination, part 1: every run is finite; its length is bounded by a (linear) function of the graph *)
    (forall ls s, run g (init g) ls = Some s -> length ls <= mu_bound g) /\
    (* termination, part 2: a run that has not ended can always take a step (the 5 s cycle check counts as a step) *)
    (forall s, reachable g s -> exited s = false -> exists l, enabled g s l = true) /\
    (* when the invocation ends nothing is in flight, and every command that started has ended and is logged *)
    (forall s, reachable g s -> exited s = true ->
       quiet s /\ forall t, tstarts t (trace s) = 1 -> tends t (trace s) = 1 /\ completed (ts s t) = true) /\
    (* exit status non-zero exactly when a requested target or one of its dependencies could not be built *)
    (forall s, reachable g s -> exited s = true ->
       (failed s = false <->
        forall l, needed g l -> g_pkg_ok g (g_pkg g l) = true /\ ex s l = true /\ is_built (ts s l) = true)) /\
    (* it never runs a target one of whose (transitive) dependencies failed *)
    (forall s, reachable g s -> forall t, In (OStart t) (trace s) -> forall d, tdep g t d ->
       (exists o, built_kind o = true /\ In (OEnd d (RBuilt o)) (trace s)) /\
       ~ In (OEnd d RFailed) (trace s) /\ ~ In (OEnd d RDepFailed) (trace s)).

(* What is proved, for all graphs, thread counts, --keep_going settings and all runs: *)
Theorem C05_partial :
  forall g,
    (forall ls s, run g (init g) ls = Some s -> length ls + mu g s <= mu_bound g) /\
    (forall s l, reachable g s -> enabled g s l = true -> mu g (apply g s l) < mu g s) /\
    (forall s, reachable g s -> exited s = true ->
       quiet s /\ forall t, tstarts t (trace s) = 1 -> tends t (trace s) = 1 /\ completed (ts s t) = true) /\
    (* exit status, the "if" half: a failed or dependency-failed target, a failed final result, a missing-dependency or
       cycle error in the log all make the exit status non-zero - at any time, hence at the end *)
    (forall s, reachable g s ->
       ((exists t, (12 <= rank (ts s t))%N) \/ (exists o, In o (trace s) /\ bad_event o = true)) -> failed s = true) /\
    (forall s, reachable g s -> forall t, In (OStart t) (trace s) -> forall d, tdep g t d ->
       (exists o, built_kind o = true /\ In (OEnd d (RBuilt o)) (trace s)) /\
       ~ In (OEnd d RFailed) (trace s) /\ ~ In (OEnd d RDepFailed) (trace s)).
Proof.
  intros g. split; [exact (run_length_bound g)|].
  split; [intros s l Hr He; apply mu_step; [apply (J_reachable g s Hr) | exact He]|].
  split; [intros s Hr Hx; split; [exact (exited_quiet g s Hr Hx) | exact (started_ended_at_exit g s Hr Hx)]|].
  split; [|exact (no_run_after_failed_dep g)].
  intros s Hr [[t Ht]|Hb]; [exact (F_reachable g s Hr t Ht) | exact (bad_event_failed g s Hr Hb)].
Qed.
Print Assumptions C05_partial.

(* Non-vacuity: the run found for an event sequence observed on the real plz (diamond, failing middle target,
   --keep_going): it ends (exited), a command started whose dependency chain is non-empty, a target is
   "dependency failed", the exit status is non-zero, and the bound is a concrete number. *)
Definition g_d : graph := graph_of [0;0;0;0] [[];[0];[0];[1;2]] [true;true;true;true] [true] [3;1] true 4.
Definition ev_d : list ev :=
  [EvStart 0; EvEnd 0 (RBuilt Built); EvStart 1; EvStart 2; EvEnd 2 RFailed; EvEnd 1 (RBuilt Built); EvEnd 3 RDepFailed].
Definition ls_d : list label := match witness g_d [] ev_d with Some ls => ls | None => [] end.
Definition s_d : state := match run g_d (init g_d) ls_d with Some s => s | None => init g_d end.
Example C05_nonvacuous :
  run g_d (init g_d) ls_d <> None /\ length ls_d = 63 /\ mu_bound g_d = 196 /\
  exited s_d = true /\ failed s_d = true /\ In (OStart 1) (trace s_d) /\ tdep g_d 1 0 /\
  ts s_d 3 = DependencyFailed /\ tstarts 3 (trace s_d) = 0.
Proof.
  split; [vm_compute; discriminate|]. split; [vm_compute; reflexivity|]. split; [vm_compute; reflexivity|].
  split; [vm_compute; reflexivity|]. split; [vm_compute; reflexivity|].
  split; [vm_compute; tauto|]. split; [apply tdep_one; vm_compute; tauto|].
  split; vm_compute; reflexivity.
Qed.
