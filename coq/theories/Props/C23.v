(* C23 - Dependency queries agree with graph reachability.
   This file holds only the statement, the property theorems and their non-vacuity examples.
   Specification vocabulary (Proof/C23_Spec.v): edge = resolved direct dependency (declared dependency,
   replaced by what it provides for the depending target); connects a b = a reaches b or one of b's hidden
   sub-targets; joins a b p = p is a dependency chain starting at a and ending in b or in a sub-target of b;
   redge = dependency between two different rules; wpath / rpath = non-empty dependency paths with their
   0/1 cost (an edge into a hidden sub-target of the same rule is free); dwithin / rwithin = "visible and on a
   path of cost <= lim" resp. "reported for a target on a reverse path of cost 1..lim" (lim = -1: no limit).
   Second half of the file (deepening): unique_cost = no target is reachable from the roots by two dependency paths
   of different cost (Proof/C23_Exact.v; unique_costb = the executable test of Model/C23.v); reach_path p l c = p is
   a dependency chain from a queried root to l of 0/1 cost c; deps_roots_g = deps_roots with a ghost call stack and
   first-reach log (Proof/C23_Indent.v). *)
From Coq Require Import Permutation Lia.
From PlzV Require Import Base.Harness Model.C23 Proof.C23_Spec Proof.C23 Proof.C23_Gen.
From PlzV Require Import Proof.C23_Rev Proof.C23_Exact Proof.C23_Bfs Proof.C23_Indent.

(* `plz query somepath`: a path is printed iff one exists, and it is a real chain between the two ends
   (with and without --hidden) *)
Definition C23_somepath : Prop :=
  forall g ex froms tos, Forall (in_graph g) froms -> Forall (in_graph g) tos ->
    exists p, some_path_raw g ex froms tos = Some p /\
      (p <> [] <-> some_connected g ex froms tos) /\
      (p <> [] -> exists a b, In a froms /\ In b tos /\ (joins g ex a b p \/ joins g ex b a p)) /\
      chain (redge g ex) (show g false p).

(* `plz query deps --level lim`: exactly the visible targets within lim steps *)
Definition C23_deps : Prop :=
  forall g roots hid lim, (-1 <= lim)%Z ->
    exists out, deps_query g roots hid lim = Some out /\
      forall t, In t (map snd out) <-> dwithin g hid roots lim t.

(* `plz query revdeps --level lim`: exactly the rules within lim steps, whatever order the Go map yields *)
Definition C23_revdeps : Prop :=
  forall g roots chs hid lim, NoDup (map fst g) -> Forall (in_graph g) roots -> (-1 <= lim)%Z ->
    Forall2 (fun r ch => Permutation ch (children g r)) roots chs ->
    exists out, revdeps_with g roots chs hid lim = Some out /\
      forall x, In x out <-> rwithin g hid roots lim x.

Definition C23_statement : Prop := C23_somepath /\ C23_deps /\ C23_revdeps.

(* The code violates the deps conjunct (level cut-off + shared `done` map) ... *)
Theorem C23_refuted : ~ C23_statement.
Proof. intros [_ [H _]]. exact (deps_refuted H). Qed.
Print Assumptions C23_refuted.

(* ... and, independently, the revdeps conjunct (FIFO open set is not ordered by depth after a zero-cost edge). *)
Theorem C23_revdeps_refuted : ~ C23_revdeps.
Proof. exact revdeps_refuted. Qed.
Print Assumptions C23_revdeps_refuted.

(* What does hold, for all graphs, label lists, limits and enumeration orders:
   somepath exactly; deps and revdeps never run out of fuel and report only targets within the limit;
   deps without a limit reports every visible target on a dependency path. *)
Definition C23_partial_statement : Prop :=
  C23_somepath
  /\ (forall g roots hid lim, (-1 <= lim)%Z ->
        exists out, deps_query g roots hid lim = Some out /\
          forall t, In t (map snd out) -> dwithin g hid roots lim t)
  /\ (forall g roots hid,
        exists out, deps_query g roots hid (-1) = Some out /\
          forall t, dwithin g hid roots (-1) t -> In t (map snd out))
  /\ (forall g roots chs hid lim, NoDup (map fst g) -> Forall (in_graph g) roots ->
        Forall2 (fun r ch => Permutation ch (children g r)) roots chs ->
        exists out, revdeps_with g roots chs hid lim = Some out /\
          forall x, In x out -> rwithin g hid roots lim x).

Theorem C23_partial : C23_partial_statement.
Proof.
  exact (conj somepath_exact_holds (conj deps_sound_proof (conj deps_complete_proof revdeps_sound_proof))).
Qed.
Print Assumptions C23_partial.

(* Non-vacuity: the two witness graphs satisfy every hypothesis, the queries return non-trivial results,
   and the unlimited deps query does print the target that the level-3 query loses. *)
Example C23_nonvacuous :
  Forall (in_graph w_deps) [3%N] /\ Forall (in_graph w_deps) [5%N]
  /\ some_path_raw w_deps [] [5%N] [3%N] = Some [3; 0; 2; 4; 5]%N
  /\ some_path_raw w_deps [0%N] [3%N] [5%N] = Some [3; 1; 4; 5]%N
  /\ some_path_raw w_deps [] [0%N] [1%N] = Some []
  /\ deps_query w_deps [3%N] false 3 = Some [(0%Z, 0%N); (1%Z, 2%N); (2%Z, 4%N); (0%Z, 1%N)]
  /\ deps_query w_deps [3%N] false (-1) = Some [(0%Z, 0%N); (1%Z, 2%N); (2%Z, 4%N); (3%Z, 5%N); (0%Z, 1%N)]
  /\ NoDup (map fst w_rev) /\ Forall (in_graph w_rev) [5%N]
  /\ Forall2 (fun r ch => Permutation ch (children w_rev r)) [4%N] [[0%N]]
  /\ revdeps_with w_rev [5%N] [[]] false 3 = Some [4; 1; 2]%N
  /\ revdeps_with w_rev [5%N] [[]] false (-1) = Some [4; 1; 2; 3]%N
  /\ revdeps_with w_rev [4%N] [[0%N]] false 1 = Some [2; 1]%N.
Proof.
  repeat split; try (vm_compute; reflexivity).
  - constructor; [vm_compute; discriminate | constructor].
  - constructor; [vm_compute; discriminate | constructor].
  - cbn [map fst w_rev]. repeat (constructor; [cbn [In]; intros Hx; repeat (destruct Hx as [Hx|Hx]; [discriminate|]); exact Hx|]). constructor.
  - constructor; [vm_compute; discriminate | constructor].
  - constructor; [vm_compute; apply Permutation_refl | constructor].
Qed.

(* ------------------------------------------------------------------------------------------- *)
(* Where the two refuted conjuncts DO hold exactly (all graphs, root lists, enumeration orders; no bound). *)

(* `plz query revdeps --level -1` (no limit) is exact - no side condition: the `depth > 0` test never loses a
   target that has a dependency chain of positive cost to a root *)
Definition C23_revdeps_unlimited_statement : Prop :=
  forall g roots chs hid, NoDup (map fst g) -> Forall (in_graph g) roots ->
    Forall2 (fun r ch => Permutation ch (children g r)) roots chs ->
    exists out, revdeps_with g roots chs hid (-1) = Some out /\
      forall x, In x out <-> rwithin g hid roots (-1) x.

Theorem C23_revdeps_unlimited : C23_revdeps_unlimited_statement.
Proof. exact revdeps_unlimited_exact. Qed.
Print Assumptions C23_revdeps_unlimited.

(* `plz query revdeps --hidden --level lim` is exact for every limit: all edges cost 1, FIFO + dedup-on-push = BFS *)
Definition C23_revdeps_hidden_statement : Prop :=
  forall g roots chs lim, NoDup (map fst g) -> Forall (in_graph g) roots ->
    Forall2 (fun r ch => Permutation ch (children g r)) roots chs ->
    exists out, revdeps_with g roots chs true lim = Some out /\
      forall x, In x out <-> rwithin g true roots lim x.

Theorem C23_revdeps_hidden : C23_revdeps_hidden_statement.
Proof. exact revdeps_hidden_exact. Qed.
Print Assumptions C23_revdeps_hidden.

(* `plz query deps --level lim` is exact whenever no target is reachable from the roots at two different costs
   (trees, layered DAGs, ...); unique_costb is an executable sufficient test; hence a target can only be omitted
   (the known finding) when some target is reachable by two dependency paths of different cost *)
Definition C23_deps_unique_cost_statement : Prop :=
  (forall g roots hid lim, (-1 <= lim)%Z -> unique_cost g hid roots ->
     exists out, deps_query g roots hid lim = Some out /\
       forall t, In t (map snd out) <-> dwithin g hid roots lim t)
  /\ (forall g hid roots, unique_costb g hid roots = true -> unique_cost g hid roots)
  /\ (forall g roots hid lim out t, (-1 <= lim)%Z -> deps_query g roots hid lim = Some out ->
       dwithin g hid roots lim t -> ~ In t (map snd out) -> ~ unique_cost g hid roots).

Theorem C23_deps_unique_cost : C23_deps_unique_cost_statement.
Proof. exact (conj deps_exact_unique_cost (conj unique_costb_sound deps_miss_needs_two_costs)). Qed.
Print Assumptions C23_deps_unique_cost.

(* the indentation of a printed line = (cost of the dependency chain by which the target was first reached) - 1.
   deps_roots_g is deps_roots with a ghost call stack and a ghost log of (label, stack when it entered `done`);
   its non-ghost part is the model's result; every target enters `done`, the log and the output at most once *)
Definition C23_deps_indent_statement : Prop :=
  forall g roots hid lim,
    exists done out log,
      deps_roots_g g hid lim roots (([], []), []) = Some ((done, out), log) /\
      deps_query g roots hid lim = Some out /\
      map fst log = done /\ NoDup done /\ NoDup (map snd out) /\
      forall lv l, In (lv, l) out -> exists p, In (l, p) log /\ reach_path g hid roots p l (lv + 1)%Z.

Theorem C23_deps_indent : C23_deps_indent_statement.
Proof. exact deps_indent_first_reach. Qed.
Print Assumptions C23_deps_indent.

(* Non-vacuity.  w_cyc: x (2) depends on r (0), r's hidden sub-target _r#b (1) depends on x - the rules depend on
   each other cyclically; revdeps of r reports x and r itself.  w_rev with --hidden: level 3 now reaches d (2) but
   not e (3).  w_layers / w_tree satisfy unique_cost and the level-limited deps output is not trivial. *)
Definition w_cyc : graph := [(0, mkT [] 0 false [] []); (1, mkT [2] 0 true [] []); (2, mkT [0] 2 false [] [])]%N.

Example C23_deepening_nonvacuous :
  NoDup (map fst w_cyc) /\ Forall (in_graph w_cyc) [0%N]
  /\ Forall2 (fun r ch => Permutation ch (children w_cyc r)) [0%N] [[1%N]]
  /\ revdeps_with w_cyc [0%N] [[1%N]] false (-1) = Some [2; 0]%N
  /\ revdeps_with w_cyc [0%N] [[1%N]] false 1 = Some [2%N]
  /\ revdeps_with w_rev [5%N] [[]] true 3 = Some [0; 1; 4; 2]%N
  /\ revdeps_with w_rev [5%N] [[]] true 4 = Some [0; 1; 4; 2; 3]%N
  /\ unique_cost w_layers false [0%N] /\ unique_cost w_tree false [0%N]
  /\ deps_query w_layers [0%N] false 2 = Some [(0%Z, 1%N); (1%Z, 3%N); (1%Z, 4%N); (0%Z, 2%N)]
  /\ deps_query w_layers [0%N] false 3 = Some [(0%Z, 1%N); (1%Z, 3%N); (2%Z, 5%N); (1%Z, 4%N); (0%Z, 2%N)]
  /\ ~ unique_cost w_deps false [3%N].
Proof.
  split; [|split; [|split; [|split; [|split; [|split; [|split; [|split; [|split; [|split; [|split]]]]]]]]]];
    try (vm_compute; reflexivity).
  - cbn [map fst w_cyc]. repeat (constructor; [cbn [In]; intros Hx; repeat (destruct Hx as [Hx|Hx]; [discriminate|]); exact Hx|]). constructor.
  - constructor; [vm_compute; discriminate | constructor].
  - constructor; [vm_compute; apply Permutation_refl | constructor].
  - apply unique_costb_sound. vm_compute. reflexivity.
  - apply unique_costb_sound. vm_compute. reflexivity.
  - exact (deps_miss_needs_two_costs w_deps [3%N] false 3%Z _ 5%N ltac:(lia) eq_refl w_deps_within
             ltac:(vm_compute; intros Hin; repeat (destruct Hin as [Hin|Hin]; [discriminate|]); exact Hin)).
Qed.
