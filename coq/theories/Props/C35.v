(* C35 - Declared output hashes are enforced exactly.
   This file holds only the statement, the property theorems and their non-vacuity examples.
   Vocabulary (Proof/C35.v): H_sized H  = every digest of algorithm a has algo_size a bytes;
   matches H cfg outs declared = some declared value, its optional `algo:` prefix aside (unprefix), is the
   hex digest of the outputs under plz's own output hash or under a configured checker;
   enforced = no hashes declared, or matches;  event_good = what one build step of a history must satisfy. *)
From PlzV Require Import Base.Harness Model.C35 Proof.C35 Proof.C35_Fg Proof.C35_Gen.

Definition C35_statement : Prop :=
  (* (1) one verification: for every hash function, configuration, set of outputs and declared list
         (the empty list always passes) *)
  (forall H, H_sized H -> forall cfg outs declared,
     accepted (check_rule_hashes H cfg outs declared) = true <->
     (declared = [] \/
      exists h, In h declared /\ exists d,
        (d = primary_hash H (hashfn cfg) outs \/ exists a, In a (checkers cfg) /\ d = checker_hash H a outs)
        /\ unprefix h = hex d))
  (* (2) prefixes: stripping is idempotent, leaves unprefixed values alone, never leaves a colon, and
         treats every entry on its own *)
  /\ (forall h, unprefix (unprefix h) = unprefix h)
  /\ (forall h, ~ In 58%N h -> unprefix h = h)
  /\ (forall h, ~ In 58%N (unprefix h))
  /\ (forall l1 h l2, unprefixed (l1 ++ h :: l2) = unprefixed l1 ++ unprefix h :: unprefixed l2)
  (* (3) histories of one target (builds with changing definitions, deleting plz-out, replacing cache
         entries by arbitrary files with arbitrary xattrs), genrule or filegroup: every successful build
         leaves outputs that hash to a declared value and caches nothing else; every failed build failed on a
         real mismatch and leaves no output, no record and no cache entry; a cache restore is accepted only
         after the same verification *)
  /\ (forall H, H_sized H -> forall cfg k steps,
        Forall (event_good H cfg) (run H cfg k empty_state steps))
  (* (4) the filegroups of one package, any number of them sharing any files, through histories of invocations
         (each with its own memo of files already put in place), deletions of plz-out and same-package
         generating targets that are Built / restored from the cache (Cached) / Unchanged / Reused: a filegroup
         with declared hashes that builds successfully leaves outputs that hash to a declared value *)
  /\ (forall H, H_sized H -> forall cfg d steps, hist_consistent steps = true ->
        Forall (fun r => let '(_, evs, _) := r in Forall (fg_event_strict H cfg) evs) (fg_hist H cfg d steps)).

(* The unchanged code violates (3) in three ways (all reproduced on the real plz by harness/cmd/c35):
   a filegroup whose outputs are already in place is not verified; a hash list with the same concatenation
   has the same rule hash, so the target is not re-verified; after a rejected cache restore the rebuilt
   outputs are compared with the memoised output hash of the rejected artifacts. *)
Theorem C35_refuted : ~ C35_statement.
Proof.
  intros (_ & _ & _ & _ & _ & S & _).
  exact (refute_history Filegroup w_fg_steps w_fg_bad (S toyH toyH_sized default_cfg Filegroup w_fg_steps)).
Qed.
Print Assumptions C35_refuted.

Theorem C35_refuted_resplit :
  ~ (forall H, H_sized H -> forall cfg steps, Forall (event_good H cfg) (run H cfg Genrule empty_state steps)).
Proof.
  intros S. exact (refute_history Genrule w_resplit_steps w_resplit_bad (S toyH toyH_sized default_cfg w_resplit_steps)).
Qed.

Theorem C35_refuted_stale_hash :
  ~ (forall H, H_sized H -> forall cfg steps,
       resplit (defs_of steps) = false -> Forall (event_good H cfg) (run H cfg Genrule empty_state steps)).
Proof.
  intros S. refine (refute_history Genrule w_stale_steps w_stale_bad (S toyH toyH_sized default_cfg w_stale_steps _)).
  vm_compute. reflexivity.
Qed.

(* (4) fails in the same way as (3) does for a single filegroup - outputs already in place when the invocation
   starts (here: a same-package generator that is Reused) are not verified - and in no other way: see C35_partial. *)
Theorem C35_refuted_fg_in_place :
  ~ (forall H, H_sized H -> forall cfg d steps, hist_consistent steps = true ->
       Forall (fun r => let '(_, evs, _) := r in Forall (fg_event_strict H cfg) evs) (fg_hist H cfg d steps)).
Proof. exact fw_refutes_strict. Qed.
Print Assumptions C35_refuted_fg_in_place.

(* Everything else holds, for all inputs and all histories outside the three classes. *)
Theorem C35_partial :
  (forall H, H_sized H -> forall cfg outs declared,
     accepted (check_rule_hashes H cfg outs declared) = true <->
     (declared = [] \/
      exists h, In h declared /\ exists d,
        (d = primary_hash H (hashfn cfg) outs \/ exists a, In a (checkers cfg) /\ d = checker_hash H a outs)
        /\ unprefix h = hex d))
  /\ (forall h, unprefix (unprefix h) = unprefix h)
  /\ (forall h, ~ In 58%N h -> unprefix h = h)
  /\ (forall h, ~ In 58%N (unprefix h))
  /\ (forall l1 h l2, unprefixed (l1 ++ h :: l2) = unprefixed l1 ++ unprefix h :: unprefixed l2)
  /\ (forall H, H_sized H -> forall cfg k steps,
        defect_class H cfg k steps = None ->
        Forall (event_good H cfg) (run H cfg k empty_state steps))
  (* (4) for every source state and every order of builders sharing files: a successful filegroup with declared
         hashes was verified and its outputs hash to a declared value, or every one of its outputs was already in
         place (same content as its source, no same-package source Built or Cached) when the INVOCATION started;
         a failed one leaves none of its outputs, and failed on a real mismatch whenever it saw all its outputs *)
  /\ (forall H, H_sized H -> forall cfg d steps, hist_consistent steps = true ->
        Forall (fun r => let '(d0, evs, _) := r in
          Forall (fun e =>
            (fr_ok (fe_res e) = true -> g_declared (fe_def e) <> [] ->
               (exists outs, fr_seen (fe_res e) = Some outs /\ fg_outs (fe_after e) (g_srcs (fe_def e)) = Some outs
                             /\ matches H cfg outs (g_declared (fe_def e)))
               \/ fg_in_place H cfg d0 (fe_def e) = true)
            /\ (fr_ok (fe_res e) = false ->
                  (forall sr, In sr (g_srcs (fe_def e)) -> flookup (s_path sr) (fe_after e) = None)
                  /\ (forall outs, fr_seen (fe_res e) = Some outs ->
                         g_declared (fe_def e) <> [] /\ ~ matches H cfg outs (g_declared (fe_def e))))) evs)
          (fg_hist H cfg d steps)).
Proof.
  exact (conj check_iff (conj unprefix_idem (conj unprefix_plain (conj unprefix_no_colon
        (conj unprefixed_pointwise (conj history_good
          (fun H HS cfg d steps C => fg_history_good H HS cfg steps d C))))))).
Qed.
Print Assumptions C35_partial.

(* Non-vacuity. *)

(* the hypothesis H_sized is satisfiable, and under it values are accepted AND rejected *)
Example C35_nonvacuous_check :
  H_sized toyH
  /\ accepted (check_rule_hashes toyH default_cfg [OFile (s "hi")] [s "sha1: " ++ hex (toyH Sha1 (s "hi")) ++ s "  "]) = true
  /\ accepted (check_rule_hashes toyH default_cfg [OFile (s "hi"); OFile (s "ho")]
                 [s "junk"; hex (combined toyH Blake3 [OFile (s "hi"); OFile (s "ho")])]) = true
  /\ accepted (check_rule_hashes toyH default_cfg [OFile (s "hi")] [hex (toyH Sha1 (s "ho"))]) = false
  /\ accepted (check_rule_hashes toyH default_cfg [OFile (s "hi")] [s " " ++ hex (toyH Sha1 (s "hi"))]) = false
  /\ unprefix (s "a:b: ff ") = s "ff".
Proof. split; [exact toyH_sized|]. vm_compute. repeat split. Qed.

(* a history outside the defect classes with a verified build, a no-op, a poisoned restore that is rejected
   and rebuilt, and a failing build: the partial theorem applies to it and says something *)
Definition nv_def : def := {| d_declared := [s "sha1:" ++ hex (toyH Sha1 (s "hi"))]; d_rest := 0; d_produce := [OFile (s "hi")] |}.
Definition nv_bad : def := {| d_declared := [s "00"]; d_rest := 1; d_produce := [OFile (s "hi")] |}.
Definition nv_steps : list step :=
  [SBuild nv_def; SBuild nv_def; SRmOut; SPoison (key_of nv_def) [{| f_out := OFile (s "evil"); f_rec := Some (key_of nv_def) |}];
   SBuild nv_def; SBuild nv_bad; SBuild nv_bad].

Example C35_nonvacuous_history :
  defect_class toyH default_cfg Genrule nv_steps = None
  /\ map (fun e => (ok (e_res e), ran (e_res e), outs_of (disk (e_after e)))) (run toyH default_cfg Genrule empty_state nv_steps)
     = [(true, true, [OFile (s "hi")]); (true, false, [OFile (s "hi")]); (true, true, [OFile (s "hi")]);
        (false, true, []); (false, true, [])]
  /\ Forall (event_good toyH default_cfg) (run toyH default_cfg Genrule empty_state nv_steps).
Proof.
  split; [vm_compute; reflexivity|]. split; [vm_compute; reflexivity|].
  apply (proj1 (proj2 (proj2 (proj2 (proj2 (proj2 C35_partial))))) toyH toyH_sized). vm_compute. reflexivity.
Qed.

(* a consistent filegroup history with a cache-restored source that is rejected and then accepted, and pairs of
   filegroups sharing a file in both orders: part (4) of the partial theorem applies and the outcomes are not trivial;
   the in-place witness is consistent too and does fall in the excepted class *)
Example C35_nonvacuous_filegroups :
  hist_consistent fw_steps = true
  /\ fg_obs fw_steps =
     [([(false, true)], [None; None]);
      ([(true, true)], [Some (OFile (s "hi")); None]);
      ([(true, true); (false, true)], [None; None]);
      ([(false, true); (false, true)], [None; None]);
      ([(true, true); (true, true)], [None; Some (OFile (s "hi"))])]
  /\ hist_consistent fw_inplace_steps = true
  /\ fg_in_place toyH default_cfg [(1%N, OFile (s "hi"))] {| g_declared := [s "00"]; g_srcs := [fw_src TReused] |} = true
  /\ fg_in_place toyH default_cfg [(1%N, OFile (s "hi"))] {| g_declared := [s "00"]; g_srcs := [fw_src TCached] |} = false.
Proof.
  split; [exact (proj1 fw_steps_obs)|]. split; [exact (proj2 fw_steps_obs)|]. split; [exact (proj1 fw_inplace_obs)|].
  vm_compute. split; reflexivity.
Qed.

(* the three witnesses fall in the three classes *)
Example C35_witness_classes :
  defect_class toyH default_cfg Filegroup w_fg_steps = Some FilegroupUncheckedInPlace
  /\ defect_class toyH default_cfg Genrule w_resplit_steps = Some HashListResplit
  /\ defect_class toyH default_cfg Genrule w_stale_steps = Some StaleHashAfterRejectedRestore.
Proof. exact (conj w_fg_class (conj w_resplit_class w_stale_class)). Qed.

(* the model's constants are the ones in /repo's current source (Gen/C35Hashes.v is regenerated by gotrans on every run) *)
Example C35_tied_to_source :
  (forall a, gen_size (algo_name a) Gen.C35Hashes.hashers = Some (algo_size a))
  /\ map s Gen.C35Hashes.default_hashcheckers = map algo_name (checkers default_cfg)
  /\ s Gen.C35Hashes.default_hashfunction = algo_name (hashfn default_cfg)
  /\ (forall h, ~ In Gen.C35Hashes.unprefix_sep (unprefix h))
  /\ Gen.C35Hashes.unprefix_works_on_copy = true
  /\ Gen.C35Hashes.filegroup_check_guarded_by_changed = true
  /\ Gen.C35Hashes.output_hash_memoised = true
  /\ (forall t, exists r, gen_rank t = Some r /\ Gen.C35Hashes.fg_src_state_triggers r = triggers t)
  /\ (forall b, Gen.C35Hashes.fg_memo_hit b = memo_hit b)
  /\ Gen.C35Hashes.fg_memo_store_same = Some memo_store_same
  /\ Gen.C35Hashes.fg_memo_store_built = Some memo_store_built.
Proof.
  exact (conj gen_sizes (conj (proj2 gen_defaults) (conj (proj1 gen_defaults) (conj gen_unprefix_sep_free
        (conj (proj1 (proj2 gen_shapes)) (conj (proj1 (proj2 (proj2 (proj2 (proj2 gen_shapes))))) (conj (proj2 (proj2 (proj2 (proj2 (proj2 gen_shapes)))))
        (conj gen_state_triggers (conj (proj1 gen_memo) (conj (proj1 (proj2 gen_memo)) (proj1 (proj2 (proj2 gen_memo))))))))))))).
Qed.
