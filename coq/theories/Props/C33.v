(* C33 - Visibility and test_only restrictions are enforced exactly.
   This file holds only the statement, the property theorems and their non-vacuity examples.
   The documented rules (visible_spec, testonly_violation, violation, ...) are in Proof/C33_Spec.v,
   written as propositions from the property text and the documentation, not from the code. *)
From PlzV Require Import Base.Harness Model.C33 Proof.C33_Spec Proof.C33.

(* For every experimental-dir configuration, every graph, every target with any number of declared
   dependencies that are all in the graph: the build step's check fails exactly when some declared
   dependency is not visible to the target by the documented rules (same package - same repository
   and same package name -, a visibility pattern of the dependency that selects the target or the
   target it was generated for, PUBLIC, the experimental-directory exemption; never from outside
   the experimental tree into it) or is test_only while the target is neither a test nor test_only. *)
Definition C33_statement : Prop :=
  forall (st : state) (g : graph) (t : target),
    resolvable g t ->
    (failed (check_visibility st g t)
     <-> exists dl d, In dl (t_deps t) /\ lookup g dl = Some d
                      /\ (~ visible_spec st (t_label t) d \/ testonly_violation t d)).

(* The unchanged code violates it: @s//p:y may depend on the private //p:priv of the host repository,
   because CanSee compares package names without the Subrepo.  (Two further independent witnesses,
   refuted_pattern_other_subrepo and refuted_testonly_experimental, are proved in Proof/C33.v.) *)
Theorem C33_refuted : ~ C33_statement.
Proof. exact refuted_same_package_name. Qed.
Print Assumptions C33_refuted.

(* What the code does guarantee, for all inputs:
   1. outside the three listed defect classes (executable classifier defect_class) the statement holds;
   2. in every case a failure implies a real violation (a legal build is never rejected);
   3. outside the classes the error names the first offending declared dependency;
   4. every single-repository build from outside the experimental tree is outside the classes. *)
Theorem C33_partial :
  (forall st g t, resolvable g t -> defect_class st g t = None ->
     (failed (check_visibility st g t)
      <-> exists dl d, In dl (t_deps t) /\ lookup g dl = Some d
                       /\ (~ visible_spec st (t_label t) d \/ testonly_violation t d)))
  /\ (forall st g t, resolvable g t -> failed (check_visibility st g t) ->
        exists dl d, In dl (t_deps t) /\ lookup g dl = Some d
                     /\ (~ visible_spec st (t_label t) d \/ testonly_violation t d))
  /\ (forall st g t dep, resolvable g t -> defect_class st g t = None ->
        check_visibility st g t = RInvisible dep \/ check_visibility st g t = RTestOnly dep ->
        exists pre dl d post, t_deps t = pre ++ dl :: post /\ lookup g dl = Some d /\ t_label d = dep
          /\ (~ visible_spec st (t_label t) d \/ testonly_violation t d)
          /\ (forall x dx, In x pre -> lookup g x = Some dx ->
                ~ (~ visible_spec st (t_label t) dx \/ testonly_violation t dx)))
  /\ (forall st g t, l_sub (t_label t) = [] -> is_experimental st (t_label t) = false ->
        (forall dl d, In dl (t_deps t) -> lookup g dl = Some d ->
           l_sub (t_label d) = [] /\ forall v, In v (t_vis d) -> l_sub v = []) ->
        defect_class st g t = None).
Proof. exact partial_holds. Qed.
Print Assumptions C33_partial.

(* Non-vacuity of C33_refuted: the three witnesses are resolvable, pass the check, violate the rules,
   and fall into three different classes. *)
Example C33_refuted_nonvacuous :
  resolvable [wa_dep] wa_t /\ check_visibility [] [wa_dep] wa_t = ROk /\ violation [] [wa_dep] wa_t
  /\ defect_class [] [wa_dep] wa_t = Some SamePackageNameOtherSubrepo
  /\ defect_class [] [wb_dep] wb_t = Some PatternMatchesOtherSubrepo
  /\ defect_class [s "experimental"] [wc_dep] wc_t = Some TestOnlyAllowedFromExperimental.
Proof.
  split; [exact wa_resolvable|]. split; [exact wa_passes|]. split; [exact wa_violation|].
  exact witnesses_classified.
Qed.

(* Non-vacuity of C33_partial: one package tree with shared-prefix siblings (p, pf, pfoo, p/q, p/q/r), a
   hidden child and a test_only library, experimental dir configured; all four targets are
   resolvable and outside the defect classes; two are rejected (one per error kind), two pass. *)
Example C33_partial_nonvacuous :
  let st := [s "experimental"] in
  (forall t, In t [ex_bad; ex_good; ex_test; ex_prod] -> defect_class st ex_graph t = None)
  /\ check_visibility st ex_graph ex_bad = RInvisible (mkLabel [] (s "p") (s "lib"))
  /\ check_visibility st ex_graph ex_good = ROk
  /\ check_visibility st ex_graph ex_test = ROk
  /\ check_visibility st ex_graph ex_prod = RTestOnly (mkLabel [] (s "third_party") (s "mock")).
Proof.
  cbv zeta. split.
  - intros t [<-|[<-|[<-|[<-|[]]]]]; vm_compute; reflexivity.
  - vm_compute. repeat split.
Qed.
