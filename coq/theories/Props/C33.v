(* C33 - Visibility and test_only restrictions are enforced exactly.
   This file holds only the statement, the property theorems and their non-vacuity examples.
   The documented rules (visible_spec, testonly_violation, violation, ...) are in Proof/C33_Spec.v,
   written as propositions from the property text and the documentation, not from the code. *)
From PlzV Require Import Base.Harness Model.C33 Proof.C33_Spec Proof.C33.
From PlzV Require Model.C33_E2E Proof.C33_E2E.
From PlzV Require Gen.VisibilityFlow.

(* For every experimental-dir configuration, every graph, every target with any number of declared
   dependencies that are all in the graph: the build step's check fails exactly when some declared
   dependency is not visible to the target by the documented rules (same package - same repository
   and same package name -, a visibility pattern of the dependency that selects the target or the
   target it was generated for, PUBLIC, the experimental-directory exemption; never from outside
   the experimental tree into it) or is test_only while the target is neither a test nor test_only. *)
Definition C33_statement : Prop :=
  forall (st : state) (g : graph) (t : target),
    resolvable g t ->
    (failed (check_visibility st g t)
     <-> exists dl d, In dl (t_deps t) /\ lookup g dl = Some d
                      /\ (~ visible_spec st (t_label t) d \/ testonly_violation t d)).

(* The unchanged code violates it: @s//p:y may depend on the private //p:priv of the host repository,
   because CanSee compares package names without the Subrepo.  (Two further independent witnesses,
   refuted_pattern_other_subrepo and refuted_testonly_experimental, are proved in Proof/C33.v.) *)
Theorem C33_refuted : ~ C33_statement.
Proof. exact refuted_same_package_name. Qed.
Print Assumptions C33_refuted.

(* What the code does guarantee, for all inputs:
   1. outside the three listed defect classes (executable classifier defect_class) the statement holds;
   2. in every case a failure implies a real violation (a legal build is never rejected);
   3. outside the classes the error names the first offending declared dependency;
   4. every single-repository build from outside the experimental tree is outside the classes. *)
Theorem C33_partial :
  (forall st g t, resolvable g t -> defect_class st g t = None ->
     (failed (check_visibility st g t)
      <-> exists dl d, In dl (t_deps t) /\ lookup g dl = Some d
                       /\ (~ visible_spec st (t_label t) d \/ testonly_violation t d)))
  /\ (forall st g t, resolvable g t -> failed (check_visibility st g t) ->
        exists dl d, In dl (t_deps t) /\ lookup g dl = Some d
                     /\ (~ visible_spec st (t_label t) d \/ testonly_violation t d))
  /\ (forall st g t dep, resolvable g t -> defect_class st g t = None ->
        check_visibility st g t = RInvisible dep \/ check_visibility st g t = RTestOnly dep ->
        exists pre dl d post, t_deps t = pre ++ dl :: post /\ lookup g dl = Some d /\ t_label d = dep
          /\ (~ visible_spec st (t_label t) d \/ testonly_violation t d)
          /\ (forall x dx, In x pre -> lookup g x = Some dx ->
                ~ (~ visible_spec st (t_label t) dx \/ testonly_violation t dx)))
  /\ (forall st g t, l_sub (t_label t) = [] -> is_experimental st (t_label t) = false ->
        (forall dl d, In dl (t_deps t) -> lookup g dl = Some d ->
           l_sub (t_label d) = [] /\ forall v, In v (t_vis d) -> l_sub v = []) ->
        defect_class st g t = None).
Proof. exact partial_holds. Qed.
Print Assumptions C33_partial.

(* Non-vacuity of C33_refuted: the three witnesses are resolvable, pass the check, violate the rules,
   and fall into three different classes. *)
Example C33_refuted_nonvacuous :
  resolvable [wa_dep] wa_t /\ check_visibility [] [wa_dep] wa_t = ROk /\ violation [] [wa_dep] wa_t
  /\ defect_class [] [wa_dep] wa_t = Some SamePackageNameOtherSubrepo
  /\ defect_class [] [wb_dep] wb_t = Some PatternMatchesOtherSubrepo
  /\ defect_class [s "experimental"] [wc_dep] wc_t = Some TestOnlyAllowedFromExperimental.
Proof.
  split; [exact wa_resolvable|]. split; [exact wa_passes|]. split; [exact wa_violation|].
  exact witnesses_classified.
Qed.

(* Non-vacuity of C33_partial: one package tree with shared-prefix siblings (p, pf, pfoo, p/q, p/q/r), a
   hidden child and a test_only library, experimental dir configured; all four targets are
   resolvable and outside the defect classes; two are rejected (one per error kind), two pass. *)
Example C33_partial_nonvacuous :
  let st := [s "experimental"] in
  (forall t, In t [ex_bad; ex_good; ex_test; ex_prod] -> defect_class st ex_graph t = None)
  /\ check_visibility st ex_graph ex_bad = RInvisible (mkLabel [] (s "p") (s "lib"))
  /\ check_visibility st ex_graph ex_good = ROk
  /\ check_visibility st ex_graph ex_test = ROk
  /\ check_visibility st ex_graph ex_prod = RTestOnly (mkLabel [] (s "third_party") (s "mock")).
Proof.
  cbv zeta. split.
  - intros t [<-|[<-|[<-|[<-|[]]]]]; vm_compute; reflexivity.
  - vm_compute. repeat split.
Qed.

(* ---------------------------------------------------------------------------------------------
   End to end: what lies between the BUILD files and the verdict of `plz build` besides the check.
   The three theorems below are about definitions that gotrans TRANSLATES from the source on every
   run (Gen/VisibilityFlow.v): the step lists of buildTarget, the special strings of
   parseVisibility / populateTarget, the body of pyConfig.Merge. *)
Import PlzV.Model.C33_E2E.

(* Histories.  For both paths of buildTarget (local, remote), every environment (prepare-only flag,
   filegroups, ANY incrementality predicate over plz-out, any cache), every history of invocations
   (configuration, graph as parsed by that invocation, requested closure) sharing plz-out and every
   initial plz-out: an invocation fails only if some target of its closure has an edge that the
   documented rules forbid, and outside the three defect classes it fails exactly then - in
   particular although nothing needs rebuilding. *)
Theorem C33_history :
  Proof.C33_E2E.history_statement VisibilityFlow.build_target_local
  /\ Proof.C33_E2E.history_statement VisibilityFlow.build_target_remote.
Proof. exact Proof.C33_E2E.history_exact. Qed.
Print Assumptions C33_history.

(* PUBLIC at any position.  A visibility argument that contains "PUBLIC" anywhere and otherwise
   only well-formed labels parses, and the resulting Visibility lets every label see the target
   (the experimental rule aside). *)
Theorem C33_public_anywhere :
  forall (bazel : bool) (arg : list str) (st : state) (lab : label) (dep : target),
    In Proof.C33_E2E.PUBLIC arg ->
    (forall v, In v arg -> v = Proof.C33_E2E.PUBLIC \/ parse_label v <> None) ->
    ~ (experimental st (t_label dep) /\ ~ experimental st lab) ->
    exists ls, target_visibility bazel arg = Some ls /\ (t_vis dep = ls -> can_see st lab dep = true).
Proof. exact Proof.C33_E2E.public_anywhere. Qed.
Print Assumptions C33_public_anywhere.

(* Non-interference of the per-package defaults.  For every set of subincluded files, every
   interleaving evs of the statements (subinclude / package(...) / build rules) of any number of
   packages and every package p: what p hands to the graph is what it hands over when parsed alone;
   and a package that never calls package() gets each target exactly as its own arguments say. *)
Theorem C33_default_noninterference :
  (forall bazel ds pname (evs : list event) (p : nat),
     Proof.C33_E2E.outs_of p (snd (run_events bazel ds pname evs (init ds)))
     = Proof.C33_E2E.outs_of p (snd (run_events bazel ds pname (filter (Proof.C33_E2E.of_pkg p) evs) (init ds))))
  /\ (forall bazel ds pname (evs : list event) (p : nat),
        (forall i d0, frozen ds i = Some d0 -> dget d0 key_vis = None /\ dget d0 key_testonly = None) ->
        Forall Proof.C33_E2E.no_package (Proof.C33_E2E.stmts_of p evs) ->
        Proof.C33_E2E.outs_of p (snd (run_events bazel ds pname evs (init ds)))
        = map (Proof.C33_E2E.own_output bazel pname p) (Proof.C33_E2E.stmts_of p evs)).
Proof. split; [exact Proof.C33_E2E.noninterference | exact Proof.C33_E2E.no_default_leak]. Qed.
Print Assumptions C33_default_noninterference.

(* Non-vacuity: the edit sequence of the history theorem (second build fails from a full plz-out),
   PUBLIC in last position, and //lib:private staying private in every interleaving with a package
   that subincludes the same CONFIG-touching file and sets default_visibility = ["PUBLIC"]. *)
Example C33_e2e_nonvacuous :
  run_history e2e_env VisibilityFlow.build_target_local Proof.C33_E2E.hx_history []
    = [ROk; RInvisible (mkLabel [] (s "lib") (s "lib"))]
  /\ target_visibility false [s "//other:all"; s "//third/..."; Proof.C33_E2E.PUBLIC]
      = Some [mkLabel [] (s "other") (s "all"); mkLabel [] (s "third") (s "..."); whole_graph]
  /\ (forall evs, Proof.C33_E2E.stmts_of 1 evs = Proof.C33_E2E.nx_lib ->
        Proof.C33_E2E.outs_of 1 (snd (run_events false Proof.C33_E2E.nx_defs Proof.C33_E2E.nx_pname evs (init Proof.C33_E2E.nx_defs)))
        = [ENone; ETarget (mkTarget (mkLabel [] (s "lib") (s "private")) [] false false [])]).
Proof.
  split; [exact Proof.C33_E2E.hx_runs|]. split; [exact Proof.C33_E2E.public_last|].
  exact Proof.C33_E2E.nx_any_interleaving.
Qed.
