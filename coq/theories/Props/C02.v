(* C02 - Cache restores are indistinguishable from building.
   The engine model with the directory cache switched on: retrieve by (label, rule key, source key) before
   running the command, store after moveOutputs.  Refuted by the directory-hash defect (the stale directory
   is stored under the new key), proved for histories without directory outputs.  The cache of targets with
   output_dirs (metadata under the old key, artifacts under the new one) is NOT modelled: the theorems are about
   histories without such targets (od_free). *)
(* Proof.Engine_Gen: the record layout / needsBuilding order / cache-key parts regenerated from the source *)
From PlzV Require Import Proof.Engine_Gen.
From PlzV Require Import Base.Harness Model.Engine Model.C01 Proof.Engine Proof.C03 Proof.C01.

Definition C02_statement : Prop :=
  (* after any history of builds with the cache on or off and rm -rf plz-out at any point (one shared cache
     directory), a build with the cache enabled has the exit class and, for every target it built, exactly the
     outputs of a from-scratch build of the same tree without cache *)
  (forall (h : list hstep) (r : repo) (req : list str),
     wf_history (h ++ [HBuild true r req]) -> od_free (h ++ [HBuild true r req]) ->
     let cached := plz_build true r req (run_history h empty_store) in
     let clean := plz_build false r req empty_store in
     run_ok cached = run_ok clean
     /\ forall t, In t (r_targets (restrict r req)) -> ~ In (t_label t) (rn_failed clean) ->
        outs_of (rn_st cached) t = outs_of (rn_st clean) t)
  (* nothing is restored unless an entry exists under exactly the current (label, rule key, source key):
     otherwise the command runs *)
  /\ (forall r rn t sk, needs_build r (rn_st rn) t = true -> source_key r (rn_st rn) t = Some sk ->
        s_cache (rn_st rn) (t_label t) ((t_defkey t, []), sk) = None ->
        build_rule true r rn t = run_action true r rn t ((t_defkey t, []), sk)).

(* Witness (cache poisoning): build tree A (d copies a.txt into d_dir), build tree B (the file renamed to
   b.txt: moveOutput keeps the old directory, storeInCache stores it under B's key), rm -rf plz-out, build B:
   the cache restores {a.txt}, a clean build without cache has {b.txt}. *)
Theorem C02_refuted : ~ C02_statement.
Proof.
  intros [H _].
  specialize (H [HBuild true wit_r1 [s "//p:d"]; HBuild true wit_r2 [s "//p:d"]; HWipe] wit_r2 [s "//p:d"]).
  assert (Hwf : wf_history ([HBuild true wit_r1 [s "//p:d"]; HBuild true wit_r2 [s "//p:d"]; HWipe] ++ [HBuild true wit_r2 [s "//p:d"]])).
  { split; [vm_compute; reflexivity|].
    intros t t' [<-|[<-|[<-|[]]]] [<-|[<-|[<-|[]]]] E; try reflexivity; vm_compute in E; discriminate E. }
  assert (Hod : od_free ([HBuild true wit_r1 [s "//p:d"]; HBuild true wit_r2 [s "//p:d"]; HWipe] ++ [HBuild true wit_r2 [s "//p:d"]])).
  { intros t Ht. cbn in Ht. destruct Ht as [<-|[<-|[<-|[]]]]; reflexivity. }
  destruct (H Hwf Hod) as [_ Ho].
  specialize (Ho (wit_target [s "b.txt"] (s "k2"))).
  assert (Hin : In (wit_target [s "b.txt"] (s "k2")) (r_targets (restrict wit_r2 [s "//p:d"]))) by (vm_compute; left; reflexivity).
  assert (Hnf : ~ In (t_label (wit_target [s "b.txt"] (s "k2"))) (rn_failed (plz_build false wit_r2 [s "//p:d"] empty_store))) by (vm_compute; tauto).
  specialize (Ho Hin Hnf). vm_compute in Ho. discriminate Ho.
Qed.
Print Assumptions C02_refuted.

(* Partial: histories in which no action outputs a directory (executable classifier defect_class). *)
Theorem C02_partial :
  (forall (h : list hstep) (r : repo) (req : list str),
     wf_history (h ++ [HBuild true r req]) -> tool_free_history (h ++ [HBuild true r req]) = true ->
     od_free (h ++ [HBuild true r req]) ->
     (forall t, In t (history_targets (h ++ [HBuild true r req])) -> defect_class t = None) ->
     fg_dir_free (h ++ [HBuild true r req]) = true ->
     let cached := plz_build true r req (run_history h empty_store) in
     let clean := plz_build false r req empty_store in
     run_ok cached = run_ok clean
     /\ rn_failed cached = rn_failed clean
     /\ forall t, In t (r_targets (restrict r req)) -> ~ In (t_label t) (rn_failed clean) ->
        outs_of (rn_st cached) t = outs_of (rn_st clean) t)
  /\ (forall r rn t sk, needs_build r (rn_st rn) t = true -> source_key r (rn_st rn) t = Some sk ->
        s_cache (rn_st rn) (t_label t) ((t_defkey t, []), sk) = None ->
        build_rule true r rn t = run_action true r rn t ((t_defkey t, []), sk)).
Proof.
  split.
  - intros h r req Hwf Htf Hod Hdf Hfd.
    destruct (incremental_is_clean_files true h r req Hwf Htf Hdf Hfd (od_free_quiet _ _ Hod)) as (H1 & H2 & H3).
    split; [exact H1|]. split; [exact H2|]. intros t Ht Hnf. apply (H3 t Ht Hnf).
  - intros r rn t sk Hnb Hsk Hc. unfold build_rule. rewrite Hnb, Hsk. cbn [negb]. rewrite Hc. reflexivity.
Qed.
Print Assumptions C02_partial.

(* the general form: any class of trees on which the path-hash stream is injective (path_inj), any set of
   targets on which the rule key is injective *)
Theorem C02_partial_path_inj :
  forall (U : target -> Prop) (good : node -> Prop),
    (forall t t', U t -> U t' -> t_defkey t = t_defkey t' -> t = t') ->
    (forall a b, good a -> good b -> stream a = stream b -> a = b) ->
    (forall c, good (File false c)) ->
    (forall t ins news, U t -> Forall good (map snd ins) -> result t ins = Some news -> Forall good (map snd news)) ->
    forall h r req,
      forallb step_wf (h ++ [HBuild true r req]) = true -> tool_free_history (h ++ [HBuild true r req]) = true ->
      od_free (h ++ [HBuild true r req]) ->
      (forall t, In t (history_targets (h ++ [HBuild true r req])) -> U t) ->
      (forall n, In n (history_fg_srcs (h ++ [HBuild true r req])) -> good n) ->
      let cached := plz_build true r req (run_history h empty_store) in
      let clean := plz_build false r req empty_store in
      rn_failed cached = rn_failed clean
      /\ forall t, In t (r_targets (restrict r req)) -> ~ In (t_label t) (rn_failed clean) ->
         outs_of (rn_st cached) t = outs_of (rn_st clean) t.
Proof.
  intros U good H1 H2 H3 H4 h r req Hwf Htf Hod HU Hgs.
  destruct (incremental_is_clean U good H1 H2 H3 H4 true h r req (wf_t_of _ Hwf Htf) HU Hgs (od_free_quiet _ _ Hod)) as [Hf Ho].
  split; [exact Hf|]. intros t Ht Hnf. apply (Ho t Ht Hnf).
Qed.
Print Assumptions C02_partial_path_inj.

(* Non-vacuity: A, B (a.txt edited), rm -rf plz-out, A again: the hypotheses of C02_partial hold and the last
   build runs no command at all - both targets are restored from the cache. *)
Definition nv_a : target := mkT (s "//p:a") (s "p") (Genrule Concat) [SFile (s "a.txt")] [s "a.out"] (s "ka").
Definition nv_b : target := mkT (s "//p:b") (s "p") (Genrule Concat) [SLabel (s "//p:a"); SFile (s "b.txt")] [s "b.out"] (s "kb").
Definition nv_rA : repo := mkR [(s "p/a.txt", s "1"); (s "p/b.txt", s "2")] [nv_a; nv_b].
Definition nv_rB : repo := mkR [(s "p/a.txt", s "9"); (s "p/b.txt", s "2")] [nv_a; nv_b].
Definition nv_h : list hstep := [HBuild true nv_rA [s "//p:b"]; HBuild true nv_rB [s "//p:b"]; HWipe].
Example C02_nonvacuous :
  wf_history (nv_h ++ [HBuild true nv_rA [s "//p:b"]])
  /\ od_free (nv_h ++ [HBuild true nv_rA [s "//p:b"]])
  /\ (forall t, In t (history_targets (nv_h ++ [HBuild true nv_rA [s "//p:b"]])) -> defect_class t = None)
  /\ fg_dir_free (nv_h ++ [HBuild true nv_rA [s "//p:b"]]) = true
  /\ tool_free_history (nv_h ++ [HBuild true nv_rA [s "//p:b"]]) = true
  /\ rn_log (plz_build true nv_rA [s "//p:b"] (run_history nv_h empty_store)) = []
  /\ outs_of (rn_st (plz_build true nv_rA [s "//p:b"] (run_history nv_h empty_store))) nv_b = [(s "b.out", Some (File false (s "12")))]
  /\ rn_log (plz_build false nv_rA [s "//p:b"] empty_store) = [s "//p:b"; s "//p:a"].
Proof.
  split; [split; [vm_compute; reflexivity|]|].
  - intros t t' Ht Ht' E. cbn in Ht, Ht'.
    destruct Ht as [<-|[<-|[<-|[<-|[<-|[<-|[]]]]]]], Ht' as [<-|[<-|[<-|[<-|[<-|[<-|[]]]]]]]; try reflexivity; vm_compute in E; discriminate E.
  - split; [|split; [|vm_compute; repeat split]].
    + intros t Ht. cbn in Ht. destruct Ht as [<-|[<-|[<-|[<-|[<-|[<-|[]]]]]]]; reflexivity.
    + intros t Ht. cbn in Ht. destruct Ht as [<-|[<-|[<-|[<-|[<-|[<-|[]]]]]]]; reflexivity.
Qed.
