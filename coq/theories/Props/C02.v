(* C02 - Cache restores are indistinguishable from building.
   The engine model with the directory cache switched on: retrieve by (label, rule key, source key) before
   running the command, store after moveOutputs.  Refuted by the directory-hash defect (the stale directory
   is stored under the new key), proved for histories without directory outputs.  The cache of targets with
   output_dirs (metadata under the old key, artifacts under the new one) is NOT modelled: the theorems are about
   histories without such targets (od_free). *)
(* Proof.Engine_Gen: the record layout / needsBuilding order / cache-key parts regenerated from the source *)
From PlzV Require Import Proof.Engine_Gen.
From PlzV Require Import Base.Harness Model.Engine Model.C01 Proof.Engine Proof.C03 Proof.C01.
(* follow-up (seeded mutations m2 / m3): named tools in the cache key, the restore step, the path hasher's memo *)
From PlzV Require Import Model.C02 Proof.C02.

Definition C02_statement : Prop :=
  (* after any history of builds with the cache on or off and rm -rf plz-out at any point (one shared cache
     directory), a build with the cache enabled has the exit class and, for every target it built, exactly the
     outputs of a from-scratch build of the same tree without cache *)
  (forall (h : list hstep) (r : repo) (req : list str),
     wf_history (h ++ [HBuild true r req]) -> od_free (h ++ [HBuild true r req]) ->
     let cached := plz_build true r req (run_history h empty_store) in
     let clean := plz_build false r req empty_store in
     run_ok cached = run_ok clean
     /\ forall t, In t (r_targets (restrict r req)) -> ~ In (t_label t) (rn_failed clean) ->
        outs_of (rn_st cached) t = outs_of (rn_st clean) t)
  (* nothing is restored unless an entry exists under exactly the current (label, rule key, source key):
     otherwise the command runs *)
  /\ (forall r rn t sk, needs_build r (rn_st rn) t = true -> source_key r (rn_st rn) t = Some sk ->
        s_cache (rn_st rn) (t_label t) ((t_defkey t, []), sk) = None ->
        build_rule true r rn t = run_action true r rn t ((t_defkey t, []), sk)).

(* Witness (cache poisoning): build tree A (d copies a.txt into d_dir), build tree B (the file renamed to
   b.txt: moveOutput keeps the old directory, storeInCache stores it under B's key), rm -rf plz-out, build B:
   the cache restores {a.txt}, a clean build without cache has {b.txt}. *)
Theorem C02_refuted : ~ C02_statement.
Proof.
  intros [H _].
  specialize (H [HBuild true wit_r1 [s "//p:d"]; HBuild true wit_r2 [s "//p:d"]; HWipe] wit_r2 [s "//p:d"]).
  assert (Hwf : wf_history ([HBuild true wit_r1 [s "//p:d"]; HBuild true wit_r2 [s "//p:d"]; HWipe] ++ [HBuild true wit_r2 [s "//p:d"]])).
  { split; [vm_compute; reflexivity|].
    intros t t' [<-|[<-|[<-|[]]]] [<-|[<-|[<-|[]]]] E; try reflexivity; vm_compute in E; discriminate E. }
  assert (Hod : od_free ([HBuild true wit_r1 [s "//p:d"]; HBuild true wit_r2 [s "//p:d"]; HWipe] ++ [HBuild true wit_r2 [s "//p:d"]])).
  { intros t Ht. cbn in Ht. destruct Ht as [<-|[<-|[<-|[]]]]; reflexivity. }
  destruct (H Hwf Hod) as [_ Ho].
  specialize (Ho (wit_target [s "b.txt"] (s "k2"))).
  assert (Hin : In (wit_target [s "b.txt"] (s "k2")) (r_targets (restrict wit_r2 [s "//p:d"]))) by (vm_compute; left; reflexivity).
  assert (Hnf : ~ In (t_label (wit_target [s "b.txt"] (s "k2"))) (rn_failed (plz_build false wit_r2 [s "//p:d"] empty_store))) by (vm_compute; tauto).
  specialize (Ho Hin Hnf). vm_compute in Ho. discriminate Ho.
Qed.
Print Assumptions C02_refuted.

(* Partial: histories in which no action outputs a directory (executable classifier defect_class), no filegroup links a
   source directory (fg_dir_free) and no two turns of a target whose command reads the NAMES of its tools' outputs have the
   same rule key and source key but different tool output paths (executable classifier tool_rename_free: the cache key names
   the trees of the tool outputs, not their paths - the shape of C01_refuted_tools reaches the cache the same way).  TOOLS ARE
   INSIDE THE THEOREM: entries stored and restored for targets with tools whose outputs change content, appear, disappear or
   are renamed with other content. *)
Theorem C02_partial :
  (forall (h : list hstep) (r : repo) (req : list str),
     wf_history (h ++ [HBuild true r req]) -> tool_rename_free (h ++ [HBuild true r req]) = true ->
     od_free (h ++ [HBuild true r req]) ->
     (forall t, In t (history_targets (h ++ [HBuild true r req])) -> defect_class t = None) ->
     fg_dir_free (h ++ [HBuild true r req]) = true ->
     let cached := plz_build true r req (run_history h empty_store) in
     let clean := plz_build false r req empty_store in
     run_ok cached = run_ok clean
     /\ rn_failed cached = rn_failed clean
     /\ forall t, In t (r_targets (restrict r req)) -> ~ In (t_label t) (rn_failed clean) ->
        outs_of (rn_st cached) t = outs_of (rn_st clean) t)
  /\ (forall r rn t sk, needs_build r (rn_st rn) t = true -> source_key r (rn_st rn) t = Some sk ->
        s_cache (rn_st rn) (t_label t) ((t_defkey t, []), sk) = None ->
        build_rule true r rn t = run_action true r rn t ((t_defkey t, []), sk)).
Proof.
  split.
  - intros h r req Hwf Htf Hod Hdf Hfd.
    destruct (incremental_is_clean_files true h r req Hwf Htf Hdf Hfd (od_free_quiet _ _ Hod)) as (H1 & H2 & H3).
    split; [exact H1|]. split; [exact H2|]. intros t Ht Hnf. apply (H3 t Ht Hnf).
  - intros r rn t sk Hnb Hsk Hc. unfold build_rule. rewrite Hnb, Hsk. cbn [negb]. rewrite Hc. reflexivity.
Qed.
Print Assumptions C02_partial.

(* the general form: any class of trees on which the path-hash stream is injective (path_inj), any set of
   targets on which the rule key is injective *)
Theorem C02_partial_path_inj :
  forall (U : target -> Prop) (good : node -> Prop),
    (forall t t', U t -> U t' -> t_defkey t = t_defkey t' -> t = t') ->
    (forall a b, good a -> good b -> stream a = stream b -> a = b) ->
    (forall c, good (File false c)) ->
    (forall t ins news, U t -> Forall good (map snd ins) -> result t ins = Some news -> Forall good (map snd news)) ->
    forall h r req,
      forallb step_wf (h ++ [HBuild true r req]) = true -> tool_rename_free (h ++ [HBuild true r req]) = true ->
      od_free (h ++ [HBuild true r req]) ->
      (forall t, In t (history_targets (h ++ [HBuild true r req])) -> U t) ->
      (forall n, In n (history_fg_srcs (h ++ [HBuild true r req])) -> good n) ->
      let cached := plz_build true r req (run_history h empty_store) in
      let clean := plz_build false r req empty_store in
      rn_failed cached = rn_failed clean
      /\ forall t, In t (r_targets (restrict r req)) -> ~ In (t_label t) (rn_failed clean) ->
         outs_of (rn_st cached) t = outs_of (rn_st clean) t.
Proof.
  intros U good H1 H2 H3 H4 h r req Hwf Htf Hod HU Hgs.
  destruct (incremental_is_clean_tools U good H1 H2 H3 H4 true h r req Hwf Htf HU Hgs (od_free_quiet _ _ Hod)) as [Hf Ho].
  split; [exact Hf|]. intros t Ht Hnf. apply (Ho t Ht Hnf).
Qed.
Print Assumptions C02_partial_path_inj.

(* Non-vacuity: A, B (a.txt edited), rm -rf plz-out, A again: the hypotheses of C02_partial hold and the last
   build runs no command at all - both targets are restored from the cache. *)
Definition nv_a : target := mkT (s "//p:a") (s "p") (Genrule Concat) [SFile (s "a.txt")] [s "a.out"] (s "ka").
Definition nv_b : target := mkT (s "//p:b") (s "p") (Genrule Concat) [SLabel (s "//p:a"); SFile (s "b.txt")] [s "b.out"] (s "kb").
Definition nv_rA : repo := mkR [(s "p/a.txt", s "1"); (s "p/b.txt", s "2")] [nv_a; nv_b].
Definition nv_rB : repo := mkR [(s "p/a.txt", s "9"); (s "p/b.txt", s "2")] [nv_a; nv_b].
Definition nv_h : list hstep := [HBuild true nv_rA [s "//p:b"]; HBuild true nv_rB [s "//p:b"]; HWipe].
Example C02_nonvacuous :
  wf_history (nv_h ++ [HBuild true nv_rA [s "//p:b"]])
  /\ od_free (nv_h ++ [HBuild true nv_rA [s "//p:b"]])
  /\ (forall t, In t (history_targets (nv_h ++ [HBuild true nv_rA [s "//p:b"]])) -> defect_class t = None)
  /\ fg_dir_free (nv_h ++ [HBuild true nv_rA [s "//p:b"]]) = true
  /\ tool_rename_free (nv_h ++ [HBuild true nv_rA [s "//p:b"]]) = true
  /\ rn_log (plz_build true nv_rA [s "//p:b"] (run_history nv_h empty_store)) = []
  /\ outs_of (rn_st (plz_build true nv_rA [s "//p:b"] (run_history nv_h empty_store))) nv_b = [(s "b.out", Some (File false (s "12")))]
  /\ rn_log (plz_build false nv_rA [s "//p:b"] empty_store) = [s "//p:b"; s "//p:a"].
Proof.
  split; [split; [vm_compute; reflexivity|]|].
  - intros t t' Ht Ht' E. cbn in Ht, Ht'.
    destruct Ht as [<-|[<-|[<-|[<-|[<-|[<-|[]]]]]]], Ht' as [<-|[<-|[<-|[<-|[<-|[<-|[]]]]]]]; try reflexivity; vm_compute in E; discriminate E.
  - split; [|split; [|vm_compute; repeat split]].
    + intros t Ht. cbn in Ht. destruct Ht as [<-|[<-|[<-|[<-|[<-|[<-|[]]]]]]]; reflexivity.
    + intros t Ht. cbn in Ht. destruct Ht as [<-|[<-|[<-|[<-|[<-|[<-|[]]]]]]]; reflexivity.
Qed.

(* Non-vacuity with TOOLS: gen is a tool of use (ToolNames: the names of the tool's outputs) and of cat (UseTool: the content).
   Tree A: gen writes "tool" to gen.out; tree B: the output is renamed gen2.out WITH other content; rm -rf plz-out; tree A again.
   All hypotheses of C02_partial hold (tool_rename_free included) and the last build runs nothing: gen, use and cat are restored
   from the entries of the first build - use with the names of tree A. *)
Definition ct_gen (out arg key : str) : target := mkT (s "//p:gen") (s "p") (Genrule (Const arg)) [] [out] key.
Definition ct_cat : target := mkT (s "//p:cat") (s "p") (Genrule UseTool) [SFile (s "u.txt"); STool (s "//p:gen")] [s "cat.out"] (s "kc").
Definition ct_rA : repo := mkR [(s "p/u.txt", s "u")] [ct_gen (s "gen.out") (s "tool") (s "k1"); tw_use; ct_cat].
Definition ct_rB : repo := mkR [(s "p/u.txt", s "u")] [ct_gen (s "gen2.out") (s "tool2") (s "k2"); tw_use; ct_cat].
Definition ct_req : list str := [s "//p:use"; s "//p:cat"].
Definition ct_h : list hstep := [HBuild true ct_rA ct_req; HBuild true ct_rB ct_req; HWipe].
Example C02_nonvacuous_tools :
  wf_history (ct_h ++ [HBuild true ct_rA ct_req])
  /\ od_free (ct_h ++ [HBuild true ct_rA ct_req])
  /\ (forall t, In t (history_targets (ct_h ++ [HBuild true ct_rA ct_req])) -> defect_class t = None)
  /\ fg_dir_free (ct_h ++ [HBuild true ct_rA ct_req]) = true
  /\ tool_rename_free (ct_h ++ [HBuild true ct_rA ct_req]) = true
  /\ length (history_turns (ct_h ++ [HBuild true ct_rA ct_req]) empty_store) = 3
  /\ rn_log (plz_build true ct_rA ct_req (run_history ct_h empty_store)) = []
  /\ outs_of (rn_st (plz_build true ct_rA ct_req (run_history ct_h empty_store))) tw_use = [(s "use.out", Some (File false (s "gen.out" ++ nl)))]
  /\ outs_of (rn_st (plz_build true ct_rA ct_req (run_history ct_h empty_store))) ct_cat = [(s "cat.out", Some (File false (s "tool" ++ nl ++ s "u")))]
  /\ rn_log (plz_build false ct_rA ct_req empty_store) = [s "//p:cat"; s "//p:use"; s "//p:gen"].
Proof.
  split; [split; [vm_compute; reflexivity|]|].
  - intros t t' Ht Ht' E. cbn in Ht, Ht'.
    repeat (destruct Ht as [<-|Ht]); try contradiction; repeat (destruct Ht' as [<-|Ht']); try contradiction;
      try reflexivity; vm_compute in E; discriminate E.
  - split; [|split; [|vm_compute; repeat split]].
    + intros t Ht. cbn in Ht. repeat (destruct Ht as [<-|Ht]); try contradiction; reflexivity.
    + intros t Ht. cbn in Ht. repeat (destruct Ht as [<-|Ht]); try contradiction; reflexivity.
Qed.

(* ------------------------------------------------------------------------------------------ *)
(* Follow-up of the seeded mutations C02/m2 and C02/m3.  "An artifact is never restored for a target whose current inputs
   differ from those it was stored under", stated directly on the cache key for tools (which are also inside the Trust proofs
   of C02_partial since the tools deepening) and for the mechanism the engine model abstracts (the memoised path hasher). *)

(* the cache key (label, rule key, source key) separates the outputs of the tools - list-form and dict-form (named): equal
   source keys force equal path-hash streams of every output of every tool; so an entry stored when some tool output was
   different is not found under the current key.  Holds because sourceHash ranges over AllTools() (Gen: source_hash_tools) *)
Theorem C02_tool_key :
  (forall r1 r2 st1 st2 t k, length (iter_sources r1 t) = length (iter_sources r2 t) ->
     source_key r1 st1 t = Some k -> source_key r2 st2 t = Some k ->
     map (fun p => option_map stream (read r1 st1 p)) (tool_paths r1 t)
     = map (fun p => option_map stream (read r2 st2 p)) (tool_paths r2 t))
  /\ (forall r st0 st t k0 k p, source_key r st0 t = Some k0 -> source_key r st t = Some k -> In p (tool_paths r t) ->
        option_map stream (read r st0 p) <> option_map stream (read r st p) -> k0 <> k)
  /\ (forall r st0 rn t k0 k p v, source_key r st0 t = Some k0 -> source_key r (rn_st rn) t = Some k -> In p (tool_paths r t) ->
        option_map stream (read r st0 p) <> option_map stream (read r (rn_st rn) p) ->
        forall stc, s_cache (set_cache stc (t_label t) ((t_defkey t, []), k0) v) (t_label t) ((t_defkey t, []), k)
                    = s_cache stc (t_label t) ((t_defkey t, []), k)).
Proof.
  split; [exact source_key_tool_streams|]. split; [exact tool_output_change_changes_key|exact stale_tool_entry_not_restored].
Qed.
Print Assumptions C02_tool_key.

(* the restore step of the engine: no command runs, and what anybody reads afterwards at the restored paths - a dependent's
   source key goes through Engine.read - are the restored trees, carrying the record of the current key *)
Theorem C02_restore_step :
  forall r rn t sk cached,
    needs_build r (rn_st rn) t = true -> source_key r (rn_st rn) t = Some sk ->
    s_cache (rn_st rn) (t_label t) ((t_defkey t, []), sk) = Some cached -> NoDup (map fst cached) ->
    let rn' := build_rule true r rn t in
    rn_log rn' = rn_log rn
    /\ forall o n, In (o, n) cached ->
         read r (rn_st rn') (true, out_rel t o) = Some n
         /\ rec_at (rn_st rn') (out_rel t o) = Some ((t_defkey t, []), sk).
Proof. exact restore_reads_restored. Qed.
Print Assumptions C02_restore_step.

(* the engine model reads plz-out freshly; the real path hasher is memoised.  Model/C02.v: for EVERY trace of file changes
   behind the hasher's back, hashes (with or without recalc) and moves, the memo is the hash of what is on disk at every path
   outside the stale set (written since and not re-hashed with recalc); the restore path of buildTarget (hash the old outputs,
   swap the files, hash again with the recalc arguments of the source) leaves no output stale, and a dependent's
   Hash(path, recalc = false) returns the hash of the restored tree whatever was memoised before; with recalc = false in the
   second pass it returns the old hash (the A, B, A witness) *)
Theorem C02_memo :
  (forall evs h s0, coherent_off s0 h -> coherent_off (stale_after evs h s0) (run_evs evs h))
  /\ (forall single_file k news h s0 p, In p (map fst news) -> ~ In p (stale_after (restore_trace single_file k news) h s0))
  /\ (forall single_file k news h, NoDup (map fst news) ->
        forall p v, In (p, v) news -> seen (run_evs (restore_trace single_file k news) h) p = Some v)
  /\ (seen (run_evs (restore_trace_with true false 2 m2_news) m2_before) (s "o1") = Some (s "B1")
      /\ h_fs (run_evs (restore_trace_with true false 2 m2_news) m2_before) (s "o1") = Some (s "A1")).
Proof.
  split; [exact memo_coherent_off_stale|]. split; [exact restore_leaves_no_output_stale|].
  split; [exact restore_memo_fresh|exact restore_without_recalc_is_stale].
Qed.
Print Assumptions C02_memo.

(* Non-vacuity.  (1) A user of a DICT-form tool: tree A, rm -rf plz-out, tree B (only the tool's source differs): the user is
   not restored from A's entry - both commands run and the output is built with B's tool; back at A after another rm -rf
   plz-out everything comes from the cache. *)
Definition nt_gen : target := mkT (s "//p:gen") (s "p") (Genrule Concat) [SFile (s "g.txt")] [s "gen.out"] (s "kg").
Definition nt_use : target := mkT (s "//p:usen") (s "p") (Genrule UseNTool) [SFile (s "u.txt"); STool (s "//p:gen")] [s "usen.out"] (s "ku").
Definition nt_rA : repo := mkR [(s "p/g.txt", s "1"); (s "p/u.txt", s "u")] [nt_gen; nt_use].
Definition nt_rB : repo := mkR [(s "p/g.txt", s "2"); (s "p/u.txt", s "u")] [nt_gen; nt_use].
Example C02_tool_key_nonvacuous :
  let stA := run_history [HBuild true nt_rA [s "//p:usen"]] empty_store in
  let rnB := plz_build true nt_rB [s "//p:usen"] (wipe stA) in
  named_tools nt_use = true
  /\ tool_paths nt_rB nt_use = [(true, s "p/gen.out")]
  /\ rn_log rnB = [s "//p:usen"; s "//p:gen"]
  /\ outs_of (rn_st rnB) nt_use = [(s "usen.out", Some (File false (s "2u")))]
  /\ rn_log (plz_build true nt_rA [s "//p:usen"] (wipe (rn_st rnB))) = []
  /\ outs_of (rn_st (plz_build true nt_rA [s "//p:usen"] (wipe (rn_st rnB)))) nt_use = [(s "usen.out", Some (File false (s "1u")))].
Proof. vm_compute. repeat split. Qed.

(* (2) the restore step over existing outputs: A, B, then A with plz-out KEPT: a needs building, its entry of state A is in the
   cache, plz-out holds the state-B output *)
Example C02_restore_step_nonvacuous :
  let st := run_history [HBuild true nv_rA [s "//p:b"]; HBuild true nv_rB [s "//p:b"]] empty_store in
  let r := restrict nv_rA [s "//p:b"] in
  needs_build r st nv_a = true
  /\ option_map (fun sk => s_cache st (t_label nv_a) ((t_defkey nv_a, []), sk)) (source_key r st nv_a)
     = Some (Some [(s "a.out", File false (s "1"))])
  /\ out_of st nv_a (s "a.out") = Some (File false (s "9"))
  /\ outs_of (rn_st (plz_build true nv_rA [s "//p:b"] st)) nv_b = [(s "b.out", Some (File false (s "12")))].
Proof. vm_compute. repeat split. Qed.

(* ------------------------------------------------------------------------------------------ *)
(* follow-up of the seeded change C02/r2-m1: the source hash (hence the cache key) of a consumer behind a filegroup whose output
   is a HARD LINK to the user's file.  Model/C01Ext.v follows the inodes; the nil mark CopyHash leaves in the memo and what
   PathHasher.Hash does with it are regenerated from the source (Gen/EngineRecord.v: fg_same_file_acts, hasher_nil_mark,
   hasher_read_guard).  For every history of rewrites in place, replacements, renames, rm -rf plz-out and builds in fresh
   processes the key changes exactly when the content does: A, B, A in place never looks up B's entry for A's content. *)
From PlzV Require Model.C01Ext Proof.C01Ext.
Theorem C02_hard_link_key_exact : forall (c0 : str) (evs : list C01Ext.event),
  C01Ext.irun C01Ext.gen_flags (C01Ext.iinit c0) evs = C01Ext.ispec c0 None None None evs.
Proof. exact C01Ext.ino_runs_exact. Qed.
Print Assumptions C02_hard_link_key_exact.

Example C02_hard_link_nonvacuous :
  C01Ext.irun C01Ext.gen_flags (C01Ext.iinit (s "A"))
    [C01Ext.Build; C01Ext.Build; C01Ext.EditA (s "B"); C01Ext.Build; C01Ext.EditA (s "A"); C01Ext.Build; C01Ext.Build]
  = [(true, None); (false, None); (true, None); (true, None); (false, None)]
  /\ C01Ext.irun (C01Ext.mkF true false false true true) (C01Ext.iinit (s "A"))
    [C01Ext.Build; C01Ext.Build; C01Ext.EditA (s "B"); C01Ext.Build; C01Ext.EditA (s "A"); C01Ext.Build; C01Ext.Build]
  <> [(true, None); (false, None); (true, None); (true, None); (false, None)].
Proof. vm_compute. split; [reflexivity|discriminate]. Qed.
