(* C39 - Configuration layering follows the documented precedence.
   This file holds only the statement, the property theorems and their non-vacuity examples. *)
From Coq Require Import Permutation.
From PlzV Require Import Base.Harness Model.C39 Gen.ConfigOrder Proof.C39.

(* The effective value of every option, for every schema of defaults, every set of files, every list of
   file names and profiles and every list of -o overrides, is the documented one (Proof.C39.spec_value):
     single-valued: the value from the highest-priority source that sets it (sources = the existing files
                    in read order; -o above all of them), the documented default if no source sets it;
     repeated:      the values accumulated across the files in read order, a blank clearing everything
                    before it, -o replacing the whole list, the documented default if no source sets it;
     a default is a literal of DefaultConfiguration(), a setDefault value or a COMPUTED default (build.path: the $PATH
     of the caller when the files list PATH in build.passenv / build.passunsafeenv, else DefaultPath) - of whatever
     kind, it applies only to an option that no source sets (Proof.C39.default_of);
   each profile file is read right after the file it belongs to; and the default files come in the
   documented order /etc/please/plzconfig, user config, .plzconfig, .plzconfig_<arch>, .plzconfig.local - a global location
   the environment names twice (XDG_CONFIG_HOME=~/.config/please names the user config again) once, at its last position;
   a configuration is only ever produced from ALL the layers that exist (a location that exists but cannot be opened is
   an error, never "absent"); every source is applied once; and an option of a [Plugin "x"] section - whose keys are
   case-insensitive - has the values of the highest-priority file that sets it, whatever Go's map iteration order is. *)
Definition C39_statement : Prop :=
  (forall sch fs filenames profiles ovs c,
     wf_schema sch ->
     effective sch fs filenames profiles ovs = Some c ->
     forall o, c o = spec_value sch o (sources fs (read_order filenames profiles)) ovs)
  /\ (forall before f after profiles,
        read_order (before ++ f :: after) profiles =
          read_order before profiles ++ (f :: map (profile_file f) profiles) ++ read_order after profiles)
  /\ (forall e, exists xdg_dirs xdg_home,
        default_files e =
          keep_last ([s "/etc/please/plzconfig"] ++ xdg_dirs ++ [e_home e ++ s "/.config/please/plzconfig"] ++ xdg_home) ++
          [e_root e ++ s "/.plzconfig"; e_root e ++ s "/.plzconfig_" ++ e_arch e; e_root e ++ s "/.plzconfig.local"])
  /\ (forall sch fs faults filenames profiles ovs c,
        effective_f sch fs faults filenames profiles ovs = Some c ->
        openable faults (read_order filenames profiles) = true /\ effective sch fs filenames profiles ovs = Some c)
  /\ (forall e, NoDup (global_files e))
  /\ (forall perm srcs k, (forall m, Permutation (perm m) m) -> read_plugins perm srcs k = spec_plugin k srcs).

(* The unchanged code does not satisfy it: a repeated option whose last word is a blank reset gets its
   built-in default back (witness_blank); three more classes are exhibited by witness_preset / witness_derived /
   witness_alias (cpp.coverage = false appends "cc" to test.disablecoverage).  The plugin clause fails as well: a plugin key
   that ONE file spells in two ways gets the values of either spelling, depending on the map iteration order
   (witness_two_spellings). *)
Theorem C39_refuted : ~ C39_statement.
Proof. exact (fun H => full_value_clause_false (proj1 H)). Qed.
Print Assumptions C39_refuted.

(* What does hold, for all inputs: the value clause outside the four executable defect classes (and the two
   list classes are exact), each clause of the property in source-level form, and the two order clauses. *)
Definition C39_partial_statement : Prop :=
  (* 1. every option outside the known defect classes has the documented value *)
  (forall sch fs filenames profiles ovs c,
     wf_schema sch ->
     effective sch fs filenames profiles ovs = Some c ->
     let srcs := sources fs (read_order filenames profiles) in
     forall o, defect_class sch srcs ovs o = None -> c o = spec_value sch o srcs ovs)
  (* 2. the two list classes name real deviations only *)
  /\ (forall sch fs filenames profiles ovs c,
        effective sch fs filenames profiles ovs = Some c ->
        let srcs := sources fs (read_order filenames profiles) in
        forall o d, defect_class sch srcs ovs o = Some d -> d <> DerivedOverwrite -> d <> AliasAppended ->
          c o <> spec_value sch o srcs ovs)
  (* 3. single-valued: the highest-priority source that sets it wins, its last assignment counts *)
  /\ (forall sch fs filenames profiles ovs c k n,
        effective sch fs filenames profiles ovs = Some c ->
        let o := Single k n in
        let srcs := sources fs (read_order filenames profiles) in
        last_override o ovs = None -> post_hits sch srcs o = false ->
        forall lower f higher a,
          srcs = lower ++ f :: higher -> Forall (fun g => mentions o g = false) higher ->
          last_on o f = Some a -> c o = [value_of a])
  (* 4. repeated: accumulation across files in read order (on top of a pre-filled default, if any) *)
  /\ (forall sch fs filenames profiles ovs c n,
        effective sch fs filenames profiles ovs = Some c ->
        let o := Multi n in
        let srcs := sources fs (read_order filenames profiles) in
        last_override o ovs = None -> post_hits sch srcs o = false ->
        after_last_blank o (flat srcs) = None -> mentions o (flat srcs) = true ->
        c o = init_cfg sch o ++ concat (map (vals o) srcs))
  (* 5. a blank clears everything set before it *)
  /\ (forall sch fs filenames profiles ovs c n,
        effective sch fs filenames profiles ovs = Some c ->
        let o := Multi n in
        let srcs := sources fs (read_order filenames profiles) in
        last_override o ovs = None -> post_hits sch srcs o = false ->
        forall before after,
          flat srcs = before ++ Blank o :: after -> after_last_blank o after = None ->
          vals o after <> [] -> c o = vals o after)
  (* 6. ... and when the blank is the last word, the setDefault value / computed default comes back (what the code does) *)
  /\ (forall sch fs filenames profiles ovs c n,
        effective sch fs filenames profiles ovs = Some c ->
        let o := Multi n in
        let srcs := sources fs (read_order filenames profiles) in
        last_override o ovs = None -> post_hits sch srcs o = false ->
        forall before after,
          flat srcs = before ++ Blank o :: after -> mentions o after = false ->
          c o = fallback_of sch srcs o)
  (* 7. -o sets the scalar / replaces the whole list, whatever the files say *)
  /\ (forall sch fs filenames profiles ovs c o v,
        effective sch fs filenames profiles ovs = Some c ->
        last_override o ovs = Some v ->
        c o = if is_multi o then split_on 44 v else [v])
  (* 8. an option no source sets has its default: the documented literal / setDefault value, or the computed default
        evaluated on the documented layering of the trigger options *)
  /\ (forall sch fs filenames profiles ovs c o,
        wf_schema sch ->
        effective sch fs filenames profiles ovs = Some c ->
        let srcs := sources fs (read_order filenames profiles) in
        last_override o ovs = None -> post_hits sch srcs o = false ->
        mentions o (flat srcs) = false -> c o = default_of sch srcs o)
  (* 9. profile files right after their file; missing files ignored *)
  /\ (forall before f after profiles,
        read_order (before ++ f :: after) profiles =
          read_order before profiles ++ (f :: map (profile_file f) profiles) ++ read_order after profiles)
  /\ (forall fs name, fs_open fs name = None -> sources fs [name] = [])
  (* 10. the documented order of the default files (proved through the order and the keep-last dedupe regenerated from
         config.go); every global location is read once, none is lost, and without repeated names the order is literally
         the documented list; the position kept is the last mention *)
  /\ (forall e, exists xdg_dirs xdg_home,
        default_files e =
          keep_last ([s "/etc/please/plzconfig"] ++ xdg_dirs ++ [e_home e ++ s "/.config/please/plzconfig"] ++ xdg_home) ++
          [e_root e ++ s "/.plzconfig"; e_root e ++ s "/.plzconfig_" ++ e_arch e; e_root e ++ s "/.plzconfig.local"])
  /\ ((forall e, NoDup (global_files e))
      /\ (forall e x, In x (global_files e) <-> In x (global_files_raw e))
      /\ (forall l, NoDup l -> keep_last l = l)
      /\ (forall before x after, ~ In x after ->
            exists pre, keep_last (before ++ x :: after) = pre ++ x :: keep_last after /\ ~ In x pre))
  (* 11. the defaults used in the correspondence are the ones written in config.go (regenerated) *)
  /\ (forall path, schema_matches_gen (real_schema_at path) sampled = true /\ wf_schema (real_schema_at path)
                   /\ getenv (real_schema_at path) (s "PATH") = path)
  (* 12. an option the files leave non-empty never gets a default of any kind (setDefault value or computed default),
         whatever the trigger options and the environment of the caller are *)
  /\ (forall sch fs filenames profiles ovs c n,
        effective sch fs filenames profiles ovs = Some c ->
        let o := Multi n in
        let srcs := sources fs (read_order filenames profiles) in
        last_override o ovs = None -> post_hits sch srcs o = false ->
        accumulated o srcs <> [] ->
        c o = (match after_last_blank o (flat srcs) with Some _ => [] | None => init_cfg sch o end) ++ accumulated o srcs)
  (* 13. membership in an accumulated list, over all assignment streams: v is in it iff some assignment of v is not
         followed by a blank reset *)
  /\ (forall n v l,
        mem v (accumulated_l (Multi n) l) = true <->
        exists before after, l = before ++ Assign (Multi n) v :: after /\ no_blank_on (Multi n) after = true)
  (* 14. the computed default in source-level form: an unset option with a computed default gets the split environment
         variable iff some source lists the trigger element in a trigger option with no later blank reset, else the fallback *)
  /\ (forall sch fs filenames profiles ovs c o cd,
        wf_schema sch ->
        effective sch fs filenames profiles ovs = Some c ->
        let srcs := sources fs (read_order filenames profiles) in
        last_override o ovs = None -> post_hits sch srcs o = false ->
        assoc o (computed sch) = Some cd ->
        mentions o (flat srcs) = false ->
        ((exists t before after, In t (cd_triggers cd) /\
            flat srcs = before ++ Assign (fst t) (snd t) :: after /\ no_blank_on (fst t) after = true)
         /\ c o = split_on (cd_sep cd) (getenv sch (cd_var cd)))
        \/
        ((forall t before after, In t (cd_triggers cd) ->
            flat srcs = before ++ Assign (fst t) (snd t) :: after -> no_blank_on (fst t) after = false)
         /\ c o = cd_fallback cd))
  (* 15. the environment of the caller reaches only options with a computed default that the files leave empty *)
  /\ (forall s1 s2 fs filenames profiles ovs c1 c2 o,
        same_tables s1 s2 ->
        effective s1 fs filenames profiles ovs = Some c1 ->
        effective s2 fs filenames profiles ovs = Some c2 ->
        let srcs := sources fs (read_order filenames profiles) in
        post_hits s1 srcs o = false -> post_hits s2 srcs o = false ->
        assoc o (computed s1) = None \/ rawcfg s1 srcs o <> [] ->
        c1 o = c2 o)
  (* 16. no layer is ever silently skipped: a configuration is only produced when every Open of the read order succeeded or
         reported "does not exist", and it is then the one computed from all the existing files (clauses 1-15 apply to it) *)
  /\ (forall sch fs faults filenames profiles ovs c,
        effective_f sch fs faults filenames profiles ovs = Some c ->
        openable faults (read_order filenames profiles) = true /\ effective sch fs filenames profiles ovs = Some c)
  (* 17. a location that exists but cannot be opened aborts the read, and nothing after it is opened *)
  /\ (forall sch fs faults filenames profiles ovs before n after,
        read_order filenames profiles = before ++ n :: after ->
        openable faults before = true -> mem n faults = true ->
        effective_f sch fs faults filenames profiles ovs = None
        /\ snd (read_loop fs faults (read_order filenames profiles)) = before ++ [n])
  (* 18. the handling of an Open error and the statements around one file are the ones written in readConfigFileOnly /
         readConfigFile (regenerated) *)
  /\ ((forall fs faults name, fs_open_f fs faults name = open_by_policy fs faults name)
      /\ read_file_steps = [RSavePlugins; RFreshPlugins; RReadOrAbort; RMergePlugins])
  (* 19. [Plugin "x"] options, for every map iteration order and every list of files none of which spells the key in two
         ways: the documented layering (highest-priority file that sets the key case-insensitively; its values) *)
  /\ (forall perm srcs k,
        (forall m, Permutation (perm m) m) -> (forall f, In f srcs -> one_spelling k f) ->
        read_plugins perm srcs k = spec_plugin k srcs)
  (* 20. ... in source-level form: the file after which nothing sets the key wins, lower layers and capitalisation are
         irrelevant; an option only a lower layer sets is kept (take that layer as f) *)
  /\ (forall perm lower f higher k,
        (forall m, Permutation (perm m) m) ->
        (forall g, In g (lower ++ f :: higher) -> one_spelling k g) ->
        pmentions k f = true -> Forall (fun g => pmentions k g = false) higher ->
        read_plugins perm (lower ++ f :: higher) k = Some (pvals k f))
  (* 21. the map iteration order is irrelevant; a plugin option no file sets has no value *)
  /\ (forall perm1 perm2 srcs k,
        (forall m, Permutation (perm1 m) m) -> (forall m, Permutation (perm2 m) m) ->
        (forall f, In f srcs -> one_spelling k f) ->
        read_plugins perm1 srcs k = read_plugins perm2 srcs k)
  /\ (forall perm srcs k,
        (forall m, Permutation (perm m) m) -> Forall (fun g => pmentions k g = false) srcs ->
        read_plugins perm srcs k = None)
  (* 22. the passes of normaliseAndMergePluginConfig, interpreted in the order they are written in config.go (regenerated),
         are the layer step of the model: keys lower-cased first, previous layers merged in afterwards *)
  /\ (forall perm old f,
        stage_eq (fold_left (interp_pstep perm old) plugin_merge_steps (Some (Raw (parse_pfile f)))) (read_layer perm old f)).

Theorem C39_partial : C39_partial_statement.
Proof.
  exact (conj values_partial (conj list_defects_real (conj scalar_highest_priority (conj repeated_accumulate
        (conj blank_clears (conj blank_last_restores_default (conj override_replaces (conj default_when_unset
        (conj profile_adjacent (conj missing_file_ignored (conj default_order_documented
        (conj (conj global_files_once (conj global_files_complete (conj keep_last_id keep_last_last)))
        (conj (fun p => conj (real_schema_matches_source p) (conj (real_schema_at_wf p) (real_getenv_path p)))
        (conj explicit_beats_default (conj mem_accumulated_iff (conj computed_default_source_level
        (conj environment_only_reaches_unset_computed
        (conj unopenable_layer_never_skipped (conj unopenable_layer_aborts
        (conj (conj gen_open_policy gen_read_file_steps)
        (conj plugin_highest_layer_wins (conj plugin_source_level (conj plugin_order_independent (conj plugin_unset
              gen_plugin_layer)))))))))))))))))))))))).
Qed.
Print Assumptions C39_partial.

(* Non-vacuity of C39_refuted: the witnesses run through the model of the unchanged code. *)
Example C39_refuted_witnesses :
  (value_at (run_default w_blank) o_bfn = Some [s "BUILD"; s "BUILD.plz"]
     /\ spec_value real_schema o_bfn (srcs_default w_blank) [] = [])
  /\ (value_at (run_default w_preset) o_maven
         = Some [s "https://repo1.maven.org/maven2"; s "https://jcenter.bintray.com/"; s "https://a.example/x"]
       /\ spec_value real_schema o_maven (srcs_default w_preset) [] = [s "https://a.example/x"])
  /\ (value_at (run_default w_derived) o_gotool = Some [s "/usr/lib/go/bin/go"]
       /\ spec_value real_schema o_gotool (srcs_default w_derived) [] = [s "/usr/bin/go"])
  /\ (value_at (run_default w_alias) o_discov = Some [s "slow"; s "cc"]
       /\ spec_value real_schema o_discov (srcs_default w_alias) [] = [s "slow"]).
Proof.
  exact (conj (conj (proj1 witness_blank) (proj1 (proj2 witness_blank)))
        (conj (conj (proj1 witness_preset) (proj1 (proj2 witness_preset)))
        (conj (conj (proj1 witness_derived) (proj1 (proj2 witness_derived)))
              (conj (proj1 witness_alias) (proj1 (proj2 witness_alias)))))).
Qed.

(* Non-vacuity of the further refuted clause: one file spelling a plugin key in two ways gives either spelling's value
   depending on the iteration order, never the documented one.  And the regression for the user config named twice
   (XDG_CONFIG_HOME=~/.config/please): it is read once, a repeated option it sets is accumulated once. *)
Example C39_refuted_more_witnesses :
  (read_plugins (fun m => m) [w_two_spellings] pk_gotool = Some [s "two"]
      /\ read_plugins (@rev _) [w_two_spellings] pk_gotool = Some [s "one"]
      /\ spec_plugin pk_gotool [w_two_spellings] = Some [s "one"; s "two"])
  /\ (default_files xdg_dup_env =
        [s "/etc/please/plzconfig"; s "/home/u/.config/please/plzconfig"; s "/r/.plzconfig"; s "/r/.plzconfig_linux_amd64"; s "/r/.plzconfig.local"]
      /\ value_at (effective real_schema [(s "/home/u/.config/please/plzconfig", [Assign (Multi (s "parse.blacklistdirs")) (s "x")])]
                     (default_files xdg_dup_env) [] []) (Multi (s "parse.blacklistdirs")) = Some [s "x"]).
Proof.
  split; [|exact xdg_dup_read_once].
  exact (conj (proj1 witness_two_spellings) (conj (proj1 (proj2 witness_two_spellings)) eq_refl)).
Qed.

(* Non-vacuity of clauses 16-22: a mixed-case two-layer plugin configuration (hypotheses of 19/20 hold, the higher layer
   wins under two different iteration orders, the lower layer's other option is kept), and an unopenable .plzconfig.local. *)
Example C39_layers_nonvacuous :
  read_plugins (fun m => m) [w_plugin_base; w_plugin_local] pk_gotool = Some [s "/from/local/go"]
  /\ read_plugins (@rev _) [w_plugin_base; w_plugin_local] pk_gotool = Some [s "/from/local/go"]
  /\ read_plugins (fun m => m) [w_plugin_base; w_plugin_local] (s "go", s "importpath") = Some [s "example.com/base"]
  /\ one_spelling pk_gotool w_plugin_base /\ one_spelling pk_gotool w_plugin_local
  /\ effective_f real_schema w_fault_fs [s "/r/.plzconfig.local"] (default_files root_env) [] [] = None
  /\ value_at (effective_f real_schema w_fault_fs [] (default_files root_env) [] []) (Single SStr (s "build.config")) = Some [s "local"].
Proof.
  destruct plugin_examples as [H1 [H2 [H3 [H4 H5]]]]. destruct fault_examples as [F1 [F2 _]].
  exact (conj H1 (conj H2 (conj H3 (conj H4 (conj H5 (conj F2 F1)))))).
Qed.

(* Non-vacuity of the computed-default clauses (8, 12, 14) under $PATH = /caller/bin:/usr/bin:
   build.path set explicitly while PATH is passed through keeps the explicit value; unset with PATH in passunsafeenv it is
   the split $PATH; with PATH cleared again by a later blank reset of passenv it is the documented DefaultPath. *)
Example C39_computed_default_nonvacuous :
  value_at (run_default w_path_set) o_path = Some [s "/opt/tools/bin"]
  /\ defect_class real_schema (srcs_default w_path_set) [] o_path = None
  /\ value_at (run_default w_path_unset) o_path = Some [s "/caller/bin"; s "/usr/bin"]
  /\ defect_class real_schema (srcs_default w_path_unset) [] o_path = None
  /\ value_at (run_default w_path_cleared) o_path = Some [s "/usr/local/bin"; s "/usr/bin"; s "/bin"]
  /\ defect_class real_schema (srcs_default w_path_cleared) [] o_path = None.
Proof. exact computed_examples. Qed.

(* Non-vacuity of C39_partial: five existing files incl. a profile file, missing files, a blank reset in the
   middle, an override; the hypotheses of clause 1 hold and the values are the expected non-trivial ones. *)
Example C39_partial_nonvacuous :
  let o_cfg := Single SStr (s "build.config") in
  let o_bl := Multi (s "parse.blacklistdirs") in
  let fs := [ (s "/etc/please/plzconfig", [Assign o_cfg (s "etc"); Assign o_bl (s "a")]);
              (s "/r/.plzconfig", [Assign o_cfg (s "repo"); Assign o_bl (s "b"); Blank o_bl; Assign o_bl (s "c")]);
              (s "/r/.plzconfig.dev", [Assign o_cfg (s "dev"); Assign o_bfn (s "BUILD.dev")]);
              (s "/r/.plzconfig_linux_amd64", [Assign o_bl (s "d")]);
              (s "/r/.plzconfig.local", [Assign o_bfn (s "BUILD.local")]) ] in
  let ovs := [(o_bfn, s "X,Y")] in
  let srcs := sources fs (read_order (default_files root_env) [s "dev"]) in
  let r := effective real_schema fs (default_files root_env) [s "dev"] ovs in
  wf_schema real_schema
  /\ value_at r o_cfg = Some [s "dev"] /\ value_at r o_bl = Some [s "c"; s "d"]
  /\ value_at r o_bfn = Some [s "X"; s "Y"]
  /\ value_at r (Multi (s "build.path")) = Some [s "/usr/local/bin"; s "/usr/bin"; s "/bin"]
  /\ defect_class real_schema srcs ovs o_cfg = None
  /\ defect_class real_schema srcs ovs o_bl = None
  /\ defect_class real_schema srcs ovs o_bfn = None
  /\ length srcs = 5%nat.
Proof.
  cbn zeta. split; [exact real_schema_wf|]. vm_compute. repeat split.
Qed.
