(* C10 - Build actions see a hermetic, fully hashed environment.
   This file holds only the statement, the property theorems and their non-vacuity examples.

   Reading guide.  `build_env cfg t tmp caller` is core.BuildEnvironment, `target_env` core.TargetEnvironment,
   `config_build_env` Configuration.GetBuildEnv; `rule_stream pre post t caller` is the byte stream ruleHash feeds to
   SHA-1 (pre/post: everything before/after the pass_env fragment, independent of the caller) and `config_stream`
   the one Configuration.Hash feeds to SHA-1: a target is rebuilt iff one of the two hashes differs from the
   recorded one.  `agree c1 c2 names`: the two caller environments give the same os.LookupEnv result on every listed
   name.  `reads cfg t` = [build] passunsafeenv ++ [build] passenv ++ target pass_unsafe_env ++ target pass_env
   ++ (HOME, only if a secret of the target contains "~").  `with_env t e`: the same target with its env dict listed
   in another order (a Go map has none). *)
From PlzV Require Import Base.Harness Model.C10 Proof.C10 Proof.C10_Gen Proof.C10_Sandbox Proof.C10_R2.
From PlzV Require Gen.C10Env.
From Coq Require Import Permutation.

Definition C10_statement : Prop :=
  (* 1. the environment is determined by configuration, target and the LISTED caller variables only - whatever else
        the invoking shell holds, and whatever order the target's env dict is enumerated in *)
  (forall cfg t tmp c1 c2 e1 e2,
      NoDup (map fst (t_env t)) -> Permutation e1 (t_env t) -> Permutation e2 (t_env t) ->
      agree c1 c2 (reads cfg t) ->
      build_env cfg (with_env t e1) tmp c1 = build_env cfg (with_env t e2) tmp c2)
  (* 2. listed variables are visible (target level; configuration level for pass_unsafe_env) *)
  /\ (forall cfg t c v, In v (opt_list (t_pass_unsafe t) ++ opt_list (t_pass_env t)) ->
        lookup v (target_env cfg t c) = Some (getenv c v))
  /\ (forall cfg c v x, In v (c_pass_unsafe cfg) -> ~ In v (c_pass_env cfg) -> v <> PATH -> lookup v c = Some x ->
        lookup v (config_build_env cfg c) = Some x)
  (* 3. changing a pass_env variable's value causes a rebuild: the hashed bytes change *)
  /\ (forall t pre post c1 c2 v, In v (opt_list (t_pass_env t)) -> getenv c1 v <> getenv c2 v ->
        rule_stream pre post t c1 <> rule_stream pre post t c2)
  /\ (forall cfg c1 c2 v, In v (c_pass_env cfg) ->
        lookup v (config_build_env cfg c1) <> lookup v (config_build_env cfg c2) ->
        config_stream cfg c1 <> config_stream cfg c2)
  (* 4. changing any other variable (pass_unsafe_env ones included) triggers nothing: the hashed bytes are equal *)
  /\ (forall cfg t pre post c1 c2, agree c1 c2 (hashed_reads cfg t) ->
        rule_stream pre post t c1 = rule_stream pre post t c2 /\ config_stream cfg c1 = config_stream cfg c2).

(* The unchanged code violates clause 3: name=value runs are hashed without framing, so two pass_env variables
   changed together can leave the stream unchanged (witness below); and Configuration.Hash skips every key that
   starts with SECRET although [build] passenv passes it on (C10_refuted_secret). *)
Theorem C10_refuted : ~ C10_statement.
Proof. exact (fun H => refute_hashed_target (proj1 (proj2 (proj2 (proj2 H))))). Qed.
Print Assumptions C10_refuted.

Theorem C10_refuted_secret : ~ C10_statement.
Proof. exact (fun H => refute_hashed_config (proj1 (proj2 (proj2 (proj2 (proj2 H)))))). Qed.
Print Assumptions C10_refuted_secret.

(* Everything else holds for all configurations, targets, caller environments and enumeration orders; clause 3 holds
   when ONE variable changes (the property's own wording), for [build] passenv additionally when the variable is set
   in both callers and its name does not start with SECRET. *)
Theorem C10_partial :
  (forall cfg t tmp c1 c2 e1 e2,
      NoDup (map fst (t_env t)) -> Permutation e1 (t_env t) -> Permutation e2 (t_env t) ->
      agree c1 c2 (reads cfg t) ->
      build_env cfg (with_env t e1) tmp c1 = build_env cfg (with_env t e2) tmp c2)
  /\ (forall cfg t c v, In v (opt_list (t_pass_unsafe t) ++ opt_list (t_pass_env t)) ->
        lookup v (target_env cfg t c) = Some (getenv c v))
  /\ (forall cfg c v x, In v (c_pass_unsafe cfg) -> ~ In v (c_pass_env cfg) -> v <> PATH -> lookup v c = Some x ->
        lookup v (config_build_env cfg c) = Some x)
  /\ (forall t pre post c1 c2 v, In v (opt_list (t_pass_env t)) -> getenv c1 v <> getenv c2 v ->
        (forall n, In n (opt_list (t_pass_env t)) -> n <> v -> getenv c1 n = getenv c2 n) ->
        rule_stream pre post t c1 <> rule_stream pre post t c2)
  /\ (forall cfg c1 c2 v a b, In v (c_pass_env cfg) -> has_prefix SECRET v = false ->
        lookup v c1 = Some a -> lookup v c2 = Some b -> a <> b ->
        (forall n, n <> v -> lookup n c1 = lookup n c2) ->
        config_stream cfg c1 <> config_stream cfg c2)
  /\ (forall cfg t pre post c1 c2, agree c1 c2 (hashed_reads cfg t) ->
        rule_stream pre post t c1 = rule_stream pre post t c2 /\ config_stream cfg c1 = config_stream cfg c2).
Proof.
  exact (conj determined (conj target_env_visible (conj config_unsafe_visible
        (conj rule_stream_single (conj config_stream_single unhashed))))).
Qed.
Print Assumptions C10_partial.

(* Follow-up 1: the known collision class, exactly.  The unchanged framing name "=" value is injective as soon as no
   pass_env name and no value (in either caller) contains "=": equal hashed bytes then mean equal values for EVERY
   pass_env variable - whatever number of variables changed together.  (A collision of the known class therefore needs
   a "=" inside a value; a collision between "="-free values is a different defect.) *)
Theorem C10_framing :
  forall t pre post c1 c2,
    (forall n, In n (opt_list (t_pass_env t)) -> no_eq n /\ no_eq (getenv c1 n) /\ no_eq (getenv c2 n)) ->
    rule_stream pre post t c1 = rule_stream pre post t c2 ->
    forall n, In n (opt_list (t_pass_env t)) -> getenv c1 n = getenv c2 n.
Proof. exact rule_stream_injective_no_eq. Qed.
Print Assumptions C10_framing.

(* Follow-up 2: from the environment map to the PROCESS.  `action_env mode uid net mount caller e` is the environment
   of the process started by Executor.ExecWithTimeout for the name=value list e: ExecCommand's preset entries
   (SANDBOX_UID / SHARE_NETWORK / SHARE_MOUNT for sandboxed commands), e appended, os/exec's "empty list = inherit the
   parent" and "last entry wins", and - built-in sandbox - `plz sandbox` rewriting $TMP_DIR to /tmp/plz_sandbox.
   `build_env_sb sx` is BuildEnvironment for a target with the sandbox attributes sx; the process is started in the
   target's temp dir (cmd.Dir = tmp).
   For every sandbox mode, every sandbox configuration, all configurations/targets/callers/enumeration orders:
   (a) the process environment is determined by configuration, target and the LISTED caller variables;
   (b) every variable the process sees is a key of the environment map or one of ExecCommand's fixed entries, and its
       value is (a function f, the same for all variables, of) the LAST entry of the map's list, else the fixed entry
       - never anything of the caller. *)
Theorem C10_sandbox :
  (forall mode uid net mount sx cfg t tmp c1 c2 e1 e2,
      NoDup (map fst (t_env t)) -> Permutation e1 (t_env t) -> Permutation e2 (t_env t) ->
      agree c1 c2 (reads cfg t) ->
      action_env mode uid net mount c1 tmp (build_env_sb sx cfg (with_env t e1) tmp c1)
      = action_env mode uid net mount c2 tmp (build_env_sb sx cfg (with_env t e2) tmp c2))
  /\ (forall mode uid net mount caller dir sx cfg t tmp a,
        action_env mode uid net mount caller dir (build_env_sb sx cfg t tmp caller) = Some a ->
        (forall k v, lookup k a = Some v ->
           In k (map fst (build_env_sb sx cfg t tmp caller)) \/ In k (map fst (exec_preset mode uid net mount)))
        /\ exists f : str -> str, forall k,
             lookup k a = option_map f (match entry_of k (build_env_sb sx cfg t tmp caller) with
                                        | Some v => Some v
                                        | None => entry_of k (exec_preset mode uid net mount) end)).
Proof.
  split; [exact action_env_determined|].
  intros mode uid net mount caller dir sx cfg t tmp a Ha. split.
  - intros k v Hk. exact (action_env_keys _ _ _ _ _ _ _ _ k v (build_env_sb_nonempty sx cfg t tmp caller) Ha Hk).
  - exact (action_env_lookup _ _ _ _ _ _ _ _ (build_env_sb_nonempty sx cfg t tmp caller) Ha).
Qed.
Print Assumptions C10_sandbox.

(* Round-2 follow-up A: the three states of a listed variable.  ruleHash writes NAME= ++ os.Getenv(NAME): it cannot tell
   "not set" from "set but empty".  The environment must then not tell them apart either:
   (1) for the read modes THE SOURCE HAS (gotrans translates the loop bodies of TargetEnvironment and ruleHash into
       RGetenv / RLookup on every run), the environment side is not finer than the hash side and callers the hash cannot
       tell apart get the same TargetEnvironment;
   (2) for the whole build environment of the unchanged code: it is a function of the os.Getenv values of the
       target-level listed variables (plus the configuration-level lists and HOME-if-read);
   (3) equal hashed bytes give equal environments ("="-free names and values, C10_framing's hypothesis): env = f(hashed). *)
Theorem C10_tristate :
  (forall mu me mh, gen_modes = Some (mu, me, mh) ->
     mode_le me mh = true
     /\ (forall cfg t c, target_env cfg t c = target_env_m mu me cfg t c)
     /\ (forall cfg t c1 c2,
           agree c1 c2 (c_pass_unsafe cfg ++ c_pass_env cfg) ->
           (forall n, In n (opt_list (t_pass_unsafe t)) -> read_view mu c1 n = read_view mu c2 n) ->
           hashed_view mh t c1 = hashed_view mh t c2 ->
           target_env_m mu me cfg t c1 = target_env_m mu me cfg t c2))
  /\ (forall sx cfg t tmp c1 c2,
        agree c1 c2 (c_pass_unsafe cfg ++ c_pass_env cfg ++ code_reads cfg t) ->
        (forall n, In n (opt_list (t_pass_unsafe t) ++ opt_list (t_pass_env t)) -> getenv c1 n = getenv c2 n) ->
        build_env_sb sx cfg t tmp c1 = build_env_sb sx cfg t tmp c2)
  /\ (forall sx cfg t tmp pre post c1 c2,
        agree c1 c2 (c_pass_unsafe cfg ++ c_pass_env cfg ++ code_reads cfg t) ->
        (forall n, In n (opt_list (t_pass_unsafe t)) -> getenv c1 n = getenv c2 n) ->
        (forall n, In n (opt_list (t_pass_env t)) -> no_eq n /\ no_eq (getenv c1 n) /\ no_eq (getenv c2 n)) ->
        rule_stream pre post t c1 = rule_stream pre post t c2 ->
        build_env_sb sx cfg t tmp c1 = build_env_sb sx cfg t tmp c2).
Proof. exact (conj gen_env_function_of_hashed (conj env_function_of_hashed env_function_of_stream)). Qed.
Print Assumptions C10_tristate.

(* Round-2 follow-up B: "changing a pass_env value causes a rebuild" over HISTORIES of invocations, failing actions,
   `rm -rf plz-out` and both hash stores ([build] xattrs = true: on the outputs; false: .rule_hash_ side files) included.
   With the sequence of checks needsBuilding HAS (translated by gotrans on every run) and whatever Build() does when the
   action fails: after any history, an invocation that reports success leaves outputs that exist and were produced
   under the CURRENT hashed bytes, and it re-ran the action exactly when the outputs on disk were not those. *)
Theorem C10_incremental :
  forall checks, gen_checks = Some checks ->
  forall xattrs h key ok st' ran,
    let st := fst (run_history checks gen_removes xattrs o_init h) in
    build_once checks gen_removes xattrs key ok st = (st', (ran, true)) ->
    o_out st' = Some key /\ ran = negb (okey_eqb (o_out st) (Some key)).
Proof. exact gen_history_fresh. Qed.
Print Assumptions C10_incremental.

(* Round-2 follow-up C: the built-in remote_file action is a build action too.  With the mapping the source uses to
   expand header values (translated by gotrans): the value sent is determined by configuration, target and the LISTED
   caller variables, for every declared header value and every enumeration order of the env dict. *)
Theorem C10_headers :
  forall m, gen_hdr_mode = Some m ->
  forall cfg t tmp c1 c2 e1 e2 raw,
    NoDup (map fst (t_env t)) -> Permutation e1 (t_env t) -> Permutation e2 (t_env t) -> agree c1 c2 (reads cfg t) ->
    header_value m cfg (with_env t e1) tmp c1 raw = header_value m cfg (with_env t e2) tmp c2 raw.
Proof. exact gen_header_determined. Qed.
Print Assumptions C10_headers.

(* Non-vacuity of the round-2 theorems.  The hypotheses are satisfiable (the source's modes / checks / mapping parse);
   unset vs. empty: same stream, same environment, and a value differs from both; a good-bad-good history on side
   files rebuilds at the third step; a header sees the listed T_A and nothing of LEAK.  Each statement is FALSE for the
   neighbouring source (LookupEnv in TargetEnvironment; no existence check; os.ExpandEnv) - so the theorems are not
   trivially true of any translation. *)
Example C10_round2_nonvacuous :
  gen_modes = Some (RGetenv, RGetenv, RGetenv) /\ gen_checks = Some nb_checks_unchanged /\ gen_removes = true
  /\ gen_hdr_mode = Some HTargetEnv
  /\ (let t := simple_target (Some [s "T_A"]) [] in
      build_env (empty_cfg []) t (s "/tmp/b") [] = build_env (empty_cfg []) t (s "/tmp/b") [(s "T_A", [])]
      /\ rule_stream [] [] t [] = rule_stream [] [] t [(s "T_A", [])]
      /\ rule_stream [] [] t [] <> rule_stream [] [] t [(s "T_A", s "v")]
      /\ vstate_of [] (s "T_A") = VUnset /\ vstate_of [(s "T_A", [])] (s "T_A") = VEmpty
      /\ target_env_m RLookup RLookup (empty_cfg []) t [] <> target_env_m RLookup RLookup (empty_cfg []) t [(s "T_A", [])])
  /\ (let good := (s "cfg", s "MODE=fast") in let bad := (s "cfg", s "MODE=broken") in
      let h := [Some (good, true); Some (bad, false); Some (good, true)] in
      snd (run_history nb_checks_unchanged true false o_init h) = [(true, true, true); (true, false, false); (true, true, true)]
      /\ snd (run_history nb_checks_no_outputs true false o_init h) = [(true, true, true); (true, false, false); (false, true, false)])
  /\ (let c1 := [(s "T_A", s "1"); (s "LEAK", s "hunter2")] in
      header_value HTargetEnv (empty_cfg []) hdr_target (s "/tmp/x") c1 (s "tok-$LEAK/$T_A") = s "tok-/1"
      /\ header_value HShellEnv (empty_cfg []) hdr_target (s "/tmp/x") c1 (s "tok-$LEAK/$T_A") = s "tok-hunter2/1").
Proof. vm_compute. repeat split; try reflexivity; discriminate. Qed.

(* Non-vacuity of the two follow-up theorems: a sandboxed target under the built-in sandbox, two callers that differ in
   an unlisted variable; the action sees the pass_env variable, the rewritten temp dir, the three fixed entries and no
   CI_JOB_TOKEN.  And two "="-free callers with different values have different streams. *)
Example C10_followup_nonvacuous :
  let cfg := empty_cfg [] in
  let t := simple_target (Some [s "T_A"]) [(s "X1", s "$TMP_DIR/x")] in
  let sx := {| sb_target := true; sb_resolve := true; sb_dirs := [s "/etc/ssl"] |} in
  let c1 := [(s "T_A", s "1"); (s "CI_JOB_TOKEN", s "hunter2")] in
  let c2 := [(s "T_A", s "1"); (s "USER", s "me")] in
  let tmp := s "/r/plz-out/tmp/t._build" in
  let a1 := action_env SbBuiltin (s "0") true true c1 tmp (build_env_sb sx cfg t tmp c1) in
  a1 = action_env SbBuiltin (s "0") true true c2 tmp (build_env_sb sx cfg t tmp c2)
  /\ (exists a, a1 = Some a /\ lookup (s "T_A") a = Some (s "1") /\ lookup (s "CI_JOB_TOKEN") a = None
        /\ lookup (s "X1") a = Some (s "/tmp/plz_sandbox/x") /\ lookup (s "TMP_DIR") a = Some (s "/tmp/plz_sandbox")
        /\ lookup (s "SANDBOX_DIRS") a = Some (s "/etc/ssl") /\ lookup (s "SANDBOX_UID") a = Some (s "0")
        /\ lookup (s "SHARE_MOUNT") a = Some (s "0"))
  /\ rule_stream [] [] t c1 <> rule_stream [] [] t [(s "T_A", s "2")].
Proof. vm_compute. split; [reflexivity|]. split; [eexists; repeat split; reflexivity|discriminate]. Qed.

(* Non-vacuity. A target with pass_env, an env dict with a cross reference, a configuration with passenv and
   passunsafeenv; two callers that differ in an unlisted variable (LEAK), in the unsafe one (CFG_U) and in nothing
   hashed: same environment up to CFG_U, same streams; changing T_A changes the rule stream. *)
Example C10_nonvacuous :
  let cfg := {| c_lang := s "en_GB.UTF-8"; c_arch := s "amd64"; c_os := s "linux"; c_pkg_config_path := [];
                c_buildenv := [(s "foo-bar", s "baz")]; c_pass_unsafe := [s "CFG_U"]; c_pass_env := [s "CFG_A"];
                c_location := s "/opt/plz"; c_path := default_path; c_remote_url := []; c_build_config := s "opt";
                c_nonce := s "1402"; c_licences_reject := [] |} in
  let t := simple_target (Some [s "T_A"]) [(s "X1", s "$Y1"); (s "Y1", s "v-$NAME")] in
  let c1 := [(s "CFG_A", s "a"); (s "CFG_U", s "u"); (s "T_A", s "1"); (s "LEAK", s "x"); (s "HOME", s "/h1")] in
  let c2 := [(s "CFG_A", s "a"); (s "CFG_U", s "u"); (s "T_A", s "1"); (s "LEAK", s "y"); (s "USER", s "me")] in
  let c3 := [(s "CFG_A", s "a"); (s "CFG_U", s "u2"); (s "T_A", s "2")] in
  build_env cfg t (s "/tmp/b") c1 = build_env cfg t (s "/tmp/b") c2
  /\ build_env cfg (with_env t (rev (t_env t))) (s "/tmp/b") c1 = build_env cfg t (s "/tmp/b") c1
  /\ lookup (s "X1") (build_env cfg t (s "/tmp/b") c1) = Some (s "$Y1")
  /\ lookup (s "LEAK") (build_env cfg t (s "/tmp/b") c1) = None
  /\ lookup (s "HOME") (build_env cfg t (s "/tmp/b") c1) = Some (s "/tmp/b")
  /\ lookup (s "CFG_U") (build_env cfg t (s "/tmp/b") c3) = Some (s "u2")
  /\ config_stream cfg c1 = config_stream cfg c3
  /\ rule_stream [] [] t c1 <> rule_stream [] [] t c3.
Proof. vm_compute. repeat split; discriminate. Qed.

(* The model follows the source: on a sample target that takes every branch the model assigns the environment keys in
   the order of the statements gotrans regenerates from src/core/build_env.go on every run (Gen/C10Env.v). *)
Example C10_source_tie :
  map fst (build_env sample_cfg sample_target (s "/tmp/b") sample_caller) = flat_map inst (map snd Gen.C10Env.env_keys).
Proof. exact env_keys_tie. Qed.

(* The exec model follows the source as well: the statements of ExecCommand / ExecWithTimeout that set the command's
   environment, translated by gotrans on every run, interpret to the model's cmd_env - for every mode, sandbox
   configuration, caller and list. *)
Example C10_exec_source_tie : forall mode uid net mount caller e,
  interp_env_prog Gen.C10Env.exec_env_prog mode uid net mount caller e [] = Some (cmd_env mode uid net mount e).
Proof. exact exec_env_prog_ok. Qed.
