(* C30 - Timed-out actions are killed with all their children.
   This file holds only the statement, the property theorems and their non-vacuity examples.

   Reading of the property in the model (Model/C30.v): a schedule is any list of events accepted
   by `run`: the controller's steps (the Go code), the steps of the command's processes (fork,
   exit, setsid/setpgid, change of the SIGTERM disposition, closing of the output pipes) and the
   passage of time, in any interleaving.  T is the timeout, lat the lateness allowed to each
   timer and to the start of the command (timers are never early).  "Stopped" means dead or
   sent SIGKILL by the executor: a process that was sent SIGKILL runs no user code any more. *)
From PlzV Require Import Base.Harness Gen.KillTimings Model.C30_deadline Model.C30 Proof.C30 Proof.C30_deadline.
Local Open Scope N_scope.

Definition stopped (p : proc) : Prop := alive p = false \/ got_kill p = true.

(* "is reported as failed shortly after the deadline (within a small bound)" *)
Definition timing (os : os_model) (T lat : N) (st : state) : Prop :=
  (* the action is reported within deadline + 1.03 s + 3 lat, and time cannot pass that bound before it is *)
  (match ctl st with PcRet t _ => t <= T + 1030 + 3 * lat | _ => now st <= T + 1030 + 3 * lat end)
  (* the executor never hangs: while it has not returned, time can advance or one of its own steps is enabled *)
  /\ ((exists t e, ctl st = PcRet t e)
      \/ (exists st', step os T lat st (Tick 1) = Some st')
      \/ (exists e st', is_controller e = true /\ step os T lat st e = Some st'))
  (* whatever is reported later than deadline + lat is reported as a timeout; a timeout is never reported before the deadline *)
  /\ (forall t e, ctl st = PcRet t e -> (T + lat < t -> e = ErrDeadline) /\ (e = ErrDeadline -> T <= t))
  (* a command still running lat after the deadline is already being killed *)
  /\ (ctl st = PcInit \/ ctl st = PcSelect -> now st <= T + lat).

Definition C30_statement : Prop :=
  (* the command is started as the leader of a process group of its own, whatever the sandbox
     configuration (none, external sandbox tool, builtin sandbox; any namespace policy) *)
  (forall m, in_group (start_proc m) = true) /\
  forall (T lat : N) (tr : list event) (st : state), run linux T lat init tr = Some st ->
    timing linux T lat st
    (* once the action has been reported finished - with whatever result, and in every later
       state - no process of its group keeps running *)
    /\ (forall t e, ctl st = PcRet t e -> forall p, In p (procs st) -> in_group p = true -> stopped p).

(* The code breaks the last clause on the normal path: ExecWithTimeout signals the group only
   after ctx.Done().  A command that forks a child, the child redirects its output away from
   the pipes, and the command exits: cmd.Wait() returns, the action is reported finished (nil
   error), and the child runs on inside the action's process group - 100 s later still. *)
Theorem C30_refuted : ~ C30_statement.
Proof.
  intros [_ H]. destruct witness_not_stopped as (st & p & Hr & Hc & _ & Hin & Hg & Ha & Hk).
  destruct (H 1000 0 witness_trace st Hr) as [_ Hs]. destruct (Hs 5 ErrNone Hc p Hin Hg) as [Hd|Hd]; congruence.
Qed.
Print Assumptions C30_refuted.

(* What the proofs assume of the operating system (discharged for `linux`, the model the
   correspondence check runs against the real kernel):
   OS-1 a SIGKILL sent to the process group reaches every live member of the group;
   OS-2 cmd.Wait() returns only when process 0 is gone and no live process has the output pipes open;
   OS-3 sending a signal closes nobody's descriptors;
   OS-4 sending a signal moves nobody out of the process group. *)
Definition os_hypotheses (os : os_model) : Prop :=
  (forall l, G (os_kill os true sigkill l))
  /\ (forall l, os_wait_done os l = true -> Quiet l)
  /\ (forall g sg l, Forall Ph l -> Forall Ph (os_kill os g sg l))
  /\ (forall g sg l, Forall Pin l -> Forall Pin (os_kill os g sg l)).

(* Everything else holds, for every timeout, every lateness and every schedule: *)
Definition C30_partial_for (os : os_model) : Prop :=
  (* ExecCommand as it is written (Gen.exec_command_prog), run for every configuration m of the
     executor and the action: the command that is started is a process-group leader *)
  (forall m, in_group (start_proc m) = true) /\
  forall (T lat : N) (tr : list event) (st : state), run os T lat init tr = Some st ->
    timing os T lat st
    (* timed-out actions: when the timeout is reported, and ever after, every process of the
       group is dead or was sent SIGKILL - whether it ignores SIGTERM, forks, holds the pipes,
       exits at the deadline; a process that left the group (setsid) is outside this clause *)
    /\ (forall t, ctl st = PcRet t ErrDeadline -> forall p, In p (procs st) -> in_group p = true -> stopped p)
    (* and if no process ever left the group (no setsid/setpgid in the schedule), that is every
       process the action started, for every sandbox configuration chosen at the start *)
    /\ (forall t, ctl st = PcRet t ErrDeadline -> escapes tr = false -> forall p, In p (procs st) -> stopped p)
    (* the report waits for nobody's pipes: from this state the executor reaches its return by
       clock events alone (no receive from the channel, no step of any process), within the bound *)
    /\ (exists tr' st' t e, forallb timer_only tr' = true /\ run os T lat st tr' = Some st'
                            /\ ctl st' = PcRet t e /\ t <= T + 1030 + 3 * lat)
    (* - even though, as long as a live process (escaped from the group or not) has the output
       pipes open, cmd.Wait() has not returned and nothing is sent on the channel *)
    /\ (forall p, In p (procs st) -> alive p = true -> holds_pipe p = true -> os_wait_done os (procs st) = false)
    (* actions that finish in time: if no process of the command ever gave up its copies of the
       output pipes (the defect class), every process it started is dead, in or out of the group *)
    /\ (forall t, ctl st = PcRet t ErrNone -> detaches tr = false -> forall p, In p (procs st) -> alive p = false)
    (* and in any case the command itself is gone and whatever survives holds no output pipe *)
    /\ (forall t, ctl st = PcRet t ErrNone ->
          main_dead (procs st) /\ forall p, In p (procs st) -> alive p = true -> holds_pipe p = false)
    (* a command that could not be started leaves no process *)
    /\ (forall t, ctl st = PcRet t ErrStart -> procs st = []).

Theorem C30_partial_any_os : forall os, os_hypotheses os -> C30_partial_for os.
Proof.
  intros os (H1 & H2 & H3 & H4). split; [exact start_in_group|]. intros T lat tr st Hr.
  split; [split; [|split]|split; [|split; [|split; [|split; [|split; [|split]]]]]].
  - rewrite <- bound_1030. exact (reported_by_bound os H1 H2 T lat tr st Hr).
  - exact (never_stuck os H1 H2 T lat tr st Hr).
  - exact (reported_failed os H1 H2 T lat tr st Hr).
  - exact (fun t Hc => timeout_group_stopped os H1 H2 T lat tr st t Hr Hc).
  - exact (fun t Hc He => timeout_all_stopped os H1 H2 H4 T lat tr st t He Hr Hc).
  - rewrite <- bound_1030. exact (report_needs_no_eof os H1 H2 T lat tr st Hr).
  - exact (pipe_holder_blocks_wait os H2 (procs st)).
  - exact (fun t Hc Hd => attached_all_dead os H2 H3 T lat tr st t Hd Hr Hc).
  - exact (fun t Hc => normal_return_quiet os H1 H2 T lat tr st t Hr Hc).
  - exact (fun t Hc => start_failure_no_process os H1 H2 T lat tr st t Hr Hc).
Qed.
Print Assumptions C30_partial_any_os.

Theorem C30_partial : C30_partial_for linux.
Proof.
  exact (C30_partial_any_os linux (conj linux_sigkill_reaches_group (conj linux_wait_done_sound (conj linux_kill_keeps_pipes linux_kill_keeps_group)))).
Qed.
Print Assumptions C30_partial.

(* ---- the deadline itself (Model/C30_deadline.v) ----
   "Exceeds its timeout" speaks of the timeout the target DECLARES.  The duration that reaches
   ExecWithTimeout is target.BuildTimeout / target.Test.Timeout, computed by createTarget through
   sizeAndTimeout from the rule's timeout argument, its size and the configured default;
   Gen.size_and_timeout_prog is that function statement by statement.  For every configuration
   (any size table, any defaults) and every rule call that is accepted: the deadlines are the
   documented ones (explicit timeout > size > default); in particular an explicit positive timeout of
   z seconds is the deadline whatever size is declared; and the protocol theorems hold relative to
   exactly that deadline, for the build action and for the test action. *)
Definition C30_deadline_statement : Prop :=
  forall (c : dconfig) (d : decl) (b : Z) (t : option Z), create_target c d = TOk b t ->
    create_target_with deadline_spec c d = TOk b t
    /\ (forall z, d_build d = TInt z -> (0 < z)%Z -> b = (z * 1000000000)%Z)
    /\ (forall z u, d_test d = TInt z -> (0 < z)%Z -> t = Some u -> u = (z * 1000000000)%Z)
    /\ forall ns, ns = b \/ t = Some ns ->
       forall (lat : N) (tr : list event) (st : state), run linux (deadline_ms ns) lat init tr = Some st ->
         timing linux (deadline_ms ns) lat st
         /\ (forall r, ctl st = PcRet r ErrDeadline -> forall p, In p (procs st) -> in_group p = true -> stopped p).

Theorem C30_deadline : C30_deadline_statement.
Proof.
  intros c d b t H. split; [rewrite <- create_target_precedence; exact H|].
  split; [exact (fun z Hb Hz => explicit_build_timeout_wins c d b t z H Hb Hz)|].
  split; [intros z u Ht Hz Hu; subst t; exact (explicit_test_timeout_wins c d b u z H Ht Hz)|].
  intros ns _ lat tr st Hr. destruct C30_partial as [_ HP]. destruct (HP (deadline_ms ns) lat tr st Hr) as (Htim & Hg & _).
  split; [exact Htim|exact Hg].
Qed.
Print Assumptions C30_deadline.

(* ---- non-vacuity ---- *)
(* a test declared `size = "small", timeout = 2` under the default configuration: the deadline of the test
   action is 2 s (not the minute of the size), the build action has the size's minute; a hanging test is
   reported at 2000 + 30 + 1000 ms *)
Example C30_deadline_nonvacuous :
  let cfg := mkDconfig [(s "small", 60000000000%Z); (s "short", 60000000000%Z)] 600000000000%Z 600000000000%Z in
  create_target cfg (mkDecl (Some (s "small")) (TInt 0) (TInt 2) true) = TOk 60000000000%Z (Some 2000000000%Z)
  /\ deadline_ms 2000000000 = 2000
  /\ create_target cfg (mkDecl None (TInt 0) (TInt 0) true) = TOk 600000000000%Z (Some 600000000000%Z)
  /\ create_target cfg (mkDecl (Some (s "huge")) (TInt 0) (TInt 2) true) = TFail
  /\ (exists st, run linux (deadline_ms 2000000000) 0 init [CStart true no_sandbox; Tick 2000; CDeadline; Tick 30; CExpire; Tick 1000; CExpire] = Some st
                 /\ ctl st = PcRet 3030 ErrDeadline).
Proof.
  cbv zeta. split; [vm_compute; reflexivity|]. split; [vm_compute; reflexivity|]. split; [vm_compute; reflexivity|]. split; [vm_compute; reflexivity|].
  eexists; split; [vm_compute; reflexivity|reflexivity].
Qed.

(* ---- non-vacuity of the protocol theorems ---- *)
(* a timed-out run that reaches the end of both waits: process 1 ignores SIGTERM and is still
   alive when the timeout is reported at 300 + 30 + 1000 ms, but it was sent SIGKILL; process 2
   left the group before the deadline, holds the pipes (so cmd.Wait() never returns) and survives *)
Example C30_partial_nonvacuous :
  run linux 300 0 init
      [CStart true no_sandbox; EFork 0; ESetIgn 1 true; EFork 0; EEscape 2; Tick 300; CDeadline; EExit 0; Tick 30; CExpire; Tick 1000; CExpire]
  = Some (mkState 1330 (PcRet 1330 ErrDeadline)
            [mkProc true false false true true false;    (* the command: exited on SIGTERM *)
             mkProc true true true true true true;       (* ignores SIGTERM: sent SIGKILL *)
             mkProc false true false true false false])  (* escaped through setsid: not signalled *)
  /\ detaches [CStart true no_sandbox; EFork 0; ESetIgn 1 true; EFork 0; EEscape 2; Tick 300; CDeadline] = false
  (* with lateness, the bound is reached exactly: 300+50, +30+50, +1000+50 *)
  /\ (exists st, run linux 300 50 init [CStart true no_sandbox; Tick 350; CDeadline; Tick 80; CExpire; Tick 1050; CExpire] = Some st
                 /\ ctl st = PcRet (300 + 1030 + 3 * 50) ErrDeadline)
  (* the quirk: a command that exits on SIGTERM at once is still reported a full second later,
     because the second sendSignal waits on the channel the first one drained *)
  /\ run linux 300 0 init [CStart true no_sandbox; Tick 300; CDeadline; EExit 0; CRecv; CRecv] = None
  /\ (exists st, run linux 300 0 init [CStart true no_sandbox; Tick 300; CDeadline; EExit 0; CRecv; Tick 1000; CExpire] = Some st
                 /\ ctl st = PcRet 1300 ErrDeadline)
  /\ os_hypotheses linux.
Proof.
  split; [vm_compute; reflexivity|]. split; [reflexivity|].
  split; [eexists; split; [vm_compute; reflexivity|reflexivity]|].
  split; [vm_compute; reflexivity|].
  split; [eexists; split; [vm_compute; reflexivity|reflexivity]|].
  exact (conj linux_sigkill_reaches_group (conj linux_wait_done_sound (conj linux_kill_keeps_pipes linux_kill_keeps_group))).
Qed.

(* the sandbox configurations are really distinct runs of ExecCommand: through the external sandbox
   tool and through the builtin sandbox a second exec.Command replaces the first before the
   SysProcAttr is assigned; a variant of the program that assigns it before the replacement loses
   the group exactly for the sandboxed configurations.  And a timed-out sandboxed action none of
   whose processes leaves the group: all three processes are stopped. *)
Example C30_partial_nonvacuous_sandbox :
  exec_command (mkMode NsNever false true) = mkCmd true true false true
  /\ exec_command (mkMode NsSandbox true true) = mkCmd true true false true
  /\ (let hoisted := [ENewCmd; ESetAttr true; EIf CSandboxed [EIf CBuiltin [ENewCmd] [ENewCmd]] []; EReturn] in
      let run_prog m := fold_left (fun c s => exec_stmt m s c) hoisted (mkCmd false false false false) in
      group_set (run_prog no_sandbox) = true /\ group_set (run_prog (mkMode NsNever false true)) = false)
  /\ (exists st, run linux 300 0 init
        [CStart true (mkMode NsNever false true); EFork 0; ESetIgn 1 true; EClosePipe 1; EFork 1; Tick 300; CDeadline; EExit 0;
         Tick 30; CExpire; Tick 1000; CExpire] = Some st
       /\ ctl st = PcRet 1330 ErrDeadline /\ length (procs st) = 3%nat
       /\ forallb (fun p => negb (alive p) || got_kill p) (procs st) = true)
  /\ escapes [CStart true (mkMode NsNever false true); EFork 0; ESetIgn 1 true; EClosePipe 1; EFork 1; Tick 300; CDeadline; EExit 0;
         Tick 30; CExpire; Tick 1000; CExpire] = false
  (* an escaped process that keeps the pipes: cmd.Wait() cannot return, the report comes all the same *)
  /\ (exists st, run linux 300 0 init [CStart true no_sandbox; EFork 0; EEscape 1; Tick 300; CDeadline; EExit 0] = Some st
       /\ os_wait_done linux (procs st) = false
       /\ step linux 300 0 st CRecv = None
       /\ exists st', run linux 300 0 st [Tick 30; CExpire; Tick 1000; CExpire] = Some st' /\ ctl st' = PcRet 1330 ErrDeadline).
Proof.
  split; [vm_compute; reflexivity|]. split; [vm_compute; reflexivity|]. split; [vm_compute; split; reflexivity|].
  split; [eexists; split; [vm_compute; reflexivity|repeat split]|]. split; [reflexivity|].
  eexists. split; [vm_compute; reflexivity|]. split; [reflexivity|]. split; [vm_compute; reflexivity|].
  eexists. split; [vm_compute; reflexivity|reflexivity].
Qed.

(* the refutation's witness is a run of the model: reported finished with nil error 5 ms after
   the start, and the detached child is alive, in the group and unsignalled 100 s later; the
   classifier flags the schedule *)
Example C30_refuted_nonvacuous :
  run linux 1000 0 init witness_trace
  = Some (mkState 100005 (PcRet 5 ErrNone) [mkProc true false false true false false; mkProc true true false false false false])
  /\ detaches witness_trace = true.
Proof. split; [vm_compute; reflexivity|reflexivity]. Qed.
