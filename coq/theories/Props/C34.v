(* C34 - Output trees are copied and linked faithfully.
   "Copying or hard-linking an output tree, as done when collecting outputs, building filegroups
    and using the cache, reproduces every file's contents, every directory, and every relative
    symlink target, and never modifies the source tree."
   This file holds only the statement, the property theorem and its non-vacuity examples. *)
From PlzV Require Import Base.Harness Model.C34 Proof.C34.

Definition C34_statement : Prop :=
  (* RecursiveCopyOrLinkFile(from = a, to = b, mode, link, fallback) inside any directory w, for
     any well-formed source tree (any depth, any width, empty directories, symlinks with any
     target string), any flags that allow a file to be placed at all (no link, or link(2) works,
     or fallback), and a destination that does not exist yet *)
  (forall (k : cfg) (w : world) (a b : str) (src : node),
      assoc a w = Some src -> assoc b w = None -> a <> b -> wfb src = true -> placeable k = true ->
      (* every root except the one the code treats differently (next clause) *)
      copied_link_root k src = false ->
      exists dst,
        copy_top k w a b = Done dst                    (* no error *)
        /\ erase dst = erase src                       (* names, kinds, every file's contents, every
                                                          directory (also empty ones), every symlink
                                                          target: all reproduced *)
        /\ dst = map_files (file_result k) src         (* and exactly: linked files ARE the source
                                                          inodes (same mode bits); copied files are new
                                                          inodes with mode `mode` (0664 if mode = 0), or
                                                          the source's mode on the link fallback *)
        /\ assoc a (set b dst w) = Some src            (* the source tree is unchanged *)
        /\ (forall x, x <> b -> assoc x (set b dst w) = assoc x w))   (* and so is everything else *)
  (* the one case the code treats differently: a top-level symlink that is COPIED (link = false) is
     opened, hence followed: the destination is a regular file with the contents the link resolves
     to, or the call fails; it is never a symlink *)
  /\ (forall (k : cfg) (w : world) (a b : str) (t : str),
        assoc a w = Some (Link t) -> assoc b w = None -> link k = false ->
        copy_top k w a b =
        match open_node (S (length w)) w (Link t) with
        | OContent c => Done (File 0 (eff (mode k)) c)
        | OErr => Failed
        | OUnsup => Unsupported
        end)
  (* where no file can be placed (hard links across devices without fallback) a tree that holds a
     regular file is never reported as copied, whatever the destination held *)
  /\ (forall (k : cfg) (w : world) (a b : str) (src : node),
        assoc a w = Some src -> placeable k = false -> has_file src = true ->
        forall dst, copy_top k w a b <> Done dst)
  (* whatever the destination held before (a stale copy, an earlier hard-linked copy, anything):
     a successful call changes nothing but `to` - in particular not the source *)
  /\ (forall (k : cfg) (w : world) (a b : str) (dst : node),
        copy_top k w a b = Done dst -> forall x, x <> b -> assoc x (set b dst w) = assoc x w)
  (* the two wrappers used by the callers always allow a file to be placed (argument tuples
     regenerated from copy.go): RecursiveCopy never links and passes its mode on, RecursiveLink
     links with fallback *)
  /\ (forall m, placeable (recursive_copy m) = true /\ link (recursive_copy m) = false /\ mode (recursive_copy m) = m)
  /\ (forall lok, placeable (recursive_link lok) = true /\ link (recursive_link lok) = true).

Theorem C34_full : C34_statement.
Proof.
  exact (conj faithful (conj top_link_followed (conj unplaceable_never_done (conj only_destination_written
        (conj recursive_copy_cfg recursive_link_cfg))))).
Qed.
Print Assumptions C34_full.

(* Non-vacuity: a tree with a nested directory, an empty directory, an executable, a relative
   symlink and two names for one inode; copied with RecursiveCopy(0555), hard-linked with
   RecursiveLink, and hard-linked across devices (fallback). *)
Definition ex_src : node :=
  Dir [ (s "bin", Dir [ (s "tool", File 1 493 (s "#!/bin/sh")) ]);
        (s "empty", Dir []);
        (s "lib", Dir [ (s "a.txt", File 2 420 (s "data")); (s "b.txt", File 2 420 (s "data"));
                        (s "up", Link (s "../bin/tool")) ]) ]%N.
Definition ex_world : world := [ (s "other", File 9 384 (s "x")); (s "src", ex_src) ]%N.

Example C34_nonvacuous_copy :
  wfb ex_src = true
  /\ copy_top (recursive_copy 365) ex_world (s "src") (s "dst")
     = Done (Dir [ (s "bin", Dir [ (s "tool", File 0 365 (s "#!/bin/sh")) ]);
                   (s "empty", Dir []);
                   (s "lib", Dir [ (s "a.txt", File 0 365 (s "data")); (s "b.txt", File 0 365 (s "data"));
                                   (s "up", Link (s "../bin/tool")) ]) ]%N).
Proof. vm_compute. split; reflexivity. Qed.

Example C34_nonvacuous_link :
  copy_top (recursive_link true) ex_world (s "src") (s "dst") = Done ex_src
  /\ copy_top (recursive_link false) ex_world (s "src") (s "dst")
     = Done (map_files (fun _ pm c => File 0 pm c) ex_src)
  /\ copy_top (Cfg 0 true false false) ex_world (s "src") (s "dst") = Failed.
Proof. vm_compute. repeat split. Qed.

(* the differently treated case is inhabited in all three ways *)
Example C34_nonvacuous_toplink :
  let w := [ (s "d", Dir []); (s "f", File 1 420 (s "content")); (s "l", Link (s "f"));
             (s "ll", Link (s "l")); (s "dangling", Link (s "nothing")); (s "self", Link (s "self"));
             (s "tod", Link (s "d")) ]%N in
  copy_top (recursive_copy 0) w (s "l") (s "dst") = Done (File 0 436 (s "content"))
  /\ copy_top (recursive_copy 292) w (s "ll") (s "dst") = Done (File 0 292 (s "content"))
  /\ copy_top (recursive_copy 0) w (s "dangling") (s "dst") = Failed
  /\ copy_top (recursive_copy 0) w (s "self") (s "dst") = Failed
  /\ copy_top (recursive_copy 0) w (s "tod") (s "dst") = Failed
  /\ copy_top (recursive_link true) w (s "l") (s "dst") = Done (Link (s "f")).
Proof. vm_compute. repeat split. Qed.

(* an existing destination that is an earlier hard-linked copy: RecursiveCopy replaces the files by
   new inodes (temp file + rename), the source keeps its inode, mode and contents *)
Example C34_nonvacuous_existing :
  let w := [ (s "dst", Dir [ (s "f", File 1 420 (s "x")) ]); (s "src", Dir [ (s "f", File 1 420 (s "x")) ]) ]%N in
  copy_top (recursive_copy 292) w (s "src") (s "dst") = Done (Dir [ (s "f", File 0 292 (s "x")) ])%N
  /\ assoc (s "src") (set (s "dst") (Dir [ (s "f", File 0 292 (s "x")) ]) w) = Some (Dir [ (s "f", File 1 420 (s "x")) ])%N
  /\ copy_top (recursive_link true) w (s "src") (s "dst") = Done (Dir [ (s "f", File 0 420 (s "x")) ])%N.
Proof. vm_compute. repeat split. Qed.
