(* C34 - Output trees are copied and linked faithfully.
   "Copying or hard-linking an output tree, as done when collecting outputs, building filegroups
    and using the cache, reproduces every file's contents, every directory, and every relative
    symlink target, and never modifies the source tree."
   This file holds only the statement, the property theorem and its non-vacuity examples. *)
From PlzV Require Import Base.Harness Gen.C34Copy Model.C34 Proof.C34 Proof.C34_Merge Proof.C34_Conc.

Definition C34_statement : Prop :=
  (* RecursiveCopyOrLinkFile(from = a, to = b, mode, link, fallback) inside any directory w, for
     any well-formed source tree (any depth, any width, empty directories, symlinks with any
     target string), any flags that allow a file to be placed at all (no link, or link(2) works,
     or fallback), and a destination that does not exist yet *)
  (forall (k : cfg) (w : world) (a b : str) (src : node),
      assoc a w = Some src -> assoc b w = None -> a <> b -> wfb src = true -> placeable k = true ->
      (* every root except the one the code treats differently (next clause) *)
      copied_link_root k src = false ->
      exists dst,
        copy_top k w a b = Done dst                    (* no error *)
        /\ erase dst = erase src                       (* names, kinds, every file's contents, every
                                                          directory (also empty ones), every symlink
                                                          target: all reproduced *)
        /\ dst = map_files (file_result k) src         (* and exactly: linked files ARE the source
                                                          inodes (same mode bits); copied files are new
                                                          inodes with mode `mode` (0664 if mode = 0), or
                                                          the source's mode on the link fallback *)
        /\ assoc a (set b dst w) = Some src            (* the source tree is unchanged *)
        /\ (forall x, x <> b -> assoc x (set b dst w) = assoc x w))   (* and so is everything else *)
  (* the one case the code treats differently: a top-level symlink that is COPIED (link = false) is
     opened, hence followed: the destination is a regular file with the contents the link resolves
     to, or the call fails; it is never a symlink *)
  /\ (forall (k : cfg) (w : world) (a b : str) (t : str),
        assoc a w = Some (Link t) -> assoc b w = None -> link k = false ->
        copy_top k w a b =
        match open_node (S (length w)) w (Link t) with
        | OContent c => Done (File 0 (eff (mode k)) c)
        | OErr => Failed
        | OUnsup => Unsupported
        end)
  (* where no file can be placed (hard links across devices without fallback) a tree that holds a
     regular file is never reported as copied, whatever the destination held *)
  /\ (forall (k : cfg) (w : world) (a b : str) (src : node),
        assoc a w = Some src -> placeable k = false -> has_file src = true ->
        forall dst, copy_top k w a b <> Done dst)
  (* whatever the destination held before (a stale copy, an earlier hard-linked copy, anything):
     a successful call changes nothing but `to` - in particular not the source *)
  /\ (forall (k : cfg) (w : world) (a b : str) (dst : node),
        copy_top k w a b = Done dst -> forall x, x <> b -> assoc x (set b dst w) = assoc x w)
  (* the two wrappers used by the callers always allow a file to be placed (argument tuples
     regenerated from copy.go): RecursiveCopy never links and passes its mode on, RecursiveLink
     links with fallback *)
  /\ (forall m, placeable (recursive_copy m) = true /\ link (recursive_copy m) = false /\ mode (recursive_copy m) = m)
  /\ (forall lok, placeable (recursive_link lok) = true /\ link (recursive_link lok) = true).

Theorem C34_full : C34_statement.
Proof.
  exact (conj faithful (conj top_link_followed (conj unplaceable_never_done (conj only_destination_written
        (conj recursive_copy_cfg recursive_link_cfg))))).
Qed.
Print Assumptions C34_full.

(* Non-vacuity: a tree with a nested directory, an empty directory, an executable, a relative
   symlink and two names for one inode; copied with RecursiveCopy(0555), hard-linked with
   RecursiveLink, and hard-linked across devices (fallback). *)
Definition ex_src : node :=
  Dir [ (s "bin", Dir [ (s "tool", File 1 493 (s "#!/bin/sh")) ]);
        (s "empty", Dir []);
        (s "lib", Dir [ (s "a.txt", File 2 420 (s "data")); (s "b.txt", File 2 420 (s "data"));
                        (s "up", Link (s "../bin/tool")) ]) ]%N.
Definition ex_world : world := [ (s "other", File 9 384 (s "x")); (s "src", ex_src) ]%N.

Example C34_nonvacuous_copy :
  wfb ex_src = true
  /\ copy_top (recursive_copy 365) ex_world (s "src") (s "dst")
     = Done (Dir [ (s "bin", Dir [ (s "tool", File 0 365 (s "#!/bin/sh")) ]);
                   (s "empty", Dir []);
                   (s "lib", Dir [ (s "a.txt", File 0 365 (s "data")); (s "b.txt", File 0 365 (s "data"));
                                   (s "up", Link (s "../bin/tool")) ]) ]%N).
Proof. vm_compute. split; reflexivity. Qed.

Example C34_nonvacuous_link :
  copy_top (recursive_link true) ex_world (s "src") (s "dst") = Done ex_src
  /\ copy_top (recursive_link false) ex_world (s "src") (s "dst")
     = Done (map_files (fun _ pm c => File 0 pm c) ex_src)
  /\ copy_top (Cfg 0 true false false) ex_world (s "src") (s "dst") = Failed.
Proof. vm_compute. repeat split. Qed.

(* the differently treated case is inhabited in all three ways *)
Example C34_nonvacuous_toplink :
  let w := [ (s "d", Dir []); (s "f", File 1 420 (s "content")); (s "l", Link (s "f"));
             (s "ll", Link (s "l")); (s "dangling", Link (s "nothing")); (s "self", Link (s "self"));
             (s "tod", Link (s "d")) ]%N in
  copy_top (recursive_copy 0) w (s "l") (s "dst") = Done (File 0 436 (s "content"))
  /\ copy_top (recursive_copy 292) w (s "ll") (s "dst") = Done (File 0 292 (s "content"))
  /\ copy_top (recursive_copy 0) w (s "dangling") (s "dst") = Failed
  /\ copy_top (recursive_copy 0) w (s "self") (s "dst") = Failed
  /\ copy_top (recursive_copy 0) w (s "tod") (s "dst") = Failed
  /\ copy_top (recursive_link true) w (s "l") (s "dst") = Done (Link (s "f")).
Proof. vm_compute. repeat split. Qed.

(* an existing destination that is an earlier hard-linked copy: RecursiveCopy replaces the files by
   new inodes (temp file + rename), the source keeps its inode, mode and contents *)
Example C34_nonvacuous_existing :
  let w := [ (s "dst", Dir [ (s "f", File 1 420 (s "x")) ]); (s "src", Dir [ (s "f", File 1 420 (s "x")) ]) ]%N in
  copy_top (recursive_copy 292) w (s "src") (s "dst") = Done (Dir [ (s "f", File 0 292 (s "x")) ])%N
  /\ assoc (s "src") (set (s "dst") (Dir [ (s "f", File 0 292 (s "x")) ]) w) = Some (Dir [ (s "f", File 1 420 (s "x")) ])%N
  /\ copy_top (recursive_link true) w (s "src") (s "dst") = Done (Dir [ (s "f", File 0 420 (s "x")) ])%N.
Proof. vm_compute. repeat split. Qed.

(* ------------------------------------------------------------------------------------------------
   DESTINATIONS THAT EXIST ALREADY (an earlier output, stale files, directories in the way, an earlier
   hard-linked copy).  `merge` (Model/C34.v) is the specification by recursion on the source tree. *)
Definition C34_existing_statement : Prop :=
  (* for every source tree, every configuration, every surrounding directory and WHATEVER is at the
     destination: the walk of RecursiveCopyOrLinkFile leaves exactly `merge`, and fails exactly when
     `merge` fails (the one differently treated root, a copied top-level symlink, excepted as before) *)
  (forall (k : cfg) (w : world) (a b : str) (src : node),
      assoc a w = Some src -> copied_link_root k src = false ->
      copy_top k w a b = of_R (merge k src (assoc b w)))
  (* WHICH ENTRIES ARE REPLACED: at every path p of the source the destination finally holds the
     merge of the source's node at p with what was at p before *)
  /\ (forall (k : cfg) (src : node) (d : dest) (dst : node),
        wfb src = true -> merge k src d = ROk dst ->
        forall p n, lookup p src = Some n ->
        exists r, lookup p dst = Some r /\ merge k n (lookup_d p d) = ROk r)
  (* ... which for a regular file is this table (i pm c: the source file, d: what is there) *)
  /\ (forall (k : cfg) (i pm : N) (c : str) (d : dest),
        merge k (File i pm c) d =
        if link k then
          if link_ok k && is_none d then ROk (File i pm c)
          else if fallback k then f_rename (File 0 (eff pm) c) d else RErr
        else f_rename (File 0 (eff (mode k)) c) d)
  (* WHICH STALE ENTRIES SURVIVE: everything at a path the source does not have, exactly as it was *)
  /\ (forall (k : cfg) (src : node) (d : dest) (dst : node),
        wfb src = true -> merge k src d = ROk dst ->
        forall p, lookup p src = None -> lookup p dst = lookup_d p d)
  (* REPRODUCES: after a successful call every entry of the source is at the destination with the
     same kind, equal contents, equal symlink target *)
  /\ (forall (k : cfg) (src : node) (d : dest) (dst : node),
        wfb src = true -> merge k src d = ROk dst -> covers src dst = true)
  (* WHEN IT FAILS: exactly when some entry of the source meets a clash *)
  /\ (forall (k : cfg) (src : node) (d : dest),
        wfb src = true -> ((exists dst, merge k src d = ROk dst) <-> clash_free k src d = true))
  (* in particular: over a destination that has an entry wherever the source has one (an earlier copy
     of the same tree) the call fails as soon as the source holds a symlink (os.Symlink: EEXIST) *)
  /\ (forall (k : cfg) (src d : node),
        wfb src = true -> has_link src = true -> shadows src d = true ->
        forall dst, merge k src (Some d) <> ROk dst).

Theorem C34_existing : C34_existing_statement.
Proof.
  exact (conj copy_top_merge (conj (fun k src d dst Hwf Hm => merge_lookup k src Hwf d dst Hm)
        (conj place_file_eq (conj (fun k src d dst Hwf Hm => merge_untouched k src Hwf d dst Hm)
        (conj (fun k src d dst Hwf Hm => merge_covers k src Hwf d dst Hm)
        (conj (fun k src d Hwf => merge_ok_iff k src Hwf d) recopy_with_symlink_fails)))))).
Qed.
Print Assumptions C34_existing.

(* "NEVER MODIFIES THE SOURCE" where the destination already hard-links to the source's files *)
Definition C34_hardlinked_statement : Prop :=
  (* a destination name that is a hard link to ANY inode j (j = i: the source file's own inode) is
     re-bound to a new inode (label 0) holding the source's contents; inode j is not written *)
  (forall (k : cfg) (i pm : N) (c : str) (j pj : N) (cj : str),
      place_file k i pm c (Some (File j pj cj)) =
      if link k then (if fallback k then ROk (File 0 (eff pm) c) else RErr)
      else ROk (File 0 (eff (mode k)) c))
  (* the same at every depth of a tree *)
  /\ (forall (k : cfg) (src : node) (d : dest) (dst : node) (p : path) (i pm : N) (c : str) (j pj : N) (cj : str),
        wfb src = true -> merge k src d = ROk dst ->
        lookup p src = Some (File i pm c) -> lookup_d p d = Some (File j pj cj) ->
        lookup p dst = Some (File 0 (eff (if link k then pm else mode k)) c))
  (* every regular file at the destination afterwards is a new inode, or literally a file of the source
     (same inode, mode, contents: a hard link), or a file the destination held before, untouched *)
  /\ (forall (k : cfg) (src : node) (d : dest) (dst : node),
        merge k src d = ROk dst ->
        forall f, In f (files dst) -> ino_of f = 0%N \/ In f (files src) \/ In f (files_d d))
  (* so the world after the call is still a world of hard links: every inode that existed before has
     one mode and one content - nothing was written through a name shared with the source *)
  /\ (forall (k : cfg) (w : world) (a b : str) (dst : node),
        copy_top k w a b = Done dst ->
        consistent (files (Dir w)) -> consistent (files (Dir (set b dst w))))
  (* and every entry but `to` is literally what it was *)
  /\ (forall (k : cfg) (w : world) (a b : str) (dst : node),
        copy_top k w a b = Done dst -> forall x, x <> b -> assoc x (set b dst w) = assoc x w).

Theorem C34_hardlinked : C34_hardlinked_statement.
Proof.
  exact (conj place_over_hardlink (conj file_over_file (conj merge_files
        (conj hardlinks_stay_consistent only_destination_written)))).
Qed.
Print Assumptions C34_hardlinked.

(* Non-vacuity.  An earlier, DIFFERENT output at the destination: `old` survives (stale), `f` is
   replaced, `new` is added; a directory where the source has a file is a failure; a file where the
   source has a directory is a failure. *)
Example C34_nonvacuous_merge :
  let src := Dir [ (s "f", File 1 420 (s "v2")); (s "new", File 2 420 (s "n")); (s "sub", Dir [ (s "g", File 3 420 (s "g")) ]) ]%N in
  let old := Dir [ (s "f", File 7 420 (s "v1")); (s "old", File 8 420 (s "stale")); (s "sub", Dir [ (s "h", Link (s "x")) ]) ]%N in
  wfb src = true
  /\ merge (recursive_copy 292) src (Some old)
     = ROk (Dir [ (s "f", File 0 292 (s "v2")); (s "old", File 8 420 (s "stale"));
                  (s "sub", Dir [ (s "h", Link (s "x")); (s "g", File 0 292 (s "g")) ]); (s "new", File 0 292 (s "n")) ])%N
  /\ lookup [s "old"] src = None
  /\ clash_free (recursive_copy 292) src (Some old) = true
  /\ clash_free (recursive_copy 292) src (Some (Dir [ (s "f", Dir []) ])) = false
  /\ merge (recursive_copy 292) src (Some (Dir [ (s "f", Dir []) ])) = RErr
  /\ merge (recursive_copy 292) src (Some (Dir [ (s "sub", File 9 420 (s "in the way")) ])) = RErr
  /\ merge (Cfg 0 true false true) src (Some old) = RErr.
Proof. vm_compute. repeat split. Qed.

(* Non-vacuity.  The destination IS an earlier hard-linked copy of the source (the same inodes 1, 2):
   RecursiveLink again and RecursiveCopy replace every name by a new inode, the world stays
   consistent; with a symlink in the tree the second call fails. *)
Example C34_nonvacuous_hardlinked :
  let src := Dir [ (s "a", File 1 420 (s "A")); (s "d", Dir [ (s "b", File 2 493 (s "B")) ]) ]%N in
  let w := [ (s "dst", src); (s "src", src) ] in
  let relinked := Dir [ (s "a", File 0 420 (s "A")); (s "d", Dir [ (s "b", File 0 493 (s "B")) ]) ]%N in
  copy_top (recursive_link true) w (s "src") (s "dst") = Done relinked
  /\ copy_top (recursive_copy 365) w (s "src") (s "dst")
     = Done (Dir [ (s "a", File 0 365 (s "A")); (s "d", Dir [ (s "b", File 0 365 (s "B")) ]) ])%N
  /\ assoc (s "src") (set (s "dst") relinked w) = Some src
  /\ files (Dir w) = [ (1, 420, s "A"); (2, 493, s "B"); (1, 420, s "A"); (2, 493, s "B") ]%N
  /\ shadows (Dir [ (s "l", Link (s "a")) ]) (Dir [ (s "l", Link (s "a")) ]) = true
  /\ merge (recursive_link true) (Dir [ (s "l", Link (s "a")) ]) (Some (Dir [ (s "l", Link (s "a")) ])) = RErr.
Proof. vm_compute. repeat split. Qed.

Example C34_nonvacuous_consistent :
  consistent (files (Dir [ (s "dst", Dir [ (s "a", File 1 420 (s "A")) ]); (s "src", Dir [ (s "a", File 1 420 (s "A")) ]) ]%N))
  /\ ~ consistent (files (Dir [ (s "dst", Dir [ (s "a", File 1 420 (s "written through")) ]);
                                (s "src", Dir [ (s "a", File 1 420 (s "A")) ]) ]%N)).
Proof.
  split.
  - intros i p c p' c' _ H1 H2. cbn in H1, H2.
    destruct H1 as [H1|[H1|[]]]; destruct H2 as [H2|[H2|[]]]; injection H1 as <- <- <-; injection H2 as <- <-; split; reflexivity.
  - intros H. destruct (H 1%N 420%N (s "written through") 420%N (s "A")) as [_ Hc]; [discriminate | now left | right; now left |].
    discriminate.
Qed.

(* ------------------------------------------------------------------------------------------------
   PATH SPELLING.  The theorems above are about trees; `from` enters the code as a string and the walk
   reports names below filepath.Clean(from).  The directory branch cleans `from` first (fix of finding
   unclean-from-directory-panics, reachable through build_rule(system_srcs = ["/abs//dir"]); whether it
   does is read from the regenerated statement list), so however `from` is spelled every reported name
   yields exactly its relative path - copying an unclean path is copying its Clean form - and the slice
   never goes out of range; a `from` that is not a directory is not walked. *)
Definition C34_spelling_statement : Prop :=
  (forall from cleaned rel : str, rel_of (prefix_stripped from cleaned) (cleaned ++ rel) = Some rel)
  /\ (forall (from cleaned : str) (isdir : bool), walk_panics from cleaned isdir = false)
  (* what the cleaning prevents *)
  /\ (forall from cleaned : str, length cleaned < length from -> rel_of from cleaned = None).

Theorem C34_spelling : C34_spelling_statement.
Proof. exact (conj rel_of_any_spelling (conj never_panics unclean_prefix_would_panic)). Qed.
Print Assumptions C34_spelling.

Example C34_nonvacuous_spelling :
  rel_of (prefix_stripped (s "out//dir") (s "out/dir")) (s "out/dir/sub/f") = Some (s "/sub/f")
  /\ walk_panics (s "sys//dir") (s "sys/dir") true = false
  /\ walk_panics (s "sys/./dir/") (s "sys/dir") true = false
  /\ rel_of (s "sys//dir") (s "sys/dir") = None
  /\ rel_of (s "sys/dir/") (s "sys/dir") = None.
Proof. vm_compute. repeat split. Qed.

(* ------------------------------------------------------------------------------------------------
   THE TEMPORARY FILE.  Every copied file (link = false, and the copy fallback of linking) is written
   as a temporary SIBLING of its destination and renamed onto it.  How the sibling is named and opened
   is translated from fs.go (Gen.write_file_temp -> temp_policy_now); the tree theorems above treat the
   write as one atomic step (copy_file_atomic).  That is sound exactly because the name is one nobody
   has - also not another file of the tree being copied. *)
Definition C34_tempfile_statement : Prop :=
  (* the policy the code has *)
  temp_policy_now = TempUnique
  (* EVERY directory, EVERY file name, EVERY unused temporary name: open-write-chmod-rename changes the
     entry `x` and nothing else *)
  /\ (forall (t : str) (m : N) (x c : str) (es : list (str * node)),
        assoc t es = None -> t <> x ->
        write_in_dir t TempUnique m x c es =
        match f_rename (File 0 (eff m) c) (assoc x es) with
        | ROk v => ROk (Dir (set x v es))
        | r => r
        end)
  (* so CopyFile as it runs is the atomic step, at any depth, whatever the directories hold *)
  /\ (forall (m : N) (p : path) (c : str) (d : dest), copy_file m p c d = copy_file_atomic m p c d)
  (* whereas ANY fixed naming scheme pre ++ file ++ suf takes a sibling of that name away: its inode j (for
     a hard-linked tree: the source's own inode) is emptied, filled with the other file and renamed *)
  /\ (forall (pre suf : str) (m : N) (x c : str) (j pm : N) (c0 : str),
        pre ++ x ++ suf <> x ->
        write_in_dir (pre ++ x ++ suf) (TempFixed pre suf) m x c [(pre ++ x ++ suf, File j pm c0)]
        = ROk (Dir [(x, File j (eff m) c)])).

Theorem C34_tempfile : C34_tempfile_statement.
Proof.
  exact (conj temp_policy_unique (conj write_in_dir_unique (conj copy_file_refines fixed_temp_loses_sibling))).
Qed.
Print Assumptions C34_tempfile.

(* Non-vacuity: a directory that holds `out` AND `.out.tmp` (and `out0...`): copied entry by entry with the
   code's policy both survive; with the fixed name ".<file>.tmp" the sibling is gone and ITS inode (7) has
   been written. *)
Example C34_nonvacuous_tempfile :
  let es := [ (s ".out.tmp", File 7 420 (s "lookalike")); (s "out", File 8 420 (s "old")) ]%N in
  f_write temp_policy_now 292 (s "out") (s "new") (Some (Dir es))
  = ROk (Dir [ (s ".out.tmp", File 7 420 (s "lookalike")); (s "out", File 0 292 (s "new")) ])%N
  /\ f_write (TempFixed (s ".") (s ".tmp")) 292 (s "out") (s "new") (Some (Dir es))
     = ROk (Dir [ (s "out", File 7 292 (s "new")) ])%N
  /\ copy_top (recursive_copy 292) [ (s "src", Dir es) ] (s "src") (s "dst")
     = Done (Dir [ (s ".out.tmp", File 0 292 (s "lookalike")); (s "out", File 0 292 (s "old")) ])%N.
Proof. vm_compute. repeat split. Qed.

(* ------------------------------------------------------------------------------------------------
   COPIES RUNNING AT THE SAME TIME (a parallel build copies, links, stores and retrieves many trees at
   once, one goroutine each).  godirwalk reads a directory into a buffer and then parses the names out of
   it; whose buffer that is, is translated from the godirwalk.Options literal in walk.go
   (Gen.walk_options -> buffer_shared).  Model: task-stack walkers in one world, ANY schedule. *)
Definition C34_concurrent_statement : Prop :=
  (* the code: a buffer per walk *)
  buffer_shared = false
  (* ANY number of copies into different destinations, ANY interleaving of their steps (a schedule is any
     list of goroutine numbers): nothing but the destinations is ever touched; every walker and its
     destination are what the walker ALONE reaches in as many steps as it was given; a finished walker has
     the destination and the verdict of the sequential call (run_walk: the subject of C34_full/_existing) *)
  /\ (forall (w : world) (buf0 : list str) (specs : list (cfg * str * node)) (sched : list nat),
        NoDup (map dest_of specs) ->
        Forall (fun sp => wfb (snd sp) = true) specs ->
        let st := sys_run buffer_shared sched (Sys w buf0 (map start specs)) in
        (forall x, ~ In x (map dest_of specs) -> assoc x (s_w st) = assoc x w)
        /\ forall i k b src, nth_error specs i = Some (k, b, src) ->
           exists wk, nth_error (s_ws st) i = Some wk
             /\ (wk, assoc b (s_w st)) = solo_iter (count_occ Nat.eq_dec sched i) (start (k, b, src), assoc b w)
             /\ (finished wk = true -> verdict (run_walk k (walk src) (assoc b w)) (wk, assoc b (s_w st))))
  (* a walker does finish: after n of its own steps, n depending on its tree, flags and destination only *)
  /\ (forall (k : cfg) (b : str) (src : node) (d : dest),
        wfb src = true ->
        exists n, forall m, n <= m ->
          finished (fst (solo_iter m (start (k, b, src), d))) = true
          /\ verdict (run_walk k (walk src) d) (solo_iter m (start (k, b, src), d)))
  (* ONE buffer for all walks: there is a schedule after which a walker has finished WITHOUT an error and an
     entry of its source is missing from its destination *)
  /\ (exists (w : world) (specs : list (cfg * str * node)) (sched : list nat) (k : cfg) (a b : str) (full got : node),
        NoDup (map dest_of specs) /\ Forall (fun sp => wfb (snd sp) = true) specs
        /\ nth_error specs 0 = Some (k, b, full) /\ assoc a w = Some full
        /\ copy_top k w a b = Done (map_files (file_result k) full)
        /\ let st := sys_run true sched (Sys w [] (map start specs)) in
           map finished (s_ws st) = map (fun _ => true) specs
           /\ map w_st (s_ws st) = map (fun _ => Running) specs
           /\ assoc b (s_w st) = Some got /\ covers full got = false).

Theorem C34_concurrent : C34_concurrent_statement.
Proof.
  split; [exact buffer_private|]. split; [|split; [exact solo_walk|]].
  - rewrite buffer_private. exact concurrent_result.
  - exists ex_two, ex_specs, ex_sched, (recursive_copy 420), (s "s0"), (s "d0"),
      (Dir [ (s "a", File 1 420 (s "A")); (s "b", File 2 420 (s "B")) ])%N, (Dir [ (s "a", File 0 420 (s "A")) ])%N.
    split; [repeat constructor; cbn; intuition discriminate|].
    split; [repeat constructor|]. vm_compute. repeat split.
Qed.
Print Assumptions C34_concurrent.

Example C34_nonvacuous_concurrent :
  let specs := ex_specs in
  let st := sys_run buffer_shared [1; 0; 1; 0; 0; 1; 1; 0; 0; 1; 0; 0; 1; 0]%nat (Sys ex_two [] (map start specs)) in
  NoDup (map dest_of specs) /\ map finished (s_ws st) = [true; true]
  /\ assoc (s "d0") (s_w st) = Some (Dir [ (s "a", File 0 420 (s "A")); (s "b", File 0 420 (s "B")) ])%N
  /\ assoc (s "d1") (s_w st) = Some (Dir [ (s "a", File 0 420 (s "X")) ])%N
  /\ assoc (s "s0") (s_w st) = assoc (s "s0") ex_two.
Proof. split; [repeat constructor; cbn; intuition discriminate|]. vm_compute. repeat split. Qed.
