(* C08 - Any change to a build-relevant attribute changes the rule hash.
   This file holds only the statement, the property theorems and their non-vacuity examples.
   `prog` is ruleHash as regenerated from src/build/incrementality.go by gotrans; `ser prog false t` is the byte
   stream build.RuleHash(state, t, false, _) feeds to SHA-1 (tied on every run: sha1 of that stream = the real hash). *)
From PlzV Require Import Base.Harness Model.C08 Model.C08_Set Model.C08_Spec Gen.RuleHashProg Proof.C08.

(* Two well-formed target definitions that differ in ANY build-relevant attribute (command selected for the
   configuration, srcs, named srcs, outs, named outs, optional outs, deps, tools, env, pass_env and the values of the
   passed variables, labels, secrets, binary, sandbox, output_dirs, entry points, text_file content, requires,
   provides - maps and the dependency set compared as maps/sets) have different rule hashes, for every collision-free
   hash function. *)
Definition C08_statement : Prop :=
  forall (D : Type) (H : str -> D), injective H ->
  forall t1 t2, wf t1 -> wf t2 -> ~ same_definition t1 t2 ->
    H (ser prog false t1) <> H (ser prog false t2).

(* False for the code as it is: ruleHash writes the entries of its lists and maps without separators or lengths. *)
Theorem C08_refuted : ~ C08_statement.
Proof. exact C08_refuted_proof. Qed.
Print Assumptions C08_refuted.

(* What does hold, for every pair of targets that differ in exactly one field that ruleHash reads (the property's
   quantifier), for the rule hash and the runtime hash alike:
   1. the hashes are equal IF AND ONLY IF the strings written for that field concatenate to the same bytes;
   2. so a change that alters the written strings is detected unless it moves an entry boundary (same total length,
      different entry lengths);
   and, read off for the individual attribute kinds (rule hash):
   3. a change of a plain list attribute (hashes, outs, licences, optional outs, labels, secrets, requires, output
      dirs) is missed exactly when the concatenation of the entries is unchanged;
   4. every change of a boolean attribute, of the text_file content and of the selected command is detected;
   5. tools, named tools and named secrets are never detected (ruleHash does not read them). *)
Definition C08_partial_statement : Prop :=
  forall (D : Type) (H : str -> D), injective H ->
    (forall rt f t1 t2, In f hashed_fields -> agree_except f t1 t2 ->
       (H (ser prog rt t1) = H (ser prog rt t2) <-> concat (toks_of f rt t1) = concat (toks_of f rt t2))
       /\ (toks_of f rt t1 <> toks_of f rt t2 -> shift_suspect (toks_of f rt t1) (toks_of f rt t2) = false ->
           H (ser prog rt t1) <> H (ser prog rt t2)))
    /\ (forall f t1 t2, In f plain_list_fields -> agree_except f t1 t2 ->
          (H (ser prog false t1) = H (ser prog false t2) <-> concat (as_list (get f t1)) = concat (as_list (get f t2))))
    /\ (forall f t1 t2, In f bool_fields \/ In f optbool_fields -> agree_except f t1 t2 ->
          as_bool (get f t1) <> as_bool (get f t2) -> H (ser prog false t1) <> H (ser prog false t2))
    /\ (forall t1 t2, agree_except FFileContent t1 t2 -> t_file_content t1 <> t_file_content t2 ->
          H (ser prog false t1) <> H (ser prog false t2))
    /\ (forall f t1 t2, f = FCommand \/ f = FCommands -> agree_except f t1 t2 ->
          effective_command t1 <> effective_command t2 -> H (ser prog false t1) <> H (ser prog false t2))
    /\ (forall rt f t1 t2, In f [FTools; FNamedTools; FNamedSecrets] -> agree_except f t1 t2 ->
          H (ser prog rt t1) = H (ser prog rt t2)).

Theorem C08_partial : C08_partial_statement.
Proof. exact C08_partial_proof. Qed.
Print Assumptions C08_partial.

(* Non-vacuity of C08_refuted: the witness pair is well-formed, differs in one relevant attribute only (outs, both
   sorted as the adders keep them) and the two streams are equal. *)
Example C08_refuted_nonvacuous :
  one_field_collision FOuts (set_outs [s "ab"; s "c"] base) (set_outs [s "a"; s "bc"] base)
  /\ ser prog false (set_outs [s "ab"; s "c"] base) = s "//pkg:tabc" ++ [1]%N ++ s "cmd" ++ [1;1;1;1;1;1;1;1;1;1]%N.
Proof. split; [exact witness_list_boundary | vm_compute; reflexivity]. Qed.

(* Non-vacuity of C08_partial: a pair satisfying the hypotheses of part 1 whose hashes differ (an entry edited in place),
   and one whose hashes are equal (a boundary moved). *)
Example C08_partial_nonvacuous :
  let t1 := set_secrets [s "k1"; s "k2"] base in
  let t2 := set_secrets [s "k1"; s "k3"] base in
  let t3 := set_secrets [s "k"; s "1k2"] base in
  In FSecrets hashed_fields /\ agree_except FSecrets t1 t2 /\ agree_except FSecrets t1 t3
  /\ toks_of FSecrets false t1 <> toks_of FSecrets false t2
  /\ shift_suspect (toks_of FSecrets false t1) (toks_of FSecrets false t2) = false
  /\ shift_suspect (toks_of FSecrets false t1) (toks_of FSecrets false t3) = true
  /\ ser prog false t1 <> ser prog false t2 /\ ser prog false t1 = ser prog false t3.
Proof.
  cbv zeta. repeat split; try (vm_compute; reflexivity); try (cbn; tauto); try agree_tac; vm_compute; discriminate.
Qed.
