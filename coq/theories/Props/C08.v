(* C08 - Any change to a build-relevant attribute changes the rule hash.
   This file holds only the statement, the property theorems and their non-vacuity examples.
   `prog` is ruleHash as regenerated from src/build/incrementality.go by gotrans; `ser prog false t` is the byte
   stream build.RuleHash(state, t, false, _) feeds to SHA-1 (tied on every run: sha1 of that stream = the real hash). *)
From PlzV Require Import Base.Harness Model.C08 Model.C08_Set Model.C08_Spec Model.C08_Cache Model.C08_Store Model.C08_Srcs
  Gen.RuleHashProg Proof.C08 Proof.C08_Cache Proof.C08_Store Proof.C08_Srcs.

(* Two well-formed target definitions that differ in ANY build-relevant attribute (command selected for the
   configuration, srcs, named srcs, outs, named outs, optional outs, deps, tools, env, pass_env and the values of the
   passed variables, labels, secrets, binary, sandbox, output_dirs, entry points, text_file content, requires,
   provides - maps and the dependency set compared as maps/sets) have different rule hashes, for every collision-free
   hash function. *)
Definition C08_statement : Prop :=
  forall (D : Type) (H : str -> D), injective H ->
  forall t1 t2, wf t1 -> wf t2 -> ~ same_definition t1 t2 ->
    H (ser prog false t1) <> H (ser prog false t2).

(* False for the code as it is: ruleHash writes the entries of its lists and maps without separators or lengths. *)
Theorem C08_refuted : ~ C08_statement.
Proof. exact C08_refuted_proof. Qed.
Print Assumptions C08_refuted.

(* What does hold, for every pair of targets that differ in exactly one field that ruleHash reads (the property's
   quantifier), for the rule hash and the runtime hash alike:
   1. the hashes are equal IF AND ONLY IF the strings written for that field concatenate to the same bytes;
   2. so a change that alters the written strings is detected unless it moves an entry boundary (same total length,
      different entry lengths);
   and, read off for the individual attribute kinds (rule hash):
   3. a change of a plain list attribute (hashes, outs, licences, optional outs, labels, secrets, requires, output
      dirs) is missed exactly when the concatenation of the entries is unchanged;
   4. every change of a boolean attribute, of the text_file content and of the selected command is detected;
   5. tools, named tools and named secrets are never detected (ruleHash does not read them). *)
Definition C08_partial_statement : Prop :=
  forall (D : Type) (H : str -> D), injective H ->
    (forall rt f t1 t2, In f hashed_fields -> agree_except f t1 t2 ->
       (H (ser prog rt t1) = H (ser prog rt t2) <-> concat (toks_of f rt t1) = concat (toks_of f rt t2))
       /\ (toks_of f rt t1 <> toks_of f rt t2 -> shift_suspect (toks_of f rt t1) (toks_of f rt t2) = false ->
           H (ser prog rt t1) <> H (ser prog rt t2)))
    /\ (forall f t1 t2, In f plain_list_fields -> agree_except f t1 t2 ->
          (H (ser prog false t1) = H (ser prog false t2) <-> concat (as_list (get f t1)) = concat (as_list (get f t2))))
    /\ (forall f t1 t2, In f bool_fields \/ In f optbool_fields -> agree_except f t1 t2 ->
          as_bool (get f t1) <> as_bool (get f t2) -> H (ser prog false t1) <> H (ser prog false t2))
    /\ (forall t1 t2, agree_except FFileContent t1 t2 -> t_file_content t1 <> t_file_content t2 ->
          H (ser prog false t1) <> H (ser prog false t2))
    /\ (forall f t1 t2, f = FCommand \/ f = FCommands -> agree_except f t1 t2 ->
          effective_command t1 <> effective_command t2 -> H (ser prog false t1) <> H (ser prog false t2))
    /\ (forall rt f t1 t2, In f [FTools; FNamedTools; FNamedSecrets] -> agree_except f t1 t2 ->
          H (ser prog rt t1) = H (ser prog rt t2)).

Theorem C08_partial : C08_partial_statement.
Proof. exact C08_partial_proof. Qed.
Print Assumptions C08_partial.

(* Non-vacuity of C08_refuted: the witness pair is well-formed, differs in one relevant attribute only (outs, both
   sorted as the adders keep them) and the two streams are equal. *)
Example C08_refuted_nonvacuous :
  one_field_collision FOuts (set_outs [s "ab"; s "c"] base) (set_outs [s "a"; s "bc"] base)
  /\ ser prog false (set_outs [s "ab"; s "c"] base) = s "//pkg:tabc" ++ [1]%N ++ s "cmd" ++ [1;1;1;1;1;1;1;1;1;1]%N.
Proof. split; [exact witness_list_boundary | vm_compute; reflexivity]. Qed.

(* Non-vacuity of C08_partial: a pair satisfying the hypotheses of part 1 whose hashes differ (an entry edited in place),
   and one whose hashes are equal (a boundary moved). *)
Example C08_partial_nonvacuous :
  let t1 := set_secrets [s "k1"; s "k2"] base in
  let t2 := set_secrets [s "k1"; s "k3"] base in
  let t3 := set_secrets [s "k"; s "1k2"] base in
  In FSecrets hashed_fields /\ agree_except FSecrets t1 t2 /\ agree_except FSecrets t1 t3
  /\ toks_of FSecrets false t1 <> toks_of FSecrets false t2
  /\ shift_suspect (toks_of FSecrets false t1) (toks_of FSecrets false t2) = false
  /\ shift_suspect (toks_of FSecrets false t1) (toks_of FSecrets false t3) = true
  /\ ser prog false t1 <> ser prog false t2 /\ ser prog false t1 = ser prog false t3.
Proof.
  cbv zeta. repeat split; try (vm_compute; reflexivity); try (cbn; tauto); try agree_tac; vm_compute; discriminate.
Qed.

(* ---------------------------------------------------------------------------------------------------------------------
   The hash Please actually USES is the value build.RuleHash(state, target, runtime, postBuild) returns, and RuleHash
   memoises the non-runtime hash on the target while the build changes the target (post-build function: add_out,
   set_command, add_label, add_dep ...; outputs found in an output directory).  `rule_hash_wrapper` is RuleHash (and
   BuildTarget.BuildCouldModifyTarget) as regenerated from the source; `calls` runs the state machine of
   Model/C08_Cache.v over a history of attribute changes and RuleHash calls starting from a freshly parsed target (no
   memo); `valid` admits every history in which, once a hash is memoised, the attributes change only while
   BuildCouldModifyTarget() holds (before anything is memoised - parsing, the pre-build function - any change is allowed).

   1. Along every valid history, every call that is a post-build call, a runtime call, or a call on a target the build
      cannot modify returns the hash of the attributes AS THEY ARE AT THAT CALL (never a hash memoised before a change).
   2. Hence the characterisation of C08_partial holds for the values RuleHash returns after builds changed the targets:
      two such calls (same runtime flag) in two valid histories, on targets whose current attributes differ in one hashed
      field, return equal values iff the strings written for that field concatenate to the same bytes, and a change that
      alters the written strings without moving an entry boundary is always detected. *)
Definition C08_postbuild_statement : Prop :=
  forall (D : Type) (H : str -> D),
    (forall t0 evs, valid D H prog rule_hash_wrapper (t0, None) evs ->
       Forall (fun c => fresh_call (c_rt c) (c_pb c) (c_target c) = true -> c_result c = H (ser prog (c_rt c) (c_target c)))
              (calls D H prog rule_hash_wrapper (t0, None) evs))
    /\ (injective H -> forall ta evsa tb evsb ca cb f,
          valid D H prog rule_hash_wrapper (ta, None) evsa -> valid D H prog rule_hash_wrapper (tb, None) evsb ->
          In ca (calls D H prog rule_hash_wrapper (ta, None) evsa) -> In cb (calls D H prog rule_hash_wrapper (tb, None) evsb) ->
          c_rt ca = c_rt cb ->
          fresh_call (c_rt ca) (c_pb ca) (c_target ca) = true -> fresh_call (c_rt cb) (c_pb cb) (c_target cb) = true ->
          In f hashed_fields -> agree_except f (c_target ca) (c_target cb) ->
          (c_result ca = c_result cb
             <-> concat (toks_of f (c_rt ca) (c_target ca)) = concat (toks_of f (c_rt ca) (c_target cb)))
          /\ (toks_of f (c_rt ca) (c_target ca) <> toks_of f (c_rt ca) (c_target cb) ->
              shift_suspect (toks_of f (c_rt ca) (c_target ca)) (toks_of f (c_rt ca) (c_target cb)) = false ->
              c_result ca <> c_result cb)).

Theorem C08_postbuild : C08_postbuild_statement.
Proof. exact C08_postbuild_proof. Qed.
Print Assumptions C08_postbuild.

(* Non-vacuity of C08_postbuild: a valid history on a target with a post-build function - pre-build hash, the post-build
   function adds the output extra1.txt, post-build hash - in which the post-build call demands (and gets) the hash of the new
   attributes, different from the memoised pre-build hash; and the same history under a RuleHash whose bypass condition is
   only `runtime` (not the generated one: wrapper_okb is false for it) returns the stale pre-build hash twice. *)
Example C08_postbuild_nonvacuous :
  (valid str (fun x => x) prog rule_hash_wrapper (pb_base, None) pb_history
   /\ map (@c_result str) (calls str (fun x => x) prog rule_hash_wrapper (pb_base, None) pb_history)
      = [ser prog false pb_base; ser prog false pb_built]
   /\ fresh_call false true pb_built = true
   /\ ser prog false pb_base <> ser prog false pb_built)
  /\ (wrapper_okb wrapper_runtime_only = false
      /\ valid str (fun x => x) prog wrapper_runtime_only (pb_base, None) pb_history
      /\ map (@c_result str) (calls str (fun x => x) prog wrapper_runtime_only (pb_base, None) pb_history)
         = [ser prog false pb_base; ser prog false pb_base]
      /\ ser prog false pb_base <> ser prog false pb_built).
Proof. split; [exact generated_wrapper_current | exact runtime_only_wrapper_stale]. Qed.

(* ---------------------------------------------------------------------------------------------------------------------
   "Please therefore never treats a changed definition as unchanged": a different rule hash leads to a rebuild only through
   the comparison with the hash RECORDED on the outputs of the last build (writeRuleHash stamps every output,
   readRuleHashFromXattrs reads the record back, needsBuilding compares).  The output directory outlives edits of the BUILD
   file: an output that an edit no longer declares stays on disk with the record of the older definition.
   `stored_reader_body` is the loop body of readRuleHashFromXattrs as regenerated from the source; `srun` runs ANY history
   of builds of ANY definitions of the target (SvBuild t other: needsBuilding decides, `other` = it has another reason to
   rebuild) and file deletions against one output directory, starting empty (Model/C08_Store.v).

   1. After every history: if the rule-hash comparison answers "unchanged" for the definition t, then EVERY output of t is
      on disk, carries the rule hash of t, and was written by the build of a definition with the same rule hash as t
      (invariant over all histories: every record on disk is the rule hash of the definition that wrote the file; induction
      over the outputs for the reader loop: a record is returned only if all outputs carry it).
   2. Hence (H injective): if ANY output of t on disk was written by a definition that differs from t in one hashed field,
      in the strings written for it and without a moved entry boundary (the characterisation of C08_partial), t is rebuilt. *)
Definition C08_stored_statement : Prop :=
  forall (D : Type) (Deqb : D -> D -> bool) (H : str -> D), (forall a b, Deqb a b = true <-> a = b) ->
    (forall evs t,
       let dk := fst (srun D Deqb H prog stored_reader_body [] evs) in
       needs_building D Deqb H prog stored_reader_body dk t = false ->
       Forall (fun o => exists f, lookup o dk = Some f /\ f_rec f = Some (H (ser prog false t))
                                  /\ H (ser prog false (f_by f)) = H (ser prog false t)) (outputs_of t))
    /\ (injective H -> forall evs t o f fld,
          let dk := fst (srun D Deqb H prog stored_reader_body [] evs) in
          In o (outputs_of t) -> lookup o dk = Some f ->
          In fld hashed_fields -> agree_except fld (f_by f) t ->
          toks_of fld false (f_by f) <> toks_of fld false t ->
          shift_suspect (toks_of fld false (f_by f)) (toks_of fld false t) = false ->
          needs_building D Deqb H prog stored_reader_body dk t = true).

Theorem C08_stored : C08_stored_statement.
Proof. exact C08_stored_proof. Qed.
Print Assumptions C08_stored.

(* Non-vacuity of C08_stored: the history v1 (outs a, b) / v2 (outs a, other command) / v1 again.  With the regenerated
   reader the third build is a rebuild (a is written by v1 again); with a reader that keeps the record of the last output
   (seeded mutation r2-m1) the third step answers "unchanged" while a was written by v2, whose stream differs. *)
Example C08_stored_nonvacuous :
  (snd (srun str (list_eqb N.eqb) (fun x => x) prog stored_reader_body [] st_history) = [true; true; true]
   /\ option_map (@f_by str) (lookup (s "a") (fst (srun str (list_eqb N.eqb) (fun x => x) prog stored_reader_body [] st_history)))
      = Some st_v1)
  /\ (snd (srun str (list_eqb N.eqb) (fun x => x) prog reader_last_wins [] st_history) = [true; true; false]
      /\ option_map (@f_by str) (lookup (s "a") (fst (srun str (list_eqb N.eqb) (fun x => x) prog reader_last_wins [] st_history)))
         = Some st_v2
      /\ ser prog false st_v1 <> ser prog false st_v2).
Proof. split; [exact generated_reader_rebuilds | exact last_wins_reader_stale]. Qed.

(* ---------------------------------------------------------------------------------------------------------------------
   srcs as BuildInputs.  `ser_srcs prog srcs_skip rt t ins named` is ruleHash's stream for a target whose sources are the
   inputs `ins` / `named` (file, label, annotated label, system file), with the `continue` guards gotrans found at the head of
   the loop over AllSources() (`srcs_skip`); `stores t ins named`: the stored source strings of t are those of the inputs.
   Two definitions whose lists of sources differ while every other stored attribute - in particular the list of declared
   dependencies, so the SET of depended-on targets - is the same (label sources reordered, only a |annotation changed, a
   label that already is a dependency added to srcs): the hashes are equal iff the written strings concatenate to the same
   bytes, and differ whenever the written strings differ without a moved entry boundary. *)
Definition C08_srcs_statement : Prop :=
  forall (D : Type) (H : str -> D), injective H -> forall rt t1 t2 ins1 ins2 named,
  stores t1 ins1 named -> stores t2 ins2 named -> agree_except FSrcs t1 t2 ->
  let w1 := map input_string (all_inputs true ins1 named) in
  let w2 := map input_string (all_inputs true ins2 named) in
  (H (ser_srcs prog srcs_skip rt t1 ins1 named) = H (ser_srcs prog srcs_skip rt t2 ins2 named) <-> concat w1 = concat w2)
  /\ (w1 <> w2 -> shift_suspect w1 w2 = false ->
      H (ser_srcs prog srcs_skip rt t1 ins1 named) <> H (ser_srcs prog srcs_skip rt t2 ins2 named)).

Theorem C08_srcs : C08_srcs_statement.
Proof. exact C08_srcs_proof. Qed.
Print Assumptions C08_srcs.

(* Non-vacuity of C08_srcs: four pairs with deps [//p:a, //p:b] fixed - srcs [:a,:b]/[:b,:a], [:a|hdrs]/[:a|srcs],
   [:a]/[:a|srcs], []/[:a] - have different streams under the regenerated guards, and equal (non-empty) streams under the
   guard `if _, ok := source.Label(); ok { continue }` (seeded mutation r2-m2). *)
Example C08_srcs_nonvacuous :
  forallb (fun pr => negb (str_eqb (fst (shape_streams srcs_skip pr)) (snd (shape_streams srcs_skip pr)))) srcs_shapes = true
  /\ forallb (fun pr => str_eqb (fst (shape_streams (BVar IVIsLabel) pr)) (snd (shape_streams (BVar IVIsLabel) pr))
                        && negb (is_nil (fst (shape_streams (BVar IVIsLabel) pr)))) srcs_shapes = true.
Proof. split; [exact generated_guards_detect_shapes | exact skip_labels_guard_collides]. Qed.
