(* C18 - Frozen (imported) values behave like ordinary values.
   This file holds only the statement, the property theorems and their non-vacuity examples. *)
From PlzV Require Import Base.Harness Model.C16_Syntax Model.C16_Ops Model.C16_Prim Model.C16_Eval Model.C16 Model.C18.
From PlzV Require Import Gen.C18Pins Model.C18_Config Model.C18_Attr Proof.C18 Proof.C18_Sum Proof.C18_Config Proof.C18_Attr.

(* For every listed builtin and operator (sorted reversed enumerate any all zip min max map filter reduce len in + ==),
   every heap, every frozen list - and, for len / in / ==, every frozen dict - applying it to the frozen value has the
   same outcome as applying it to the ordinary value with the same contents (== : compares equal to it). *)
Definition C18_statement : Prop :=
  forall (fuel : nat) (st : state) (other x : value) (b : bapp),
    List.In b (listed_list other x) ->
    (forall sl, indifferent fuel st b (VFrozenList sl))
    /\ (List.In b [BNative (s "len") [] []; BContains x; BEqSame] -> forall i, indifferent fuel st b (VFrozenDict i)).

Theorem C18_refuted : ~ C18_statement.
Proof.
  exact (fun H => sorted_refutes (proj1 (H 50%nat st0 OTHER (VInt 1) (BNative (s "sorted") [] []) (or_introl eq_refl)) (Slice 0 0 3 3))).
Qed.
Print Assumptions C18_refuted.

(* What the code does support, for ALL heaps, lists, dicts, operands and fuel:
   - the applications that go through the interfaces (len, in, V + l, l + V, V * n, iteration, join, indexing, str,
     truthiness) give literally the same result on the frozen and on the ordinary value;
   - the natives that type-assert pyList (sorted reversed enumerate any all min max, zip) raise on EVERY frozen list,
     n * V, slicing and unpacking too, and == between a frozen value and the ordinary one is ALWAYS False. *)
Definition C18_partial_statement : Prop :=
  (forall fuel st sl b, accepting b = true -> apply_b fuel b (VFrozenList sl) st = apply_b fuel b (VList sl) st)
  /\ (forall fuel st i b,
        match b with BContains _ | BIndex _ | BStr | BTruthy => True | BNative name [] [] => name = s "len" | _ => False end ->
        apply_b fuel b (VFrozenDict i) st = apply_b fuel b (VDict i) st)
  /\ (forall fuel st sl name, existsb (str_eqb name) rejecting = true -> apply_b fuel (BNative name [] []) (VFrozenList sl) st = BRaise)
  /\ (forall fuel st sl other, apply_b fuel (BNative (s "zip") [] [other]) (VFrozenList sl) st = BRaise)
  /\ (forall fuel st sl, fuel <> O -> apply_b fuel BEqSame (VFrozenList sl) st = BVal (OBool false))
  /\ (forall fuel st sl n, apply_b fuel (BMulR n) (VFrozenList sl) st = BRaise)
  (* -- values that reach a package WITHOUT the variable freeze of subinclude -- *)
  (* the result of + : the Go source of `case Add:` (as translated by gotrans) and the model agree on every heap ... *)
  /\ (forall fuel st sl b, b <> VNilList ->
        classify_add st (apply_bin Asp fuel Add (VList sl) b st)
        = add_eval list_add_tree (kind_of b) (Nat.eqb (s_len sl) 0) (right_empty b))
  (* ... the sum of two lists is an ordinary list in a new array, whichever operand was frozen ... *)
  /\ (forall fuel st a b v st', is_list a = true -> apply_bin Asp fuel Add a b st = Ok (v, st') ->
        is_list b = true /\
        exists r, v = VList r /\ s_arr r = length (arrays st)
                  /\ list_items Asp st' r = list_items Asp st (slice_of a) ++ list_items Asp st (slice_of b))
  (* ... so every application to the sum has the same outcome for an imported and for a local operand, on either side *)
  /\ (forall fuel st sl a other b, is_list a = true ->
        consume_sum fuel b (apply_bin Asp fuel Add a (VFrozenList sl) st) = consume_sum fuel b (apply_bin Asp fuel Add a (VList sl) st)
        /\ consume_sum fuel b (apply_bin Asp fuel Add (VFrozenList sl) other st) = consume_sum fuel b (apply_bin Asp fuel Add (VList sl) other st))
  (* dict | dict: the left wrapper is invisible, a frozen right operand is refused *)
  /\ (forall fuel st i other, apply_bin Asp fuel Union (VFrozenDict i) other st = apply_bin Asp fuel Union (VDict i) other st)
  /\ (forall fuel st a j, is_dict a = true -> apply_bin Asp fuel Union a (VFrozenDict j) st = Err EType)
  (* CONFIG: for every root config, every sequence of CONFIG.setdefault / CONFIG[k] = v a subincluded file performs,
     every heap: the file's updates always succeed, pyConfig.Freeze (the steps gotrans generated) + Merge hand the
     including package a CONFIG that reads, for every key and every way of reading, the very same value on the very
     same heap - hence with the same outcome for every application *)
  /\ (forall fuel root us st,
        exists cA cB,
          apply_upds us (cfg_copy root) = Some cA
          /\ includer_config config_freeze_steps fuel root cA st = Ok (cB, st)
          /\ forall how k b fuel',
               match cfg_read how k cB, cfg_read how k cA with
               | Ok x, Ok y => apply_b fuel' b x st = apply_b fuel' b y st
               | Err e1, Err e2 => e1 = e2
               | OutOfFuel, OutOfFuel => True
               | _, _ => False
               end)
  (* isinstance (as the source now reads - gotrans): the same answer for a frozen value as for the ordinary one *)
  /\ (forall v tys single,
        isinstance_model isinstance_unwraps v tys single = isinstance_model isinstance_unwraps (unfreeze v) tys single)
  (* ATTRIBUTE ACCESS D.name (pyDict.Property / pyFrozenDict.Property and the dictMethods table as translated by gotrans):
     on every heap, for every dict and every name but setdefault, the wrapper of an imported dict answers exactly as
     the ordinary dict does - a KEY named like a method (keys, values, items, get, copy) shadows the method in both ... *)
  /\ (forall st i name, name <> s "setdefault" -> dict_property st (VFrozenDict i) name = dict_property st (VDict i) name)
  /\ (forall st i name v, env_get name (dict_of st i) = Some v ->
        dict_property st (VDict i) name = PVal v /\ (name <> s "setdefault" -> dict_property st (VFrozenDict i) name = PVal v))
  (* ... and for access paths of ANY length (D.a["b"].c ...): read from the imported twin of a value (lists wrapped, dicts
     wrapped with every value replaced by its twin) the path yields the twin of what it yields on the original, or the same error *)
  /\ (forall path st v fv, no_setdefault path -> twin st v fv -> same_read st (resolve st v path) (resolve st fv path))
  (* PLUGIN CONFIGURATION (loadPluginConfig with the store as translated by gotrans; pluginConfig): for every plugin
     name, every list of [PluginConfig] definitions, every scope config and heap, CONFIG.<PLUGIN> after the load is an
     ORDINARY dict all of whose entries are ordinary values (str / None / an ordinary list for a repeatable field) *)
  /\ (forall name fs c st c' st',
        env_get (str_upper name) (match c_overlay c with Some o => o | None => [] end) = None ->
        load_plugin_config plugin_store name fs c st = Ok (c', st') ->
        exists i, cfg_get (str_upper name) c' = Some (VDict i) /\ all_plain (dict_of st' i)).

Theorem C18_partial : C18_partial_statement.
Proof.
  exact (conj accepting_indifferent_list (conj accepting_indifferent_dict (conj natives_reject_frozen
        (conj zip_rejects_frozen (conj eq_never_equal (conj int_times_frozen_rejected
        (conj add_agrees_with_source (conj sum_is_fresh_plain_list (conj sum_consumers_indifferent
        (conj union_erases_freeze_left (conj union_refuses_frozen_right (conj config_consumers_indifferent (conj isinstance_indifferent
        (conj frozen_dict_property_transparent (conj key_shadows_method (conj attr_path_twin plugin_config_is_ordinary)))))))))))))))).
Qed.
Print Assumptions C18_partial.

(* Non-vacuity: on a heap holding FROZEN = [3, 1, 2], the listed builtins in the order of listed_list: only len, in,
   V + l and l + V are indifferent; and the accepted ones compute what they should. *)
Example C18_refuted_witnesses :
  map (fun b => same_outcome (apply_b 50 b FROZEN st0) (apply_b 50 b (unfreeze FROZEN) st0)) (listed_list OTHER (VInt 1))
  = [false; false; false; false; false; false; false; false; false; false; false; false; true; true; true; true; false]
  /\ ~ indifferent 50 st0 BEqSame FROZEND.
Proof. exact (conj listed_outcomes dict_eq_refutes). Qed.

Example C18_partial_nonvacuous :
  apply_b 50 (BNative (s "len") [] []) FROZEN st0 = BVal (OInt 3)
  /\ apply_b 50 (BAddL OTHER) FROZEN st0 = BVal (OList false 0 [OInt 3; OInt 1; OInt 2; OInt 7; OInt 8; OInt 9])
  /\ apply_b 50 (BContains (VInt 2)) FROZEN st0 = BVal (OBool true)
  /\ apply_b 50 (BNative (s "sorted") [] []) (unfreeze FROZEN) st0 = BVal (OList false 0 [OInt 1; OInt 2; OInt 3])
  /\ apply_b 50 (BNative (s "sorted") [] []) FROZEN st0 = BRaise
  /\ apply_b 50 (BHof (s "map") f_inc) (unfreeze FROZEN) st0 = BVal (OList false 0 [OInt 4; OInt 2; OInt 3])
  /\ apply_b 50 (BHof (s "map") f_inc) FROZEN st0 = BRaise.
Proof. vm_compute. repeat split. Qed.

(* Non-vacuity of the follow-up conjuncts: [] + FROZEN on the heap above is the ordinary fresh list [3, 1, 2], sorted()
   accepts it; the translated tree takes the `pyFrozenList` branch to a concatenation there; a tree with the shortcut
   `if len(l) == 0 { return l2 }` would not.  A CONFIG entry set to [3, 1] by a subincluded file is read back as the
   ordinary list - and would come back wrapped if Freeze froze the overlay. *)
Example C18_sum_nonvacuous :
  consume_sum 50 (BNative (s "sorted") [] []) (apply_bin Asp 50 Add EMPTY FROZEN st1) = BVal (OList false 0 [OInt 1; OInt 2; OInt 3])
  /\ consume_sum 50 BEqSame (apply_bin Asp 50 Add EMPTY FROZEN st1) = BVal (OBool true)
  /\ classify_add st1 (apply_bin Asp 50 Add EMPTY FROZEN st1) = RFresh
  /\ add_eval list_add_tree (kind_of FROZEN) true false = RFresh
  /\ add_eval shortcut_tree (kind_of FROZEN) true false = ROperand
  /\ isinstance_model isinstance_unwraps FROZEN [s "list"] true = true
  /\ isinstance_model false FROZEN [s "list"] true = false.
Proof. vm_compute. repeat split. Qed.

Example C18_config_nonvacuous :
  demo_read config_freeze_steps = Ok (VList (Slice 0 0 2 2)) /\ demo_read deep_steps = Ok (VFrozenList (Slice 0 0 2 2)).
Proof. exact deep_freeze_would_wrap. Qed.

(* Non-vacuity of the follow-up-2 conjuncts: TOOLS = {"keys": [3, 1], "go": 1} and its imported copy on one heap are twins;
   TOOLS.keys is the member in both (the list, wrapped in the copy) - and would be the bound method in the copy if the
   wrapper consulted the method table first; a key named setdefault IS treated differently (the code as it is).
   A plugin foo with a repeatable field flags = ["-b", "-a"] and a plain field tool: CONFIG.FOO.FLAGS is the ordinary
   list - and would come back wrapped if loadPluginConfig stored the dict frozen. *)
Example C18_attr_nonvacuous :
  twin (fst attr_demo) (VDict 0) (snd attr_demo)
  /\ resolve (fst attr_demo) (VDict 0) [AProp (s "keys")] = Ok (VList (Slice 0 0 2 2))
  /\ resolve (fst attr_demo) (snd attr_demo) [AProp (s "keys")] = Ok (VFrozenList (Slice 0 0 2 2))
  /\ prop_eval method_first_prog method_table (PVal (VInt 0)) [(s "keys", VInt 0)] (s "keys") = PMethodOf (s "keys")
  /\ dict_property (fst attr_demo) (VFrozenDict 2) (s "setdefault") = PPanicked
  /\ dict_property (fst attr_demo) (VDict 2) (s "setdefault") = PVal (VInt 5).
Proof. exact attr_demo_ok. Qed.

Example C18_plugin_nonvacuous :
  plugin_demo plugin_store = Ok (VList (Slice 0 0 2 2)) /\ plugin_demo PStoreFrozen = Ok (VFrozenList (Slice 0 0 2 2)).
Proof. exact plugin_demo_ok. Qed.
