(* C18 - Frozen (imported) values behave like ordinary values.
   This file holds only the statement, the property theorems and their non-vacuity examples. *)
From PlzV Require Import Base.Harness Model.C16_Syntax Model.C16_Ops Model.C16_Prim Model.C16_Eval Model.C16 Model.C18.
From PlzV Require Import Proof.C18.

(* For every listed builtin and operator (sorted reversed enumerate any all zip min max map filter reduce len in + ==),
   every heap, every frozen list - and, for len / in / ==, every frozen dict - applying it to the frozen value has the
   same outcome as applying it to the ordinary value with the same contents (== : compares equal to it). *)
Definition C18_statement : Prop :=
  forall (fuel : nat) (st : state) (other x : value) (b : bapp),
    List.In b (listed_list other x) ->
    (forall sl, indifferent fuel st b (VFrozenList sl))
    /\ (List.In b [BNative (s "len") [] []; BContains x; BEqSame] -> forall i, indifferent fuel st b (VFrozenDict i)).

Theorem C18_refuted : ~ C18_statement.
Proof.
  exact (fun H => sorted_refutes (proj1 (H 50%nat st0 OTHER (VInt 1) (BNative (s "sorted") [] []) (or_introl eq_refl)) (Slice 0 0 3 3))).
Qed.
Print Assumptions C18_refuted.

(* What the code does support, for ALL heaps, lists, dicts, operands and fuel:
   - the applications that go through the interfaces (len, in, V + l, l + V, V * n, iteration, join, indexing, str,
     truthiness) give literally the same result on the frozen and on the ordinary value;
   - the natives that type-assert pyList (sorted reversed enumerate any all min max, zip) raise on EVERY frozen list,
     n * V, slicing and unpacking too, and == between a frozen value and the ordinary one is ALWAYS False. *)
Definition C18_partial_statement : Prop :=
  (forall fuel st sl b, accepting b = true -> apply_b fuel b (VFrozenList sl) st = apply_b fuel b (VList sl) st)
  /\ (forall fuel st i b,
        match b with BContains _ | BIndex _ | BStr | BTruthy => True | BNative name [] [] => name = s "len" | _ => False end ->
        apply_b fuel b (VFrozenDict i) st = apply_b fuel b (VDict i) st)
  /\ (forall fuel st sl name, existsb (str_eqb name) rejecting = true -> apply_b fuel (BNative name [] []) (VFrozenList sl) st = BRaise)
  /\ (forall fuel st sl other, apply_b fuel (BNative (s "zip") [] [other]) (VFrozenList sl) st = BRaise)
  /\ (forall fuel st sl, fuel <> O -> apply_b fuel BEqSame (VFrozenList sl) st = BVal (OBool false))
  /\ (forall fuel st sl n, apply_b fuel (BMulR n) (VFrozenList sl) st = BRaise).

Theorem C18_partial : C18_partial_statement.
Proof.
  exact (conj accepting_indifferent_list (conj accepting_indifferent_dict (conj natives_reject_frozen
        (conj zip_rejects_frozen (conj eq_never_equal int_times_frozen_rejected))))).
Qed.
Print Assumptions C18_partial.

(* Non-vacuity: on a heap holding FROZEN = [3, 1, 2], the listed builtins in the order of listed_list: only len, in,
   V + l and l + V are indifferent; and the accepted ones compute what they should. *)
Example C18_refuted_witnesses :
  map (fun b => same_outcome (apply_b 50 b FROZEN st0) (apply_b 50 b (unfreeze FROZEN) st0)) (listed_list OTHER (VInt 1))
  = [false; false; false; false; false; false; false; false; false; false; false; false; true; true; true; true; false]
  /\ ~ indifferent 50 st0 BEqSame FROZEND.
Proof. exact (conj listed_outcomes dict_eq_refutes). Qed.

Example C18_partial_nonvacuous :
  apply_b 50 (BNative (s "len") [] []) FROZEN st0 = BVal (OInt 3)
  /\ apply_b 50 (BAddL OTHER) FROZEN st0 = BVal (OList false 0 [OInt 3; OInt 1; OInt 2; OInt 7; OInt 8; OInt 9])
  /\ apply_b 50 (BContains (VInt 2)) FROZEN st0 = BVal (OBool true)
  /\ apply_b 50 (BNative (s "sorted") [] []) (unfreeze FROZEN) st0 = BVal (OList false 0 [OInt 1; OInt 2; OInt 3])
  /\ apply_b 50 (BNative (s "sorted") [] []) FROZEN st0 = BRaise
  /\ apply_b 50 (BHof (s "map") f_inc) (unfreeze FROZEN) st0 = BVal (OList false 0 [OInt 4; OInt 2; OInt 3])
  /\ apply_b 50 (BHof (s "map") f_inc) FROZEN st0 = BRaise.
Proof. vm_compute. repeat split. Qed.
