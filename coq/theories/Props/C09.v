(* C09 - Path hashes distinguish every difference in a file tree.
   This file holds only the statement, the property theorems and their non-vacuity examples.
   H is the hash (sha1, sha256, ...): any collision-free function on byte strings. *)
From PlzV Require Import Base.Harness Model.C09 Proof.C09 Proof.C09_Top Proof.C09_Memo Model.C09_Rec Proof.C09_Rec.

(* Two different trees (contents, names, positions, link targets, kinds: `a <> b` on canonical
   presentations covers every item the statement lists) never get the same recorded hash. *)
Definition C09_statement : Prop :=
  forall (H : str -> str), (forall x y, H x = H y -> x = y) ->
  forall a b, wf a = true -> wf b = true -> a <> b -> H (stream a) <> H (stream b).

(* The unchanged code violates it: renaming a file inside a directory keeps the hash. *)
Theorem C09_refuted : ~ C09_statement.
Proof. exact full_statement_refuted. Qed.
Print Assumptions C09_refuted.

(* What the code does guarantee, for every hash H without collisions and ALL trees: *)
Theorem C09_partial :
  forall (H : str -> str), (forall x y, H x = H y -> x = y) ->
  (* 1. two different trees outside the six recognised defect classes have different hashes *)
  (forall a b, wf a = true -> wf b = true -> a <> b -> defect_class a b = None ->
               H (stream a) <> H (stream b))
  (* 2. the classes are exact: every recognised pair does collide *)
  /\ (forall a b d, wf a = true -> wf b = true -> defect_class a b = Some d ->
                    H (stream a) = H (stream b))
  (* 3. editing one file, or adding/removing one symlink or non-empty file, at any depth,
        always changes the hash *)
  /\ (forall a b, wf a = true -> wf b = true -> single_change a b -> H (stream a) <> H (stream b))
  (* 4. regular files and symlinks hashed on their own: injective in content resp. target;
        a file and a symlink collide only when the content is \x02 followed by the target *)
  /\ ((forall c c', c <> c' -> H (stream (File c)) <> H (stream (File c')))
      /\ (forall t t', t <> t' -> H (stream (Link t)) <> H (stream (Link t')))
      /\ (forall c t, c <> 2%N :: t -> H (stream (File c)) <> H (stream (Link t))))
  (* 5. paths that are symlinks with an absolute target (relativised textually under the root,
        dereferenced outside it) or symlinks outside the repo: two paths that differ as trees and
        are hashed without error have equal hashes exactly when top_class names a class - one of
        the six above on the equivalent in-repo nodes, or one of four of their own *)
  /\ (forall root x y vx vy, top_wf x = true -> top_wf y = true -> top_differs x y = true ->
        top_stream root x = Some vx -> top_stream root y = Some vy ->
        (top_class root x y = None -> H vx <> H vy)
        /\ (forall d, top_class root x y = Some d -> H vx = H vy))
  (* 6. in particular a symlink leaving the repo never hashes like the regular file with the bytes
        it points to *)
  /\ (forall root t c v, link_in_repo root [] t = false ->
        top_stream root (TAbsLink t (Some c)) = Some v -> H v <> H (stream (File c))).
Proof.
  exact (fun H H_inj => conj (unclassified_pairs_hash_apart H H_inj)
                       (conj (classified_hash_equal H)
                       (conj (single_change_hash H H_inj)
                       (conj (nondir_injective H H_inj)
                       (conj (top_pairs H H_inj) (external_link_vs_same_file H H_inj)))))).
Qed.
Print Assumptions C09_partial.

(* The hash Please RECORDS for a path: the memo of one long-lived PathHasher, driven by ANY sequence of
   Hash / MoveHash / CopyHash / SetHash / moveOutput calls interleaved with ANY changes of the files,
   from the empty memo.  Protocol (`follows`): Hash(p, recalc=false) is never called on a path whose
   status is GStale - i.e. whose content was replaced or removed under a valid entry, whose digest
   was set wrongly, or which received a digest moved/copied from a path with different content -
   before a Hash(p, recalc=true) or a MoveHash away from a plz-out/tmp path cleared it.
   Then (a) every Hash answers with the stream of the tree that is at the path at that moment
   (or fails exactly when nothing is there), whether memoised or not, and (b) at the end every memo
   entry the protocol vouches for is the stream of the tree now at its path.
   The digest recorded is H of that stream, so clauses 1-6 apply to it. *)
Theorem C09_memo :
  forall root ops, follows root mstate0 [] ops = true ->
    Forall (fun e : op * obs * bool * mstate =>
              match fst (fst (fst e)), snd (fst (fst e)) with
              | OHash p _, ObsVal v _ =>
                  exists t, aget (files (snd e)) (ensure_relative root p) = Some t /\ v = stream t
              | OHash p _, ObsErr => aget (files (snd e)) (ensure_relative root p) = None
              | _, _ => True
              end)
           (exec root mstate0 [] ops)
    /\ Inv (fst (run root mstate0 [] ops)) (snd (run root mstate0 [] ops)).
Proof. exact memo_sound. Qed.
Print Assumptions C09_memo.

(* Follow-up 2.  The hash RECORDED for a path over the life of a checkout: any sequence of file-system
   changes (new files, IN-PLACE edits that keep the inode and its xattrs, removals, mv, cp -a, entries that
   cannot be read and their repair), any number of plz processes (each a new PathHasher, xattrs on or off)
   and Hash calls, from the empty world.  Protocol (`rfollows`): Hash(p, recalc=false) is not called while
   the memo entry of p is stale (content changed under it in this process), nor - for an OUTPUT under
   plz-out/, xattrs on, not yet hashed by this process - while its stored xattr is stale (edited in place
   after the hash was stored).  Then
   (a) every Hash returns the stream of the tree at the path at that moment, or fails exactly when the
       path is missing (RMissing) / holds an entry that cannot be read (RErr); a failed hash is never
       recorded; every memo entry and stored xattr the protocol vouches for is right at the end;
   (b) with NO premise on the history or the state: a Hash that recalculates, and the first Hash a process
       makes of a path OUTSIDE plz-out/, answer for the tree that is there - no stored xattr is believed
       on a source, whatever it used to be;
   (c) a readable tree is hashed as `stream` (so clauses 1-6 of C09_partial apply to the recorded hash);
       a tree with an unreadable entry never yields a value. *)
Theorem C09_recorded :
  (forall root ops, rfollows root rstate0 rghost0 ops = true ->
     Forall (rentry_ok root) (rexec root rstate0 rghost0 ops)
     /\ RInv (fst (rrun root rstate0 rghost0 ops)) (snd (rrun root rstate0 rghost0 ops)))
  /\ (forall root st p recalc store,
        recalc = true
        \/ (aget (rmemo st) (ensure_relative root p) = None
            /\ has_prefix outputs_prefix (ensure_relative root p) = false) ->
        answer_at (rfiles (fst (rstep root st (RHash p recalc store)))) (ensure_relative root p)
                  (snd (rstep root st (RHash p recalc store)))
        /\ forall k, option_map fst (aget (rfiles (fst (rstep root st (RHash p recalc store)))) k)
                     = option_map fst (aget (rfiles st) k))
  /\ (forall root st p recalc store w,
        snd (rstep root st (RHash p recalc store)) = RErr w ->
        rmemo (fst (rstep root st (RHash p recalc store))) = rmemo st)
  /\ (forall t n, to_node t = Some n -> fstream t = (stream n, true))
  /\ (forall t, to_node t = None -> snd (fstream t) = false).
Proof.
  exact (conj rec_sound (conj fresh_hash_sound (conj failed_hash_not_recorded
        (conj fstream_readable fstream_unreadable)))).
Qed.
Print Assumptions C09_recorded.

(* Any number of Hash calls on DIFFERENT paths running at once through one PathHasher, interleaved in ANY
   order at the granularity of the single file Read / hash Write of fileHash, starting from any content of
   whatever buffer is shared: what a call has written is always a prefix of, and when it finishes equal to,
   the stream the sequential call writes.  (Proved from file_copy_buffer = BufPrivate as regenerated from
   fileHash; the memo itself is only touched under hasher.mutex.) *)
Theorem C09_concurrent :
  forall ns sched sh i n t,
    nth_error ns i = Some n ->
    nth_error (threads (crun sched (CState (map thread0 ns) sh))) i = Some t ->
    (exists rest, acc t ++ rest = stream n) /\ (finished t = true -> acc t = stream n).
Proof. exact conc_sound. Qed.
Print Assumptions C09_concurrent.

(* ---- non-vacuity ---- *)
(* the refutation has a witness in every class, not only the one used above *)
Example C09_refuted_witnesses :
  collides (Dir [(s "a", File (s "x"))]) (Dir [(s "b", File (s "x"))]) DirNames
  /\ collides (Dir [(s "a", File (s "xy"))]) (Dir [(s "a", File (s "x")); (s "b", File (s "y"))]) FileBoundaries
  /\ collides (Dir []) (Dir [(s "e", File [])]) FileBoundaries
  /\ collides (Dir [(s "l", Link (s "p"))]) (Dir [(s "l", Link (s "q"))]) DirLinkTarget
  /\ collides (Dir []) (Dir [(s "d", Dir [])]) DirNesting
  /\ collides (Dir [(s "a", File (s "x"))]) (Dir [(s "a", Dir [(s "b", File (s "x"))])]) DirNesting
  /\ collides (File (s "x")) (Dir [(s "a", File (s "x"))]) RootKind
  /\ collides (Link (s "x")) (Dir [(s "a", Link (s "q")); (s "b", File (s "x"))]) RootKind
  /\ collides (Link (s "t")) (File (2%N :: s "t")) MarkerAlias
  /\ collides (Dir [(s "a", Link (s "t"))]) (Dir [(s "a", File [2%N])]) MarkerAlias.
Proof.
  exact (conj witness_rename (conj witness_boundary (conj witness_empty_file (conj witness_link_target
        (conj witness_empty_dir (conj witness_move_into_subdir (conj witness_file_vs_dir
        (conj witness_link_vs_dir (conj witness_marker_top witness_marker_in_dir))))))))).
Qed.

(* clause 1 is about something: well-formed, different directory trees in no defect class *)
Example C09_partial_nonvacuous_1 :
  let a := Dir [(s "a", File (s "x")); (s "d", Dir [(s "l", Link (s "p"))])] in
  let b := Dir [(s "a", File (s "y")); (s "d", Dir [(s "l", Link (s "p"))])] in
  wf a = true /\ wf b = true /\ a <> b /\ defect_class a b = None /\ stream a <> stream b.
Proof. repeat split; try (vm_compute; reflexivity); discriminate. Qed.

(* clause 3: an edit two directories down, and a symlink added next to a file *)
Example C09_partial_nonvacuous_3 :
  single_change (Dir [(s "a", Dir [(s "b", File (s "x"))])]) (Dir [(s "a", Dir [(s "b", File (s "y"))])])
  /\ single_change (Dir [(s "a", File (s "x"))]) (Dir [(s "a", File (s "x")); (s "l", Link (s "a"))]).
Proof.
  split.
  - apply (Under _ [] (s "a") _ _ []). apply (Under _ [] (s "b") _ _ []). apply Here. left.
    constructor. discriminate.
  - apply Here. right. exact (AddLink [(s "a", File (s "x"))] (s "l") (s "a") []).
Qed.

(* clause 5: the four classes of top-level symlinks are inhabited, and an external link next to the
   regular file with the same bytes is a pair the theorem separates *)
Example C09_partial_nonvacuous_5 :
  top_collides (s "/r") (TAbsLink (s "/o/f1") (Some (s "tool"))) (TAbsLink (s "/o/f2") (Some (s "tool"))) TExtTarget
  /\ top_collides (s "/r") (TAbsLink (s "/o/f3") (Some (s "a"))) (TNode (Link (s "a"))) TExtContentAsTarget
  /\ top_collides (s "/r") (TAbsLink (s "/r/a") None) (TNode (Link (s "a"))) TRootStripped
  /\ top_collides (s "/r") (TAbsLink (s "/r2/x") None) (TNode (Link (s "2/x"))) TSiblingStripped
  /\ (let x := TAbsLink (s "/o/f1") (Some (s "tool")) in
      let y := TNode (File (s "tool")) in
      top_wf x = true /\ top_wf y = true /\ top_differs x y = true /\ top_class (s "/r") x y = None
      /\ top_stream (s "/r") x <> top_stream (s "/r") y).
Proof.
  exact (conj witness_ext_target (conj witness_ext_content (conj witness_root_stripped
        (conj witness_sibling ext_link_vs_file_unclassified)))).
Qed.

(* C09_memo: build.moveOutput run twice for the same temporary path is inside the protocol and the
   second Hash of the temporary path answers for the new content; the protocol hypothesis cannot be
   dropped (rewriting under a valid entry and asking again without recalc returns the old hash) *)
Example C09_memo_nonvacuous :
  (follows (s "/r") mstate0 [] move_output_twice = true
   /\ map (fun e => snd (fst (fst e))) (exec (s "/r") mstate0 [] move_output_twice)
      = [ObsNone; ObsVal (s "one") true; ObsNone; ObsNone; ObsVal (s "two") true; ObsVal (s "one") false])
  /\ (follows (s "/r") mstate0 [] stale_demo = false
      /\ map (fun e => snd (fst (fst e))) (exec (s "/r") mstate0 [] stale_demo)
         = [ObsNone; ObsVal (s "v1") true; ObsNone; ObsVal (s "v1") false]).
Proof. exact (conj move_output_twice_ok protocol_needed). Qed.

(* C09_recorded: the two seeded histories are inside the protocol and answered for the current tree - a
   directory whose hash failed on an unreadable entry, repaired, hashed again by the same process; an output
   whose hash was stored as an xattr, moved into the sources, edited in place, hashed by a new process (the
   stale xattr is still on the file) - and the premise about outputs cannot be dropped *)
Example C09_recorded_nonvacuous :
  (rfollows (s "/r") rstate0 rghost0 fault_repair_demo = true
   /\ map (fun e => snd (fst (fst e))) (rexec (s "/r") rstate0 rghost0 fault_repair_demo)
      = [RNone; RNone; RErr (s "aaa"); RNone; RVal (s "aaabbb") true])
  /\ (rfollows (s "/r") rstate0 rghost0 output_becomes_source_demo = true
      /\ map (fun e => snd (fst (fst e))) (rexec (s "/r") rstate0 rghost0 output_becomes_source_demo)
         = [RNone; RNone; RVal (s "one") true; RNone; RNone; RNone; RVal (s "onetwo") true]
      /\ xattr_of (rfiles (fst (rrun (s "/r") rstate0 rghost0 output_becomes_source_demo))) (s "src/pkg/data.txt")
         = Some (s "one"))
  /\ (rfollows (s "/r") rstate0 rghost0 output_edited_in_place_demo = false
      /\ map (fun e => snd (fst (fst e))) (rexec (s "/r") rstate0 rghost0 output_edited_in_place_demo)
         = [RNone; RNone; RVal (s "one") true; RNone; RNone; RVal (s "one") false]).
Proof. exact (conj fault_repair_ok (conj output_becomes_source_ok output_protocol_needed)). Qed.

(* C09_concurrent: three calls, a schedule that interleaves them and runs all of them to the end *)
Example C09_concurrent_nonvacuous :
  let ns := [File (s "aaaa"); Dir [(s "k", Link (s "q")); (s "z", File (s "bb"))]; Link (s "t")] in
  let c := crun [0; 1; 1; 0; 2; 1; 2]%nat (CState (map thread0 ns) []) in
  forallb finished (threads c) = true /\ map acc (threads c) = map stream ns.
Proof. exact conc_nonvacuous. Qed.
