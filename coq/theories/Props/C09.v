(* C09 - Path hashes distinguish every difference in a file tree.
   This file holds only the statement, the property theorems and their non-vacuity examples.
   H is the hash (sha1, sha256, ...): any collision-free function on byte strings. *)
From PlzV Require Import Base.Harness Model.C09 Proof.C09.

(* Two different trees (contents, names, positions, link targets, kinds: `a <> b` on canonical
   presentations covers every item the statement lists) never get the same recorded hash. *)
Definition C09_statement : Prop :=
  forall (H : str -> str), (forall x y, H x = H y -> x = y) ->
  forall a b, wf a = true -> wf b = true -> a <> b -> H (stream a) <> H (stream b).

(* The unchanged code violates it: renaming a file inside a directory keeps the hash. *)
Theorem C09_refuted : ~ C09_statement.
Proof. exact full_statement_refuted. Qed.
Print Assumptions C09_refuted.

(* What the code does guarantee, for every hash H without collisions and ALL trees: *)
Theorem C09_partial :
  forall (H : str -> str), (forall x y, H x = H y -> x = y) ->
  (* 1. two different trees outside the six recognised defect classes have different hashes *)
  (forall a b, wf a = true -> wf b = true -> a <> b -> defect_class a b = None ->
               H (stream a) <> H (stream b))
  (* 2. the classes are exact: every recognised pair does collide *)
  /\ (forall a b d, wf a = true -> wf b = true -> defect_class a b = Some d ->
                    H (stream a) = H (stream b))
  (* 3. editing one file, or adding/removing one symlink or non-empty file, at any depth,
        always changes the hash *)
  /\ (forall a b, wf a = true -> wf b = true -> single_change a b -> H (stream a) <> H (stream b))
  (* 4. regular files and symlinks hashed on their own: injective in content resp. target;
        a file and a symlink collide only when the content is \x02 followed by the target *)
  /\ ((forall c c', c <> c' -> H (stream (File c)) <> H (stream (File c')))
      /\ (forall t t', t <> t' -> H (stream (Link t)) <> H (stream (Link t')))
      /\ (forall c t, c <> 2%N :: t -> H (stream (File c)) <> H (stream (Link t)))).
Proof.
  exact (fun H H_inj => conj (unclassified_pairs_hash_apart H H_inj)
                       (conj (classified_hash_equal H)
                       (conj (single_change_hash H H_inj) (nondir_injective H H_inj)))).
Qed.
Print Assumptions C09_partial.

(* ---- non-vacuity ---- *)
(* the refutation has a witness in every class, not only the one used above *)
Example C09_refuted_witnesses :
  collides (Dir [(s "a", File (s "x"))]) (Dir [(s "b", File (s "x"))]) DirNames
  /\ collides (Dir [(s "a", File (s "xy"))]) (Dir [(s "a", File (s "x")); (s "b", File (s "y"))]) FileBoundaries
  /\ collides (Dir []) (Dir [(s "e", File [])]) FileBoundaries
  /\ collides (Dir [(s "l", Link (s "p"))]) (Dir [(s "l", Link (s "q"))]) DirLinkTarget
  /\ collides (Dir []) (Dir [(s "d", Dir [])]) DirNesting
  /\ collides (Dir [(s "a", File (s "x"))]) (Dir [(s "a", Dir [(s "b", File (s "x"))])]) DirNesting
  /\ collides (File (s "x")) (Dir [(s "a", File (s "x"))]) RootKind
  /\ collides (Link (s "x")) (Dir [(s "a", Link (s "q")); (s "b", File (s "x"))]) RootKind
  /\ collides (Link (s "t")) (File (2%N :: s "t")) MarkerAlias
  /\ collides (Dir [(s "a", Link (s "t"))]) (Dir [(s "a", File [2%N])]) MarkerAlias.
Proof.
  exact (conj witness_rename (conj witness_boundary (conj witness_empty_file (conj witness_link_target
        (conj witness_empty_dir (conj witness_move_into_subdir (conj witness_file_vs_dir
        (conj witness_link_vs_dir (conj witness_marker_top witness_marker_in_dir))))))))).
Qed.

(* clause 1 is about something: well-formed, different directory trees in no defect class *)
Example C09_partial_nonvacuous_1 :
  let a := Dir [(s "a", File (s "x")); (s "d", Dir [(s "l", Link (s "p"))])] in
  let b := Dir [(s "a", File (s "y")); (s "d", Dir [(s "l", Link (s "p"))])] in
  wf a = true /\ wf b = true /\ a <> b /\ defect_class a b = None /\ stream a <> stream b.
Proof. repeat split; try (vm_compute; reflexivity); discriminate. Qed.

(* clause 3: an edit two directories down, and a symlink added next to a file *)
Example C09_partial_nonvacuous_3 :
  single_change (Dir [(s "a", Dir [(s "b", File (s "x"))])]) (Dir [(s "a", Dir [(s "b", File (s "y"))])])
  /\ single_change (Dir [(s "a", File (s "x"))]) (Dir [(s "a", File (s "x")); (s "l", Link (s "a"))]).
Proof.
  split.
  - apply (Under _ [] (s "a") _ _ []). apply (Under _ [] (s "b") _ _ []). apply Here. left.
    constructor. discriminate.
  - apply Here. right. exact (AddLink [(s "a", File (s "x"))] (s "l") (s "a") []).
Qed.
