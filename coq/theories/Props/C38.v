(* C38 - `plz fmt` never changes what a BUILD file means.
   This file holds only the statement, the property theorems and their non-vacuity examples.

   format() = buildtools ParseBuild -> simplify -> build.Format.  The statement is about the part of that pipeline
   which is Please's own code: `simplify`, modelled line by line (Model/C38.v simplify_loop) on the top-level statement
   list, with evaluation as far as simplify can change it (any interpreter state, any behaviour of a single include, of
   f-string interpolation, of other argument expressions and of other statements).  The third-party parser and printer
   are not modelled; for them the same property is explored by the harness on the real binary (level: proof for
   simplify, partial: formatter explored). *)
From Coq Require Import String.
From PlzV Require Import Base.Harness Gen.C38Fmt Model.C38 Proof.C38 Proof.C38Expr Proof.C38Str.
Local Open Scope list_scope.

(* "Reformatting a file that Please accepts yields a file that Please still accepts and that evaluates to the same values
   and targets; formatting an already formatted file changes nothing" - for the rewriting step of the formatter:
   for every interpreter, every statement list and every start state, evaluating the simplified list gives the same result
   (the same final state, or rejection in both cases); simplifying twice is simplifying once; the subincluded labels keep
   their order. *)
Definition C38_statement : Prop :=
  forall (state : Type) (inc : str -> state -> option state) (fstr_val : str -> state -> option str)
         (nonlit_val : N -> state -> option (list str)) (other : N -> state -> option state),
    (forall p st, eval state inc fstr_val nonlit_val other (simplify_loop p) st = eval state inc fstr_val nonlit_val other p st)
    /\ (forall p, simplify_loop (simplify_loop p) = simplify_loop p)
    /\ (forall p, flatten (simplify_loop p) = flatten p)
    (* operator chains with unary operators (Model/C38Expr.v): the formatted chain evaluates to the same integer *)
    /\ (forall c, zeval (fmt_chain c) = zeval c)
    (* plain string literals over the modelled alphabet (Model/C38Str.v): the literal the formatter prints is one
       token from which the asp lexer reads the value it read from the original *)
    /\ (forall q ml its, (q = 34 \/ q = 39)%N -> forallb (item_ok ml) its = true -> forallb (lexable q ml) its = true ->
         exists tok v, bt_print q ml (render its) = Some tok
                       /\ lex_string (delim q ml ++ render its ++ delim q ml) = Some (v, [])
                       /\ lex_string tok = Some (v, [])).

(* The code refutes it: `subinclude("//defs:d1")` followed by `subinclude(f"//{PKG}:d2")` is accepted when d1 defines PKG;
   simplify merges the two calls (buildtools parses an f-string as a StringExpr), the f-string is then interpolated before
   d1 is included, and the file is rejected ("name 'PKG' is not defined").  Reproduced on the real binary by the harness. *)
Theorem C38_refuted : ~ C38_statement.
Proof.
  exact (fun H => witness_refutes (proj1 (H bool w_inc w_fstr w_nonlit w_other))).
Qed.
Print Assumptions C38_refuted.

(* The two other conjuncts are refuted as well (both reproduced on the real binary by the harness):
   2 * -(3) + 1 is -4 in asp (the Negate of the right operand is hoisted behind `*` and applies to (3) + 1), the formatter
   prints 2 * -3 + 1, where -3 is one token: -5;  'x\<newline>y' keeps backslash and newline in asp, the re-quoted
   literal is "xy". *)
Example C38_refuted_by_chain : zeval (fmt_chain w_chain) <> zeval w_chain.
Proof. vm_compute. discriminate. Qed.
Example C38_refuted_by_string :
  forallb (item_ok false) w_body = true /\ lex_string (delim 39 false ++ render w_body ++ delim 39 false) = Some ([120; 92; 10; 121]%N, [])
  /\ bt_print 39 false (render w_body) = Some (s """xy""") /\ lex_string (s """xy""") = Some ([120; 121]%N, []).
Proof. vm_compute. repeat split; reflexivity. Qed.

(* What the code does guarantee, for all statement lists (no bound):
   - outside the one defect class (an f-string argument moved in front of an earlier include) evaluation is preserved,
     for every interpreter and every start state;
   - a file whose top-level subincludes hold no f-string is never in the class;
   - the index loop of the source computes the structural recursion `simplify`;
   - simplify is idempotent, its result has no two adjacent mergeable calls, and it is the identity on such lists;
   - all subinclude arguments keep their order, every other statement is kept in order, the list never grows;
   - a backslash outside a string literal can not start an asp token (no line continuation): the set of bytes the
     regenerated lexer dispatch rejects is exactly the listed one. *)
Definition C38_partial_statement : Prop :=
  (forall (state : Type) (inc : str -> state -> option state) (fstr_val : str -> state -> option str)
          (nonlit_val : N -> state -> option (list str)) (other : N -> state -> option state) p st,
      defect_class p = None ->
      eval state inc fstr_val nonlit_val other (simplify_loop p) st = eval state inc fstr_val nonlit_val other p st)
  /\ (forall p, has_fstr (flatten p) = false -> defect_class p = None)
  /\ (forall p, simplify_loop p = simplify p)
  /\ (forall p, simplify_loop (simplify_loop p) = simplify_loop p)
  /\ (forall p, normal (simplify_loop p) = true)
  /\ (forall p, normal p = true -> simplify_loop p = p)
  /\ (forall p, flatten (simplify_loop p) = flatten p)
  /\ (forall p, filter unmergeable (simplify_loop p) = filter unmergeable p)
  /\ (forall p, length (simplify_loop p) <= length p)
  (* operator chains: outside the class "a minus kept apart from a literal AFTER a binary operator" the formatted chain
     evaluates to the same value, for every value domain and every behaviour of the operators; this rests on Negate having
     the highest level of the regenerated Operator.Precedence() table; formatting twice = once; a formatted chain is
     never in the class *)
  /\ (forall (V : Type) (lit : Z -> V) (var : N -> V) (neg lnot : V -> V) (bin : binop -> V -> V -> V) (truthy : V -> bool),
        (forall z, neg (lit z) = lit (Z.opp z)) ->
        forall c, expr_defect c = None ->
                  C38Expr.eval V lit var neg lnot bin truthy (fmt_chain c) = C38Expr.eval V lit var neg lnot bin truthy c)
  /\ (forall o, Z.leb (prec_name (binop_name o)) (prec_name (unop_name Negate)) = true)
  /\ (forall c, fmt_chain (fmt_chain c) = fmt_chain c)
  /\ (forall c, expr_defect (fmt_chain c) = None)
  (* string literals: for every body over the modelled alphabet (any length) without a backslash-newline in a
     single-line literal, the canonical form quote() prints for the Unquote value is one complete token from which the asp
     lexer (escape rules regenerated from consumeString) reads the value it reads from the original literal *)
  /\ (forall ml its, body_ok ml its = true ->
        exists v, bt_unquote false (render its) = Some v
                  /\ lex_string (delim 34 ml ++ bt_quote_body ml false v ++ delim 34 ml) = Some (flat_map (asp_item ml) its, []))
  /\ (forall q ml its, N.eqb 92 q = false -> forallb (lexable q ml) its = true ->
        consume q ml false (render its ++ delim q ml) = Some (flat_map (asp_item ml) its, []))
  /\ lex_class 92 = LexUnknown
  /\ unknown_bytes = [1; 2; 3; 4; 5; 6; 7; 8; 11; 12; 14; 15; 16; 17; 18; 19; 20; 21; 22; 23; 24; 25; 26; 27; 28; 29; 30; 31;
                      36; 59; 63; 64; 92; 94; 96; 126; 127]%N.

Theorem C38_partial : C38_partial_statement.
Proof.
  exact (conj loop_eval (conj no_fstr_no_defect (conj simplify_loop_eq (conj loop_idem (conj loop_normal (conj loop_normal_fix
        (conj loop_flatten (conj loop_keeps_others (conj loop_length
        (conj fmt_preserves_eval (conj negate_binds_tightest_bin (conj fmt_idempotent (conj fmt_never_defective
        (conj requote_same_value (conj orig_same_value (conj backslash_unknown unknown_bytes_eq)))))))))))))))).
Qed.
Print Assumptions C38_partial.

(* Non-vacuity.  A file outside the defect class on which simplify really merges (three calls into one, a non-literal
   call and another statement in between are kept), evaluated with a concrete interpreter: the state is the list of
   labels included so far. *)
Definition ex_prog : list stmt :=
  [Sub [FStr (s "//{P}:d0")]; Sub [Lit (s "//defs:d1")]; Sub [Lit (s "//defs:d2"); Lit (s "//defs:d3")];
   Other 3; Sub [NonLit 4000]; Sub [Lit (s "//defs:d1")]].
Definition ex_inc (l : str) (st : list str) : option (list str) := Some (st ++ [l]).
Definition ex_fstr (v : str) (st : list str) : option str := Some (v ++ s "@" ++ concat st).
Definition ex_nonlit (_ : N) (st : list str) : option (list str) := Some [s "//defs:d4"].
Definition ex_other (_ : N) (st : list str) : option (list str) := Some st.

Example C38_partial_nonvacuous :
  defect_class ex_prog = None
  /\ simplify_loop ex_prog = [Sub [FStr (s "//{P}:d0"); Lit (s "//defs:d1"); Lit (s "//defs:d2"); Lit (s "//defs:d3")];
                              Other 3; Sub [NonLit 4000]; Sub [Lit (s "//defs:d1")]]
  /\ eval _ ex_inc ex_fstr ex_nonlit ex_other (simplify_loop ex_prog) [] =
     Some [s "//{P}:d0@"; s "//defs:d1"; s "//defs:d2"; s "//defs:d3"; s "//defs:d4"; s "//defs:d1"]
  /\ eval _ ex_inc ex_fstr ex_nonlit ex_other ex_prog [] = eval _ ex_inc ex_fstr ex_nonlit ex_other (simplify_loop ex_prog) [].
Proof. vm_compute. repeat split; reflexivity. Qed.

(* The defect class is inhabited by the witness of the refutation, which the interpreter above also separates. *)
Example C38_defect_inhabited :
  defect_class w_prog = Some FStringArgHoisted
  /\ eval bool w_inc w_fstr w_nonlit w_other w_prog false = Some true
  /\ eval bool w_inc w_fstr w_nonlit w_other (simplify_loop w_prog) false = None
  /\ eval _ ex_inc ex_fstr ex_nonlit ex_other w_prog [] <> eval _ ex_inc ex_fstr ex_nonlit ex_other (simplify_loop w_prog) [].
Proof. vm_compute. repeat split; try reflexivity. discriminate. Qed.


(* Non-vacuity of the chain and string parts: a chain outside the class on which the formatter really folds a separated
   minus into the literal and drops nested parentheses; a triple-quoted body with a continuation, a non-standard escape
   and a quote of the other kind that is re-quoted. *)
Definition ex_chain : chain :=
  CMore (Some (Negate, false)) (AParen (COne None (AParen (COne None (ALit 5))))) Subtract
        (CMore None (AId 0) Modulo (COne None (AParen (COne (Some (Negate, false)) (ALit 4))))).
Definition ex_body : list item := [P 97; P 32; E 10; P 98; E 36; P 39; E 110].
Example C38_partial_nonvacuous_chain_string :
  expr_defect ex_chain = None /\ fmt_chain ex_chain <> ex_chain
  /\ C38Expr.render (fmt_chain ex_chain) = s "-5 - V0 % (-4)" /\ zeval ex_chain = (-8)%Z /\ zeval (fmt_chain ex_chain) = (-8)%Z
  /\ body_ok true ex_body = true
  /\ bt_print 39 true (render ex_body) = Some ([34; 34; 34; 97; 32; 98; 92; 92; 36; 39; 10; 34; 34; 34]%N)
  /\ lex_string (delim 39 true ++ render ex_body ++ delim 39 true) = Some ([97; 32; 98; 92; 36; 39; 10]%N, []).
Proof. vm_compute. repeat split; try reflexivity. discriminate. Qed.
