(* C29 - The CAS-backed filesystem view is faithful to its tree.
   This file holds only the statement, the property theorems and their non-vacuity examples.

   The remote output tree is a REAPI Tree: a root Directory and the Directories stored under their
   digests (wf_tree: entry names valid and unique per directory, every child digest stored).
   node_at t m segs e  - e is the tree's file / directory / symlink node at the path segs below m;
   resolves t n segs e - following n symlinks, each relative to the directory holding it, leads
                         from segs to the file or directory node e.
   fs_open / fs_stat / listing / readdir are the model of CASFileSystem.Open / Stat and
   dir.ReadDir (Model/C29.v); the working directory is "." as in remotefs.New(c, tree, ".").

   Paths THROUGH a symlinked directory (link/child) are not node paths of the tree: findNode only
   descends real directories and answers ErrNotExist (clause 2 below with segs = [link; child]).
   The property speaks of "the tree's files, directories and symlinks"; a symlink is listed and
   statted as a symlink and opened by following it; addressing nodes through it is not required. *)
From PlzV Require Import Base.Harness Model.C29 Proof.C29.

Definition C29_statement : Prop :=
  forall t, wf_tree t ->
  (* ---- 1. lists, stats and reads exactly the tree's files, directories and symlinks ---- *)
  ((forall w segs e, fs_wd w = dot -> node_at t (t_root t) segs e ->
      exists i, fs_stat t w (joinp segs) = Ok i /\ info_matches t e i)
   /\ (forall w segs, fs_wd w = dot -> Forall valid_name segs -> segs <> [] ->
         (forall e, ~ node_at t (t_root t) segs e) ->
         fs_stat t w (joinp segs) = Err ENotExist /\ fs_open t w (joinp segs) = Err ENotExist)
   /\ (forall w n segs e, fs_wd w = dot -> resolves t n segs e -> n <= max_symlinks ->
         fs_open t w (unsplit segs) = open_node t e
         /\ match e with
            | FFile f => open_node t e = match lookup (f_blob f) (t_blobs t) with
                                         | Some c => Ok (OpFile (file_info f) c) | None => Err EBlob end
            | FDir d => exists m', lookup (d_dg d) (t_dirs t) = Some m'
                                   /\ open_node t e = Ok (OpDir (dir_info (d_name d) m') m')
            | FLink _ => False
            end)
   /\ (forall dg m, lookup dg (t_dirs t) = Some m ->
         exists L, listing t m = Ok L /\ map i_name L = names m
           /\ forall i, In i L -> exists e, node_at t m [i_name i] e /\ info_matches t e i)
   /\ (forall w name o, fs_open t w name = Ok o ->
         exists n q e, n <= max_symlinks /\ hops t n (go_join (fs_wd w) name) = Some q
           /\ find_node t q = Ok e /\ (forall l, e <> FLink l) /\ open_node t e = Ok o))
  (* ---- 2. fails cleanly on symlink loops and absolute symlinks instead of crashing ---- *)
  /\ ((forall w name, clean_result (fs_open t w name) /\ clean_result (fs_stat t w name))
      /\ (forall w name i m, fs_open t w name = Ok (OpDir i m) -> clean_result (listing t m))
      /\ (forall w name j k q, hops t j (go_join (fs_wd w) name) = Some q -> hops t (S k) q = Some q ->
            fs_open t w name = Err ELoop)
      /\ (forall w name, hops t (S max_symlinks) (go_join (fs_wd w) name) <> None -> fs_open t w name = Err ELoop)
      /\ (forall w name l, find_node t (go_join (fs_wd w) name) = Ok (FLink l) -> is_abs (l_target l) = true ->
            fs_open t w name = Err EAbs))
  (* ---- 3. io/fs contracts: ReadDirFile.ReadDir ---- *)
  /\ ((forall all n, (0 < n)%Z -> drain all 0 n (S (length all)) = (all, true))
      /\ (forall all n, (0 < n)%Z -> readdir all (length all) n = (([], true), length all))
      /\ (forall all ns, readdir_off all 0 ns <= length all
            /\ concat (map fst (readdir_seq all 0 ns)) = firstn (readdir_off all 0 ns) all)
      /\ (forall all off n pg eof off', off <= length all -> readdir all off n = ((pg, eof), off') ->
            off <= off' <= length all
            /\ pg = firstn (off' - off) (skipn off all)
            /\ ((n <= 0)%Z -> off' = length all /\ eof = false)
            /\ ((0 < n)%Z -> (eof = true <-> off = length all) /\ (eof = true -> pg = [])
                            /\ length pg <= Z.to_nat n /\ (off < length all -> pg <> []))))
  (* ---- 4. io/fs contracts: FS.Open rejects names that are not fs.ValidPath ---- *)
  /\ (forall w name, valid_path name = false ->
        (exists e, fs_open t w name = Err e) /\ (exists e, fs_stat t w name = Err e))
  (* ---- 5. io/fs contracts: fs.Stat is the same as Open+Stat ---- *)
  /\ (forall w name o, fs_open t w name = Ok o -> fs_stat t w name = Ok (opened_info o))
  (* ---- 6. views are values.  run st ops: a history of ChangeDir / Open / Stat / ReadDir calls on the
          views (objects) of a store, st = [new_view t w] being the store after New(c, t, w); ask st h q
          is what view h answers to the query q; answer v q is Open/Stat/ReadDir of the view's value
          (clauses 1-5 speak about exactly these: answer (new_view t w) (QOpen n) = fs_open t w n). ---- *)
  /\ ((forall w pre q, ask (fst (run [new_view t w] pre)) 0 q = answer (new_view t w) q)
      /\ (forall st pre h v, nth_error st h = Some v ->
            nth_error (fst (run st pre)) h = Some v /\ forall q, ask (fst (run st pre)) h q = answer v q)
      /\ (forall st h v d, nth_error st h = Some v ->
            step st (VChdir h d) = (st ++ [(fst v, d)], BView (length st)))
      /\ (forall st ops, Forall2 (stable_obs (fst (run st ops))) ops (snd (run st ops)))).

(* Clauses 4 and 5 fail on the unchanged code (findings invalid-path-accepted and
   stat-does-not-follow-symlink): Open("/foo") succeeds on a tree with a file foo. *)
Theorem C29_refuted : ~ C29_statement.
Proof. exact statement_refuted. Qed.
Print Assumptions C29_refuted.

(* Everything else holds for every well-formed tree; clause 5 for every name that is not a symlink;
   clause 6 for every tree, every store of views and every history (ChangeDir as translated from
   fs.go by gotrans: Gen.CasFs.chdir_fresh / chdir_wd). *)
Theorem C29_partial :
  forall t, wf_tree t ->
    faithful_view t /\ fails_cleanly t /\ readdir_contract /\ stat_agrees_with_open_nonlink t /\ views_are_values t.
Proof. exact statement_partial. Qed.
Print Assumptions C29_partial.

(* Non-vacuity.  ex_tree: foo, l -> foo, a -> b, b -> a, abs -> /etc/passwd, up1 -> d/up,
   d/(f, up -> ../foo, out -> ../../x, dang -> nope).  It is well-formed; up1 resolves through two
   links (one of them upwards out of d) to foo; a/b is a loop; abs is absolute; d/out escapes. *)
Example C29_refuted_nonvacuous :
  wf_tree ex_tree
  /\ valid_path (s "/foo") = false
  /\ fs_open ex_tree (WNew dot) (s "/foo") = Ok (OpFile (mk_info (s "foo") 3 0 None) (s "bar"))
  /\ fs_open ex_tree (WNew dot) (s "l") = Ok (OpFile (mk_info (s "foo") 3 0 None) (s "bar"))
  /\ fs_stat ex_tree (WNew dot) (s "l") = Ok (mk_info (s "l") 0 134217728 None).
Proof. split; [exact ex_tree_wf|]. vm_compute. repeat split. Qed.

Example C29_partial_nonvacuous :
  wf_tree ex_tree
  /\ resolves ex_tree 2 [s "up1"] (FFile (mk_fnode (s "foo") 1 3 (None, None)))
  /\ (hops ex_tree 2 (s "a") = Some (s "a") /\ fs_open ex_tree (WNew dot) (s "a") = Err ELoop)
  /\ fs_open ex_tree (WNew dot) (s "abs") = Err EAbs
  /\ fs_open ex_tree (WNew dot) (s "d/out") = Err ENotExist
  /\ fs_open ex_tree (WNew dot) (s "up1") = Ok (OpFile (mk_info (s "foo") 3 0 None) (s "bar"))
  /\ max_symlinks = 40.
Proof.
  split; [exact ex_tree_wf|]. split; [exact ex_resolves_up1|].
  vm_compute. repeat split.
Qed.

(* Clause 6 on ex_tree: ChangeDir("d") on the root view gives view 1; the root view (0) still answers
   from the root afterwards, view 1 answers from d, and a second ChangeDir on view 1 is root-relative. *)
Example C29_views_nonvacuous :
  snd (run [new_view ex_tree (WNew dot)]
           [VAsk 0 (QStat (s "foo")); VChdir 0 (s "d"); VAsk 1 (QStat (s "f")); VAsk 0 (QStat (s "foo"));
            VAsk 0 (QStat (s "f")); VAsk 1 (QStat (s "foo")); VChdir 1 (s "."); VAsk 2 (QStat (s "foo"));
            VAsk 1 (QOpen (s "up")); VAsk 7 (QStat (s "foo"))])
  = [BStat (Ok (mk_info (s "foo") 3 0 None)); BView 1; BStat (Ok (mk_info (s "f") 4 420 None));
     BStat (Ok (mk_info (s "foo") 3 0 None)); BStat (Err ENotExist); BStat (Err ENotExist); BView 2;
     BStat (Ok (mk_info (s "foo") 3 0 None)); BOpen (Ok (OFile (mk_info (s "foo") 3 0 None) (s "bar"))); BNoView]
  /\ Gen.CasFs.chdir_fresh = true.
Proof. vm_compute. repeat split. Qed.
