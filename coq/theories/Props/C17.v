(* C17 - Packages cannot observe or mutate each other's values.
   This file holds only the statement, the property theorems and their non-vacuity examples. *)
From PlzV Require Import Base.Harness Model.C16_Syntax Model.C16_Ops Model.C16_Prim Model.C16_Eval Model.C16.
From PlzV Require Import Proof.C16 Proof.C17.

(* For every subincluded file and every two packages interpreted on one interpreter (so that they share the
   cached, frozen globals of the subinclude): what the second package computes is what it computes when it is
   parsed alone, and what the first package computed is still what it holds after the second has run.  (The
   order of the two packages is arbitrary, so this is the statement for either order.) *)
Definition C17_statement : Prop :=
  forall (fuel : nat) (defs : list (str * prog)) (p1 p2 : prog), no_interference fuel defs p1 p2 = true.

Theorem C17_refuted : ~ C17_statement.
Proof.
  exact (fun H => Bool.diff_false_true (eq_trans (eq_sym nested_interferes) (H FUEL [(lbl, d_nested)] u1 u2))).
Qed.
Print Assumptions C17_refuted.

(* What Freeze does guarantee, for all heaps and values:
   - index assignment through a frozen list or dict always fails;
   - a frozen list WITHOUT spare capacity is read-only for everything a package can apply to it (index assignment
     fails, + writes no existing array);
   - heap writes to different arrays do not affect each other and commute (so the steps of two packages that
     write only arrays of their own can be interleaved in any order);
   but pyList.Freeze is shallow (freeze_list_shallow): the elements of an exported list are not frozen. *)
Definition C17_partial_statement : Prop :=
  (forall st idx v,
     (forall sl, vindex_assign Asp st (VFrozenList sl) idx v = Err EType)
     /\ (forall i, vindex_assign Asp st (VFrozenDict i) idx v = Err EType))
  /\ (forall st sl,
        s_cap sl = s_len sl -> (s_off sl + s_len sl <= length (arr_of st (s_arr sl)))%nat ->
        (forall idx v, vindex_assign Asp st (VFrozenList sl) idx v = Err EType)
        /\ (forall items2, let '(r, st') := list_add Asp sl items2 st in
              forall a, (a < length (arrays st))%nat -> arr_of st' a = arr_of st a))
  /\ (forall a off xs st b, a <> b -> arr_of (arr_write a off xs st) b = arr_of st b)
  /\ (forall a1 o1 xs1 a2 o2 xs2 st, a1 <> a2 ->
        arrays (arr_write a1 o1 xs1 (arr_write a2 o2 xs2 st)) = arrays (arr_write a2 o2 xs2 (arr_write a1 o1 xs1 st)))
  /\ (forall fuel sl st, freeze (S fuel) (VList sl) st = Ok (VFrozenList sl, st)).

Theorem C17_partial : C17_partial_statement.
Proof.
  exact (conj frozen_index_assign_fails (conj frozen_full_list_is_readonly (conj arr_write_other
        (conj arr_write_commute freeze_list_shallow)))).
Qed.
Print Assumptions C17_partial.

(* Non-vacuity: the three refuting shapes compute, and a flat exported list attacked directly, by alias, through
   + and += and through a frozen dict member is NOT interfered with. *)
Example C17_refuted_witnesses :
  no_interference FUEL [(lbl, d_nested)] u1 u2 = false
  /\ no_interference FUEL [(lbl, d_filt)] v1 v2 = false
  /\ no_interference FUEL [(lbl, d_mk)] w1 w2 = false.
Proof. exact (conj nested_interferes (conj spare_capacity_interferes constant_interferes)). Qed.

Example C17_partial_nonvacuous : no_interference FUEL [(lbl, d_flat)] x1 x2 = true.
Proof. exact flat_does_not_interfere. Qed.
