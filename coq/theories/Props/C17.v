(* C17 - Packages cannot observe or mutate each other's values.
   This file holds only the statement, the property theorems and their non-vacuity examples. *)
From PlzV Require Import Base.Harness Model.C16_Syntax Model.C16_Ops Model.C16_Prim Model.C16_Eval Model.C16.
From PlzV Require Import Proof.C17 Proof.C17_Inv Proof.C17_Main Proof.C17_NoConst Proof.C17_Scopes Proof.C17_Iso Proof.C17_Examples.
From PlzV Require Import Proof.C17_Sim1 Proof.C17_Sim7 Proof.C17_Sim8.

(* For every subincluded file and every two packages interpreted on one interpreter (so that they share the
   cached, frozen globals of the subinclude): what the second package computes is what it computes when it is
   parsed alone, and what the first package computed is still what it holds after the second has run.  (The
   order of the two packages is arbitrary, so this is the statement for either order.) *)
Definition C17_statement : Prop :=
  forall (fuel : nat) (defs : list (str * prog)) (p1 p2 : prog), no_interference fuel defs p1 p2 = true.

Theorem C17_refuted : ~ C17_statement.
Proof.
  exact (fun H => Bool.diff_false_true (eq_trans (eq_sym nested_interferes) (H FUEL [(lbl, d_nested)] u1 u2))).
Qed.
Print Assumptions C17_refuted.

(* What IS proved, for the modelled evaluator (Model/C16_Eval.v, asp dialect, every statement, expression, function
   call, builtin and method of the model; the invariant includes that every subincludable file is already in the
   interpreter's cache, so the packages subinclude only loaded files), by induction on the fuel:

   (1) THE FRAME THEOREM, general form.  Classify the arrays and dicts of the heap as Free / Prot(ected) / Dead, the
       functions and file scopes as live / dead.  If the state satisfies the invariant `Inv` (every value the running
       code can reach is `vok`: no mutable reference to a protected object, no reference to a dead one), then after
       ANY sequence of package programs the invariant still holds and NO protected or dead array / dict has changed,
       no dead file scope has changed, the function table has only grown and the subinclude cache is the same.
   (2) Frozen states.  When everything that exists when the packages start is protected (except listed garbage, which
       is dead) - `frozen_state` - no sequence of packages changes ANY array or dict that existed before, and
   (3) every value that is closed in that state (everything a subinclude exported) RENDERS THE SAME after any packages
       were interpreted as before: what a package sees of an import does not depend on which packages were parsed
       before it.
   (4) `deep_frozen` (every list / dict reachable from the value is a frozen wrapper) implies the local condition of
       the invariant; the model's Freeze of a list of scalars IS deep-frozen; Freeze of a list with a nested list is
       NOT (it is shallow) - the refuting class.  `frozen_stateb` is an executable, sound test of (2)'s hypothesis.
   (5) The primitive facts: index assignment through a frozen list / dict always fails; a frozen list is read-only for
       every operation (+ allocates); writes to different arrays commute.

   (6) Sequential isolation: in an interpreter at rest in which nothing reachable is a mutable reference, every BUILD
       file leaves everything that existed before it unchanged (heap, earlier file scopes, functions, cache) and the
       interpreter is at rest again: what a package computed cannot be changed by a package interpreted later.
   (7) The control part of the state (current scope, open local scopes, cache, the other file scopes) is preserved by
       the whole evaluator, without any hypothesis on the heap.

   (8) PARAMETRICITY IN FRESH IDS - the other half of the statement.  From an interpreter at rest (RestInv) whose state is
       closed (every id that occurs in it names an existing object; `closed_stateb`, an executable test, true of every
       state the interpreter reaches), ANY BUILD files bs interpreted after ANY BUILD files h have exactly the outcomes
       (the globals rendered right after each file ran, or the failure) they have when interpreted without h.  Proved by
       a binary simulation over the WHOLE evaluator (Proof/C17_Sim1-7: every expression, statement, comprehension, user
       function call, map/filter/reduce, every builtin and method of the model's asp dialect; induction on the fuel):
       the ids of the two runs differ by a fixed renaming (an id below the number of objects the two states share is
       itself, an id above is shifted by the number of objects h left behind), every primitive commutes with the
       renaming, and `render` does not see it.  (8') both halves together for h ++ bs.
       The hypotheses are those of (6) plus closedness; as in (1)-(7) every subincludable file is already cached.

   NOT proved: that first-time Subinclude of an uncached file (parse, optimise, constant folding, scope.Freeze)
   establishes RestInv in general - it is computed on the example states by the sound executable test. *)
Definition C17_partial_statement : Prop :=
  (* (1) *)
  (forall (ca cd : nat -> mode) (pf ls : nat -> bool) (cs : list value) (defs : list (str * prog)) fuel builds st outs st',
     Inv ca cd pf ls cs defs st ->
     (forall j, length (fscopes st) <= j -> ls j = true) ->
     Forall (fun p => sok_p ca cd pf cs p = true) builds ->
     run_builds Asp defs fuel builds st = (outs, st') ->
     Inv ca cd pf ls cs defs st' /\ frame ca cd ls st st')
  (* (2) *)
  /\ (forall defs dead_a dead_d st0 fuel builds outs st',
        frozen_state defs dead_a dead_d st0 ->
        Forall (pkg_ok dead_a dead_d st0) builds ->
        run_builds Asp defs fuel builds st0 = (outs, st') ->
        (forall a, a < length (arrays st0) -> arr_of st' a = arr_of st0 a)
        /\ (forall i, i < length (dicts st0) -> dict_of st' i = dict_of st0 i)
        /\ (exists X, funcs st' = funcs st0 ++ X)
        /\ subcache st' = subcache st0
        /\ frozen_inv_after defs dead_a dead_d st0 st')
  (* (2') the same for BUILD files: the only condition on the programs is that they contain no optimised.Constant *)
  /\ (forall defs dead_a dead_d st0 fuel builds outs st',
        frozen_state defs dead_a dead_d st0 ->
        Forall (fun p => no_const p = true) builds ->
        run_builds Asp defs fuel builds st0 = (outs, st') ->
        (forall a, a < length (arrays st0) -> arr_of st' a = arr_of st0 a)
        /\ (forall i, i < length (dicts st0) -> dict_of st' i = dict_of st0 i)
        /\ (exists X, funcs st' = funcs st0 ++ X)
        /\ subcache st' = subcache st0
        /\ frozen_inv_after defs dead_a dead_d st0 st')
  (* (3) *)
  /\ (forall defs dead_a dead_d st0 fuel builds outs st' rfuel v,
        frozen_state defs dead_a dead_d st0 ->
        Forall (pkg_ok dead_a dead_d st0) builds ->
        run_builds Asp defs fuel builds st0 = (outs, st') ->
        closedb rfuel st0 (length (arrays st0)) (length (dicts st0)) (length (funcs st0)) v = true ->
        render Asp rfuel st' v = render Asp rfuel st0 v)
  (* (6) sequential isolation: from an interpreter at rest (RestInv: nothing reachable is a mutable reference), after
     the BUILD files b1 everything that exists - b1's file scopes, i.e. what they computed, the whole heap, the
     functions, the cache - is unchanged by any further BUILD files b2; closed values render the same *)
  /\ (forall defs fuel b1 b2 D st0 outs st',
        RestInv defs D st0 -> Forall (fun p => no_const p = true) (b1 ++ b2) ->
        run_builds Asp defs fuel (b1 ++ b2) st0 = (outs, st') ->
        exists o1 st1 o2, run_builds Asp defs fuel b1 st0 = (o1, st1) /\ run_builds Asp defs fuel b2 st1 = (o2, st') /\ outs = o1 ++ o2
          /\ unchanged st0 st1 /\ unchanged st1 st')
  /\ (forall st st' rfuel v, unchanged st st' ->
        closedb rfuel st (length (arrays st)) (length (dicts st)) (length (funcs st)) v = true ->
        render Asp rfuel st' v = render Asp rfuel st v)
  /\ (forall defs D st, rest_invb defs D st = true -> RestInv defs D st)
  (* (8) a package computes the same results whether or not other packages were parsed before it *)
  /\ (forall defs fuel D st0 h outs_h st1 bs,
        RestInv defs D st0 -> closed_stateb st0 = true ->
        Forall (fun p => no_const p = true) h ->
        run_builds Asp defs fuel h st0 = (outs_h, st1) ->
        map (@snd _ _) (fst (run_builds Asp defs fuel bs st1)) = map (@snd _ _) (fst (run_builds Asp defs fuel bs st0)))
  (* (8') both halves: the later files compute what they compute without the earlier ones, and what the earlier ones
     computed is not changed by the later ones *)
  /\ (forall defs fuel D st0 h bs outs st',
        RestInv defs D st0 -> closed_stateb st0 = true ->
        Forall (fun p => no_const p = true) (h ++ bs) ->
        run_builds Asp defs fuel (h ++ bs) st0 = (outs, st') ->
        exists o1 st1 o2, run_builds Asp defs fuel h st0 = (o1, st1) /\ run_builds Asp defs fuel bs st1 = (o2, st') /\ outs = o1 ++ o2
          /\ map (@snd _ _) o2 = map (@snd _ _) (fst (run_builds Asp defs fuel bs st0))
          /\ unchanged st0 st1 /\ unchanged st1 st')
  (* (7) the control part: the evaluator preserves the current scope, the number of open local scopes and the cache,
     and writes no file scope but the current one, and that only at the top level of a file *)
  /\ (forall defs fuel p st e oof st', cachedall defs st -> exec_top Asp defs fuel p st = (e, oof, st') -> sc st st')
  (* (4) *)
  /\ (forall st na nd v, deep_frozen st v -> vok (cls_prefix na []) (cls_prefix nd []) (fun _ => false) v)
  /\ (forall fuel sl st, Forall scalar (list_items Asp st sl) ->
        freeze (S fuel) (VList sl) st = Ok (VFrozenList sl, st) /\ deep_frozen st (VFrozenList sl))
  /\ (forall fuel sl st inner, List.In (VList inner) (list_items Asp st sl) ->
        freeze (S fuel) (VList sl) st = Ok (VFrozenList sl, st) /\ ~ deep_frozen st (VFrozenList sl))
  /\ (forall defs dead_a dead_d st, frozen_stateb defs dead_a dead_d st = true -> frozen_state defs dead_a dead_d st)
  (* (5) *)
  /\ (forall st idx v,
        (forall sl, vindex_assign Asp st (VFrozenList sl) idx v = Err EType)
        /\ (forall i, vindex_assign Asp st (VFrozenDict i) idx v = Err EType))
  /\ (forall st sl,
        (forall idx v, vindex_assign Asp st (VFrozenList sl) idx v = Err EType)
        /\ (forall items2, let '(r, st') := list_add Asp sl items2 st in
              s_arr r = length (arrays st) /\ forall a, a < length (arrays st) -> arr_of st' a = arr_of st a))
  /\ (forall a off xs st b, a <> b -> arr_of (arr_write a off xs st) b = arr_of st b)
  /\ (forall a1 o1 xs1 a2 o2 xs2 st, a1 <> a2 ->
        arrays (arr_write a1 o1 xs1 (arr_write a2 o2 xs2 st)) = arrays (arr_write a2 o2 xs2 (arr_write a1 o1 xs1 st))).

Theorem C17_partial : C17_partial_statement.
Proof.
  exact (conj frame_builds (conj packages_write_nothing_imported (conj build_files_write_nothing_imported (conj imported_values_unchanged
        (conj later_packages_change_nothing (conj unchanged_render (conj rest_invb_sound
        (conj package_result_independent_of_earlier_packages (conj packages_do_not_interfere (conj top_sc
        (conj deep_frozen_vok (conj freeze_flat_list_deep_frozen (conj freeze_nested_not_deep_frozen
        (conj frozen_stateb_sound (conj frozen_index_assign_fails (conj frozen_list_is_readonly
        (conj arr_write_other arr_write_commute))))))))))))))))).
Qed.
Print Assumptions C17_partial.

(* Non-vacuity.  The refuting shapes compute; the two shapes repaired in /repo 7aeabfa no longer interfere. *)
Example C17_refuted_witnesses :
  no_interference FUEL [(lbl, d_nested)] u1 u2 = false
  /\ no_interference FUEL [(lbl, d_mk)] w1 w2 = false
  /\ no_interference FUEL [(lbl, d_dflt)] z1 z2 = false.
Proof. exact (conj nested_interferes (conj constant_interferes default_interferes)). Qed.

Example C17_fixed_classes :
  no_interference FUEL [(lbl, d_filt)] v1 v2 = true /\ no_interference FUEL [(lbl, d_plain)] y1 y2 = true.
Proof. exact (conj spare_capacity_fixed plus_empty_fixed). Qed.

(* The hypotheses of (2)/(3) are satisfied by the state the model's Subinclude leaves for a build_defs file with a
   flat list, a dict with a list member and a function (d_lib) (the unfrozen original of the dict is the one dead object);
   the attacking package xa (alias, +, +=, + [], dict member, index assignment, map, sorted) and the observer xb are covered programs;
   the exported values are closed; and the run of both packages does not interfere.  The hypothesis FAILS for the
   states of the refuting classes (nested list; function returning a constant list; list default argument). *)
Example C17_partial_nonvacuous :
  frozen_stateb [(lbl, d_lib)] [] [0] (state_after d_lib) = true
  /\ forallb (fun p => sok_p (cls_prefix (length (arrays (state_after d_lib))) []) (cls_prefix (length (dicts (state_after d_lib))) [0])
                         (fun _ => false) (consts (state_after d_lib)) p) [xa; xb] = true
  /\ forallb (fun kv => closedb 64 (state_after d_lib) (length (arrays (state_after d_lib))) (length (dicts (state_after d_lib)))
                          (length (funcs (state_after d_lib))) (snd kv)) (exports_of (state_after d_lib)) = true
  /\ forallb no_const [xa; xb] = true
  /\ length (exports_of (state_after d_lib)) = 3
  /\ no_interference FUEL [(lbl, d_lib)] xa xb = true
  /\ rest_invb [(lbl, d_lib)] (Dead4 [] [0] [] []) (state_after d_lib) = true
  /\ frozen_stateb [(lbl, d_nested)] [] [] (state_after d_nested) = false
  /\ frozen_stateb [(lbl, d_mk)] [] [] (state_after d_mk) = false
  /\ frozen_stateb [(lbl, d_dflt)] [] [] (state_after d_dflt) = false.
Proof. exact frozen_examples. Qed.

(* (8): the hypotheses hold on the state Subinclude leaves for d_lib (at rest, closed); the earlier package xa allocates
   (so the renaming between the two runs is not the identity); the later package xc allocates lists, a dict and a
   function, calls it through map(), formats and sorts - its globals are computed; computed directly, the outcomes of
   [xc; xb] after xa equal those without xa; RestInv fails on the states of the three refuting classes.  The second
   example is the theorem applied to that instance. *)
Example C17_parametricity_nonvacuous :
  rest_invb [(lbl, d_lib)] (Dead4 [] [0] [] []) st_lib = true
  /\ closed_stateb st_lib = true
  /\ forallb no_const [xa; xb; xc] = true
  /\ (Nat.ltb (length (arrays st_lib)) (length (arrays st_lib_after_xa)) && Nat.ltb (length (fscopes st_lib)) (length (fscopes st_lib_after_xa))) = true
  /\ match map (@snd _ _) (fst (run_builds Asp [(lbl, d_lib)] FUEL [xc] st_lib)) with
     | [OGlobals a _] =>
         assoc_get (s "own") a = Some (OList false 0 [OInt 3; OInt 1; OInt 2; OInt 4])
         /\ assoc_get (s "m") a = Some (OList false 0 [OInt 2; OInt 3])
         /\ assoc_get (s "c") a = Some (OList false 1 [OInt 1; OInt 2])
         /\ assoc_get (s "t") a = Some (OStr (s "[3 1 2 4]-4"))
         /\ assoc_get (s "so") a = Some (OList false 0 [OInt 1; OInt 2; OInt 3; OInt 4])
         /\ assoc_get (s "g") a = Some (OFunc (s "g"))
     | _ => False
     end
  /\ list_eqb outcome_eqb (map (@snd _ _) (fst (run_builds Asp [(lbl, d_lib)] FUEL [xc; xb] st_lib_after_xa)))
                          (map (@snd _ _) (fst (run_builds Asp [(lbl, d_lib)] FUEL [xc; xb] st_lib))) = true
  /\ rest_invb [(lbl, d_nested)] (Dead4 [] [] [] []) (state_after d_nested) = false
  /\ rest_invb [(lbl, d_mk)] (Dead4 [] [] [] []) (state_after d_mk) = false
  /\ rest_invb [(lbl, d_dflt)] (Dead4 [] [] [] []) (state_after d_dflt) = false.
Proof. exact sim_examples. Qed.

Example C17_parametricity_applied :
  map (@snd _ _) (fst (run_builds Asp [(lbl, d_lib)] FUEL [xc; xb] st_lib_after_xa)) =
  map (@snd _ _) (fst (run_builds Asp [(lbl, d_lib)] FUEL [xc; xb] st_lib)).
Proof. exact xc_after_xa_by_theorem. Qed.

(* ---- follow-up (seeded mutations m1 / m3; appended, see Proof/C17_Followup.v) ----
   The two facts about the anchored code that the frame theorem uses implicitly, for the code gotrans TRANSLATES
   (Gen/C17Freeze.v c17_dict_union_steps, c17_scope_freeze_skips) and for the model's evaluator:
   (U)  `a | b` on a plain or frozen receiver, for ALL operands (the empty ones included), evaluates to a dict that did not
        exist before: it is `vok` in every classification the invariant admits, no array and no existing dict changes;
        the translated `case Union:` clause is total, returns a new dict on every input, and is the evaluator's union;
   (U') in general: every step program without an operand return (steps_fresh) returns a new dict from every point of
        its execution; the translated clause passes that test (this is what a fast path breaks);
   (F)  scope.Freeze as translated is the model's freeze_env, and after it NO name of the file scope - whatever its
        spelling - holds a mutable reference (list / dict); in general, for every name filter, every name the loop does
        not skip is covered, and a skipped name keeps its value unchanged;
   (F') a cached export that is still a mutable reference to an object existing when the packages start contradicts
        `frozen_state`, the hypothesis of (2), (2'), (3) of C17_partial. *)
From PlzV Require Import Gen.C17Freeze Proof.C17_Followup.

Definition C17_followup_statement : Prop :=
  (* (U) *)
  (forall (ca cd : nat -> mode) (pf : nat -> bool) fuel a i j st v st',
     dict_ref a i -> (forall k, cd k <> Free -> k < length (dicts st)) ->
     apply_bin Asp fuel Union a (VDict j) st = Ok (v, st') ->
     v = VDict (length (dicts st)) /\ vok ca cd pf v /\ arrays st' = arrays st
     /\ (forall k, k < length (dicts st) -> dict_of st' k = dict_of st k))
  /\ (forall i j st, exists st',
        union_translated i j st = Some (VDict (length (dicts st)), st') /\ arrays st' = arrays st
        /\ (exists m, dicts st' = dicts st ++ [m]) /\ (forall k, k < length (dicts st) -> dict_of st' k = dict_of st k))
  /\ (forall fuel a i j st, dict_ref a i -> NoDup (map (@fst _ _) (dict_of st i)) ->
        apply_bin Asp fuel Union a (VDict j) st = match union_translated i j st with Some r => Ok r | None => Err EUnsupported end)
  (* (U') *)
  /\ (forall steps i j ret st v st', steps_fresh steps = true -> run_union steps i j ret st = Some (v, st') ->
        v = VDict (length (dicts st)) /\ arrays st' = arrays st /\ (exists m, dicts st' = dicts st ++ [m])
        /\ (forall k, k < length (dicts st) -> dict_of st' k = dict_of st k))
  /\ steps_fresh c17_dict_union_steps = true
  (* (F) *)
  /\ (forall fuel e st, freeze_env_f c17_scope_freeze_skips fuel e st = freeze_env fuel e st)
  /\ (forall fuel e st e' st', freeze_env fuel e st = Ok (e', st') ->
        map (@fst _ _) e' = map (@fst _ _) e /\ Forall (fun kv => is_mutable_ref (snd kv) = false) e')
  /\ (forall skips fuel e st e' st', freeze_env_f skips fuel e st = Ok (e', st') ->
        map (@fst _ _) e' = map (@fst _ _) e
        /\ Forall (fun kv => skipped skips (fst kv) = false -> is_mutable_ref (snd kv) = false) e')
  /\ (forall skips fuel n v r st e' st', skipped skips n = true ->
        freeze_env_f skips fuel ((n, v) :: r) st = Ok (e', st') -> hd_error e' = Some (n, v))
  (* (F') *)
  /\ (forall defs dead_a dead_d st label e n v,
        List.In (label, e) (subcache st) -> List.In (n, v) e ->
        match v with VList sl => s_arr sl < length (arrays st) | VDict i => i < length (dicts st) | _ => False end ->
        ~ frozen_state defs dead_a dead_d st).

Theorem C17_followup : C17_followup_statement.
Proof.
  exact (conj model_union_result_free (conj union_always_new (conj union_translated_is_apply_bin
        (conj fresh_steps_return_new_dict (conj union_steps_pinned (conj freeze_env_translated_is_model
        (conj scope_freeze_covers_every_name (conj freeze_env_f_covers (conj skipped_name_stays_mutable
         mutable_export_not_frozen_state))))))))).
Qed.
Print Assumptions C17_followup.

(* Non-vacuity: IMPORTED | {} on a concrete heap is a new dict, with the fast path of m1 it is the receiver; the unchanged
   scope.Freeze freezes a private list, with the filter of m3 it stays a mutable list. *)
Example C17_followup_nonvacuous :
  union_translated 0 1 ex_st = Some (VDict 2, set_dicts [[(s "opt", VStr (s "-O2"))]; []; [(s "opt", VStr (s "-O2"))]] empty_state)
  /\ freeze_env_f [[95%N]] 4 ex_env ex_st2
     = Ok ([(s "PUB", VFrozenList (Slice 0 0 1 1)); (s "_PRIV", VList (Slice 1 0 1 1)); (s "N", VInt 1)], ex_st2).
Proof. exact (conj (proj1 union_examples) (proj1 (proj2 freeze_examples))). Qed.

(* ---- deepening 3 (appended, see Proof/C17_Init1-5.v): FROM THE EMPTY INTERPRETER ----
   (1)-(8') above start from an interpreter at rest (RestInv), closed (closed_stateb), in which every subincludable file
   is already cached.  Here the three hypotheses are DISCHARGED for the states the interpreter reaches from the EMPTY
   state by first-time Subincludes (parse -> Parser.optimise -> optimiseExpressions' constant folding -> interpretation
   in a scope of its own -> scope.Freeze -> cache) of build_defs files of an executable syntactic fragment:
     file_class base p = None:  after optimisation every top-level statement is  NAME = <scalar literal>,  NAME = [],
       NAME = <optimised.Constant> (a constant list literal; every folded constant of the file must be a list of scalar
       literals), or  def f(a, b=<scalar literal>, c=<non-constant expression without optimised.Constant>): <ANY body
       without optimised.Constant - the whole language of the frame theorem and of the simulation>;
     the three refuting classes are exactly the ways out: NestedExport (a folded constant with a nested list),
       FuncConstant (a constant list literal inside a function), FuncDefault (a constant list as a default);
     defs_defect_class fuel defs runs the loader packages on the model only to know the numbering base of each file's
       constants (how many optimised.Constant objects exist when it is loaded) and classifies each file syntactically.
   Each file is loaded by a loader package (a BUILD file consisting of `subinclude(label)`), in the order of the table.
   (E1) after the loader packages from the empty interpreter: RestInv (with NO dead object), closed_stateb, and - when the
        loads succeeded (their outcomes are globals, not out-of-fuel) - every file cached: the hypotheses of (6), (8), (8');
   (E1') also when a load failed the state is at rest (for the files that are cached) and closed;
   (E2) C17 FROM THE EMPTY INTERPRETER: for all tables of files of the fragment and ALL BUILD files h, bs run after the
        loaders: bs have exactly the outcomes they have without h, and neither h nor bs changes anything that existed
        before it - no hypothesis on any state is left;
   (E3) the same induction from any state satisfying the invariant G and for any list of labels (re-loading a cached
        label, unknown labels and failing loads included): G is preserved, the cache only grows;
   (E4) G implies RestInv and closedness;
   (E5) closedness, the part that follows from isolation: after ANY BUILD files from a state at rest every id in a live
        place (live scopes, cache, live arrays / dicts) names an existing object.
   NOT proved: that closed_stateb is preserved for the GARBAGE earlier packages leave behind (unreachable; needs its own
   induction over the evaluator) - not needed for (E2) since h is arbitrary; a first-time Subinclude in the MIDDLE of a
   package (the frame theorem's invariant fixes `consts`, and the renaming between "b loads the file itself" and "b finds
   it cached" is not a shift); files outside the fragment that are not in a refuting class (top-level calls,
   comprehensions, dicts, nested subincludes) - the executable tests rest_invb / closed_stateb still decide each
   concrete loaded state. *)
From PlzV Require Import Proof.C17_Init1 Proof.C17_Init2 Proof.C17_Init3 Proof.C17_Init4 Proof.C17_Init5.

Definition C17_from_empty_statement : Prop :=
  (* (E1) *)
  (forall defs fuel outs st0, defs_defect_class fuel defs = None ->
     run_builds Asp defs fuel (loaders defs) empty_state = (outs, st0) ->
     forallb loadedb outs = true ->
     RestInv defs D0 st0 /\ closed_stateb st0 = true)
  (* (E1') *)
  /\ (forall defs fuel outs st0, defs_defect_class fuel defs = None ->
        run_builds Asp defs fuel (loaders defs) empty_state = (outs, st0) ->
        RestInv [] D0 st0 /\ closed_stateb st0 = true)
  (* (E2) *)
  /\ (forall defs fuel h bs outs st',
        defs_defect_class fuel defs = None ->
        Forall (fun p => no_const p = true) (h ++ bs) ->
        run_builds Asp defs fuel (loaders defs ++ h ++ bs) empty_state = (outs, st') ->
        exists o0 st0 o1 st1 o2,
          run_builds Asp defs fuel (loaders defs) empty_state = (o0, st0)
          /\ run_builds Asp defs fuel h st0 = (o1, st1) /\ run_builds Asp defs fuel bs st1 = (o2, st') /\ outs = o0 ++ o1 ++ o2
          /\ closed_stateb st0 = true
          /\ (forallb loadedb o0 = true ->
                map (@snd _ _) o2 = map (@snd _ _) (fst (run_builds Asp defs fuel bs st0))
                /\ unchanged st0 st1 /\ unchanged st1 st'))
  (* (E3) *)
  /\ (forall defs fuel ls st outs st', class_run defs fuel ls st = None -> G None st ->
        run_builds Asp defs fuel (map loader ls) st = (outs, st') ->
        G None st' /\ (forallb loadedb outs = true -> forall l, List.In l ls -> cached l st') /\ (forall l', cached l' st -> cached l' st'))
  (* (E4) *)
  /\ (G None empty_state /\ forall st, G None st -> RestInv [] D0 st /\ closed_stateb st = true)
  (* (E5) *)
  /\ (forall defs fuel builds D st outs st', RestInv defs D st ->
        Forall (fun p => no_const p = true) builds ->
        run_builds Asp defs fuel builds st = (outs, st') ->
        exists D', RestInv defs D' st' /\ live_closed D' st')
  (* (E6) a purely syntactic sufficient condition for the classifier (no run of the model): every file of the table is in
     the fragment for EVERY numbering base of its constants *)
  /\ (forall defs, (forall l p base, find_def defs l = Some p -> file_class base p = None) ->
        forall fuel, defs_defect_class fuel defs = None).

Theorem C17_from_empty : C17_from_empty_statement.
Proof.
  exact (conj first_subincludes_establish_rest (conj first_subincludes_closed (conj packages_do_not_interfere_from_empty
        (conj loaders_G (conj (conj G_empty (fun st HG => conj (G_rest st HG) (G_closed st HG))) (conj live_part_stays_closed fragment_table_class)))))).
Qed.
Print Assumptions C17_from_empty.

(* Non-vacuity, from the empty interpreter: two build_defs files of the fragment (a flat list, scalars, an empty list, a
   function with a scalar default; a list of strings, a function with a non-constant default and a list-building body)
   are accepted, the three refuting files are rejected with their class, both loads succeed and the second file's
   constant is numbered after the first one's, the executable tests agree with (E1), the attacking package ya (alias, +,
   +=, + [], index assignment on the copy, map over an imported function, sorted, a call into the second file) and the
   observer yb run to their end with the expected globals. *)
Example C17_from_empty_nonvacuous :
  defs_defect_class FUEL defs2 = None
  /\ defs_defect_class FUEL [(lbl, d_nested)] = Some NestedExport
  /\ defs_defect_class FUEL [(lbl, d_mk)] = Some FuncConstant
  /\ defs_defect_class FUEL [(lbl, d_dflt)] = Some FuncDefault
  /\ defs_defect_class FUEL [(lbl, d_plain)] = None
  /\ forallb loadedb (fst (run_builds Asp defs2 FUEL (loaders defs2) empty_state)) = true
  /\ length (consts st_init) = 2 /\ length (subcache st_init) = 2 /\ length (funcs st_init) = 2
  /\ rest_invb defs2 D0 st_init = true /\ closed_stateb st_init = true
  /\ forallb no_const [ya; yb] = true
  /\ match map (@snd _ _) (fst (run_builds Asp defs2 FUEL [ya; yb] st_init)) with
     | [OGlobals a _; OGlobals b _] =>
         assoc_get (s "e") a = Some (OList false 0 [OInt 7; OInt 1; OInt 2])
         /\ assoc_get (s "m") a = Some (OList false 0 [OInt 4; OInt 2; OInt 3; OInt 5])
         /\ assoc_get (s "so") a = Some (OList false 0 [OInt 1; OInt 2; OInt 7])
         /\ assoc_get (s "seen") b = Some (OList true 0 [OInt 3; OInt 1; OInt 2])
         /\ assoc_get (s "i") b = Some (OInt 8)
         /\ assoc_get (s "nm") b = Some (OList true 0 [OStr (s "a"); OStr (s "b")])
         /\ assoc_get (s "tw") b = Some (OList false 0 [OList true 0 []; OList true 0 []])
     | _ => False
     end.
Proof. exact init_examples. Qed.

(* (E2) applied to that instance: yb after ya computes what it computes without ya, and ya changed nothing that the
   loads produced - no part of the second run is computed *)
Example C17_from_empty_applied :
  map (@snd _ _) (fst (run_builds Asp defs2 FUEL [yb] (snd (run_builds Asp defs2 FUEL [ya] st_init)))) =
  map (@snd _ _) (fst (run_builds Asp defs2 FUEL [yb] st_init))
  /\ unchanged st_init (snd (run_builds Asp defs2 FUEL [ya] st_init)).
Proof. exact init_applied. Qed.

(* (E6) on the same table: computed with the numbering base left symbolic *)
Example C17_from_empty_syntactic : forall l p base, find_def defs2 l = Some p -> file_class base p = None.
Proof. exact defs2_in_fragment. Qed.

(* ------------------------------------------------------------------------------------------------------------------
   Follow-up 2: the CONFIG object (Model/C17_Config.v; pyConfig.Merge and the dict branch of package() are interpreted
   from the statements gotrans translates from /repo, Gen/C17Config.v).

   C17_config_statement: on one interpreter, whatever packages were parsed before it, a package ends with the CONFIG it
   ends with when parsed alone.  REFUTED: pyConfig.Freeze freezes none of the overlay's values, so a dict-valued entry a
   subincluded file sets is one ordinary mutable dict in every including package (x = CONFIG.MYLANG; x["OPT"] = ...).
   C17_config_partial, for packages without such a write (safe; every other statement of the model: subinclude in any
   order and repeatedly, CONFIG[k] = v, CONFIG.setdefault, package(k = "v"), package(k = {"nk": "v"}), also raising ones):
   (C1) every interpreter state reached from the empty one by ANY sequence of packages is canon - no exported dict has
        been written to and every cached overlay is still what the text of its build_defs file determines;
   (C2) what every package of a sequence ends with, AND what it still has after all the others ran, is a function of its
        own text (and the text of the files it subincludes) only;
   (C3) hence b after any history = b alone, and (C4) after = final for every package. *)
From PlzV Require Import Model.C17_Config Proof.C17_ConfigIso.

Definition C17_config_statement : Prop :=
  forall defs base keys nkeys hist b,
    nth_error (scenario defs base keys nkeys (hist ++ [b])) (length hist) = nth_error (scenario defs base keys nkeys [b]) 0.

Theorem C17_config_refuted : ~ C17_config_statement.
Proof. exact cfg_refuted. Qed.
Print Assumptions C17_config_refuted.

Definition C17_config_partial_statement : Prop :=
  (* (C1) *)
  (forall defs base keys nkeys pkgs, Forall safe pkgs -> canon defs base (fst (run_pkgs defs base keys nkeys pkgs g0)))
  (* (C2) *)
  /\ (forall defs base keys nkeys pkgs, Forall safe pkgs ->
        scenario defs base keys nkeys pkgs = map (pure_pkg defs base keys nkeys) pkgs)
  (* (C3) *)
  /\ (forall defs base keys nkeys hist b, Forall safe hist -> safe b ->
        nth_error (scenario defs base keys nkeys (hist ++ [b])) (length hist) = nth_error (scenario defs base keys nkeys [b]) 0)
  (* (C4) *)
  /\ (forall defs base keys nkeys pkgs, Forall safe pkgs ->
        Forall (fun o => match o with COErr => True | COOk a f => a = f end) (scenario defs base keys nkeys pkgs)).

Theorem C17_config_partial : C17_config_partial_statement.
Proof. exact (conj canon_invariant (conj scenario_pure (conj cfg_isolation cfg_stable))). Qed.
Print Assumptions C17_config_partial.

(* Non-vacuity: a package that subincludes the file, overrides one nested key with package(), assigns and setdefaults is
   safe; it ends with its override, and the package after it still reads the file's values. *)
Example C17_config_partial_nonvacuous :
  Forall safe [ea] /\ safe wb /\
  scenario wdefs [] [s "MYLANG"; s "K"] [s "OPT"; s "WARN"] [ea; wb]
  = [COOk [RVDict [Some (s "-O0"); Some (s "-Wall")]; RVStr (s "x")] [RVDict [Some (s "-O0"); Some (s "-Wall")]; RVStr (s "x")];
     COOk [RVDict [Some (s "-O2"); Some (s "-Wall")]; RVNone] [RVDict [Some (s "-O2"); Some (s "-Wall")]; RVNone]].
Proof. exact cfg_partial_nonvacuous. Qed.
