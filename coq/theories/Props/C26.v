(* C26 - Test outcomes are parsed and summarised faithfully.
   "For any set of test cases with pass, fail, error, skip and flaky-retry outcomes written in the supported result
   formats (JUnit XML, `go test -v` output), Please reports the same test cases with the same outcome counts.  A test
   target is reported as passing exactly when every case passed or was skipped within its flakiness allowance."
   This file holds only the statement, the property theorems and their non-vacuity examples. *)
From PlzV Require Import Base.Harness Model.C26 Proof.C26.

Definition C26_statement : Prop :=
  (* the same outcome counts: every case is counted under exactly one of passed / flake / failed / errored / skipped *)
  (forall s, wf s -> passes s + flaky_passes s + failures s + errors s + skips s = tests s)
  (* ... and each counter counts the cases of its outcome kind (kind_of: decided from the executions alone) *)
  /\ (forall s, wf s ->
        passes s = count_kind KPass s /\ flaky_passes s = count_kind KFlaky s /\ failures s = count_kind KFail s
        /\ errors s = count_kind KError s /\ skips s = count_kind KSkip s)
  (* the target passes exactly when every case written in an executed attempt (at most `n` attempts, stopping after
     the first fully successful one) passed or was skipped in some executed attempt *)
  /\ (forall n runs,
        target_passes n runs = true <->
        forall r c, In r (executed n runs) -> In c r ->
          exists r' c', In r' (executed n runs) /\ In c' r' /\ key c' = key c /\ case_ok c' = true)
  (* the same test cases: what is reported for one attempt is that attempt's cases, repeated names included ... *)
  /\ (forall r, wf r -> target_results 1 [r] = r)
  /\ (forall r, wf r -> target_passes 1 [r] = all_succeeded r)
  (* ... and across retries the executions recorded under a name are those of the attempts, in order *)
  /\ (forall n runs k, execs_for k (flake_run n runs) = execs_for k (concat (executed n runs)))
  /\ (forall n runs, (forall r, In r runs -> wf r) -> wf (flake_run n runs))
  (* JUnit XML: every <testcase> of the document, nested suites and bare cases included, with its names and its
     outcome; `go test -v`: every test with its result *)
  /\ (forall d, parse_xml d = map to_case (doc_all d))
  /\ (forall x, well_marked x = true -> kind_of (append_result x) = intended_kind x)
  /\ (forall t, map (fun c => (c_name c, kind_of (c_execs c))) (parse_go t) = map (fun x => (fst x, go_kind (snd x))) t)
  (* an attempt whose exit status agrees with its results (non-zero iff some case neither passed nor was skipped)
     is reported as exactly the cases it wrote *)
  /\ (forall name d ds r, parse_results (d :: ds) [] = Some r ->
        parse_output name false (negb (all_succeeded r)) (d :: ds) = r).

(* The unchanged code violates the statement: a case that passed twice is counted as passed AND as a flake. *)
Theorem C26_refuted : ~ C26_statement.
Proof. exact full_statement_refuted. Qed.
Print Assumptions C26_refuted.

(* One witness per defect class: double counting (passed twice; skipped then passed), repeated names merged by Add,
   nested <testsuite> dropped, exit status compared with Failures() only. *)
Theorem C26_refuted_classes : refuted_classes.
Proof. exact refuted_classes_hold. Qed.
Print Assumptions C26_refuted_classes.

(* What the code does guarantee, for all suites, allowances, attempt sequences and documents: the exact size of the
   double count (`double` is the executable classifier), exact counters outside that class, the pass decision, identity
   and order preservation when names are not repeated, and faithful parsing of flat well-marked documents. *)
Theorem C26_partial : partial_statement.
Proof. exact partial_statement_holds. Qed.
Print Assumptions C26_partial.

(* Non-vacuity. *)
Example C26_nonvacuous_counts :
  let sx := [mkCase (s "c") (s "a") [ePass]; mkCase (s "c") (s "b") [eFail; ePass]; mkCase (s "c") (s "d") [eFail; eFail];
             mkCase (s "c") (s "e") [eErr]; mkCase (s "c") (s "f") [eSkip]] in
  (forall c, In c sx -> double c = false)
  /\ (passes sx, flaky_passes sx, failures sx, errors sx, skips sx, tests sx) = (1, 1, 1, 1, 1, 5).
Proof. split; [intros c H; repeat (destruct H as [<-|H]; [reflexivity|]); destruct H|vm_compute; reflexivity]. Qed.

Example C26_nonvacuous_flake :
  let a := fun o => mkCase (s "c") (s "A") [o] in let b := fun o => mkCase (s "c") (s "B") [o] in
  let runs := [[a ePass; b eFail]; [a eFail; b ePass]; [a eFail; b eFail]] in
  executed 3 runs = runs /\ executed 2 runs = firstn 2 runs
  /\ target_passes 2 runs = true /\ target_passes 1 runs = false
  /\ executed 3 [[a ePass; b ePass]; [a eFail; b eFail]] = [[a ePass; b ePass]].
Proof. vm_compute. repeat split. Qed.

Example C26_nonvacuous_parse :
  let d := [XSuites [XS [mkX (s "c") (s "a&b") false false false 1 1 0 0; mkX (s "c") (s "x") true false false 0 0 1 0] [];
                     XS [mkX [] (s "y") false false true 0 0 0 0] []]] in
  doc_flat d = true /\ forallb well_marked (doc_all d) = true
  /\ counters (parse_xml d) = [3; 0; 1; 1; 0; 1]%N.
Proof. vm_compute. repeat split. Qed.
