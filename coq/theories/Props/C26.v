(* C26 - Test outcomes are parsed and summarised faithfully.
   "For any set of test cases with pass, fail, error, skip and flaky-retry outcomes written in the supported result
   formats (JUnit XML, `go test -v` output), Please reports the same test cases with the same outcome counts.  A test
   target is reported as passing exactly when every case passed or was skipped within its flakiness allowance."
   This file holds only the statement, the property theorems and their non-vacuity examples. *)
From PlzV Require Import Base.Harness Model.C26 Proof.C26 Proof.C26_followup Proof.C26_followup2.
From Coq Require Import Permutation.

Definition C26_statement : Prop :=
  (* the same outcome counts: every case is counted under exactly one of passed / flake / failed / errored / skipped *)
  (forall s, wf s -> passes s + flaky_passes s + failures s + errors s + skips s = tests s)
  (* ... and each counter counts the cases of its outcome kind (kind_of: decided from the executions alone) *)
  /\ (forall s, wf s ->
        passes s = count_kind KPass s /\ flaky_passes s = count_kind KFlaky s /\ failures s = count_kind KFail s
        /\ errors s = count_kind KError s /\ skips s = count_kind KSkip s)
  (* the target passes exactly when every case written in an executed attempt (at most `n` attempts, stopping after
     the first fully successful one) passed or was skipped in some executed attempt *)
  /\ (forall n runs,
        target_passes n runs = true <->
        forall r c, In r (executed n runs) -> In c r ->
          exists r' c', In r' (executed n runs) /\ In c' r' /\ key c' = key c /\ case_ok c' = true)
  (* the same test cases: what is reported for one attempt is that attempt's cases, repeated names included ... *)
  /\ (forall r, wf r -> target_results 1 [r] = r)
  /\ (forall r, wf r -> target_passes 1 [r] = all_succeeded r)
  (* ... and across retries the executions recorded under a name are those of the attempts, in order *)
  /\ (forall n runs k, execs_for k (flake_run n runs) = execs_for k (concat (executed n runs)))
  /\ (forall n runs, (forall r, In r runs -> wf r) -> wf (flake_run n runs))
  (* JUnit XML: every <testcase> of the document, nested suites and bare cases included, with its names and its
     outcome; `go test -v`: every test with its result *)
  /\ (forall d, parse_xml d = map to_case (doc_all d))
  /\ (forall x, well_marked x = true -> kind_of (append_result x) = intended_kind x)
  /\ (forall t, map (fun c => (c_name c, kind_of (c_execs c))) (parse_go t) = map (fun x => (fst x, go_kind (snd x))) t)
  (* an attempt whose exit status agrees with its results (non-zero iff some case neither passed nor was skipped)
     is reported as exactly the cases it wrote *)
  /\ (forall name d ds r, parse_results (d :: ds) [] = Some r ->
        parse_output name false (negb (all_succeeded r)) (d :: ds) = r)
  (* a second `plz test` of an unchanged target (nothing is re-run) reports the same outcome counts *)
  /\ (forall name no n atts,
        counters (fst (second_report name no n atts)) = counters (first_report name no n atts)).

(* The unchanged code violates the statement: a case that passed twice is counted as passed AND as a flake. *)
Theorem C26_refuted : ~ C26_statement.
Proof. exact full_statement_refuted. Qed.
Print Assumptions C26_refuted.

(* One witness per defect class: double counting (passed twice; skipped then passed), repeated names merged by Add,
   nested <testsuite> dropped, exit status compared with Failures() only. *)
Theorem C26_refuted_classes : refuted_classes.
Proof. exact refuted_classes_hold. Qed.
Print Assumptions C26_refuted_classes.

(* What the code does guarantee, for all suites, allowances, attempt sequences and documents: the exact size of the
   double count (`double` is the executable classifier), exact counters outside that class, the pass decision, identity
   and order preservation when names are not repeated, and faithful parsing of flat well-marked documents. *)
Theorem C26_partial : partial_statement.
Proof. exact partial_statement_holds. Qed.
Print Assumptions C26_partial.

(* Follow-up: TestSuite.Add keys a case by the PAIR (name, classname): two cases with different pairs are never
   merged (whatever their joined form is), every execution reported under a case was written under the same pair,
   and the tests reported for a target are exactly the distinct pairs written in the executed attempts.  The cached
   path: what a second invocation reports from the stored results succeeded entirely, invents no case, and equals
   the first report (all counters) when the first attempt passed with distinct pairs; a re-run repeats the first
   report; the stored file is read whatever its name, a results directory in an order that does not matter. *)
Theorem C26_partial_followup : followup_statement.
Proof. exact followup_statement_holds. Qed.
Print Assumptions C26_partial_followup.

(* Follow-up 2: (1) a results file of length zero - alone, or as one shard of a results directory, whatever the exit
   status - is rejected by the loop of parseTestResults (regenerated statement by statement as Gen.results_step): the
   attempt is reported as the synthetic errored case, and a target all of whose attempts left such a file is never
   reported as passing, for every allowance and number of attempts.  (2) For every history of invocations of an
   unchanged target, with and without test arguments (the guards of cacheOutputFiles / needToRun are regenerated as
   Gen.cache_refused / Gen.need_run_forced), every invocation WITHOUT arguments reports what a first or a second
   invocation of the complete test reports - never what an argument-restricted run left - and reports the target as
   passing only if the complete test passes. *)
Theorem C26_partial_followup2 : followup2_statement.
Proof. exact followup2_statement_holds. Qed.
Print Assumptions C26_partial_followup2.

(* Non-vacuity. *)
Example C26_nonvacuous_empty_shard :
  first_report (s "t") false 1 [w_empty_shard] = [mkCase [] (s "t") [eErr]]
  /\ counters (first_report (s "t") false 1 [w_empty_shard]) = [1; 0; 0; 0; 1; 0]%N
  /\ all_succeeded (first_report (s "t") false 1 [mkAttempt false [DEmpty]]) = false.
Proof. exact empty_shard_witness. Qed.

Example C26_nonvacuous_argument_history :
  Forall (plain_is_full w_full_ok) [mkInv true w_sub; mkInv false w_full_ok; mkInv true w_sub; mkInv false w_full_ok]
  /\ map (fun r => (counters (fst r), all_succeeded (fst r), snd r))
      (run_history (s "t") false 1 t_init [mkInv true w_sub; mkInv false w_full_ok; mkInv true w_sub; mkInv false w_full_ok])
  = [([1; 1; 0; 0; 0; 0]%N, true, false); ([2; 1; 0; 0; 0; 1]%N, true, false);
     ([1; 1; 0; 0; 0; 0]%N, true, false); ([2; 1; 0; 0; 0; 1]%N, true, true)].
Proof.
  split; [|exact (proj2 argument_history_witness)].
  repeat constructor; intros H; try discriminate H; reflexivity.
Qed.

Example C26_nonvacuous_pairs :
  joined w_join_a = joined w_join_b /\ key w_join_a <> key w_join_b
  /\ add_all [] [w_join_a; w_join_b] = [w_join_a; w_join_b]
  /\ target_passes 1 [[w_join_a; w_join_b]] = false
  /\ counters (target_results 1 [[w_join_a; w_join_b]]) = [2; 1; 0; 1; 0; 0]%N.
Proof. exact joined_collision. Qed.

Example C26_nonvacuous_cached :
  let a := mkAttempt false [DXml [XSuite (XS [mkX (s "pkg.Outer") (s "Inner.t") false false false 0 0 0 0;
                                               mkX (s "pkg.Outer.Inner") (s "t") false false true 0 0 0 0] [])]] in
  second_report (s "t") false 1 [a] = (first_report (s "t") false 1 [a], true)
  /\ counters (first_report (s "t") false 1 [a]) = [2; 1; 0; 0; 0; 1]%N
  /\ snd (second_report (s "t") false 2 w_retry) = true
  /\ counters (first_report (s "t") false 2 w_retry) = [1; 0; 1; 0; 0; 0]%N
  /\ counters (fst (second_report (s "t") false 2 w_retry)) = [1; 1; 0; 0; 0; 0]%N.
Proof. vm_compute. repeat split. Qed.

Example C26_nonvacuous_counts :
  let sx := [mkCase (s "c") (s "a") [ePass]; mkCase (s "c") (s "b") [eFail; ePass]; mkCase (s "c") (s "d") [eFail; eFail];
             mkCase (s "c") (s "e") [eErr]; mkCase (s "c") (s "f") [eSkip]] in
  (forall c, In c sx -> double c = false)
  /\ (passes sx, flaky_passes sx, failures sx, errors sx, skips sx, tests sx) = (1, 1, 1, 1, 1, 5).
Proof. split; [intros c H; repeat (destruct H as [<-|H]; [reflexivity|]); destruct H|vm_compute; reflexivity]. Qed.

Example C26_nonvacuous_flake :
  let a := fun o => mkCase (s "c") (s "A") [o] in let b := fun o => mkCase (s "c") (s "B") [o] in
  let runs := [[a ePass; b eFail]; [a eFail; b ePass]; [a eFail; b eFail]] in
  executed 3 runs = runs /\ executed 2 runs = firstn 2 runs
  /\ target_passes 2 runs = true /\ target_passes 1 runs = false
  /\ executed 3 [[a ePass; b ePass]; [a eFail; b eFail]] = [[a ePass; b ePass]].
Proof. vm_compute. repeat split. Qed.

Example C26_nonvacuous_parse :
  let d := [XSuites [XS [mkX (s "c") (s "a&b") false false false 1 1 0 0; mkX (s "c") (s "x") true false false 0 0 1 0] [];
                     XS [mkX [] (s "y") false false true 0 0 0 0] []]] in
  doc_flat d = true /\ forallb well_marked (doc_all d) = true
  /\ counters (parse_xml d) = [3; 0; 1; 1; 0; 1]%N.
Proof. vm_compute. repeat split. Qed.
