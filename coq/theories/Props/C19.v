(* C19 - The BUILD parser is total and fails only with positioned errors.
   This file holds only the statement, the property theorems and their non-vacuity examples.

   Model.C19.parse isld depth bs is parseFileInput (= Parser.ParseData) on the file contents bs:
     POk      a program (the number of top-level statements is kept),
     PSyn p   a syntax error; it carries the byte position p by construction (lexer or parser fail()),
     PInternal an index out of range / slice bounds error in the Go code (recover() would turn it into
              an unpositioned "runtime error"),
     PDeep    recursion deeper than `depth` - in Go "fatal error: stack overflow", which recover()
              cannot catch: the process dies.  (In the parser the model spends one unit of depth per
              nested production AND per loop iteration, so its depth is an upper bound of Go's.)
   isld is unicode.IsLetter||IsDigit (arbitrary).  Modelled productions (ALL of grammar_parse.go, as a
   recogniser): file input, statement (pass/continue/break/def/for/if/return/raise/assert/ident
   statement/expression statement), statements block, return, funcdef, argument (types, aliases,
   default), if/elif/else, for, ident list, expression + inline if, unconditional expression (unary,
   "not in", "is not", operator chain), value expression (strings, f-strings, concatStrings, ints,
   constants, list, tuple, dict, lambda, ident expression, slices, property, call), ident statement
   (unpack, index assign, property, call, assign, augmented assign), ident expression, call (named
   arguments via AssignFollows, repeated names), list / dict (comprehensions), slice, comprehension,
   lambda, f-string splitting (findBrace).  The lexer is modelled completely. *)
From Coq Require Import String Sorted.
From PlzV Require Import Base.Harness Model.C19 Proof.C19 Proof.C19_Parser Proof.C19_Entry Proof.C19_Round2.

(* The property at full strength: with SOME finite stack, every byte string either parses or is
   rejected with a positioned error - never an internal error, never a crash. *)
Definition C19_statement : Prop :=
  exists depth : nat, forall (isld : N -> bool) (bs : str), outcome_ok (parse isld depth bs).

(* REFUTED: for every stack depth there is an input (depth+1 carriage returns; the harness also
   shows nested brackets) on which the recursion of lex.nextToken is deeper: the process dies. *)
Theorem C19_refuted : ~ C19_statement.
Proof. exact no_depth_suffices. Qed.
Print Assumptions C19_refuted.

(* The lexer alone (lexer.go, complete), for ALL byte strings and all letter predicates: it terminates
   with recursion depth at most length+5, never indexes outside the NUL-NUL-terminated buffer, never
   pops the empty indentation stack; the result is a token stream or a positioned error. *)
Theorem C19_lex_total :
  forall (isld : N -> bool) (bs : str) (depth : nat),
    lex_fuel bs <= depth -> lex_ok (lex_all isld depth bs).
Proof. exact lex_total. Qed.
Print Assumptions C19_lex_total.

(* The postcondition of the lexer on the tokens it emits, for ALL byte strings, letter predicates and
   depths (also on the tokens emitted before a positioned error): a String token is a double quote, any
   bytes, a double quote, preceded by f for an f-string (so tok.Value[0], tok.Value[2:len-1] and
   String[1:len-1] are in range); an Int token is not empty; an EOF token has no value; positions never
   decrease; a complete stream ends with the EOF token. *)
Definition C19_lex_tokens_statement : Prop :=
  forall (isld : N -> bool) (bs : str) (depth : nat),
    Forall WfTok (toks_of (lex_all isld depth bs))
    /\ StronglySorted (fun a c => tpos a <= tpos c) (toks_of (lex_all isld depth bs))
    /\ (forall toks, lex_all isld depth bs = LexOk toks -> exists pre t, toks = pre ++ [t] /\ ttype t = TEOF).

Theorem C19_lex_tokens : C19_lex_tokens_statement.
Proof. exact (fun isld bs depth => conj (lex_all_wf isld depth bs) (conj (lex_all_asc isld depth bs) (lex_all_eof isld depth bs))). Qed.
Print Assumptions C19_lex_tokens.

(* The parser (grammar_parse.go, EVERY production listed above, on top of the complete lexer), for ALL
   byte strings and letter predicates: with recursion depth 19 * length + 75 (linear) parseFileInput
   yields a program or a positioned syntax error - never PInternal (no index / slice expression of
   concatStrings, parseFString / findBrace, tok.Value[0], AssignFollows or of the lexer called past
   the first sentinel is out of range), never PDeep.  Proved by an invariant between productions
   (Proof.C19_Parser.PInv: lexer invariant + the lookahead is well-formed + the lexer is past the data only
   when the lookahead is EOF), a payload invariant for parseValueExpression (a String value has both
   quotes) and the progress measure 6 * M + rank (M = the lexer's token measure, rank = number of nested
   productions that can be entered without taking a token, at most 5). *)
Theorem C19_parse_safe :
  forall (isld : N -> bool) (bs : str) (depth : nat),
    19 * length bs + 75 <= depth -> outcome_ok (parse isld depth bs).
Proof. exact parse_safe. Qed.
Print Assumptions C19_parse_safe.

(* The PUBLIC entry points.  Model.C19.parse_data isld depth bs is Parser.ParseData (ParseReader / ParseFileOnly /
   ParseFile reach the parser through the same Parser.parseAndHandleErrors) on the file contents bs: the five
   statements of parseFileInput in the order gotrans reads off the source (Gen.C19Tables.parse_file_input_steps),
   then parseAndHandleErrors, which dereferences the returned *FileInput on both paths
   (Gen.C19Tables.handle_*_derefs_input):
     EProg n  a program,  ESyn p  a positioned error,  EInternal  an unpositioned runtime error value,
     ECrash   a panic leaves the entry point (no recover registered yet, or a nil *FileInput dereferenced by the
              wrapper outside any recover),  EDeep  fatal stack overflow.
   For ALL byte strings - in particular those whose FIRST token is a lexical error (newLexer lexes it eagerly,
   before the statement loop) - and all letter predicates, within the same linear depth the entry point
   returns a program or a positioned error. *)
Theorem C19_entry_safe :
  forall (isld : N -> bool) (bs : str) (depth : nat),
    19 * length bs + 75 <= depth -> entry_ok (parse_data isld depth bs).
Proof. exact parse_data_safe. Qed.
Print Assumptions C19_entry_safe.

(* Why the order matters, for ANY arrangement of parseFileInput's statements and either choice of what
   parseAndHandleErrors returns on its two paths (dok / derr: it dereferences the *FileInput): if the executable
   criterion safe_order holds ("the recover is registered and - when the error path dereferences - the FileInput is
   allocated before newLexer and before the loop; the FileInput is allocated before the return when the ok path
   dereferences") then NO input, letter predicate or depth makes a panic leave the entry point; and for each of
   the 11 arrangements the translator accepts the criterion is exact: when it fails, the empty file or the
   one-byte file "\t" (a lexical error in token 0) crashes the entry point. *)
Definition C19_entry_order_statement : Prop :=
  (forall steps dok derr, safe_order dok derr false false steps = true ->
     forall isld f b, parse_data_with steps dok derr isld f b <> ECrash)
  /\ (forall steps dok derr, In steps emit_shapes ->
        (safe_order dok derr false false steps = true
         <-> forall isld f b, parse_data_with steps dok derr isld f b <> ECrash))
  /\ In entry_steps emit_shapes
  /\ safe_order Gen.C19Tables.handle_ok_derefs_input Gen.C19Tables.handle_err_derefs_input false false entry_steps = true.

Theorem C19_entry_order : C19_entry_order_statement.
Proof.
  exact (conj safe_order_no_crash (conj order_decides_crash (conj (proj2 emit_shapes_count) eq_refl))).
Qed.
Print Assumptions C19_entry_order.

(* PARTIAL: what holds of the code as it is.
   (1) lexer totality within linear recursion depth (as above);
   (2) ParseData's lexer start-up (newLexer) within the same depth yields a token or a positioned error;
   (3) the lexer's postcondition on tokens;
   (4) the whole parser is safe within linear depth: a program or a positioned error;
   (5) the defect class is exactly "recursion depth": for every depth some input of length depth+1
       exceeds it (so no depth limit short of the input length could be proved; (4) is linear);
   (6) the public entry point (parseFileInput's statement order + parseAndHandleErrors) is safe within the
       same depth: a program or a positioned error, never a panic that leaves it. *)
Definition C19_partial_statement : Prop :=
  (forall isld bs depth, lex_fuel bs <= depth -> lex_ok (lex_all isld depth bs))
  /\ (forall isld bs depth, lex_fuel bs <= depth ->
        match new_lexer isld (buffer bs) depth with LTok _ _ | LErr _ => True | LInternal | LDeep => False end)
  /\ C19_lex_tokens_statement
  /\ (forall isld bs depth, 19 * length bs + 75 <= depth -> outcome_ok (parse isld depth bs))
  /\ (forall isld depth, exists bs, length bs = S depth /\ parse isld depth bs = PDeep)
  /\ (forall isld bs depth, 19 * length bs + 75 <= depth -> entry_ok (parse_data isld depth bs)).

Theorem C19_partial : C19_partial_statement.
Proof. exact (conj lex_total (conj new_lexer_total (conj C19_lex_tokens (conj parse_safe (conj deep_for_every_depth parse_data_safe))))). Qed.
Print Assumptions C19_partial.

(* Non-vacuity: the model lexes and parses real programs, reports positioned errors, and the pre-fix
   crash input (a string followed by an f-string without variables) parses. *)
Example C19_nonvacuous :
  let isld := fun _ : N => false in
  let src := s "x = ""a"" f""b""" in
  (match lex_all isld (lex_fuel src) src with LexOk toks => length toks | _ => 0 end) = 6
  /\ (match parse isld (parse_fuel src) src with POk (VNum k) _ => Some k | _ => None end) = Some 1
  /\ parse isld 100 (s "x = f""{a""") = PSyn 6
  /\ parse isld 100 (s "x = (") = PSyn 6
  /\ parse isld 3 [13; 13; 13; 13]%N = PDeep.
Proof. vm_compute. repeat split. Qed.

(* Non-vacuity of C19_parse_safe / C19_lex_tokens: at exactly the depth of the theorem the model parses a
   program with strings, an f-string with a variable, a call with a named argument and a comprehension,
   and rejects a cut-short one with a position; the tokens of the first are well-formed (decided here by
   computation: the stream contains String and Int tokens). *)
Example C19_parse_safe_nonvacuous :
  let isld := fun _ : N => false in
  let src := s "x = [f(a = ""b"" f""{c}d"", e = 12)[1:] for y in z if not y]" in
  let bad := s "def f(a: str = 'x' 'y'" in
  (match parse isld (19 * length src + 75) src with POk (VNum k) _ => Some k | _ => None end) = Some 1
  /\ parse isld (19 * length bad + 75) bad = PSyn 23
  /\ (match lex_all isld (lex_fuel src) src with
      | LexOk toks => (length (filter (fun t => (ttype t =? TString)%Z) toks),
                       length (filter (fun t => (ttype t =? TInt)%Z) toks))
      | _ => (0, 0) end) = (2, 2).
Proof. vm_compute. repeat split. Qed.

(* Non-vacuity of C19_entry_safe / C19_entry_order: at the depth of the theorem the entry point model returns a
   program, and positioned errors for lexical errors in the very first token (tab, $, unterminated string,
   invalid UTF-8, also after blank lines); the arrangement with the allocation moved below newLexer is one of the
   shapes, fails the criterion and crashes on "\t". *)
Example C19_entry_nonvacuous :
  let isld := fun _ : N => false in
  let d b := 19 * length b + 75 in
  parse_data isld (d (s "x = 1")) (s "x = 1") = EProg 1
  /\ parse_data isld (d [9%N; 120%N]) [9%N; 120%N] = ESyn 0
  /\ parse_data isld (d (s "$foo = 1")) (s "$foo = 1") = ESyn 0
  /\ parse_data isld (d (s "'unterminated")) (s "'unterminated") = ESyn 0
  /\ parse_data isld (d [255%N; 254%N]) [255%N; 254%N] = ESyn 0
  /\ parse_data isld (d [10%N; 10%N; 32%N; 63%N]) [10%N; 10%N; 32%N; 63%N] = ESyn 3
  /\ In [SDefer; SNewLexer; SAlloc; SLoop; SReturn] emit_shapes
  /\ safe_order true true false false [SDefer; SNewLexer; SAlloc; SLoop; SReturn] = false
  /\ parse_data_with [SDefer; SNewLexer; SAlloc; SLoop; SReturn] true true isld 20 [9%N] = ECrash.
Proof. vm_compute. repeat split; tauto. Qed.

(* ---- round-2 follow-up: printing the error, one parser over many files, concurrent failing parses ---------- *)

(* PRINTING the positioned error never panics: for every displayed line (any length), every column >= 1 (what
   File.Pos produces), with and without readLine context, coloured or plain, errorStack.errorMessage - the guard
   chain and the line accesses gotrans reads off errors.go - yields the full or the short message. *)
Theorem C19_render_safe :
  forall (ctx : bool) (linelen col : Z) (coloured : bool),
    (0 <= linelen)%Z -> (1 <= col)%Z -> render ctx linelen col coloured <> RPanic.
Proof. exact render_safe. Qed.
Print Assumptions C19_render_safe.

(* ONE parser, ANY number of files of any kind (does not parse / does not interpret / fine), any capacity >= 1 of
   the parse semaphore: no call of Parser.ParseFile or Parser.ParseReader (their acquire/release skeletons as
   gotrans reads them off parser.go) ever waits, and every slot is free afterwards. Holds for EVERY skeleton that
   passes the executable criterion `balanced`; the leaky arrangement does not, and blocks at file cap+1 for every cap. *)
Theorem C19_limiter_safe :
  (forall steps, balanced steps = true -> forall cap, (1 <= cap)%nat -> forall outs k, run_seq cap steps outs 0 k = SeqDone 0)
  /\ (forall cap, (1 <= cap)%nat -> forall outs,
        run_seq cap parse_file_steps outs 0 0 = SeqDone 0 /\ run_seq cap parse_reader_steps outs 0 0 = SeqDone 0)
  /\ (balanced leaky_steps = false /\ forall cap, run_seq cap leaky_steps (repeat FoParseErr (S cap)) 0 0 = SeqBlocked cap).
Proof. exact (conj balanced_never_blocks (conj limiter_safe (conj leaky_not_balanced leaky_blocks))). Qed.
Print Assumptions C19_limiter_safe.

(* ANY schedule of ANY number of goroutines that report errors at the same time (each reading and writing the files
   map of the error value of its own parse, as errorStack.file initialises it in errors.go) is free of data races;
   with one shared map any two writers race. *)
Theorem C19_error_files_race_free :
  (forall l : list faccess, racy files_owner l = false)
  /\ (forall pre mid post g h, g <> h -> racy FilesShared (pre ++ mkAcc g true :: mid ++ mkAcc h true :: post) = true).
Proof. exact (conj error_files_never_racy shared_racy). Qed.
Print Assumptions C19_error_files_race_free.

(* Non-vacuity: the caret inside the line, at its end (padded), beyond it (short message), without context; a
   sequence with every kind of file on a 2-slot semaphore; a schedule with writers of three goroutines. *)
Example C19_round2_nonvacuous :
  render true 9 4 true = RFull /\ render true 9 10 true = RFull /\ render true 9 14 true = RShort
  /\ render false 0 14 true = RShort /\ render true 9 14 false = RShort
  /\ run_seq 2 parse_file_steps [FoParseErr; FoParseErr; FoParseErr; FoInterpErr; FoOk] 0 0 = SeqDone 0
  /\ run_seq 2 leaky_steps [FoParseErr; FoOk; FoParseErr; FoInterpErr; FoOk] 0 0 = SeqBlocked 3
  /\ racy files_owner [mkAcc 0 true; mkAcc 1 false; mkAcc 2 true; mkAcc 1 true] = false
  /\ racy FilesShared [mkAcc 0 true; mkAcc 1 false] = true.
Proof. vm_compute. repeat split. Qed.
