(* C32 - Crashes never leave files that later builds trust wrongly.
   This file holds only the statement, the property theorems and their non-vacuity examples. *)
From PlzV Require Import Base.Harness Model.C32 Proof.C32.

(* "If plz is killed at any moment during a build, the next `plz build` of the same tree produces outputs
   identical to a clean build.  Partially written outputs, metadata or hash records are never taken as up to date."

   - fs.WriteFile killed after any number of its file steps leaves the destination with the old content or with
     the complete new content and mode;
   - for every target, every build of the current tree (dirouts, new contents, current hashes), every starting
     state s0 that is itself trustworthy (what `safe` says: the next build would rebuild it, or it is complete),
     and every HISTORY of builds of that tree (normal or --rebuild) each killed after an arbitrary number of its
     persistent steps: the next normal build succeeds, leaves exactly the outputs of a clean build, and the
     metadata file it trusts is complete. *)
Definition C32_statement : Prop :=
  (forall dir old chunks mode k,
     let s := wrun (firstn k (wf_steps dir chunks mode)) (mkWst old None dir) in
     w_dest s = old \/ w_dest s = Some (mkW (concat chunks) (eff_mode mode)))
  /\
  (forall t b s0 evs, safe t b s0 ->
     exists s', recover t b (after t b evs s0) = Some s' /\ good_end t b s').

(* The code violates it: `plz build --rebuild` of an up-to-date target with output_dirs, killed between
   os.Create and the write of the metadata file (2 steps), leaves an empty metadata file next to outputs that
   still carry the current record; the next build trusts them and fails with "failed to load build metadata". *)
Theorem C32_refuted : ~ C32_statement.
Proof.
  intros [_ H]. destruct (H wt wb wdone [(true, 2)] wdone_safe) as [s' [Hr _]].
  rewrite forced_rebuild_window in Hr. discriminate.
Qed.
Print Assumptions C32_refuted.

(* What holds for all inputs: WriteFile unconditionally; and every history of killed builds none of which
   STARTS while the record read by the pre-build check is the current one (`after_guarded` is the executable
   classifier of that window: forced rebuild, or a rebuild decided by the post-build check). *)
Definition C32_partial_statement : Prop :=
  (forall dir old chunks mode k,
     let s := wrun (firstn k (wf_steps dir chunks mode)) (mkWst old None dir) in
     w_dest s = old \/ w_dest s = Some (mkW (concat chunks) (eff_mode mode)))
  /\
  (forall t b s0 evs, safe t b s0 -> after_guarded t b evs s0 <> None ->
     exists s', recover t b (after t b evs s0) = Some s' /\ good_end t b s').

Theorem C32_partial : C32_partial_statement.
Proof. exact (conj writefile_prefix histories_partial). Qed.
Print Assumptions C32_partial.

(* the two mechanisms on their own *)
Theorem C32_writefile : forall dir old chunks mode k,
  let s := wrun (firstn k (wf_steps dir chunks mode)) (mkWst old None dir) in
  w_dest s = old \/ w_dest s = Some (mkW (concat chunks) (eff_mode mode)).
Proof. exact writefile_prefix. Qed.
Print Assumptions C32_writefile.

(* one build whose start state does not carry the current record, killed after k steps (any k, any number of
   outputs): the next build rebuilds the target or finds exactly a completed build; either way it ends clean *)
Theorem C32_build_one : forall t b s0 k, safe t b s0 -> in_window t b s0 = false ->
  safe t b (crash k t b s0) /\ exists s', recover t b (crash k t b s0) = Some s' /\ good_end t b s'.
Proof. exact build_one. Qed.
Print Assumptions C32_build_one.

(* Non-vacuity. *)

(* refuted: the witness history is a history of the statement (safe start), and a second one needs no --rebuild *)
Example C32_refuted_nonvacuous :
  safe wt wb wdone /\ recover wt wb (after wt wb [(true, 2)] wdone) = None
  /\ safe wt wb empty_st /\ recover wt wb (after wt wb [(false, 8); (false, 2)] empty_st) = None.
Proof. exact (conj wdone_safe (conj forced_rebuild_window (conj (empty_safe wt wb) double_kill_window))). Qed.

(* partial / build_one: a first build killed after 7 of its 10 steps (outputs moved, no record yet) and a rebuild
   after an edit (old record 9.. on both outputs) killed after 9 steps (record on a, not yet on b) are guarded
   histories; both recover to the clean outputs [Some 7; Some 8], the second one by rebuilding *)
Example C32_partial_nonvacuous :
  let old := mkRec 9 9 3 9 5 in
  let s_old := mkSt (Some (mkMd (MdFull [s "b"]) (Some old)))
                    (of_list [(s "a", mkFile 5%N (Some 5%N) (Some old)); (s "b", mkFile 8%N (Some 8%N) (Some old))]) None in
  after_guarded wt wb [(false, 7)] empty_st <> None
  /\ decide wt wb (after wt wb [(false, 7)] empty_st) = Rebuild
  /\ after_guarded wt wb [(false, 9)] s_old <> None
  /\ decide wt wb (after wt wb [(false, 9)] s_old) = Rebuild
  /\ option_map (visible wt wb) (recover wt wb (after wt wb [(false, 9)] s_old)) = Some [Some 7; Some 8]%N
  /\ visible wt wb (clean wt wb) = [Some 7; Some 8]%N
  /\ decide wt wb (after wt wb [(false, 10)] empty_st) = Reuse.
Proof. vm_compute. repeat split; discriminate. Qed.

(* writefile: a 2-chunk write over an existing file killed before the rename keeps the old file; the full run replaces it *)
Example C32_writefile_nonvacuous :
  let old := Some (mkW (s "old") 420) in
  w_dest (wrun (firstn 5 (wf_steps true [s "ne"; s "w"] 0)) (mkWst old None true)) = old
  /\ w_tmp (wrun (firstn 3 (wf_steps true [s "ne"; s "w"] 0)) (mkWst old None true)) = Some (mkW (s "new") 384)
  /\ w_dest (wrun (firstn 6 (wf_steps true [s "ne"; s "w"] 0)) (mkWst old None true)) = Some (mkW (s "new") 436).
Proof. vm_compute. repeat split. Qed.
