(* C32 - Crashes never leave files that later builds trust wrongly.
   This file holds only the statement, the property theorems and their non-vacuity examples. *)
From PlzV Require Import Base.Harness Model.C32 Model.C32_Tmp Model.C32_Hash Proof.C32 Proof.C32_Order Proof.C32_Tmp Proof.C32_Hash Gen.C32Order.

(* "If plz is killed at any moment during a build, the next `plz build` of the same tree produces outputs
   identical to a clean build.  Partially written outputs, metadata or hash records are never taken as up to date."

   - fs.WriteFile killed after any number of its file steps leaves the destination with the old content or with
     the complete new content and mode;
   - for every target (any number of declared outputs, output_dirs or not), every build of the current tree
     (discovered outputs, new contents, current hashes), every trusted starting state s0 (`trusted`: whenever the
     record the pre-build check reads is the current one, the outputs are those of the current tree and the
     metadata file, if present, is complete - true of the empty plz-out and of every completed build of any tree
     whose hashes differ), and every HISTORY of builds of that tree, normal or --rebuild, each killed after an
     arbitrary number of its persistent steps: the next normal build succeeds, leaves exactly the outputs of a
     clean build, and the metadata file it leaves/trusts is complete. *)
Definition C32_statement : Prop :=
  (forall dir old chunks mode k,
     let s := wrun (firstn k (wf_steps dir chunks mode)) (mkWst old None dir) in
     w_dest s = old \/ w_dest s = Some (mkW (concat chunks) (eff_mode mode)))
  /\
  (forall t b s0 evs, trusted t b s0 ->
     exists s', recover t b (after t b evs s0) = Some s' /\ good_end t b s').

Theorem C32_full : C32_statement.
Proof. exact (conj writefile_prefix histories_full). Qed.
Print Assumptions C32_full.

(* the two anchored mechanisms on their own *)
Theorem C32_writefile : forall dir old chunks mode k,
  let s := wrun (firstn k (wf_steps dir chunks mode)) (mkWst old None dir) in
  w_dest s = old \/ w_dest s = Some (mkW (concat chunks) (eff_mode mode)).
Proof. exact writefile_prefix. Qed.
Print Assumptions C32_writefile.

(* one build killed after k of its steps (any k, any number of outputs, forced or not): the state is trusted
   again - the next build rebuilds the target or finds exactly a completed build - and the next build ends clean *)
Theorem C32_build_one : forall t b s0 k, trusted t b s0 ->
  trusted t b (crash k t b s0) /\ exists s', recover t b (crash k t b s0) = Some s' /\ good_end t b s'.
Proof. exact build_one_full. Qed.
Print Assumptions C32_build_one.

(* the step lists of the model are the effect calls of the source in source order (Gen/C32Order.v is regenerated
   from /repo on every run): fs.WriteFile, StoreTargetMetadata, and buildTarget after the command has run *)
Theorem C32_source_order :
  (forall chunks mode, flat_map (wstep_of_call chunks mode) C32Order.write_file = wf_steps false chunks mode)
  /\ (forall d, flat_map (md_of_call d) C32Order.store_metadata = md_steps d)
  /\ (forall t b s, flat_map (phase_of_call t b s) (after_call "build" C32Order.build_target) = build_steps t b s).
Proof. exact source_order. Qed.
Print Assumptions C32_source_order.

(* ------------------------------------------------------------------------------------------ *)
(* The work directory plz-out/tmp/<target>._build (state that survives a kill) and the build command.

   The statement above takes what the command produces (b_new) as given and the same in the killed build, the
   recovery and the clean build.  Here that is derived: the command is a program of a closed language of
   leftover-sensitive shell commands (>> append, mkdir without -p, [ -e x ] || ...) run in the work directory as the
   build finds it; the build is [prepareDirectory (wipe under its condition, mkdir); command; the persistent steps
   of the statement above; clean-up], and it can be killed after ANY number of these steps.

   For every command, every sources, every target shape, every initial content of the work directory (absent, not a
   directory, a directory with anything in it), every trusted initial plz-out and every history of builds (normal
   or --rebuild) each killed after any number of steps: the next normal build succeeds and leaves exactly the
   outputs of the clean build (empty plz-out, no work directory), with complete metadata.  The only hypothesis on
   the command is that the CLEAN build succeeds. *)
Definition C32_tmp_statement : Prop :=
  forall (srcs : list (name * str)) (cid : str -> content) (cmd : list cstep) (t : target) (dirouts : list name) (cur : rec)
         (T0 : tdir) (s0 : st) (evs : list event),
    let B := bld_of wipe_cond srcs cid cmd dirouts cur TAbsent false in
    cmd_ok wipe_cond srcs cmd (all_outs t B) TAbsent = true ->
    trusted t B s0 ->
    exists x', xrecover wipe_cond srcs cid cmd t dirouts cur (xafter wipe_cond srcs cid cmd t dirouts cur evs (T0, s0)) = Some x'
               /\ visible t B (snd x') = visible t B (xclean wipe_cond srcs cid cmd t dirouts cur)
               /\ md_full t B (snd x') = true.

Theorem C32_tmp_full : C32_tmp_statement.
Proof. exact (fun srcs cid cmd t dirouts cur T0 s0 evs Hok Htr => tmp_histories_full srcs cid cmd t dirouts cur Hok T0 s0 evs Htr). Qed.
Print Assumptions C32_tmp_full.

(* the work directory on its own: after ANY history of builds killed at any step of [prepare; command], from ANY
   initial content, the next build's prepare step leaves the empty directory, its command runs exactly as in a
   fresh directory, and the build leaves what the clean build leaves (or fails exactly when the clean build fails) *)
Theorem C32_tmp_next_build : forall srcs cmd outs ks T0,
  let T := tafter srcs cmd ks T0 in
  trun wipe_cond srcs prep_steps (start T) = start (TDir [])
  /\ after_cmd wipe_cond srcs cmd T = trun wipe_cond srcs (map TCmd cmd) (start (TDir []))
  /\ produced wipe_cond srcs cmd outs T = produced wipe_cond srcs cmd outs TAbsent.
Proof. exact tmp_next_build. Qed.
Print Assumptions C32_tmp_next_build.

(* the prepare steps and the wipe condition are those of the source (Gen/C32Order.v, regenerated on every run):
   prepareDirectory = RemoveAll under `remove`, MkdirAll (+ retry); prepareDirectories wipes the work directory
   (remove = true); buildTarget prepares, runs the command, stores, moves, records, cleans up - in this order *)
Theorem C32_tmp_source :
  flat_map tstep_of_prep C32Order.prepare_directory = prep_steps
  /\ (forall remove is_directory, C32Order.prepare_wipe_cond remove is_directory = wipe_cond remove is_directory)
  /\ C32Order.prepare_directories =
       [("prepareDirectory", "target.TmpDir(), true"); ("prepareOutputDirectories", "target"); ("prepareDirectory", "target.OutDir(), false")]
  /\ C32Order.build_target_tmp =
       ["prepareDirectories"; "prepareSources"; "build"; "StoreTargetMetadata"; "moveOutputs"; "calculateAndCheckRuleHash"; "fs.RemoveAll(target.TmpDir())"].
Proof. exact tmp_source_order. Qed.
Print Assumptions C32_tmp_source.

(* ------------------------------------------------------------------------------------------ *)
(* Follow-up 2: targets with pinned `hashes`.

   "Partially written outputs, metadata or hash records are never taken as up to date" includes the output that was
   moved into plz-out but has NOT passed the verification against the target's pinned hashes: needsBuilding never
   looks at `hashes`, so the only protection is that no record is written for such an output.  The phases of
   calculateAndCheckRuleHash (output hash; checkRuleHashes; writeRuleHash), whether checkRuleHashes' error is
   returned, and Build's error path (RemoveOutputs) are regenerated from the source on every run (gen_phases,
   C32Order.calc_check_returns, C32Order.build_on_error).

   (1) outputs that do NOT match the pinned hashes: for every target shape, every build, every start state without a
       current record (the empty plz-out; whatever a failed build leaves; any other tree's plz-out), every history of
       builds (normal or --rebuild) each killed after any number of the steps [metadata; outputs; output hash;
       (check fails); RemoveOutputs]: the next normal build rebuilds the target, fails with "Bad output hash" and
       leaves none of its outputs - what the clean build does;
   (2) outputs that match: the steps are those of C32_statement, whose conclusion carries over. *)
Definition C32_hash_statement : Prop :=
  (forall t b s0 evs, no_cur (b_cur b) s0 ->
     let bad := C32Order.calc_check_returns false false true in
     exists s' c,
       hrecover gen_phases bad t b (hafter gen_phases bad t b evs s0) = OBadHash s'
       /\ hclean gen_phases bad t b = OBadHash c
       /\ visible t b s' = visible t b c
       /\ visible t b s' = map (fun _ => None) (all_outs t b))
  /\
  (forall t b s0 evs, trusted t b s0 ->
     exists s', hrecover gen_phases false t b (hafter gen_phases false t b evs s0) = OBuilt s' /\ good_end t b s').

Theorem C32_hash_full : C32_hash_statement.
Proof. exact (conj bad_hash_histories_src good_hash_histories). Qed.
Print Assumptions C32_hash_full.

(* the same for EVERY order of the three phases in which the check precedes the record (and one killed build keeps
   the invariant `no current record`, whatever the kill point) *)
Theorem C32_hash_any_order : forall ph t b s0 evs k,
  check_first ph = true -> no_cur (b_cur b) s0 ->
  (exists s' c,
     hrecover ph true t b (hafter ph true t b evs s0) = OBadHash s'
     /\ hclean ph true t b = OBadHash c
     /\ visible t b s' = visible t b c
     /\ visible t b s' = map (fun _ => None) (all_outs t b))
  /\ no_cur (b_cur b) (hcrash ph true k t b s0)
  /\ decide t (with_force b false) (hcrash ph true k t b s0) = Rebuild.
Proof.
  exact (fun ph t b s0 evs k H Hs => conj (bad_hash_histories ph t b s0 evs H Hs) (bad_hash_build_one ph t b s0 k H Hs)).
Qed.
Print Assumptions C32_hash_any_order.

(* the order, the error return and the error path are those of the source (Gen/C32Order.v) *)
Theorem C32_hash_source :
  gen_phases = src_phases
  /\ check_first gen_phases = true
  /\ (forall a b c, C32Order.calc_check_returns a b c = check_returns a b c)
  /\ C32Order.build_on_error = ["buildTarget"; "RemoveOutputs"]
  /\ C32Order.remove_outputs = ["fs.RemoveAll"; "fs.EnsureDir"]
  /\ C32Order.calc_record_guard = "!target.IsFilegroup".
Proof. exact (conj gen_phases_src (conj gen_check_first (conj gen_check_returns gen_error_path))). Qed.
Print Assumptions C32_hash_source.

(* Non-vacuity. *)

(* the hypothesis of C32_hash_full (1) holds of the empty plz-out; the order matters: with the record hoisted above
   the check (seeded change r2-m1: [hash; record; check]) the first build of //:vendor (one output, 12 steps) killed
   after 9 steps - record on the output, just before the lsetxattr on the metadata file - leaves the unverified
   output (content 7) in place and the next build reports it unchanged, where the clean build fails with "Bad
   output hash"; with the order of the source every kill point ends in "Bad output hash". *)
Example C32_hash_nonvacuous :
  no_cur (b_cur hb) empty_st
  /\ check_first ph_m1 = false
  /\ length (hbuild_steps ph_m1 true ht hb empty_st) = 12
  /\ is_built (hrecover ph_m1 true ht hb (hcrash ph_m1 true 9 ht hb empty_st)) = true
  /\ visible ht hb (hcrash ph_m1 true 9 ht hb empty_st) = [Some 7%N]
  /\ outcome_badhash (hclean ph_m1 true ht hb) = true
  /\ forallb (fun k => outcome_badhash (hrecover src_phases true ht hb (hcrash src_phases true k ht hb empty_st))) (seq 0 12) = true.
Proof. exact (conj (no_cur_empty _) m1_order_refuted). Qed.


(* the hypotheses of C32_tmp_full hold for the append command (cat a >> acc; cat b >> acc; cat acc > out) with the
   empty plz-out; a build killed after its first append leaves acc = "alpha" behind; the next build still ends
   with "alphabeta".  With the wipe condition of the seeded mutation m3 (`remove && !fs.IsDirectory(directory)`)
   the same history ends with "alphaalphabeta": the theorem is about the wipe. *)
Example C32_tmp_nonvacuous :
  let t := mkT [s "out"] false in
  let B := bld_of wipe_cond w_srcs (fun c => N.of_nat (length c)) w_cmd [] wcur TAbsent false in
  cmd_ok wipe_cond w_srcs w_cmd (all_outs t B) TAbsent = true
  /\ trusted t B empty_st
  /\ fst (xafter wipe_cond w_srcs (fun c => N.of_nat (length c)) w_cmd t [] wcur [(false, 3)] (TAbsent, empty_st))
     = TDir [(s "acc", NFile (s "alpha"))]
  /\ produced wipe_m3 w_srcs w_cmd [s "out"] (tcrash wipe_m3 w_srcs w_cmd 3 TAbsent) = Some [(s "out", s "alphaalphabeta")]
  /\ produced wipe_cond w_srcs w_cmd [s "out"] (tcrash wipe_cond w_srcs w_cmd 3 TAbsent) = Some [(s "out", s "alphabeta")].
Proof.
  cbn zeta. split; [vm_compute; reflexivity|]. split; [apply trusted_empty|].
  split; [vm_compute; reflexivity|]. split; [apply wipe_needed|apply wipe_needed].
Qed.


(* the hypothesis holds of the empty plz-out (first build) and of a completed build; the histories that violated
   the statement before the fix of StoreTargetMetadata (forced rebuild killed after 2 steps; kills after 8 and
   then 2 steps) now end clean, for every step count *)
Example C32_full_nonvacuous :
  trusted wt wb empty_st /\ trusted wt wb wdone
  /\ forallb (fun k => ends_clean (recover wt wb (after wt wb [(true, k)] wdone))) (seq 0 16) = true
  /\ forallb (fun k1 => forallb (fun k2 => ends_clean (recover wt wb (after wt wb [(false, k1); (false, k2)] empty_st))) (seq 0 16)) (seq 0 16) = true.
Proof. exact (conj (trusted_empty wt wb) (conj wdone_trusted (conj forced_rebuild_recovers double_kill_recovers))). Qed.

(* build_one: a first build killed after 9 of its 13 steps (outputs moved, no record yet) and a rebuild after an
   edit (old record on both outputs, old content 5 in a) killed after 12 steps (new record on a, not yet on b) are
   rebuilt by the next build; the rebuild ends with the clean outputs [7; 8]; a build killed after 12 (record on every output, not yet on the metadata file) is reused, after 11 rebuilt *)
Example C32_build_one_nonvacuous :
  let old := mkRec 9 9 3 9 5 in
  let s_old := mkSt (Some (mkMd (MdFull [s "b"]) (Some old)))
                    (of_list [(s "a", mkFile 5%N (Some 5%N) (Some old)); (s "b", mkFile 8%N (Some 8%N) (Some old))]) None in
  length (build_steps wt wb empty_st) = 13
  /\ decide wt wb (crash 9 wt wb empty_st) = Rebuild
  /\ length (build_steps wt wb s_old) = 14
  /\ decide wt wb (crash 12 wt wb s_old) = Rebuild
  /\ option_map (visible wt wb) (recover wt wb (crash 12 wt wb s_old)) = Some [Some 7; Some 8]%N
  /\ visible wt wb (clean wt wb) = [Some 7; Some 8]%N
  /\ decide wt wb (crash 12 wt wb empty_st) = Reuse
  /\ decide wt wb (crash 11 wt wb empty_st) = Rebuild.
Proof. vm_compute. repeat split. Qed.

(* writefile: a 2-chunk write over an existing file killed before the rename keeps the old file; the full run replaces it *)
Example C32_writefile_nonvacuous :
  let old := Some (mkW (s "old") 420) in
  w_dest (wrun (firstn 5 (wf_steps true [s "ne"; s "w"] 0)) (mkWst old None true)) = old
  /\ w_tmp (wrun (firstn 3 (wf_steps true [s "ne"; s "w"] 0)) (mkWst old None true)) = Some (mkW (s "new") 384)
  /\ w_dest (wrun (firstn 6 (wf_steps true [s "ne"; s "w"] 0)) (mkWst old None true)) = Some (mkW (s "new") 436).
Proof. vm_compute. repeat split. Qed.
