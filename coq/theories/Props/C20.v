(* C20 - Build labels round-trip and target patterns select exactly their targets.
   This file holds only the statement, the property theorems and their non-vacuity examples. *)
From Coq Require Import String.
From PlzV Require Import Base.Harness Gen.LabelTables Model.C20 Proof.C20_Select Proof.C20_Parse Proof.C20_Exclude.
Local Open Scope list_scope.

(* "Every valid label string parses to a label whose printed form parses back to the same label": every string the
   parser accepts (in a package with a valid name - what the repository's own FuzzParseBuildLabel asserts), and the
   printed form read back in any package. *)
Definition roundtrip_all : Prop :=
  forall t cur l cur', valid_pkg cur = true -> try_parse t cur [] = Parsed l -> try_parse (print l) cur' [] = Parsed l.

(* "//p/... selects exactly package p and packages under p/, never a sibling that merely shares the prefix; //p:all
   selects exactly package p - wherever patterns are used".  `under p q`: p is the root, or q = p, or q = p ++ "/" ++ r.
   `selects p n q m`: what //p:n selects among labels //q:m (Proof/C20_Select.v). *)
Definition selection_exact : Prop :=
  (* visibility, include/exclude, the experimental tree: BuildLabel.Includes *)
  (forall pat that, includes pat that = true <-> selects (l_pkg pat) (l_name pat) (l_pkg that) (l_name that))
  (* the sandbox opt-out whitelist: BuildLabel.Matches ("." is accepted as a name of the root) *)
  /\ (forall pat other, matches pat other = true <-> matches_selects pat other)
  (* never a sibling: //p/... does not select //px for any non-empty x that does not start with '/' *)
  /\ (forall p x m s1 s2, p <> [] -> x <> [] -> head_is 47 x = false -> includes (L p dots s1) (L (p ++ x) m s2) = false)
  /\ (forall p x m s1 s2, p <> [] -> p <> s "." -> x <> [] -> head_is 47 x = false -> matches (L p dots s1) (L (p ++ x) m s2) = false)
  (* //p:all selects exactly package p *)
  /\ (forall p q m s1 s2, (includes (L p all_ s1) (L q m s2) = true <-> q = p) /\ (matches (L p all_ s1) (L q m s2) = true <-> q = p))
  (* the command line: the packages an original pseudo-target expands to (expandOriginalPseudoTarget) *)
  /\ (forall pat pkgs q, l_name pat = dots \/ l_name pat = all_ ->
        (In q (selected_packages pat pkgs) <-> In q pkgs /\ ((l_name pat = dots /\ under (l_pkg pat) q) \/ (l_name pat = all_ /\ q = l_pkg pat))))
  (* exclude: ExcludeTargets in ShouldInclude / AddOriginalTarget *)
  /\ (forall excl l, excluded excl l = true <-> exists e, In e excl /\ selects (l_pkg e) (l_name e) (l_pkg l) (l_name l))
  (* visibility: CanSee *)
  /\ (forall dirs l dep vis, can_see dirs l dep vis = true <->
        l_pkg l = l_pkg dep
        \/ (~ (is_experimental dirs dep = true /\ is_experimental dirs l = false)
            /\ ((exists v, In v vis /\ selects (l_pkg v) (l_name v) (l_pkg (parent l)) (l_name (parent l)))
                \/ l_pkg dep = l_pkg (parent l) \/ is_experimental dirs l = true)))
  (* experimental directories: state.experimentalLabels / isExperimental *)
  /\ (forall dirs l, is_experimental dirs l = true <-> l_sub l = [] /\ exists d, In d dirs /\ under d (l_pkg l))
  (* the sandbox opt-out: validateSandbox accepts exactly filegroups, no whitelist, targets that do not opt out, package
     _please, whitelist matches, and packages equal to or below an experimental directory *)
  /\ (forall whitelist dirs t, validate_sandbox whitelist dirs t = true <->
        t_filegroup t = true \/ whitelist = [] \/ ~ opts_out t \/ l_pkg (t_label t) = lit "_please"
        \/ (exists w, In w whitelist /\ matches_selects w (t_label t))
        \/ (exists d, In d dirs /\ (l_pkg (t_label t) = d \/ exists r, l_pkg (t_label t) = d ++ 47%N :: r))).

(* "... wherever patterns are used: ... include and exclude" - for as long as the process runs.  One plz process keeps ONE
   exclude option slice; src/please.go appends plain excludes to it before every build and hands it to a fresh state
   (query changes builds twice, watch builds on every change).  For every history of appends and builds (Model.C20.op) and
   every build in it: SetIncludeAndExclude leaves the slice as it found it, the slice is the initial one plus the appends,
   and the build excludes exactly the labels that some label-shaped entry of the slice selects (Proof/C20_Exclude.v
   build_exact) - so --exclude //p/... keeps p and what lies below it, and nothing else, out of the first build and of
   every later one. *)
Definition exclude_stable : Prop :=
  (forall et0 arr arr' ex et, set_include_exclude et0 arr = Some (arr', ex, et) -> arr' = arr)
  /\ (forall probes ops arr0 obs, run_session probes ops arr0 = Some obs -> Forall (build_exact probes arr0) obs)
  /\ (forall probes ops arr0 obs e p sr, run_session probes ops arr0 = Some obs ->
        In e arr0 -> looks_like_label e = true -> parse_exclude e = Some (L p dots sr) ->
        forall o q m sr', In o obs -> under p q -> excluded (obs_et o) (L q m sr') = true).

Definition C20_statement : Prop := roundtrip_all /\ selection_exact /\ exclude_stable.

(* The code refutes the round trip: //.a parses to //.a:.a, which prints as "//.a:.a" and is rejected. *)
Theorem C20_refuted : ~ C20_statement.
Proof. exact (fun H => w_implied_fails (proj1 H (lit "//.a") [] w_implied [] eq_refl w_implied_parses)). Qed.
Print Assumptions C20_refuted.

(* What the code does guarantee, for all inputs:
   - every label with a valid package name, a valid target name, a subrepo that can stand before "//" and that is not
     the sentinel prints to a string that parses back to it, in any package;
   - every string the parser accepts (with any well-formed subrepo argument) round-trips unless the label it parses to is
     in one of the three defect classes (executable classifier Model.C20.defect_class), and these are the same labels;
   - the parser never runs out of fuel (the model's recursion bound is not an assumption);
   - the whole selection part of the statement;
   - the whole exclude-over-a-process part of the statement (follow-up): it rests on Gen.sie_exclude_init = InitNil, the
     initialisation of state.Exclude translated from the source. *)
Definition C20_partial_statement : Prop :=
  (forall l cur, wf l -> try_parse (print l) cur [] = Parsed l)
  /\ (forall t cur sr l cur', valid_pkg cur = true -> sr_ok sr -> try_parse t cur sr = Parsed l -> defect_class l = None ->
        try_parse (print l) cur' [] = Parsed l)
  /\ (forall l, wf l -> defect_class l = None)
  /\ (forall t cur sr l, valid_pkg cur = true -> sr_ok sr -> try_parse t cur sr = Parsed l ->
        valid_pkg (l_pkg l) = true /\ sr_ok (l_sub l) /\ l_name l <> [])
  /\ (forall t cur sr, try_parse t cur sr <> OutOfFuel)
  /\ selection_exact
  /\ exclude_stable.

Theorem C20_partial : C20_partial_statement.
Proof.
  exact (conj (fun l cur H => roundtrip_wf l cur H) (conj roundtrip_parsed (conj wf_defect_none (conj parsed_label_inv
        (conj try_parse_never_out_of_fuel
        (conj (conj includes_spec (conj matches_spec (conj includes_no_sibling (conj matches_no_sibling (conj all_selects_exactly
        (conj selected_packages_spec (conj excluded_spec (conj can_see_spec (conj is_experimental_spec validate_sandbox_spec)))))))))
        (conj sie_args_unchanged (conj session_exact session_dots_persists)))))))).
Qed.
Print Assumptions C20_partial.

(* Non-vacuity.  wf is satisfiable by labels of every printed shape, and they round-trip by computation too. *)
Example C20_wf_nonvacuous :
  wf (L (lit "src/core") (lit "core") []) /\ wf (L (lit "third_party/go") dots (lit "sub@linux_amd64")) /\ wf (L [] (lit "_t#x") (lit "a/b"))
  /\ print (L (lit "third_party/go") dots (lit "sub@linux_amd64")) = lit "///sub@linux_amd64//third_party/go/..."
  /\ try_parse (lit "///sub@linux_amd64//third_party/go/...") (lit "x") [] = Parsed (L (lit "third_party/go") dots (lit "sub@linux_amd64")).
Proof. unfold wf, sub_ok. vm_compute. repeat split; discriminate. Qed.

(* The hypotheses of the second clause are satisfiable: a short form whose implied name is fine. *)
Example C20_parsed_nonvacuous :
  try_parse (lit "@third_party/go") (lit "a/b") [] = Parsed (L [] (lit "go") (lit "third_party/go"))
  /\ defect_class (L [] (lit "go") (lit "third_party/go")) = None
  /\ try_parse (lit ":...") (lit "a/b") [] = Parsed (L (lit "a/b") dots []) /\ defect_class (L (lit "a/b") dots []) = None.
Proof. vm_compute. repeat split; reflexivity. Qed.

(* The three defect classes are inhabited by labels the parser produces (the other two witnesses of the refutation). *)
Example C20_defects_inhabited :
  defect_class w_implied = Some ImpliedNameUnvalidated /\ defect_class w_slash = Some SubrepoTrailingSlash
  /\ defect_class original_target = Some OriginalTargetSentinel
  /\ try_parse (lit "@a/:a") [] [] = Parsed w_slash /\ try_parse (print w_slash) [] [] = Parsed (L [] (lit "a") (lit "a"))
  /\ try_parse (lit "//:_ORIGINAL") [] [] = Parsed original_target /\ try_parse (print original_target) [] [] = Invalid.
Proof. vm_compute. repeat split; reflexivity. Qed.

(* Selection: the sibling pair of the pre-fix witness, by computation on the model, next to what the theorem says. *)
Example C20_selection_nonvacuous :
  let p := L (lit "p") dots [] in
  includes p (L (lit "p") (lit "t") []) = true /\ includes p (L (lit "p/sub") (lit "t") []) = true /\ includes p (L (lit "pfoo") (lit "t") []) = false
  /\ matches p (L (lit "p/sub") (lit "t") []) = true /\ matches p (L (lit "pfoo") (lit "t") []) = false
  /\ validate_sandbox [p] [lit "exp"] (T (L (lit "pfoo") (lit "t") []) false false false None) = false
  /\ validate_sandbox [p] [lit "exp"] (T (L (lit "expo") (lit "t") []) false false false None) = false
  /\ validate_sandbox [p] [lit "exp"] (T (L (lit "exp/x") (lit "t") []) false false false None) = true
  /\ opts_out (T (L (lit "pfoo") (lit "t") []) false false false None).
Proof. vm_compute. repeat split; try reflexivity. right; left; reflexivity. Qed.

(* The exclude part is about real histories: `plz query changes --exclude //p/...` (two appends, build, append, build) runs,
   both builds exclude //p:a and //p/q:b and neither excludes the sibling //pfoo:c; the option slice is unchanged by the
   builds.  With the in-place initialisation the same history loses the pattern (Proof/C20_Exclude.v). *)
Example C20_exclude_nonvacuous :
  let m := [lit "manual"; lit "manual:linux_amd64"] in
  let probes := [L (lit "p") (lit "a") []; L (lit "p/q") (lit "b") []; L (lit "pfoo") (lit "c") []] in
  looks_like_label (lit "//p/...") = true /\ parse_exclude (lit "//p/...") = Some (L (lit "p") dots [])
  /\ option_map (map obs_row) (run_session probes [OAppend m; OAppend m; OBuild; OAppend m; OBuild] [lit "//p/..."])
     = Some [[true; true; false]; [true; true; false]]
  /\ option_map (map obs_arr) (run_session probes [OAppend m; OBuild; OBuild] [lit "//p/..."])
     = Some [lit "//p/..." :: m; lit "//p/..." :: m].
Proof. vm_compute. repeat split; reflexivity. Qed.
