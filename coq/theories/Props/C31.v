(* C31 - Concurrent plz invocations on one repo do not corrupt outputs:
   "When several `plz build` processes run at the same time on the same repository, each exits
   successfully and the final contents of plz-out equal those of a single clean build."

   Stated against the transition system of Model/C31.v, in which the per-target flock
   (build_step.go:213) is what makes Begin (take the lock, ask needsBuilding) exclude every other
   process from the target until End; the repo lock plz-out/.lock is taken SHARED (please.go:1211)
   and serialises nothing.  The statement quantifies over EVERY schedule (list of events, of any
   length, of any number of processes - each possibly multi-threaded, since any dependency-respecting
   order of Begin events is allowed), every command semantics `act`, every injective record hash `H`,
   every well-formed repository, every plz-out left behind by earlier builds whose records are
   truthful (the empty one in particular), and every family of requested target sets whose clean
   build succeeds.  This file holds only the statement, the theorem and non-vacuity examples. *)
From PlzV Require Import Base.Harness Model.C31 Proof.C31.

Definition C31_statement : Prop :=
  forall (key : Type) (key_eqb : key -> key -> bool) (H : target -> list val -> key)
         (act : target -> list val -> option val),
    (forall a b, key_eqb a b = true <-> a = b) ->
    (forall t a b, H t a = H t b -> a = b) ->                       (* H_inj *)
  forall r : list target, wf_repo r = true ->
  forall s0 : store key, trusted key H act r s0 ->                  (* Trust; holds for the empty plz-out *)
  forall todos : list (list target), requests_ok act r todos ->     (* one list per process; the clean build of each target succeeds *)
  forall sched : list ev,
    let st := run key key_eqb H act true sched (init key s0 todos) in
    (* no process fails, at any point of any schedule *)
    all_ok key st = true
    (* once all have exited, every requested target carries the outputs of the clean build *)
    /\ (finished key st = true -> forall ts t, In ts todos -> In t ts ->
          sval key (st_store key st) (t_label t) = cleanv act r (t_label t))
    (* and nothing else in plz-out has been touched *)
    /\ (forall l, (forall ts t, In ts todos -> In t ts -> t_label t <> l) -> st_store key st l = s0 l)
    (* so plz-out is exactly what ONE process building the union leaves behind, whatever its schedule *)
    /\ (forall single sched1, requests_ok act r [single] ->
          (forall l, In l (map t_label (concat todos)) <-> In l (map t_label single)) ->
          let st1 := run key key_eqb H act true sched1 (init key s0 [single]) in
          finished key st = true -> finished key st1 = true ->
          all_ok key st1 = true /\ forall l, sval key (st_store key st) l = sval key (st_store key st1) l).

Theorem C31_full : C31_statement.
Proof. exact c31_full_proof. Qed.
Print Assumptions C31_full.

(* The lock is the hypothesis that carries the theorem: the SAME system without the flock
   (use_lock = false) has a schedule of two processes after which one of them has failed. *)
Theorem C31_lock_needed :
  exists sched, let st := run ckey ckey_eqb cH act_cmd false sched (cinit (empty_store ckey) [ex_repo; ex_repo]) in
                finished ckey st = true /\ all_ok ckey st = false.
Proof. exists ex_sched. exact unlocked_fails. Qed.
Print Assumptions C31_lock_needed.

(* Beyond the statement (the property allows re-execution): under the lock no command is executed
   twice, neither by one process nor by two - this is what the action log is compared with. *)
Theorem C31_at_most_once :
  forall (key : Type) (key_eqb : key -> key -> bool) (H : target -> list val -> key)
         (act : target -> list val -> option val),
    (forall a b, key_eqb a b = true <-> a = b) -> (forall t a b, H t a = H t b -> a = b) ->
  forall r, wf_repo r = true -> forall s0, trusted key H act r s0 ->
  forall todos sched, requests_ok act r todos ->
    let st := run key key_eqb H act true sched (init key s0 todos) in
    (forall i, NoDup (i_ran (st_inv key st i)))
    /\ (forall i j l, In l (i_ran (st_inv key st i)) -> In l (i_ran (st_inv key st j)) -> i = j).
Proof. exact c31_at_most_once. Qed.
Print Assumptions C31_at_most_once.

(* PROGRESS (needed for "each exits"): under the lock there is no deadlock - in every reachable state in
   which some process has not exited some event is enabled; the requests contain their dependencies
   (what `plz build` works on).  Every enabled event strictly consumes work (a target leaves todo, an
   in-flight target moves on), so a schedule that keeps taking enabled events reaches `finished`. *)
Theorem C31_no_deadlock :
  forall (key : Type) (key_eqb : key -> key -> bool) (H : target -> list val -> key)
         (act : target -> list val -> option val),
    (forall a b, key_eqb a b = true <-> a = b) -> (forall t a b, H t a = H t b -> a = b) ->
  forall r, wf_repo r = true -> forall s0, trusted key H act r s0 ->
  forall todos sched, requests_ok act r todos -> (forall ts, In ts todos -> deps_closed ts) ->
    let st := run key key_eqb H act true sched (init key s0 todos) in
    finished key st = false -> exists e, step key key_eqb H act true st e <> None.
Proof. exact c31_no_deadlock. Qed.
Print Assumptions C31_no_deadlock.

Example C31_no_deadlock_nonvacuous :
  (forall ts, In ts [ex_repo; ex_repo] -> deps_closed ts)
  /\ finished ckey (cinit (empty_store ckey) [ex_repo; ex_repo]) = false.
Proof. split; [exact ex_deps_closed|vm_compute; reflexivity]. Qed.

(* The model's events follow the source as it is now (regenerated by gotrans on every run): the target
   lock is taken first and held to the end of buildTarget, needsBuilding is asked under it, the record
   is written after the outputs are moved, the flock is exclusive and blocking, the repo lock is shared. *)
Theorem C31_events_match_source : protocol_ok = true.
Proof. exact lock_protocol_ok. Qed.
Print Assumptions C31_events_match_source.

(* Non-vacuity: the hypotheses hold for the instance used by the correspondence check, on a
   repository where two processes build the same two targets; the run finishes, the second target
   is built from the first, and each command ran exactly once (one process each). *)
Example C31_nonvacuous :
  (forall a b, ckey_eqb a b = true <-> a = b)
  /\ (forall t a b, cH t a = cH t b -> a = b)
  /\ trusted ckey cH act_cmd ex_repo (empty_store ckey)
  /\ requests_ok act_cmd ex_repo [ex_repo; ex_repo]
  /\ wf_repo ex_repo = true
  /\ finished ckey ex_done = true /\ all_ok ckey ex_done = true
  /\ sval ckey (st_store ckey ex_done) (s "//p:b") = Some [(s "b.out", s "x" ++ nl)]
  /\ i_ran (st_inv ckey ex_done 0) = [s "//p:a"] /\ i_ran (st_inv ckey ex_done 1) = [s "//p:b"].
Proof.
  exact (conj ckey_eqb_ok (conj cH_inj (conj (trusted_empty ckey cH act_cmd ex_repo) (conj ex_requests_ok ex_nonvacuous)))).
Qed.
