(* C31 - Concurrent plz invocations on one repo do not corrupt outputs:
   "When several `plz build` processes run at the same time on the same repository, each exits
   successfully and the final contents of plz-out equal those of a single clean build."

   Stated against the transition system of Model/C31.v, in which the per-target flock
   (build_step.go:213) is what makes Begin (take the lock, ask needsBuilding) exclude every other
   process from the target until End; the repo lock plz-out/.lock is taken SHARED (please.go:1211)
   and serialises nothing.  The statement quantifies over EVERY schedule (list of events, of any
   length, of any number of processes - each possibly multi-threaded, since any dependency-respecting
   order of Begin events is allowed), every command semantics `act`, every injective record hash `H`,
   every well-formed repository, every plz-out left behind by earlier builds whose records are
   truthful (the empty one in particular), and every family of requested target sets whose clean
   build succeeds, and every state of the directory cache shared by the processes ("none configured",
   the empty one, or any cache whose entries were stored by correct builds): a target found in the cache
   is retrieved instead of built, what is built is stored.  This file holds only the statement, the
   theorems and non-vacuity examples. *)
From PlzV Require Import Base.Harness Model.C31 Proof.C31 Proof.C31_Progress.
From PlzV Require Model.C31_Protocol Proof.C31_Protocol.
From PlzV Require Model.C31_TempFile Proof.C31_TempFile.

(* Granularity.  The transition system keeps plz-out as a map from LABELS to outputs; that is plz-out
   itself as long as distinct targets write distinct paths.  Two filegroups may legally write the same
   path; for them the statement is made against the path-level model of filegroupBuilder.Build (Model/C31.v,
   SharedDir): two processes, each building a filegroup whose source is the same directory of n files and
   then a genrule reading it, the two filegroups being DIFFERENT targets (different flocks).  The property at
   full strength is the conjunction; the code violates the second half (C31_refuted, reproduced on the real
   binary: known findings shared-dir-filegroups-race-...), and C31_partial is the first half for every
   repository outside the executable defect class shared_output_class. *)
Definition C31_shared_dir_statement : Prop :=
  forall (n : nat) (stale : bool) (sched : list bool),
    (* no process fails, and a genrule that has read the directory saw all n files with the current content *)
    dsafe n (drun false n sched (dinit n stale)) = true.

Definition C31_label_statement (in_scope : list target -> Prop) : Prop :=
  forall (key : Type) (key_eqb : key -> key -> bool) (H : target -> list val -> key)
         (act : target -> list val -> option val),
    (forall a b, key_eqb a b = true <-> a = b) ->
    (forall t a b, H t a = H t b -> a = b) ->                       (* H_inj *)
  forall r : list target, wf_repo r = true -> in_scope r ->
  forall s0 : store key, trusted key H act r s0 ->                  (* Trust; holds for the empty plz-out *)
  forall oc : option (cache key), cache_trusted key H act r oc ->   (* the shared dir cache: None, empty, or truthful *)
  forall todos : list (list target), requests_ok act r todos ->     (* one list per process; the clean build of each target succeeds *)
  forall sched : list ev,
    let st := run key key_eqb H act true sched (init_c key s0 oc todos) in
    (* no process fails, at any point of any schedule *)
    all_ok key st = true
    (* once all have exited, every requested target carries the outputs of the clean build *)
    /\ (finished key st = true -> forall ts t, In ts todos -> In t ts ->
          sval key (st_store key st) (t_label t) = cleanv act r (t_label t))
    (* and nothing else in plz-out has been touched *)
    /\ (forall l, (forall ts t, In ts todos -> In t ts -> t_label t <> l) -> st_store key st l = s0 l)
    (* so plz-out is exactly what ONE process building the union leaves behind, whatever its schedule *)
    /\ (forall single oc1 sched1, cache_trusted key H act r oc1 -> requests_ok act r [single] ->
          (forall l, In l (map t_label (concat todos)) <-> In l (map t_label single)) ->
          let st1 := run key key_eqb H act true sched1 (init_c key s0 oc1 [single]) in
          finished key st = true -> finished key st1 = true ->
          all_ok key st1 = true /\ forall l, sval key (st_store key st) l = sval key (st_store key st1) l).

Definition C31_statement : Prop := C31_label_statement (fun _ => True) /\ C31_shared_dir_statement.

(* REFUTED: one file, the output directory left by an earlier build of older sources.  Both processes exit
   successfully, but the genrule of process 0 read the shared directory after process 1 - which had looked
   while process 0 was in the middle of replacing it - unlinked the file process 0 had just linked: it was
   built from an EMPTY directory.  (dir_fail_witness: on another schedule process 1 fails with ENOTEMPTY.) *)
Theorem C31_refuted : ~ C31_statement.
Proof. exact (fun Hs => shared_dir_refuted (proj2 Hs)). Qed.
Print Assumptions C31_refuted.

Example C31_refuted_witnesses :
  (let st := drun false 1 dw_silent (dinit 1 true) in
   dfinished st = true /\ d_p0 st = PDone (Some []) /\ d_p1 st = PDone (Some (complete 1)) /\ dsafe 1 st = false)
  /\ (let st := drun false 1 dw_fail (dinit 1 true) in d_p0 st = PDone (Some (complete 1)) /\ d_p1 st = PFail)
  (* control: with one lock for both processes every interleaving is fine (exhaustive, n = 2 and 3) *)
  /\ dexplore true 2 24 (dinit 2 true) = true /\ dexplore true 3 32 (dinit 3 true) = true
  /\ dexplore false 2 24 (dinit 2 true) = false.
Proof.
  destruct dir_same_lock_explored as (A & _ & B & _ & C & _).
  exact (conj dir_silent_witness (conj dir_fail_witness (conj A (conj B C)))).
Qed.

(* PARTIAL: everything else.  For every repository in which no two targets write the same path: *)
Theorem C31_partial : C31_label_statement (fun r => shared_output_class r = None).
Proof. exact (fun key key_eqb H act Hk Hinj r Hwf _ => c31_full_proof key key_eqb H act Hk Hinj r Hwf). Qed.
Print Assumptions C31_partial.

(* The lock is the hypothesis that carries the theorem: the SAME system without the flock
   (use_lock = false) has a schedule of two processes after which one of them has failed. *)
Theorem C31_lock_needed :
  exists sched, let st := run ckey ckey_eqb cH act_cmd false sched (cinit (empty_store ckey) [ex_repo; ex_repo]) in
                finished ckey st = true /\ all_ok ckey st = false.
Proof. exists ex_sched. exact unlocked_fails. Qed.
Print Assumptions C31_lock_needed.

(* Beyond the statement (the property allows re-execution): under the lock no command is executed
   twice, neither by one process nor by two - this is what the action log is compared with. *)
Theorem C31_at_most_once :
  forall (key : Type) (key_eqb : key -> key -> bool) (H : target -> list val -> key)
         (act : target -> list val -> option val),
    (forall a b, key_eqb a b = true <-> a = b) -> (forall t a b, H t a = H t b -> a = b) ->
  forall r, wf_repo r = true -> forall s0, trusted key H act r s0 ->
  forall todos oc sched, cache_trusted key H act r oc -> requests_ok act r todos ->
    let st := run key key_eqb H act true sched (init_c key s0 oc todos) in
    (forall i, NoDup (i_ran (st_inv key st i)))
    /\ (forall i j l, In l (i_ran (st_inv key st i)) -> In l (i_ran (st_inv key st j)) -> i = j).
Proof. exact c31_at_most_once. Qed.
Print Assumptions C31_at_most_once.

(* PROGRESS (needed for "each exits"): under the lock there is no deadlock - in every reachable state in
   which some process has not exited some event is enabled; the requests contain their dependencies
   (what `plz build` works on).  Every enabled event strictly consumes work (a target leaves todo, an
   in-flight target moves on), so a schedule that keeps taking enabled events reaches `finished`. *)
Theorem C31_no_deadlock :
  forall (key : Type) (key_eqb : key -> key -> bool) (H : target -> list val -> key)
         (act : target -> list val -> option val),
    (forall a b, key_eqb a b = true <-> a = b) -> (forall t a b, H t a = H t b -> a = b) ->
  forall r, wf_repo r = true -> forall s0, trusted key H act r s0 ->
  forall todos oc sched, cache_trusted key H act r oc ->
    requests_ok act r todos -> (forall ts, In ts todos -> deps_closed ts) ->
    let st := run key key_eqb H act true sched (init_c key s0 oc todos) in
    finished key st = false -> exists e, step key key_eqb H act true st e <> None.
Proof. exact c31_no_deadlock. Qed.
Print Assumptions C31_no_deadlock.

(* what `plz build <labels>` works on (plan) contains the dependencies of its targets, for every
   well-formed repository and every request: the hypothesis of C31_no_deadlock always holds *)
Theorem C31_plan_closed : forall r req, wf_repo r = true -> deps_closed (plan r req).
Proof. exact plan_deps_closed. Qed.
Print Assumptions C31_plan_closed.

(* every enabled event strictly lowers the measure mu (3 per (process, target) pair not started, 2 per pair
   holding the lock before its outputs are touched, 1 per pair whose outputs are being replaced), with or
   without the lock; mu is 0 exactly when every process has exited *)
Theorem C31_measure :
  forall (key : Type) (key_eqb : key -> key -> bool) (H : target -> list val -> key)
         (act : target -> list val -> option val) (use_lock : bool) (st : state key),
    (forall e st', step key key_eqb H act use_lock st e = Some st' -> mu key st' < mu key st)
    /\ (mu key st = 0 <-> finished key st = true).
Proof. exact (fun key key_eqb H act lk st => conj (fun e st' => step_decreases key key_eqb H act lk st e st') (mu_zero_finished key st)). Qed.
Print Assumptions C31_measure.

(* TERMINATION ("each exits"): the processes work on plan r req.  From EVERY reachable state there is a
   finite run to `finished`, of at most mu <= 3 * (sum of the plan sizes) events; no continuation of any
   kind contains more than mu enabled events (so every scheduler that keeps taking enabled events - every
   fair one - has finished after at most that many); and as long as it has not finished some event is enabled. *)
Theorem C31_terminates :
  forall (key : Type) (key_eqb : key -> key -> bool) (H : target -> list val -> key)
         (act : target -> list val -> option val),
    (forall a b, key_eqb a b = true <-> a = b) -> (forall t a b, H t a = H t b -> a = b) ->
  forall r, wf_repo r = true -> forall s0, trusted key H act r s0 ->
  forall oc, cache_trusted key H act r oc ->
  forall reqs : list (list str), requests_ok act r (map (plan r) reqs) ->
  forall sched,
    let st := run key key_eqb H act true sched (init_c key s0 oc (map (plan r) reqs)) in
    (exists sched', length sched' <= mu key st /\ finished key (run key key_eqb H act true sched' st) = true)
    /\ mu key st <= 3 * length (concat (map (plan r) reqs))
    /\ (forall sched', effective key key_eqb H act true st sched' + mu key (run key key_eqb H act true sched' st) <= mu key st)
    /\ (forall sched', finished key (run key key_eqb H act true sched' st) = false ->
          exists e, step key key_eqb H act true (run key key_eqb H act true sched' st) e <> None).
Proof. exact c31_terminates_plan. Qed.
Print Assumptions C31_terminates.

Example C31_terminates_nonvacuous :
  requests_ok act_cmd ex_repo (map (plan ex_repo) [[s "//p:b"]; [s "//p:b"]])
  /\ map (plan ex_repo) [[s "//p:b"]; [s "//p:b"]] = [ex_repo; ex_repo]
  /\ mu ckey (cinit_c (empty_store ckey) (Some (empty_cache ckey)) [ex_repo; ex_repo]) = 12.
Proof. exact ex_plan_nonvacuous. Qed.

Example C31_no_deadlock_nonvacuous :
  (forall ts, In ts [ex_repo; ex_repo] -> deps_closed ts)
  /\ finished ckey (cinit (empty_store ckey) [ex_repo; ex_repo]) = false.
Proof. split; [exact ex_deps_closed|vm_compute; reflexivity]. Qed.

(* The model's events follow the source as it is now (regenerated by gotrans on every run): the target
   lock is taken first and held to the end of buildTarget, needsBuilding is asked under it, the record
   is written after the outputs are moved, the flock is exclusive and blocking, the repo lock is shared. *)
Theorem C31_events_match_source : protocol_ok = true.
Proof. exact lock_protocol_ok. Qed.
Print Assumptions C31_events_match_source.

(* THE CRITICAL SECTION.  The theorems above take for granted that the flock is held from Begin to End.  At the
   granularity of buildTarget's statements (Model/C31_Protocol.v): n processes - any number - run, on the same
   target, the statement list that gotrans regenerates from the source for that KIND of target (filegroup or
   not: where the lock is taken, where it is released relative to StoreTargetMetadata / moveOutputs, what is
   deferred); a process is inside the section from the moment it starts on the first of prepareDirectories /
   retrieveArtifacts / prepareSources / build / StoreTargetMetadata / moveOutputs / calculateAndCheckRuleHash /
   buildFilegroup until it has completed the last one (statements are not atomic).  For both kinds and EVERY
   schedule no two processes are inside at the same time; whoever is inside holds the lock; at most one
   process holds it. *)
Theorem C31_critical_section :
  forall (filegroup : bool) (n : nat) (sched : list nat),
    let st := C31_Protocol.prun n sched (C31_Protocol.pinit (C31_Protocol.prot_of filegroup)) in
    (forall i j, i < n -> j < n -> i <> j ->
       C31_Protocol.inside (st i) = true -> C31_Protocol.inside (st j) = true -> False)
    /\ (forall i, C31_Protocol.inside (st i) = true -> C31_Protocol.p_held (st i) = true)
    /\ (forall i j, i < n -> j < n -> C31_Protocol.p_held (st i) = true -> C31_Protocol.p_held (st j) = true -> i = j)
    /\ C31_Protocol.clash n st = false.
Proof.
  exact (fun fg n sched =>
    let Hg := Proof.C31_Protocol.guarded_of_kind fg in
    conj (Proof.C31_Protocol.protocol_mutex _ n sched Hg)
      (conj (proj1 (Proof.C31_Protocol.protocol_inside_holds _ n sched Hg))
        (conj (proj2 (Proof.C31_Protocol.protocol_inside_holds _ n sched Hg))
              (Proof.C31_Protocol.protocol_no_clash _ n sched Hg)))).
Qed.
Print Assumptions C31_critical_section.

(* the same for EVERY statement list that satisfies the static condition `guarded` (the lock is not taken
   while held, every statement of the section runs with the lock held, nothing of the section follows a
   release) - the theorem is about the protocol, the source only has to pass the check *)
Theorem C31_guarded_excludes :
  forall (prot : list C31_Protocol.op) (n : nat) (sched : list nat),
    C31_Protocol.guarded false prot = true ->
    forall i j, i < n -> j < n -> i <> j ->
      C31_Protocol.inside (C31_Protocol.prun n sched (C31_Protocol.pinit prot) i) = true ->
      C31_Protocol.inside (C31_Protocol.prun n sched (C31_Protocol.pinit prot) j) = true -> False.
Proof. exact Proof.C31_Protocol.protocol_mutex. Qed.
Print Assumptions C31_guarded_excludes.

(* progress at that granularity: unless every process has returned from buildTarget some process can move
   (the holder of the lock never waits for it again), every move lowers pmu, which starts at
   n * (statements + 1): nobody waits for the lock for ever under any schedule that keeps moving *)
Theorem C31_section_progress :
  forall (filegroup : bool) (n : nat) (sched : list nat),
    let prot := C31_Protocol.prot_of filegroup in
    let st := C31_Protocol.prun n sched (C31_Protocol.pinit prot) in
    (C31_Protocol.all_exited n st = false -> exists i, i < n /\ C31_Protocol.pstep n st i <> None)
    /\ (forall st0 i st', C31_Protocol.pstep n st0 i = Some st' -> C31_Protocol.pmu n st' < C31_Protocol.pmu n st0)
    /\ C31_Protocol.pmu n (C31_Protocol.pinit prot) = n * S (length prot).
Proof.
  exact (fun fg n sched =>
    conj (Proof.C31_Protocol.protocol_no_deadlock _ n sched (Proof.C31_Protocol.guarded_of_kind fg))
      (conj (Proof.C31_Protocol.protocol_measure n) (Proof.C31_Protocol.pmu_init _ n))).
Qed.
Print Assumptions C31_section_progress.

(* both halves of the static condition are needed: with the lock given back after the command but before the
   outputs are collected, and with a kind of target that does not take the lock, two processes DO meet
   inside the section *)
Theorem C31_section_lock_needed :
  (C31_Protocol.guarded false Proof.C31_Protocol.early_release = false
   /\ C31_Protocol.clash 2 (C31_Protocol.prun 2 [0; 0; 0; 0; 0; 0; 1; 1; 1] (C31_Protocol.pinit Proof.C31_Protocol.early_release)) = true)
  /\ (C31_Protocol.guarded false Proof.C31_Protocol.unlocked_kind = false
      /\ C31_Protocol.clash 2 (C31_Protocol.pinit Proof.C31_Protocol.unlocked_kind) = true).
Proof. exact (conj Proof.C31_Protocol.early_release_clashes Proof.C31_Protocol.unlocked_kind_clashes). Qed.
Print Assumptions C31_section_lock_needed.

(* A RESOURCE SHARED BETWEEN TARGETS.  The flock is per target; two different filegroups that re-export the same
   file are different targets writing ONE path, and processes building one each are inside their sections
   together.  Model/C31_TempFile.v: n processes - any number -, process i holding the lock of target tg i (any
   assignment: whatever the flocks exclude), each copying the same source of sz chunks to the same destination by
   fs.WriteFile's protocol (open a temporary sibling, write, close + chmod by name, rename by name; on failure
   the target's outputs are removed), the NAME of the temporary file following the policy that gotrans
   translates from fs.go (Gen/C34Copy.v write_file_temp, shared with the C34 check).  With the policy of the
   source as it is - a name unique per call - and for EVERY schedule: no process fails, the destination is
   never partial (absent or whole), and as soon as one process has finished the destination is whole and that
   process's temporary name is gone. *)
Theorem C31_shared_output_file :
  forall (sz n : nat) (tg : nat -> nat) (sched : list nat),
    let st := C31_TempFile.trun C31_TempFile.tpolicy_now sz n tg sched C31_TempFile.tinit in
    (forall i, C31_TempFile.t_pc st i <> C31_TempFile.PFailed)
    /\ (forall x, C31_TempFile.t_dir st C31_TempFile.ETo = Some x -> C31_TempFile.t_data st x = Some sz)
    /\ (forall i, C31_TempFile.t_pc st i = C31_TempFile.PDone ->
          C31_TempFile.t_dir st (C31_TempFile.ETmp i) = None
          /\ exists x, C31_TempFile.t_dir st C31_TempFile.ETo = Some x /\ C31_TempFile.t_data st x = Some sz)
    /\ C31_TempFile.tsafe sz n st = true.
Proof.
  exact (fun sz n tg sched =>
    conj (proj1 (Proof.C31_TempFile.tempfile_unique_holds sz n tg sched))
      (conj (proj1 (proj2 (Proof.C31_TempFile.tempfile_unique_holds sz n tg sched)))
        (conj (proj2 (proj2 (Proof.C31_TempFile.tempfile_unique_holds sz n tg sched)))
              (Proof.C31_TempFile.tempfile_now_safe sz n tg sched)))).
Qed.
Print Assumptions C31_shared_output_file.

(* ... and that is what it rests on, not the lock: with ONE fixed temporary name and two different targets the
   schedule of the race (0 opens, 1 opens the same name and empties the same inode, 0 copies, closes, renames it
   away, 1 copies and fails on chmod of the vanished name, its failure path deletes the destination) ends with a
   failed process and NO output although process 0 exited successfully; the same schedule with both processes
   on the same target is harmless, because there the flock keeps the second one out (one schedule, by
   computation; for one target the general statement is C31_critical_section). *)
Theorem C31_per_target_lock_not_enough :
  (let st := C31_TempFile.trun C31_TempFile.TFixed 3 2 (fun i => i) (C31_TempFile.race_sched 3) C31_TempFile.tinit in
   C31_TempFile.tsafe 3 2 st = false /\ C31_TempFile.t_pc st 0 = C31_TempFile.PDone
   /\ C31_TempFile.t_pc st 1 = C31_TempFile.PFailed /\ C31_TempFile.t_dir st C31_TempFile.ETo = None)
  /\ (let st := C31_TempFile.trun C31_TempFile.TFixed 3 2 (fun _ => 0) (C31_TempFile.race_sched 3 ++ repeat 1 6) C31_TempFile.tinit in
      C31_TempFile.tsafe 3 2 st = true /\ C31_TempFile.all_done 2 st = true /\ C31_TempFile.dest_whole 3 st = true).
Proof. exact (conj Proof.C31_TempFile.fixed_name_races Proof.C31_TempFile.fixed_name_same_target). Qed.
Print Assumptions C31_per_target_lock_not_enough.

(* the other half of that contrast as a theorem: when all processes work on ONE target the flock alone makes
   the copy safe, whatever the temporary file is called - even with the fixed name, for every number of
   processes, every size and every schedule no process fails, the destination is never partial and is whole
   once a process has finished.  The unique names are needed exactly for what different targets share. *)
Theorem C31_one_target_any_temp_name :
  forall (sz n : nat) (tg : nat -> nat) (sched : list nat),
    (forall a b, tg a = tg b) ->
    let st := C31_TempFile.trun C31_TempFile.TFixed sz n tg sched C31_TempFile.tinit in
    (forall i, C31_TempFile.t_pc st i <> C31_TempFile.PFailed)
    /\ (forall x, C31_TempFile.t_dir st C31_TempFile.ETo = Some x -> C31_TempFile.t_data st x = Some sz)
    /\ (forall i, C31_TempFile.t_pc st i = C31_TempFile.PDone ->
          exists x, C31_TempFile.t_dir st C31_TempFile.ETo = Some x /\ C31_TempFile.t_data st x = Some sz).
Proof. exact Proof.C31_TempFile.fixed_one_target_safe. Qed.
Print Assumptions C31_one_target_any_temp_name.

(* non-vacuity: under the policy of the source two processes on different targets DO write at the same time
   (both part-way through), both finish, the second rename replaces the first one's result by an equal one, no
   temporary name is left; what the correspondence check evaluates (shared_check) rejects an observed
   interference *)
Example C31_shared_output_file_nonvacuous :
  C31_TempFile.tpolicy_now = C31_TempFile.TUnique
  /\ (let mid := C31_TempFile.trun C31_TempFile.tpolicy_now 3 2 (fun i => i) [0; 1; 0; 1] C31_TempFile.tinit in
      let fin := C31_TempFile.trun C31_TempFile.tpolicy_now 3 2 (fun i => i) (C31_TempFile.race_sched 3 ++ [1]) C31_TempFile.tinit in
      C31_TempFile.t_pc mid 0 = C31_TempFile.PWriting 0 1 /\ C31_TempFile.t_pc mid 1 = C31_TempFile.PWriting 1 1
      /\ C31_TempFile.all_done 2 fin = true /\ C31_TempFile.t_dir fin C31_TempFile.ETo = Some 1
      /\ C31_TempFile.t_data fin 1 = Some 3 /\ C31_TempFile.t_dir fin (C31_TempFile.ETmp 0) = None
      /\ C31_TempFile.model_safe_now 2 = true /\ C31_TempFile.shared_check 3 3 false = true
      /\ C31_TempFile.shared_check 3 3 true = false).
Proof. exact (conj Proof.C31_TempFile.now_unique Proof.C31_TempFile.ex_tempfile_nonvacuous). Qed.

(* what the statement lists are, as regenerated from the source now; three processes on one target: one is
   inside holding the lock while another has not got past AcquireExclusiveFileLock; all three get through *)
Example C31_critical_section_nonvacuous :
  (C31_Protocol.prot_nonfg = [C31_Protocol.OAcq; C31_Protocol.ODefer; C31_Protocol.OSkip; C31_Protocol.OSkip;
       C31_Protocol.OCrit; C31_Protocol.OCrit; C31_Protocol.OCrit; C31_Protocol.OCrit; C31_Protocol.OCrit; C31_Protocol.OCrit;
       C31_Protocol.OCrit; C31_Protocol.OCrit; C31_Protocol.OSkip; C31_Protocol.OSkip]
   /\ C31_Protocol.prot_fg = [C31_Protocol.OAcq; C31_Protocol.ODefer; C31_Protocol.OCrit; C31_Protocol.OCrit])
  /\ (let mid := C31_Protocol.prun 3 [0; 0; 0; 0; 0; 1; 2] (C31_Protocol.pinit C31_Protocol.prot_nonfg) in
      C31_Protocol.inside (mid 0) = true /\ C31_Protocol.p_held (mid 0) = true /\ C31_Protocol.p_held (mid 1) = false
      /\ C31_Protocol.p_rest (mid 1) = C31_Protocol.prot_nonfg
      /\ C31_Protocol.all_exited 3 (C31_Protocol.prun 3 (repeat 0 15 ++ repeat 1 15 ++ repeat 2 15) (C31_Protocol.pinit C31_Protocol.prot_nonfg)) = true
      /\ C31_Protocol.pmu 3 (C31_Protocol.pinit C31_Protocol.prot_nonfg) = 45).
Proof.
  exact (conj (conj (proj1 Proof.C31_Protocol.gen_paths_shape) (proj1 (proj2 Proof.C31_Protocol.gen_paths_shape)))
              Proof.C31_Protocol.ex_protocol_nonvacuous).
Qed.

(* Non-vacuity: the hypotheses hold for the instance used by the correspondence check, on a
   repository where two processes build the same two targets; the run finishes, the second target
   is built from the first, and each command ran exactly once (one process each). *)
(* the classifier fires exactly on a common path: two filegroups of ONE package with the same source file *)
Example C31_class_nonvacuous :
  shared_output_class ex_repo = None
  /\ shared_output_class [ex_fg (s "//p:fga"); ex_a; ex_fg (s "//p:fgb")] = Some (s "two-targets-write-the-same-output-path")
  /\ shared_output_class [ex_fg (s "//p:fga"); ex_fg (s "//q:fgb")] = None.
Proof. exact ex_classes. Qed.

Example C31_nonvacuous :
  (forall a b, ckey_eqb a b = true <-> a = b)
  /\ (forall t a b, cH t a = cH t b -> a = b)
  /\ trusted ckey cH act_cmd ex_repo (empty_store ckey)
  /\ cache_trusted ckey cH act_cmd ex_repo (Some (empty_cache ckey))
  /\ requests_ok act_cmd ex_repo [ex_repo; ex_repo]
  /\ wf_repo ex_repo = true /\ shared_output_class ex_repo = None
  /\ finished ckey ex_done = true /\ all_ok ckey ex_done = true
  /\ sval ckey (st_store ckey ex_done) (s "//p:b") = Some [(s "b.out", s "x" ++ nl)]
  /\ i_ran (st_inv ckey ex_done 0) = [s "//p:a"] /\ i_ran (st_inv ckey ex_done 1) = [s "//p:b"].
Proof.
  exact (conj ckey_eqb_ok (conj cH_inj (conj (trusted_empty ckey cH act_cmd ex_repo)
           (conj (cache_trusted_empty ckey cH act_cmd ex_repo) (conj ex_requests_ok
             (conj (proj1 ex_nonvacuous) (conj (proj1 ex_classes) (proj2 ex_nonvacuous)))))))).
Qed.

(* Non-vacuity of the cache: the first build of both targets fills an empty shared cache; plz-out is then
   wiped; two processes ask for both targets again: everything is RETRIEVED (no command runs, i_ran stays
   empty in both), nobody fails and plz-out is again that of the clean build. *)
Example C31_cache_nonvacuous :
  finished ckey ex_cached = true /\ all_ok ckey ex_cached = true
  /\ sval ckey (st_store ckey ex_cached) (s "//p:b") = Some [(s "b.out", s "x" ++ nl)]
  /\ i_ran (st_inv ckey ex_cached 0) = [] /\ i_ran (st_inv ckey ex_cached 1) = []
  /\ i_ran (st_inv ckey ex_warm 0) = [s "//p:b"; s "//p:a"].
Proof. exact ex_cache_nonvacuous. Qed.
