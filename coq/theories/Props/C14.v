(* C14 - Cache cleaning evicts only whole, unused entries and meets its bound.
   This file holds only the statement, the property theorems and their non-vacuity examples.
   The vocabulary (never_removes_protected, only_whole_entries, accounts, meets_bound, wf, the defect
   classifiers) is defined in Model/C14.v next to the model of dirCache.clean. *)
From PlzV Require Import Base.Harness Model.C14 Proof.C14.
From Coq Require Import Permutation.

(* For every cache content (any listing of a directory tree: entry counts, sizes, access times,
   compressed or not, any names), every set of entries the current process has stored, retrieved or
   is storing (markDir calls with results of getPath), all water marks, and whatever order
   sort.Slice leaves the entries in:
     1. nothing at or below an entry stored or retrieved by the process - its final path or the
        temporary path Store assembles it at - is removed;
     2. what is removed are whole entries: unmarked, recognised by name and kind, never inside one
        another, each with everything below it (and nothing else goes, except a file os.Rename
        replaced; nothing appears);
     3. the returned size is the computed size minus the removed entries; below the high water mark
        nothing is touched; otherwise, when clean finishes, the unmarked entries that remain are
        together smaller than the low water mark, or none remains. *)
Definition C14_statement : Prop :=
  forall sorter : list entry -> list entry, (forall l, Permutation (sorter l) l) ->
  forall st : state, wf st = true ->
    never_removes_protected sorter st
    /\ only_whole_entries sorter st
    /\ accounts sorter st
    /\ meets_bound sorter st.

(* The code does not satisfy it: an uncompressed cache in which the retrieved entry of
   //pkg:aaaaaaaaaaaaaaaaaaaaaaaaaaa= lies below a directory that shouldClean takes for an entry. *)
Theorem C14_refuted : ~ C14_statement.
Proof. exact statement_refuted. Qed.
Print Assumptions C14_refuted.

(* What the code does guarantee, for all inputs: 2 and the accounting of 3 always; 1 unless a
   directory named like an entry lies above a protected path (uncompressed) or the temporary file of
   a Store in progress exists (compressed: it is not marked); the bound of 3 unless the rename
   target <entry>= of something named like an entry is occupied. *)
Theorem C14_partial :
  forall sorter : list entry -> list entry, (forall l, Permutation (sorter l) l) ->
  forall st : state, wf st = true ->
    only_whole_entries sorter st
    /\ accounts sorter st
    /\ (d_ancestor st = false -> d_tmp st = false -> never_removes_protected sorter st)
    /\ (d_rename st = false -> meets_bound sorter st).
Proof. exact clean_partial. Qed.
Print Assumptions C14_partial.

(* In particular every state outside the three known defect classes satisfies the whole property. *)
Theorem C14_partial_no_defect :
  forall sorter : list entry -> list entry, (forall l, Permutation (sorter l) l) ->
  forall st : state, wf st = true -> defect_class st = None ->
    never_removes_protected sorter st /\ only_whole_entries sorter st /\ accounts sorter st /\ meets_bound sorter st.
Proof. exact clean_no_defect. Qed.
Print Assumptions C14_partial_no_defect.

(* The sort the executable model uses (Go's insertion sort for up to 12 entries) is a permutation. *)
Example C14_sorter_exists : forall l, Permutation (isort l) l.
Proof. exact isort_perm. Qed.

(* Non-vacuity of C14_partial / C14_partial_no_defect: a well-formed cache without defects, with a
   retrieved entry (containing a directory named like an entry), a Store in progress and two old
   entries; cleaning starts (size >= high), removes the larger old entry and stops below the low
   water mark with the other one left. *)
Example C14_nonvacuous :
  wf w_good = true /\ defect_class w_good = None
  /\ (st_high w_good <= size_of w_good)%N
  /\ map e_path (r_removed (clean w_good)) = [[s "cache"; s "pkg"; s "lib"; k_key2]]
  /\ map e_path (r_kept (clean w_good)) = [[s "cache"; s "pkg"; s "lib"; k_key]]
  /\ length (r_live (clean w_good)) = 10%nat.
Proof. exact w_good_ok. Qed.

(* Each defect class is inhabited by a well-formed cache on which the model (as the code) breaks
   the corresponding guarantee. *)
Example C14_defect_key_shaped_ancestor :
  wf w_ancestor = true /\ defect_class w_ancestor = Some KeyShapedAncestor /\ ~ never_removes_protected isort w_ancestor.
Proof. exact w_ancestor_refutes. Qed.

Example C14_defect_compressed_tmp :
  wf w_tmp = true /\ defect_class w_tmp = Some CompressedTmpUnmarked /\ ~ never_removes_protected isort w_tmp.
Proof. exact w_tmp_refutes. Qed.

Example C14_defect_rename_target :
  wf w_rename = true /\ defect_class w_rename = Some RenameTargetOccupied /\ ~ meets_bound isort w_rename.
Proof. exact w_rename_refutes. Qed.
