(* C14 - Cache cleaning evicts only whole, unused entries and meets its bound.
   This file holds only the statement, the property theorems and their non-vacuity examples.
   The vocabulary (never_removes_protected, only_whole_entries, accounts, meets_bound, wf, the defect
   classifiers) is defined in Model/C14.v next to the model of dirCache.clean. *)
From PlzV Require Import Base.Harness Gen.CacheNames Model.C14 Proof.C14 Proof.C14_Interleave Proof.C14_Store.
From Coq Require Import Permutation.

(* For every cache content (any listing of a directory tree: entry counts, sizes, access times,
   compressed or not, any names), every set of entries the current process has stored, retrieved or
   is storing (markDir calls with results of getPath), all water marks, and whatever order
   sort.Slice leaves the entries in:
     1. nothing at or below an entry stored or retrieved by the process - its final path or the
        temporary path Store assembles it at - is removed;
     2. what is removed are whole entries: unmarked, recognised by name and kind, never inside one
        another, each with everything below it (and nothing else goes, except a file os.Rename
        replaced; nothing appears);
     3. the returned size is the computed size minus the removed entries; below the high water mark
        nothing is touched; otherwise, when clean finishes, the unmarked entries that remain are
        together smaller than the low water mark, or none remains. *)
Definition C14_statement : Prop :=
  forall sorter : list entry -> list entry, (forall l, Permutation (sorter l) l) ->
  forall st : state, wf st = true ->
    never_removes_protected sorter st
    /\ only_whole_entries sorter st
    /\ accounts sorter st
    /\ meets_bound sorter st.

(* The code does not satisfy it: an uncompressed cache in which the retrieved entry of
   //pkg:aaaaaaaaaaaaaaaaaaaaaaaaaaa= lies below a directory that shouldClean takes for an entry. *)
Theorem C14_refuted : ~ C14_statement.
Proof. exact statement_refuted. Qed.
Print Assumptions C14_refuted.

(* What the code does guarantee, for all inputs: 2 and the accounting of 3 always; 1 unless a
   directory named like an entry lies above a protected path (uncompressed) or the temporary file of
   a Store in progress exists (compressed: it is not marked); the bound of 3 unless the rename
   target <entry>= of something named like an entry is occupied. *)
Theorem C14_partial :
  forall sorter : list entry -> list entry, (forall l, Permutation (sorter l) l) ->
  forall st : state, wf st = true ->
    only_whole_entries sorter st
    /\ accounts sorter st
    /\ (d_ancestor st = false -> d_tmp st = false -> never_removes_protected sorter st)
    /\ (d_rename st = false -> meets_bound sorter st).
Proof. exact clean_partial. Qed.
Print Assumptions C14_partial.

(* In particular every state outside the three known defect classes satisfies the whole property. *)
Theorem C14_partial_no_defect :
  forall sorter : list entry -> list entry, (forall l, Permutation (sorter l) l) ->
  forall st : state, wf st = true -> defect_class st = None ->
    never_removes_protected sorter st /\ only_whole_entries sorter st /\ accounts sorter st /\ meets_bound sorter st.
Proof. exact clean_no_defect. Qed.
Print Assumptions C14_partial_no_defect.

(* The sort the executable model uses (Go's insertion sort for up to 12 entries) is a permutation. *)
Example C14_sorter_exists : forall l, Permutation (isort l) l.
Proof. exact isort_perm. Qed.

(* Non-vacuity of C14_partial / C14_partial_no_defect: a well-formed cache without defects, with a
   retrieved entry (containing a directory named like an entry), a Store in progress and two old
   entries; cleaning starts (size >= high), removes the larger old entry and stops below the low
   water mark with the other one left. *)
Example C14_nonvacuous :
  wf w_good = true /\ defect_class w_good = None
  /\ (st_high w_good <= size_of w_good)%N
  /\ map e_path (r_removed (clean w_good)) = [[s "cache"; s "pkg"; s "lib"; k_key2]]
  /\ map e_path (r_kept (clean w_good)) = [[s "cache"; s "pkg"; s "lib"; k_key]]
  /\ length (r_live (clean w_good)) = 10%nat.
Proof. exact w_good_ok. Qed.

(* Each defect class is inhabited by a well-formed cache on which the model (as the code) breaks
   the corresponding guarantee. *)
Example C14_defect_key_shaped_ancestor :
  wf w_ancestor = true /\ defect_class w_ancestor = Some KeyShapedAncestor /\ ~ never_removes_protected isort w_ancestor.
Proof. exact w_ancestor_refutes. Qed.

Example C14_defect_compressed_tmp :
  wf w_tmp = true /\ defect_class w_tmp = Some CompressedTmpUnmarked /\ ~ never_removes_protected isort w_tmp.
Proof. exact w_tmp_refutes. Qed.

Example C14_defect_rename_target :
  wf w_rename = true /\ defect_class w_rename = Some RenameTargetOccupied /\ ~ meets_bound isort w_rename.
Proof. exact w_rename_refutes. Qed.

(* ---- clean runs in a goroutine of its own: the loop interleaved with the process ------------------

   The statements above take the marks as fixed while clean runs.  In the program clean is started with
   `go` and the process keeps calling Retrieve and Store (each begins with markDir) while the eviction
   loop works through the queue the walk produced.  Model: `run`, a list of labels, LIter = the loop body
   for the next queued entry (interpreted statement by statement from Gen.CacheNames.evict_body, which
   gotrans regenerates from dir_cache.go), LMark p size = a markDir call.

   For every interleaving l1 ++ l2 of iterations and calls, every cache, all water marks, every order
   of the queue: an item that lies at or below a path (final or temporary) some call made so far has
   marked, and that is still in the cache directory after l1, is in the cache directory after l1 ++ l2.
   The side conditions are those of C14_partial, for the calls of the whole run. *)
Theorem C14_interleaved :
  forall sorter : list entry -> list entry, (forall l, Permutation (sorter l) l) ->
  forall (st : state) (l1 l2 : list label),
  let whole := with_calls st (st_calls st ++ label_calls (l1 ++ l2)) in
  wf whole = true -> d_ancestor whole = false -> d_tmp whole = false ->
  let x1 := run (st_compress st) (st_low st) (start sorter st) l1 in
  forall i, In i (cs_live x1) -> protected (with_calls st (cs_calls x1)) i ->
            In i (cs_live (run (st_compress st) (st_low st) x1 l2)).
Proof. exact interleaved_clean_safe. Qed.
Print Assumptions C14_interleaved.

(* An entry marked before its own iteration (after any prefix l1 of the run, whatever follows) keeps
   everything that was below it when the call was made. *)
Theorem C14_marked_before_iteration :
  forall sorter : list entry -> list entry, (forall l, Permutation (sorter l) l) ->
  forall (st : state) (l1 l2 : list label) (p : path) (sz : N),
  let whole := with_calls st (st_calls st ++ label_calls (l1 ++ LMark p sz :: l2)) in
  wf whole = true -> d_ancestor whole = false -> d_tmp whole = false ->
  let x1 := run (st_compress st) (st_low st) (start sorter st) l1 in
  forall i, In i (cs_live x1) -> is_prefix p (i_path i) = true ->
            In i (cs_live (run (st_compress st) (st_low st) (start sorter st) (l1 ++ LMark p sz :: l2))).
Proof. exact marked_before_iteration_survives. Qed.
Print Assumptions C14_marked_before_iteration.

(* Without calls during the loop the interleaved run is clean itself (so C14_partial speaks about it). *)
Theorem C14_interleaved_static :
  forall (sorter : list entry -> list entry) (st : state) (n : nat),
  (length (sorter (entries_of st)) <= n)%nat ->
  let x := run (st_compress st) (st_low st) (start sorter st) (repeat LIter n) in
  let r := clean_with sorter st in
  cs_live x = r_live r /\ cs_total x = r_total r /\ cs_removed x = rev (r_removed r) /\ cs_kept x = rev (r_kept r).
Proof. exact run_no_events. Qed.
Print Assumptions C14_interleaved_static.

(* The skeleton the interleaving theorems are about is the one in the source (fails when clean changes). *)
Example C14_loop_skeleton :
  clean_phases = [PhWalk; PhReturnBelowHigh; PhSort; PhEvict; PhReturnTotal]
  /\ evict_body = [EvSkipIfMarked; EvEvictOrSkip; EvSubtractSize; EvBreakBelowLow].
Proof. exact (conj clean_phases_are evict_body_is). Qed.

(* Non-vacuity of C14_interleaved: three old unmarked entries, everything is to go (low = 0).  Left alone
   the loop empties the cache; a Retrieve of the third entry after the first eviction keeps it and its
   file while the other two go; a Retrieve after its iteration finds nothing to keep. *)
Example C14_interleaved_nonvacuous :
  let whole := with_calls w_race (label_calls [w_race_mark]) in
  wf whole = true /\ defect_class whole = None
  /\ map e_path (cs_queue (start isort w_race)) =
       [[s "cache"; s "pkg"; s "lib"; k_key]; [s "cache"; s "pkg"; s "lib"; k_key2]; [s "cache"; s "pkg"; s "lib"; k_key3]]
  /\ length (cs_live (run false 0 (start isort w_race) [LIter; LIter; LIter])) = 3%nat
  /\ map i_path (cs_live (run false 0 (start isort w_race) [LIter; w_race_mark; LIter; LIter])) =
       [[s "cache"]; [s "cache"; s "pkg"]; [s "cache"; s "pkg"; s "lib"];
        [s "cache"; s "pkg"; s "lib"; k_key3]; [s "cache"; s "pkg"; s "lib"; k_key3; s "out.a"]]
  /\ length (cs_live (run false 0 (start isort w_race) [LIter; LIter; LIter; w_race_mark])) = 3%nat.
Proof. exact w_race_ok. Qed.

(* ---- an entry the process is storing while clean runs ------------------------------------------------

   Store writes an entry file by file into the temporary directory <key>= and renames it into place;
   clean may walk the cache and evict at any point of that.  Model: `prun`, labels PStore p files (the
   process calls Store), PStoreStep (the Store in progress executes its next statement - the statement
   lists of Store and storeFiles are regenerated from dir_cache.go: Gen.CacheNames.store_body,
   store_files_body), PMark (Retrieve), PWalk (clean walks, tests the high water mark, sorts), PIter (one
   loop iteration).  `ps_owned` is a ghost: the files Stores of this process have written and the process
   has not itself removed or replaced since, at their present place (under <key>= before the rename, under
   <key> after it).

   For every uncompressed cache that is a directory tree, every list of labels (any number of Stores one
   after the other with any outputs, any number of clean passes, any interleaving), all water marks and
   every order of the queue, provided no directory above an entry used by the process is named like an
   entry (the known defect class KeyShapedAncestor): every such file is in the cache directory.  So clean
   never removes a file of an entry that is being stored, nor of one that has been stored. *)
Theorem C14_store_in_progress :
  forall sorter : list entry -> list entry, (forall l, Permutation (sorter l) l) ->
  forall (st : state) (high low : N) (ls : list plabel),
  dirs_present (st_items st) = true ->
  (forall m, In m (st_calls st) -> entry_path false (fst m) = true /\ clean_names (fst m) = true) ->
  (forall p, In p (plabel_paths ls) -> entry_path false p = true /\ clean_names p = true) ->
  let x := prun store_ops sorter false high low (pinit st) ls in
  forall o, In o (ps_owned x) -> has_path (cs_live (ps_c x)) o = true.
Proof. exact store_in_progress_whole. Qed.
Print Assumptions C14_store_in_progress.

(* The Store the theorem is about is the one in the source (fails when Store or storeFiles change; the
   proof of the theorem uses that the first statement of Store marks the entry). *)
Example C14_store_skeleton :
  store_body = [StMarkEarly; StRemoveOld; StStoreFiles; StRenameIntoPlace]
  /\ store_files_body = [SfStoreEach; SfMarkTotal]
  /\ (forall files, exists sz r, store_ops files = OMark sz :: r).
Proof. exact (conj store_body_is (conj store_files_body_is store_ops_head)). Qed.

(* Non-vacuity, and why the early markDir is needed: three old entries, everything is to go; the process
   stores a new entry of two files and clean walks and evicts after the first file is in place.  The entry
   comes out whole and the three old entries go.  The same schedule with a Store that marks its entry only
   after writing the files (storeFiles' markDir alone) loses the first file: clean takes the temporary
   directory for an old entry. *)
Example C14_store_nonvacuous :
  dirs_present (st_items w_race) = true
  /\ (entry_path false w_store_p = true /\ clean_names w_store_p = true)
  /\ plabel_paths w_store_run = [w_store_p]
  /\ (let x := prun store_ops isort false 1 0 (pinit w_race) w_store_run in
      ps_store x = Some (mkSP w_store_p [])
      /\ ps_owned x = [w_store_p ++ [s "b.o"]; w_store_p ++ [s "out.a"]]
      /\ map i_path (cs_live (ps_c x)) =
           [[s "cache"]; [s "cache"; s "pkg"]; [s "cache"; s "pkg"; s "lib"];
            w_store_p; w_store_p ++ [s "out.a"]; w_store_p ++ [s "b.o"]]
      /\ length (cs_removed (ps_c x)) = 3%nat)
  /\ (let x := prun store_ops_late_mark isort false 1 0 (pinit w_race) w_store_run_late in
      ps_store x = Some (mkSP w_store_p [])
      /\ ps_owned x = [w_store_p ++ [s "b.o"]; w_store_p ++ [s "out.a"]]
      /\ map i_path (cs_live (ps_c x)) =
           [[s "cache"]; [s "cache"; s "pkg"]; [s "cache"; s "pkg"; s "lib"];
            w_store_p; w_store_p ++ [s "b.o"]]
      /\ has_path (cs_live (ps_c x)) (w_store_p ++ [s "out.a"]) = false).
Proof. exact w_store_ok. Qed.
