(* C07 - Target hashes are deterministic across runs and parallelism (the rule-hash part).
   This file holds only the statement, the property theorem and its non-vacuity example.
   `prog` is ruleHash as regenerated from the source; a target is presented to it with its Go maps listed in SOME
   order (Go randomises map iteration) and its declared dependencies in SOME order (the order in which sources, tools
   and deps were added, and with it the order in which concurrent parses/resolutions filled the slice). *)
From Coq Require Import Permutation.
From PlzV Require Import Base.Harness Model.C08 Model.C08_Set Model.C08_Spec Gen.RuleHashProg Proof.C07.

(* For every hash function, for the rule hash (runtime = false) and the runtime hash alike: any two presentations
   of one well-formed target - every map-valued attribute (named srcs, named outs, named data, provides, entry
   points, env, per-config commands and test commands, named tools, named secrets) an arbitrary permutation of its
   entries, the dependency slice an arbitrary permutation, everything else equal - are hashed to the same value. *)
Definition C07_statement : Prop :=
  forall (D : Type) (H : str -> D) (rt : bool) (t t' : target),
    wf t -> same_target t t' -> H (ser prog rt t) = H (ser prog rt t').

Theorem C07_full : C07_statement.
Proof. exact C07_full_proof. Qed.
Print Assumptions C07_full.

(* Non-vacuity: two different presentations of a target with three maps of >= 2 entries, per-config commands without
   an entry for the configuration (so the `highest config` loop runs) and three dependencies; one stream. *)
Example C07_nonvacuous :
  let d1 := Label [] (s "p") (s "a") in let d2 := Label (s "sub") (s "") (s "b") in let d3 := Label [] (s "p/q") (s "a") in
  let mk deps nsrcs env cmds prov :=
    set_deps deps (set_named_srcs nsrcs (set_env env (set_commands (Some cmds) (set_provides prov
      (set_config (s "cover") (set_fallback_config (s "opt") empty_target)))))) in
  let t := mk [d1; d2; d3] [(s "b", [s "y"]); (s "a", [s "x"])] [(s "K", s "1"); (s "J", s "2")]
              [(s "dbg", s "cmd1"); (s "fast", s "cmd2")] [(s "py", [d1]); (s "go", [d2])] in
  let t' := mk [d3; d1; d2] [(s "a", [s "x"]); (s "b", [s "y"])] [(s "J", s "2"); (s "K", s "1")]
               [(s "fast", s "cmd2"); (s "dbg", s "cmd1")] [(s "go", [d2]); (s "py", [d1])] in
  wf t /\ same_target t t' /\ t <> t'
  /\ ser prog false t = s "//p:a//p/q:a///sub//:bxy" ++ [1]%N ++ s "cmd2" ++ [1;1;1;1;1;1;1;1]%N
                        ++ s "go///sub//:bpy//p:a" ++ [1;1]%N ++ s "J=2K=1"
  /\ ser prog false t' = ser prog false t.
Proof.
  cbv zeta. split; [vm_compute; reflexivity|]. split; [|split; [discriminate|split; vm_compute; reflexivity]].
  intros f. unfold field_same. destruct f; cbn; try reflexivity.
  - apply Permutation_sym. apply Permutation_cons_append with (l := [_; _]).
  - apply perm_swap.
  - apply perm_swap.
  - apply perm_swap.
  - apply perm_swap.
Qed.
